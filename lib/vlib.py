"""Orchestration library for /verif/bin/check.

A check module (checks/Cxx.py) defines `run(ctx)`; it uses the helpers below to
  * build a harness binary from /repo's current working tree,
  * model-check a TLA+ module with TLC (exhaustive configs, coverage read back),
  * let TLC generate vectors / behaviours and replay them into the real code,
  * validate traces recorded from the real code against a TLA+ trace spec,
  * triage failures against known_findings.txt and write the evidence file.

Exit codes: 0 held / only known findings, 1 violation (VIOLATION line + replay
file), 2 tool error, timeout, vacuity.
"""
import fcntl
import json
import os
import re
import shutil
import subprocess
import sys
import time

VERIF = os.path.dirname(os.path.dirname(os.path.abspath(__file__)))
HARNESS = os.path.join(VERIF, "harness")
SPEC = os.path.join(VERIF, "spec")
WORK = os.path.join(VERIF, "work")
KNOWN = os.path.join(VERIF, "known_findings.txt")
TLA_JARS = "/opt/veriftools/tla/tla2tools.jar:/opt/veriftools/tla/CommunityModules-deps.jar"


class ToolError(Exception):
    pass


def load_known():
    """known_findings.txt lines:
         KNOWN-FINDING: property=Cxx key=<key> <what fails>
         fixed: property=Cxx <commit> key=<key> <what failed>
       Only KNOWN-FINDING lines suppress anything. Never written at run time."""
    known = {}
    files = [KNOWN] if os.path.exists(KNOWN) else []
    d = os.path.join(VERIF, "known_findings.d")
    if os.path.isdir(d):
        files += sorted(os.path.join(d, f) for f in os.listdir(d) if f.endswith(".txt"))
    for fn in files:
        for line in open(fn):
            m = re.match(r"KNOWN-FINDING:\s+property=(\S+)\s+key=(\S+)\s+(.*)", line.strip())
            if m:
                known[(m.group(1), m.group(2))] = m.group(3)
    return known


class Ctx:
    def __init__(self, pid, tier, seed):
        self.pid = pid
        self.tier = tier
        self.seed = seed
        self.t0 = time.time()
        self.work = os.path.join(WORK, pid)
        shutil.rmtree(self.work, ignore_errors=True)
        os.makedirs(self.work, exist_ok=True)
        self.replay_dir = os.path.join(VERIF, "replay", pid)
        os.makedirs(self.replay_dir, exist_ok=True)
        self.known = load_known()
        self.cov = {
            "states": 0,
            "transitions": 0,
            "traces_validated_against_impl": 0,
            "samples": [],
            "evaluations": 0,
            "tlc_runs": [],
        }
        self.assumptions = []
        self.violations = []      # (key, what, replay_path)
        self.known_hits = {}      # key -> what
        self.notes = []
        self.selftests = []
        self.thorough = tier == "thorough"

    # ------------------------------------------------------------------ misc
    def log(self, *a):
        print("[%s %6.1fs]" % (self.pid, time.time() - self.t0), *a, flush=True)

    def path(self, name):
        return os.path.join(self.work, name)

    def sample(self, s):
        if len(self.cov["samples"]) < 6:
            self.cov["samples"].append(s)

    def assume(self, text):
        if text not in self.assumptions:
            self.assumptions.append(text)

    def count(self, key, n=1):
        self.cov[key] = self.cov.get(key, 0) + n

    # ----------------------------------------------------------------- build
    def build(self, crate, bin_name=None):
        """cargo build of one harness crate (path deps => rebuilds pallas from
        /repo's working tree, with --cfg pallas_verif). Serialised by flock."""
        bin_name = bin_name or crate
        os.makedirs(WORK, exist_ok=True)
        lock = open(os.path.join(WORK, ".cargo.lock"), "w")
        fcntl.flock(lock, fcntl.LOCK_EX)
        try:
            t = time.time()
            env = dict(os.environ, CARGO_NET_OFFLINE="true")
            r = subprocess.run(
                ["cargo", "build", "--release", "--offline", "-q", "-p", crate],
                cwd=HARNESS, env=env, stdout=subprocess.PIPE, stderr=subprocess.STDOUT, text=True)
            if r.returncode != 0:
                sys.stdout.write(r.stdout[-6000:])
                raise ToolError("cargo build -p %s failed" % crate)
            self.log("built %s in %.1fs" % (crate, time.time() - t))
        finally:
            fcntl.flock(lock, fcntl.LOCK_UN)
            lock.close()
        return os.path.join(HARNESS, "target", "release", bin_name)

    def run_bin(self, binary, args, timeout=3600, env=None, ok_codes=(0,)):
        e = dict(os.environ)
        if env:
            e.update(env)
        t = time.time()
        try:
            r = subprocess.run([binary] + [str(a) for a in args], cwd=self.work, env=e,
                               stdout=subprocess.PIPE, stderr=subprocess.PIPE, text=True, timeout=timeout)
        except subprocess.TimeoutExpired:
            raise ToolError("%s %s timed out after %ss" % (os.path.basename(binary), args[0] if args else "", timeout))
        if r.returncode not in ok_codes:
            sys.stdout.write(r.stdout[-3000:])
            sys.stdout.write(r.stderr[-3000:])
            raise ToolError("%s %s exited %d" % (os.path.basename(binary), args[0] if args else "", r.returncode))
        self.log("ran %s %s in %.1fs" % (os.path.basename(binary), args[0] if args else "", time.time() - t))
        return r.stdout

    # ------------------------------------------------------------------- TLC
    def _tlc(self, spec_dir, module, cfg, workers, timeout, env_extra, extra_args, tag, xmx="6g", deque=False):
        meta = self.path("tlc_" + tag)
        shutil.rmtree(meta, ignore_errors=True)
        os.makedirs(meta, exist_ok=True)
        jopts = "-Xss1g -DTLA-Library=%s" % os.path.join(SPEC, "lib")
        if deque:
            jopts += " -Dtlc2.tool.queue.IStateQueue=StateDeque"
        env = dict(os.environ)
        env.pop("JAVA_TOOL_OPTIONS", None)
        if env_extra:
            env.update({k: str(v) for k, v in env_extra.items()})
        cmd = ["timeout", str(timeout), "java", "-XX:+UseParallelGC", "-Xmx" + xmx] + jopts.split() + [
            "-cp", TLA_JARS, "tlc2.TLC", "-workers", str(workers), "-metadir", meta, "-cleanup",
            "-noGenerateSpecTE", "-config", cfg] + list(extra_args) + [module + ".tla"]
        t = time.time()
        r = subprocess.run(cmd, cwd=os.path.join(SPEC, spec_dir), env=env, stdout=subprocess.PIPE,
                           stderr=subprocess.STDOUT, text=True)
        out = r.stdout
        with open(self.path("tlc_%s.out" % tag), "w") as f:
            f.write(out)
        shutil.rmtree(meta, ignore_errors=True)
        if r.returncode == 124:
            raise ToolError("TLC timeout (%ss) on %s/%s" % (timeout, spec_dir, cfg))
        return r.returncode, out, time.time() - t

    @staticmethod
    def _stats(out):
        m = re.findall(r"(\d+) states generated, (\d+) distinct states found", out)
        if not m:
            return 0, 0
        gen, dist = m[-1]
        return int(gen), int(dist)

    def tlc_mc(self, spec_dir, module, cfg, workers=4, timeout=900, env=None, required_actions=None,
               allow_zero=(), xmx="6g", extra_args=()):
        """Exhaustive model check with -coverage 1. Any invariant violation in the
        *model* is a tool error for the check (the spec is wrong or, for a design
        model that collects findings, the collected-set invariant failed — the
        caller decides by passing on_violation)."""
        tag = "mc_" + module + "_" + os.path.basename(cfg).replace(".cfg", "")
        rc, out, dt = self._tlc(spec_dir, module, cfg, workers, timeout, env, ["-coverage", "1"] + list(extra_args), tag, xmx=xmx)
        gen, dist = self._stats(out)
        ok = "Model checking completed. No error has been found." in out
        res = {"module": module, "cfg": cfg, "generated": gen, "distinct": dist, "ok": ok, "wall_s": round(dt, 1), "out": out}
        # per-action coverage: <Name line a, col b to line c, col d of module M>: distinct:total
        cov = {}
        for m in re.finditer(r"^<(\w+) line \d+, col \d+ to line \d+, col \d+ of module (\w+)(?: \([\d ]+\))?>: (\d+):(\d+)", out, re.M):
            cov[m.group(1)] = cov.get(m.group(1), 0) + int(m.group(4))
        res["coverage"] = cov
        if not ok:
            tail = "\n".join(out.splitlines()[-60:])
            sys.stdout.write(tail + "\n")
            raise ToolError("TLC reported an error on %s/%s (see %s)" % (spec_dir, cfg, self.path("tlc_%s.out" % tag)))
        zero = [a for a, c in cov.items() if c == 0 and a not in allow_zero and a != "Init"]
        if required_actions:
            zero += [a for a in required_actions if cov.get(a, 0) == 0 and a not in zero]
        if zero:
            raise ToolError("vacuous model run: actions never taken: %s" % zero)
        self.cov["states"] += dist
        self.cov["transitions"] += gen
        self.cov["tlc_runs"].append({"module": module, "cfg": os.path.basename(cfg), "distinct": dist,
                                     "generated": gen, "wall_s": round(dt, 1),
                                     "actions": {k: v for k, v in sorted(cov.items())}})
        self.log("TLC %s/%s: %d distinct, %d generated, %.1fs" % (module, os.path.basename(cfg), dist, gen, dt))
        return res

    VEC_RE = re.compile(r'<<\s*"(VEC|REPLAY)",\s*("(?:[^"\\]|\\.)*")\s*>>', re.S)

    def tlc_gen(self, spec_dir, module, cfg, out_file, workers=1, timeout=900, env=None, simulate=None,
                xmx="6g", count_states=False):
        """Run TLC on a generator config; collect every `PrintT(<<"VEC", ToJson(x)>>)`
        line into an ndjson file. If the spec writes the file itself through
        ndJsonSerialize(IOEnv.OUT, ..) the printed lines are simply absent."""
        tag = "gen_" + module + "_" + os.path.basename(cfg).replace(".cfg", "")
        e = dict(env or {})
        e.setdefault("OUT", out_file)
        extra = []
        if simulate:
            extra = ["-simulate", "num=%d" % simulate[0], "-depth", str(simulate[1]), "-seed", str(self.seed)]
        rc, out, dt = self._tlc(spec_dir, module, cfg, workers, timeout, e, extra, tag, xmx=xmx)
        n = 0
        if not os.path.exists(out_file) or os.path.getsize(out_file) == 0:
            seen = set()
            with open(out_file, "w") as f:
                for m in self.VEC_RE.finditer(out):
                    s = json.loads(m.group(2).replace("\n", ""))
                    if s in seen:
                        continue
                    seen.add(s)
                    f.write(s + "\n")
                    n += 1
        else:
            n = sum(1 for _ in open(out_file))
        finished = ("Model checking completed. No error has been found." in out) or (simulate and rc in (0,)) \
            or ("Finished computing initial states" in out and "Error" not in out)
        if not finished or n == 0:
            sys.stdout.write("\n".join(out.splitlines()[-40:]) + "\n")
            raise ToolError("TLC generator %s/%s failed or produced nothing (n=%d)" % (spec_dir, cfg, n))
        gen, dist = self._stats(out)
        if count_states:
            self.cov["states"] += dist
            self.cov["transitions"] += gen
        self.cov["tlc_runs"].append({"module": module, "cfg": os.path.basename(cfg), "distinct": dist,
                                     "generated": gen, "wall_s": round(dt, 1), "vectors": n})
        self.log("TLC gen %s/%s: %d vectors, %d distinct states, %.1fs" % (module, os.path.basename(cfg), n, dist, dt))
        return n

    def tlc_trace(self, spec_dir, module, cfg, trace_file, timeout=900, env=None, xmx="4g", count=True):
        """Validate an implementation trace (ndjson) against a trace spec.
        The trace spec's POSTCONDITION prints <<"TRACE", matched, total>>.
        Returns (accepted, matched, total, first_unmatched_event)."""
        tag = "tr_" + module + "_" + os.path.basename(trace_file).replace(".", "_")
        e = dict(env or {})
        e["TRACE"] = trace_file
        rc, out, dt = self._tlc(spec_dir, module, cfg, 1, timeout, e, [], tag, xmx=xmx, deque=True)
        m = re.search(r'<<\s*"TRACE",\s*(\d+),\s*(\d+)\s*>>', out)
        if not m:
            sys.stdout.write("\n".join(out.splitlines()[-40:]) + "\n")
            raise ToolError("trace validation %s/%s produced no verdict" % (spec_dir, module))
        matched, total = int(m.group(1)), int(m.group(2))
        gen, dist = self._stats(out)
        if count:
            self.cov["states"] += dist
            self.cov["transitions"] += gen
        self.cov["tlc_runs"].append({"module": module, "cfg": os.path.basename(cfg), "trace": os.path.basename(trace_file),
                                     "events": total, "matched": matched, "distinct": dist, "wall_s": round(dt, 1)})
        first = None
        if matched < total:
            with open(trace_file) as f:
                for i, line in enumerate(f):
                    if i == matched:
                        first = json.loads(line)
                        break
        self.log("TLC trace %s on %s: matched %d/%d events, %.1fs" % (module, os.path.basename(trace_file), matched, total, dt))
        return matched == total, matched, total, first

    # --------------------------------------------------------------- verdicts
    def report(self, key, what, payload=None, src_file=None):
        """A property failure observed on the real code. Listed in
        known_findings.txt => KNOWN-FINDING line; otherwise VIOLATION."""
        key = re.sub(r"\s+", "_", key)
        if (self.pid, key) in self.known:
            if key not in self.known_hits:
                self.known_hits[key] = self.known[(self.pid, key)]
            return False
        name = re.sub(r"[^A-Za-z0-9_.-]", "_", key)[:80]
        path = os.path.join(self.replay_dir, name + ".json")
        if not any(v[0] == key for v in self.violations):
            doc = {"property": self.pid, "key": key, "what": what, "seed": self.seed, "tier": self.tier, "payload": payload}
            if src_file and os.path.exists(src_file):
                dst = os.path.join(self.replay_dir, name + "." + os.path.basename(src_file))
                shutil.copyfile(src_file, dst)
                doc["file"] = dst
            with open(path, "w") as f:
                json.dump(doc, f, indent=1, default=str)
            self.violations.append((key, what, path))
        return True

    def selftest(self, name, ok, detail=""):
        """Binding self-test (corrupt one field / drop one event => rejected).
        A failing self-test means the machinery is vacuous: tool error."""
        self.selftests.append({"name": name, "rejected_as_expected": bool(ok), "detail": detail})
        if not ok and not self.violations:
            raise ToolError("binding self-test failed: %s %s" % (name, detail))

    def abort(self):
        """Tool error after the fact: violations already established on the real
        code are still reported (exit 1); otherwise exit 2. No evidence is written
        for an aborted run unless a violation was found."""
        if self.violations:
            self.cov["states"] = max(self.cov["states"], 1)
            self.cov["transitions"] = max(self.cov["transitions"], 1)
            self.notes.append("run aborted by a tool error after the violation(s) were found")
            return self.finish("aborted run; see notes")
        return 2

    def finish(self, rule, exhaustive=False, extra=None):
        wall = time.time() - self.t0
        cov = dict(self.cov)
        cov["rule"] = rule
        cov["exhaustive"] = bool(exhaustive)
        cov["binding_selftest"] = self.selftests
        cov["known_findings_hit"] = sorted(self.known_hits.keys())
        if self.notes:
            cov["notes"] = self.notes
        if extra:
            cov.update(extra)
        if not cov["samples"]:
            cov["samples"] = ["(no sample recorded)"]
        if cov["states"] < 1 or cov["transitions"] < 1:
            raise ToolError("no TLC states recorded for %s" % self.pid)
        ev = {
            "property_id": self.pid,
            "tier": self.tier,
            "seed": self.seed,
            "level": "model_checking",
            "coverage": cov,
            "assumptions": self.assumptions,
            "wall_s": round(wall, 1),
            "violations": len(self.violations),
        }
        os.makedirs(os.path.join(VERIF, "evidence"), exist_ok=True)
        with open(os.path.join(VERIF, "evidence", self.pid + ".json"), "w") as f:
            json.dump(ev, f, indent=1, default=str)
            f.write("\n")
        for key, what in sorted(self.known_hits.items()):
            print("KNOWN-FINDING: property=%s key=%s %s" % (self.pid, key, what))
        for key, what, path in self.violations:
            print("VIOLATION property=%s replay=%s" % (self.pid, path))
            print("  key=%s: %s" % (key, what))
        self.log("done: %d violation(s), %d known finding(s), states=%d traces=%d" % (
            len(self.violations), len(self.known_hits), cov["states"], cov["traces_validated_against_impl"]))
        return 1 if self.violations else 0


def read_ndjson(path):
    out = []
    with open(path) as f:
        for line in f:
            line = line.strip()
            if line:
                out.append(json.loads(line))
    return out


def write_ndjson(path, rows):
    with open(path, "w") as f:
        for r in rows:
            f.write(json.dumps(r, separators=(",", ":")) + "\n")
