------------------------- MODULE MCRollbackBuffer -------------------------
(* Exhaustive configuration of RollbackBuffer (C26).                       *)
EXTENDS RollbackBuffer, TLC
CONSTANT MaxLen
Bound == Len(buf) <= MaxLen
=============================================================================
