CONSTANTS
  NC = 1
  NM = 3
  MaxLen = 4
INIT Init
NEXT Next
INVARIANTS NeverAhead PolledMeansAllComplete AllFedAllDelivered LeftoverIsPartial
PROPERTIES DeliverIsDeterministic
CHECK_DEADLOCK FALSE
