INIT TCInit
NEXT TCNext
CHECK_DEADLOCK FALSE
POSTCONDITION TraceVerdict
