----------------------------- MODULE MCChannel -----------------------------
(* Exhaustive configuration of Channel: two protocols, segment size S,       *)
(* messages of 1..3 segments (1..3*S units), chunk-by-chunk sending.         *)
EXTENDS Channel, TLC
MCChans == {"p1", "p2"}
=============================================================================
