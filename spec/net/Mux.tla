-------------------------------- MODULE Mux --------------------------------
(* C20 - design model of the pallas-network multiplexer                    *)
(*   pallas-network/src/multiplexer.rs  (Plexer = Muxer + Demuxer per side) *)
(*                                                                         *)
(* Two sides "A" and "B" joined by a bearer (one byte pipe per direction).  *)
(* An agent is a subscription [side, proto, role]:                          *)
(*   Plexer::subscribe_client(p): sends with wire id p, listens on p^0x8000 *)
(*   Plexer::subscribe_server(p): sends with p^0x8000, listens on p         *)
(* so the client of p on one side is paired with the server of p on the     *)
(* other side, and both roles of p may coexist on one side.                 *)
(*                                                                         *)
(* Per side:                                                                *)
(*   ingress[s]   the Muxer's mpsc queue shared by all local agents         *)
(*                (INGRESS_MSG_QUEUE_BUFFER, here K)                        *)
(*   wire[s]      segments written by s and not yet read by the other side  *)
(*                (socket buffer, capacity W); a segment is header + tag    *)
(*   hand[s]      the segment Demuxer::tick of side s has read and is about *)
(*                to hand to Demuxer::demux (it blocks there when the       *)
(*                subscriber's queue is full)                               *)
(*   egress[a]    the mpsc queue of subscription a                          *)
(*                (EGRESS_MSG_QUEUE_BUFFER, here E)                         *)
(* Actions = code entry points: Enqueue = AgentChannel::enqueue_chunk,      *)
(* MuxTick = Muxer::tick (recv + write_segment), DemuxRead =                *)
(* Demuxer::read_segment, DemuxDeliver = Demuxer::demux, Dequeue =          *)
(* AgentChannel::dequeue_chunk.  A chunk is abstracted to its tag           *)
(* <<sender, seq>>; its length is LenOf(tag) and travels in the header.     *)
(*                                                                         *)
(* Named deviations: payload bytes are not modelled (the binding compares   *)
(* length and a checksum); the timestamp is 0; when an agent stops          *)
(* dequeuing, DemuxDeliver blocks every protocol of that side (head-of-line *)
(* blocking) - that is how the code behaves and not a listed property, so   *)
(* liveness is stated under "every agent keeps dequeuing".                  *)
EXTENDS Naturals, Sequences, FiniteSets, SequencesExt

CONSTANTS Agents,        \* set of subscriptions [side, proto, role]
          Quota,         \* [Agents -> Nat]: chunks each agent will enqueue
          K, W, E,       \* capacities: ingress, wire, egress
          LenOf(_)       \* payload length of a tag (0..65535)

VARIABLES ingress, wire, hand, egress, nsent, recv, dropped

vars == <<ingress, wire, hand, egress, nsent, recv, dropped>>

Sides == {"A", "B"}
Other(s) == IF s = "A" THEN "B" ELSE "A"
Flip(r) == IF r = "c" THEN "s" ELSE "c"
None == [none |-> TRUE]

DirBit == 32768
Xor8000(p) == IF p >= DirBit THEN p - DirBit ELSE p + DirBit

\* wire ids used by a subscription (Plexer::subscribe_client / subscribe_server)
SendId(a)   == IF a.role = "c" THEN a.proto ELSE Xor8000(a.proto)
ListenId(a) == IF a.role = "c" THEN Xor8000(a.proto) ELSE a.proto

Peer(a) == [side |-> Other(a.side), proto |-> a.proto, role |-> Flip(a.role)]

\* Demuxer.1 is a HashMap keyed by the listen id: one subscriber per id and side
ASSUME \A a, b \in Agents : (a.side = b.side /\ ListenId(a) = ListenId(b)) => a = b
ASSUME \A a \in Agents : a.side \in Sides /\ a.role \in {"c", "s"} /\ a.proto \in 0..65535

---------------------------------------------------------------------------
\* Segment header: 8 bytes, network byte order (Header From<&[u8]> / Into<[u8;8]>).
\* The timestamp is kept as its 4 bytes (TLC integers are 32-bit signed).
HeaderEnc(h) == h.ts \o <<h.proto \div 256, h.proto % 256, h.len \div 256, h.len % 256>>
HeaderDec(b) == [ts |-> SubSeq(b, 1, 4), proto |-> b[5] * 256 + b[6], len |-> b[7] * 256 + b[8]]

HeaderRoundTrip(ts, p, n) ==
    LET h == [ts |-> ts, proto |-> p, len |-> n]
    IN  HeaderDec(HeaderEnc(h)) = h /\ Len(HeaderEnc(h)) = 8

Segment(id, tag) == [hdr |-> HeaderEnc([ts |-> <<0, 0, 0, 0>>, proto |-> id, len |-> LenOf(tag)]), tag |-> tag]

---------------------------------------------------------------------------
Init ==
    /\ ingress = [s \in Sides |-> <<>>]
    /\ wire = [s \in Sides |-> <<>>]
    /\ hand = [s \in Sides |-> None]
    /\ egress = [a \in Agents |-> <<>>]
    /\ nsent = [a \in Agents |-> 0]
    /\ recv = [a \in Agents |-> <<>>]
    /\ dropped = {}

\* AgentChannel::enqueue_chunk: to_plexer.send((self.protocol, chunk)) - waits for room
Enqueue(a) ==
    /\ nsent[a] < Quota[a]
    /\ Len(ingress[a.side]) < K
    /\ ingress' = [ingress EXCEPT ![a.side] = Append(@, [id |-> SendId(a), tag |-> <<a, nsent[a] + 1>>])]
    /\ nsent' = [nsent EXCEPT ![a] = @ + 1]
    /\ UNCHANGED <<wire, hand, egress, recv, dropped>>

\* Muxer::tick: ingress.recv() then write_segment (header built from the queued id)
MuxTick(s) ==
    /\ ingress[s] # <<>>
    /\ Len(wire[s]) < W
    /\ wire' = [wire EXCEPT ![s] = Append(@, Segment(Head(ingress[s]).id, Head(ingress[s]).tag))]
    /\ ingress' = [ingress EXCEPT ![s] = Tail(@)]
    /\ UNCHANGED <<hand, egress, nsent, recv, dropped>>

\* Demuxer::read_segment on side s: next segment of the other side's pipe
DemuxRead(s) ==
    /\ hand[s] = None
    /\ wire[Other(s)] # <<>>
    /\ hand' = [hand EXCEPT ![s] = Head(wire[Other(s)])]
    /\ wire' = [wire EXCEPT ![Other(s)] = Tail(@)]
    /\ UNCHANGED <<ingress, egress, nsent, recv, dropped>>

Subscriber(s, id) == { a \in Agents : a.side = s /\ ListenId(a) = id }

\* Demuxer::demux: look the id up; send().await (blocks when full); unknown id => warn and drop
DemuxDeliver(s) ==
    /\ hand[s] # None
    /\ LET h == HeaderDec(hand[s].hdr)
           subs == Subscriber(s, h.proto)
       IN  IF subs = {}
           THEN /\ dropped' = dropped \cup {hand[s].tag}
                /\ UNCHANGED egress
           ELSE \E a \in subs :
                    /\ Len(egress[a]) < E
                    /\ egress' = [egress EXCEPT ![a] = Append(@, hand[s].tag)]
                    /\ UNCHANGED dropped
    /\ hand' = [hand EXCEPT ![s] = None]
    /\ UNCHANGED <<ingress, wire, nsent, recv>>

\* AgentChannel::dequeue_chunk
Dequeue(a) ==
    /\ egress[a] # <<>>
    /\ recv' = [recv EXCEPT ![a] = Append(@, Head(egress[a]))]
    /\ egress' = [egress EXCEPT ![a] = Tail(@)]
    /\ UNCHANGED <<ingress, wire, hand, nsent, dropped>>

Quiescent ==
    /\ \A s \in Sides : ingress[s] = <<>> /\ wire[s] = <<>> /\ hand[s] = None
    /\ \A a \in Agents : egress[a] = <<>>

AllSent == \A a \in Agents : nsent[a] = Quota[a]

Done == AllSent /\ Quiescent /\ UNCHANGED vars

Next == \/ \E a \in Agents : Enqueue(a)
        \/ \E s \in Sides : MuxTick(s)
        \/ \E s \in Sides : DemuxRead(s)
        \/ \E s \in Sides : DemuxDeliver(s)
        \/ \E a \in Agents : Dequeue(a)
        \/ Done

Fairness ==
    /\ \A a \in Agents : WF_vars(Enqueue(a)) /\ WF_vars(Dequeue(a))
    /\ \A s \in Sides : WF_vars(MuxTick(s)) /\ WF_vars(DemuxRead(s)) /\ WF_vars(DemuxDeliver(s))

Spec == Init /\ [][Next]_vars
FairSpec == Spec /\ Fairness

---------------------------------------------------------------------------
\* What C20 states, over the model.
SentSeq(a) == [i \in 1..nsent[a] |-> <<a, i>>]

TypeOK ==
    /\ \A s \in Sides : Len(ingress[s]) <= K /\ Len(wire[s]) <= W
    /\ \A a \in Agents : Len(egress[a]) <= E /\ nsent[a] \in 0..Quota[a]

\* every chunk enqueued by a is delivered to Peer(a) in enqueue order, at most once ...
InOrderExactlyOnce ==
    \A a \in Agents : Peer(a) \in Agents => IsPrefix(recv[Peer(a)], SentSeq(a))

\* ... and exactly once when everything has drained
CompleteAtQuiescence ==
    Quiescent => \A a \in Agents : Peer(a) \in Agents => recv[Peer(a)] = SentSeq(a)

\* nothing surfaces at an agent that is not the sender's peer (other protocol, other role, same side)
NoLeak ==
    \A a \in Agents : \A i \in 1..Len(recv[a]) : recv[a][i][1] = Peer(a)

\* chunks for an id nobody listens on are dropped (warn!), never delivered
OrphansDropped ==
    \A t \in dropped : Peer(t[1]) \notin Agents

\* the inductive form: what a sent = what the peer received \o what is in flight, in order
TagsOf(q, a) == SelectSeq(q, LAMBDA t : t[1] = a)
InFlight(a) ==
    LET to == Other(a.side)
        eg == IF Peer(a) \in Agents THEN egress[Peer(a)] ELSE <<>>
        hd == IF hand[to] # None /\ hand[to].tag[1] = a THEN <<hand[to].tag>> ELSE <<>>
        wr == TagsOf([i \in 1..Len(wire[a.side]) |-> wire[a.side][i].tag], a)
        ig == TagsOf([i \in 1..Len(ingress[a.side]) |-> ingress[a.side][i].tag], a)
    IN  eg \o hd \o wr \o ig
Conservation ==
    \A a \in Agents : Peer(a) \in Agents => recv[Peer(a)] \o InFlight(a) = SentSeq(a)

\* the header on the wire always decodes to the id and length that were queued
HeadersFaithful ==
    \A s \in Sides : \A i \in 1..Len(wire[s]) :
        LET h == HeaderDec(wire[s][i].hdr)
        IN  h.proto = SendId(wire[s][i].tag[1]) /\ h.len = LenOf(wire[s][i].tag)

\* the rule the trace property spec (MuxProps) applies to the real code:
\* a delivery hands over exactly the next undelivered chunk of the paired sender
DeliveryIsNextOfPeer ==
    [][\A a \in Agents : recv'[a] # recv[a] =>
          /\ Peer(a) \in Agents
          /\ Len(recv[a]) < nsent[Peer(a)]
          /\ recv'[a] = Append(recv[a], <<Peer(a), Len(recv[a]) + 1>>)]_vars

\* liveness, assuming every agent keeps dequeuing (Fairness)
EventuallyDelivered == <>(AllSent /\ Quiescent)

---------------------------------------------------------------------------
\* NAMED DEVIATION - head-of-line blocking.  Demuxer::demux awaits room in the
\* subscriber's queue while holding the segment, and there is one demuxer per
\* side: when the agents in L stop calling dequeue_chunk, a chunk for one of
\* them eventually sits in hand[] in front of a full egress queue and *every*
\* other protocol of that side is stuck behind it.  Not a listed property
\* (C20 speaks about what is delivered, not when); recorded here so that the
\* specification states the behaviour: under SpecStalled(L) the property
\* OthersEventuallyDelivered(L) is VIOLATED (MCMuxHOL.cfg expects the
\* counterexample), while safety (InOrderExactlyOnce, NoLeak) still holds.
NextExcept(L) ==
    \/ \E a \in Agents : Enqueue(a)
    \/ \E s \in Sides : MuxTick(s)
    \/ \E s \in Sides : DemuxRead(s)
    \/ \E s \in Sides : DemuxDeliver(s)
    \/ \E a \in Agents \ L : Dequeue(a)
    \/ Done

FairnessExcept(L) ==
    /\ \A a \in Agents : WF_vars(Enqueue(a))
    /\ \A a \in Agents \ L : WF_vars(Dequeue(a))
    /\ \A s \in Sides : WF_vars(MuxTick(s)) /\ WF_vars(DemuxRead(s)) /\ WF_vars(DemuxDeliver(s))

SpecStalled(L) == Init /\ [][NextExcept(L)]_vars /\ FairnessExcept(L)

\* everything sent to agents that do keep dequeuing arrives (fails: head-of-line blocking)
OthersEventuallyDelivered(L) ==
    <>(\A a \in Agents : (Peer(a) \in Agents \ L) => (nsent[a] = Quota[a] /\ recv[Peer(a)] = SentSeq(a)))
=============================================================================
