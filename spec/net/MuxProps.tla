----------------------------- MODULE MuxProps -----------------------------
(* C20 - the property itself, as a linear trace specification.             *)
(*                                                                         *)
(* This module is the VERDICT for the real multiplexers: it contains what   *)
(* C20 states and nothing else.  It consumes the merged event log of a run  *)
(* of two connected multiplexers (harness/pv-net/src/mux.rs):               *)
(*   {"ev":"open","chans":[ch,..]}             subscriptions of this run     *)
(*   {"ev":"enq","ch":ch,"tag":..,"len":n,"sum":s}   enqueue_chunk on ch     *)
(*   {"ev":"deq","ch":ch,"tag":..,"len":n,"sum":s}   dequeue_chunk on ch     *)
(*   {"ev":"quiesce"}                          every agent has stopped       *)
(* ch = [side, proto, role].  Log order = global ticket order; the enq      *)
(* ticket is taken before the call and the deq ticket after the return, so  *)
(* the enq of a chunk always precedes its deq and the log is a valid        *)
(* linearization (DESIGN 4.2).                                              *)
(*                                                                         *)
(*  - Enq appends the chunk (tag, length, checksum) to sent[ch].            *)
(*  - Deq on ch is allowed only if the chunk is exactly the next            *)
(*    undelivered element of sent[Peer(ch)]: a reordering, a duplicate, a   *)
(*    corrupted or truncated chunk, a chunk of another protocol / role /    *)
(*    side all leave the event unmatched.                                   *)
(*  - Quiesce is allowed only if every channel with a subscribed peer has   *)
(*    been delivered completely (no loss).                                  *)
(* Any other event (enq_err, deq_err, stall, panic) matches no action.      *)
(* Where C20 is silent nothing is demanded: chunks sent on a channel whose  *)
(* peer never subscribed may vanish; timing and capacities are free.        *)
EXTENDS TraceKit, FiniteSets

VARIABLES open,    \* subscriptions of the current run
          sent,    \* [open -> Seq(chunk)] what each agent enqueued, in order
          nrecv,   \* [open -> Nat] how many chunks each agent dequeued
          l

pvars == <<open, sent, nrecv, l>>

Other(s) == IF s = "A" THEN "B" ELSE "A"
Flip(r) == IF r = "c" THEN "s" ELSE "c"
Peer(ch) == [side |-> Other(ch.side), proto |-> ch.proto, role |-> Flip(ch.role)]

Chunk(r) == [tag |-> r.tag, len |-> r.len, sum |-> r.sum]

IsEvent(e) == l <= NRec /\ Rec[l].ev = e /\ l' = l + 1

PInit == open = {} /\ sent = <<>> /\ nrecv = <<>> /\ l = 1

Open ==
    /\ IsEvent("open")
    /\ open' = { Rec[l].chans[i] : i \in 1..Len(Rec[l].chans) }
    /\ sent' = [c \in open' |-> <<>>]
    /\ nrecv' = [c \in open' |-> 0]

Enq ==
    /\ IsEvent("enq")
    /\ Rec[l].ch \in open
    /\ Rec[l].len \in 0..65535
    /\ sent' = [sent EXCEPT ![Rec[l].ch] = Append(@, Chunk(Rec[l]))]
    /\ UNCHANGED <<open, nrecv>>

Deq ==
    /\ IsEvent("deq")
    /\ LET ch == Rec[l].ch
           from == Peer(ch)
       IN  /\ ch \in open /\ from \in open
           /\ nrecv[ch] < Len(sent[from])
           /\ sent[from][nrecv[ch] + 1] = Chunk(Rec[l])
           /\ nrecv' = [nrecv EXCEPT ![ch] = @ + 1]
    /\ UNCHANGED <<open, sent>>

Quiesce ==
    /\ IsEvent("quiesce")
    /\ \A c \in open : Peer(c) \in open => nrecv[Peer(c)] = Len(sent[c])
    /\ UNCHANGED <<open, sent, nrecv>>

PNext == Open \/ Enq \/ Deq \/ Quiesce
=============================================================================
