------------------------------- MODULE MCMux -------------------------------
(* Exhaustive configurations of the multiplexer design model (C20).        *)
(* Topology: two protocols, both roles, both directions, one orphan sender *)
(*   A.c1 <-> B.s1   (both send)      client of 1 on A, server of 1 on B    *)
(*   B.c1  -> A.s1   (B.c1 sends)     the same protocol in the other role   *)
(*   A.c2  -> B.s2   (A.c2 sends)     a second protocol                     *)
(*   B.c3  -> (nobody)                orphan: no server of 3 on A           *)
EXTENDS Mux, TLC

Ag(s, p, r) == [side |-> s, proto |-> p, role |-> r]

CONSTANTS QA1, QB1, QBC1, QA2, QB3   \* quotas of the five senders

MCAgents == { Ag("A", 1, "c"), Ag("B", 1, "s"), Ag("B", 1, "c"), Ag("A", 1, "s"),
              Ag("A", 2, "c"), Ag("B", 2, "s"), Ag("B", 3, "c") }

MCQuota == [a \in MCAgents |->
    CASE a = Ag("A", 1, "c") -> QA1
      [] a = Ag("B", 1, "s") -> QB1
      [] a = Ag("B", 1, "c") -> QBC1
      [] a = Ag("A", 2, "c") -> QA2
      [] a = Ag("B", 3, "c") -> QB3
      [] OTHER -> 0]

\* lengths cover 0, 1, 255/256 boundary and the segment maximum
MCLenOf(tag) == CASE tag[2] = 1 -> 65535 [] tag[2] = 2 -> 0 [] tag[2] = 3 -> 256 [] OTHER -> 255

\* header encode/decode are inverse on the corners of the field ranges
ASSUME \A p \in {0, 1, 2, 255, 256, 32767, 32768, 32769, 65535} :
       \A n \in {0, 1, 255, 256, 65534, 65535} :
       \A ts \in {<<0, 0, 0, 0>>, <<255, 255, 255, 255>>, <<1, 2, 3, 4>>} :
          HeaderRoundTrip(ts, p, n)
ASSUME \A p \in {0, 2, 32767, 32768, 65535} : Xor8000(Xor8000(p)) = p /\ Xor8000(p) # p

\* head-of-line blocking (named deviation in Mux.tla): the server of protocol 1 on B stops dequeuing
Stalled == { Ag("B", 1, "s") }
HOLSpec == SpecStalled(Stalled)
HOLFree == OthersEventuallyDelivered(Stalled)
=============================================================================
