---------------------------- MODULE TraceChannel ----------------------------
(* Trace validation (impl -> spec) of the end-to-end channel on the real     *)
(* chunking path, message level (harness/pv-net/src/channel.rs):             *)
(*   {"ev":"open","chans":[ch,..]}                                            *)
(*   {"ev":"send","ch":ch,"id":digest,"len":n}   send_msg_chunks / write_message *)
(*   {"ev":"recv","ch":ch,"id":digest,"len":n}   recv_full_msg / read_full_msgs  *)
(*   {"ev":"quiesce"}                                                         *)
(* Ticket order as for MuxProps: send ticket before the call, recv ticket      *)
(* after the return, so the log is a linearization.  The rule is               *)
(* Channel!RecvIsNextSent / MsgInOrderExactlyOnce (checked by TLC on the       *)
(* model): a recv on ch hands over exactly the next not yet received message   *)
(* of the paired sender (same encoding digest, same length), whatever its      *)
(* size relative to the segment maximum; at quiescence nothing is missing.     *)
(* This is C20 (chunks in order, exactly once) composed with C21 (the split    *)
(* chosen by send_msg_chunks / into_chunks does not matter) - nothing more.    *)
EXTENDS TraceKit, FiniteSets

VARIABLES open, sent, nrecv, l

Other(s) == IF s = "A" THEN "B" ELSE "A"
Flip(r) == IF r = "c" THEN "s" ELSE "c"
Peer(ch) == [side |-> Other(ch.side), proto |-> ch.proto, role |-> Flip(ch.role)]

Msg(r) == <<r.id, r.len>>
IsEvent(e) == l <= NRec /\ Rec[l].ev = e /\ l' = l + 1

TCInit == open = {} /\ sent = <<>> /\ nrecv = <<>> /\ l = 1

Open ==
    /\ IsEvent("open")
    /\ open' = { Rec[l].chans[i] : i \in 1..Len(Rec[l].chans) }
    /\ sent' = [c \in open' |-> <<>>]
    /\ nrecv' = [c \in open' |-> 0]

Send ==
    /\ IsEvent("send")
    /\ Rec[l].ch \in open /\ Rec[l].len >= 1
    /\ sent' = [sent EXCEPT ![Rec[l].ch] = Append(@, Msg(Rec[l]))]
    /\ UNCHANGED <<open, nrecv>>

Recv ==
    /\ IsEvent("recv")
    /\ LET ch == Rec[l].ch
           from == Peer(ch)
       IN  /\ ch \in open /\ from \in open
           /\ nrecv[ch] < Len(sent[from])
           /\ sent[from][nrecv[ch] + 1] = Msg(Rec[l])
           /\ nrecv' = [nrecv EXCEPT ![ch] = @ + 1]
    /\ UNCHANGED <<open, sent>>

Quiesce ==
    /\ IsEvent("quiesce")
    /\ \A c \in open : Peer(c) \in open => nrecv[Peer(c)] = Len(sent[c])
    /\ UNCHANGED <<open, sent, nrecv>>

TCNext == Open \/ Send \/ Recv \/ Quiesce
=============================================================================
