--------------------------- MODULE TraceReassembly ---------------------------
(* C21 - trace validation (impl -> spec) for both networking stacks.         *)
(* Log written by harness/pv-net/src/reassembly.rs:                           *)
(*  {"ev":"stream","chans":[{"lens":[..],"ids":[..]},..]}  the message         *)
(*        encodings about to be sent on each channel (length and identity)    *)
(*  {"ev":"cuts"}            the same streams are sent again with other cuts   *)
(*  {"ev":"seg","c":C,"n":N,"out":[ids],"left":L}  a segment of N bytes was    *)
(*        fed on channel C; the receiver was then polled until it had nothing  *)
(*        more to give and handed over `out`; L (when observable) is the size  *)
(*        of its partial buffer afterwards                                     *)
(*  {"ev":"end"}             everything was fed                                *)
(* seg = Reassembly!FeedAndPoll = Feed followed by Deliver until ~CanDeliver, so *)
(* by PolledMeansAllComplete (checked by TLC in MCReassembly) the receiver     *)
(* must stand at Complete(fed) and must have handed over exactly the messages  *)
(* in between, identified by their ids, in order.  Any other event (error,     *)
(* starved, extra, panic) matches no action.                                   *)
EXTENDS Reassembly, TraceKit

VARIABLES ids, l
tvars == <<lens, fed, delivered, ids, l>>

IsEvent(e) == l <= NRec /\ Rec[l].ev = e /\ l' = l + 1

TInit == RInit /\ ids = <<>> /\ l = 1

TStream ==
    /\ IsEvent("stream")
    /\ LET cs == Rec[l].chans
       IN  /\ Start([c \in 1..Len(cs) |-> cs[c].lens])
           /\ ids' = [c \in 1..Len(cs) |-> cs[c].ids]
           /\ \A c \in 1..Len(cs) : Len(cs[c].ids) = Len(cs[c].lens) /\ \A k \in 1..Len(cs[c].lens) : cs[c].lens[k] >= 1

TCuts ==
    /\ IsEvent("cuts")
    /\ Start(lens)
    /\ UNCHANGED ids

TSeg ==
    /\ IsEvent("seg")
    /\ LET r == Rec[l]
           c == r.c
       IN  /\ c \in Chans
           /\ FeedAndPoll(c, r.n)
           /\ LET f2 == fed[c] + r.n
                  k2 == Complete(c, f2)
              IN  /\ r.out = SubSeq(ids[c], delivered[c] + 1, k2)
                  /\ Has(r, "left") => r.left = f2 - End(c, k2)
    /\ UNCHANGED ids

TEnd ==
    /\ IsEvent("end")
    /\ \A c \in Chans : fed[c] = Total(c) /\ delivered[c] = NMsgs(c) /\ Leftover(c) = 0
    /\ Has(Rec[l], "rest") => Rec[l].rest = 0
    /\ UNCHANGED <<lens, fed, delivered, ids>>

TNext == TStream \/ TCuts \/ TSeg \/ TEnd
=============================================================================
