------------------------ MODULE TraceRollbackBuffer ------------------------
(* Trace validation for C26 (impl -> spec).  Event per public call of the  *)
(* real RollbackBuffer:                                                    *)
(*   {"ev":"roll_forward","p":P,"buf":[..],"size":N,"latest":P|0,"oldest":P|0}   *)
(*   {"ev":"roll_back","p":P,"res":"Handled"|"OutOfScope", ...}            *)
(*   {"ev":"pop_with_depth","d":D,"popped":[..], ...}                       *)
(*   {"ev":"position","p":P,"pos":I|-1}                                     *)
(*   {"ev":"reset"}                                                         *)
(* Points are positive integers; 0 encodes "none".                          *)
EXTENDS RollbackBuffer, TraceKit

VARIABLE l
tvars == <<buf, last, l>>

IsEvent(e) == l <= NRec /\ Rec[l].ev = e /\ l' = l + 1

\* logged projection of the implementation state after the call
Observed(r) ==
    /\ buf' = r.buf
    /\ r.size = Len(buf')
    /\ r.latest = (IF buf' = <<>> THEN 0 ELSE buf'[Len(buf')])
    /\ r.oldest = (IF buf' = <<>> THEN 0 ELSE buf'[1])

TInit == Init /\ l = 1

TRollForward == IsEvent("roll_forward") /\ RollForward(Rec[l].p) /\ Observed(Rec[l])
TRollBack    == IsEvent("roll_back") /\ RollBack(Rec[l].p) /\ last'.res = Rec[l].res /\ Observed(Rec[l])
TPop         == IsEvent("pop_with_depth") /\ PopWithDepth(Rec[l].d) /\ last'.popped = Rec[l].popped /\ Observed(Rec[l])
TPosition    == IsEvent("position") /\ Position(Rec[l].p) = Rec[l].pos /\ UNCHANGED <<buf, last>>
TReset       == IsEvent("reset") /\ buf' = <<>> /\ last' = [op |-> "new"]

TNext == TRollForward \/ TRollBack \/ TPop \/ TPosition \/ TReset
=============================================================================
