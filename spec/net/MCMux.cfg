CONSTANTS
  Agents <- MCAgents
  Quota <- MCQuota
  LenOf <- MCLenOf
  K = 2
  W = 1
  E = 1
  QA1 = 2
  QB1 = 2
  QBC1 = 1
  QA2 = 2
  QB3 = 1
INIT Init
NEXT Next
INVARIANTS TypeOK InOrderExactlyOnce CompleteAtQuiescence NoLeak OrphansDropped Conservation HeadersFaithful
PROPERTIES DeliveryIsNextOfPeer
CHECK_DEADLOCK TRUE
