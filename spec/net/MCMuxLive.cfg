CONSTANTS
  Agents <- MCAgents
  Quota <- MCQuota
  LenOf <- MCLenOf
  K = 1
  W = 1
  E = 1
  QA1 = 1
  QB1 = 1
  QBC1 = 1
  QA2 = 0
  QB3 = 1
SPECIFICATION FairSpec
INVARIANTS TypeOK InOrderExactlyOnce NoLeak
PROPERTIES EventuallyDelivered
CHECK_DEADLOCK TRUE
