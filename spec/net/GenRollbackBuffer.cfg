CONSTANTS
  Points = {1, 2, 3}
  MaxDepth = 2
  MaxOps = 4
INIT GInit
NEXT GNext
INVARIANT Emit
CHECK_DEADLOCK FALSE
