------------------------- MODULE GenRollbackBuffer -------------------------
(* Behaviour generator for C26 (spec -> impl replay): every behaviour of   *)
(* exactly MaxOps calls is printed once, with the model state after each   *)
(* call.  `hist` is a history variable; it exists only in this module.     *)
EXTENDS RollbackBuffer, TLC, Json
CONSTANT MaxOps
VARIABLE hist
GInit == Init /\ hist = <<>>
GNext == Len(hist) < MaxOps /\ Next /\ hist' = Append(hist, [call |-> last', buf |-> buf'])
Emit == Len(hist) = MaxOps => PrintT(<<"VEC", ToJson(hist)>>)
=============================================================================
