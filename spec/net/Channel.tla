------------------------------ MODULE Channel ------------------------------
(* End-to-end message channel of the old stack (extends C21 to the real     *)
(* chunking path; not a listed property on its own):                        *)
(*                                                                          *)
(*   ChannelBuffer::send_msg_chunks   message -> payload.chunks(S)          *)
(*        o  Plexer pair              abstracted to the contract proved for  *)
(*                                    Mux.tla: per protocol-and-role FIFO,   *)
(*                                    every chunk exactly once, in order     *)
(*                                    (InOrderExactlyOnce, NoLeak)           *)
(*        o  ChannelBuffer::recv_full_msg   Reassembly.tla: temp buffer,     *)
(*                                    pull a chunk only when temp does not   *)
(*                                    decode, hand over at the last byte     *)
(*                                                                          *)
(* A channel c is one direction of one protocol (sender agent -> its peer).  *)
(* S = MAX_SEGMENT_PAYLOAD_LENGTH (in abstract units here).  A message is     *)
(* <<id, len>>; encodings are self-delimiting, so the receiver knows the      *)
(* length of the message it is decoding (msgs[c][done+1]).                    *)
(* send_msg_chunks is NOT atomic: it enqueues chunk after chunk and other     *)
(* protocols' chunks interleave freely in the multiplexer (other channels'    *)
(* actions between two PushChunk steps).                                      *)
EXTENDS Naturals, Sequences, FiniteSets, SequencesExt

CONSTANTS Chans,       \* the channels (protocol, direction)
          S,           \* segment payload maximum
          MaxLen,      \* messages have 1..MaxLen units
          NMsgs,       \* messages sent per channel
          P, Cap       \* per-channel pipe bound, total in-flight bound (shared ingress)

VARIABLES msgs,        \* [Chans -> Seq(len)]   messages handed to send_msg_chunks so far
          out,         \* [Chans -> Seq(chunk)] chunks of the current message not yet enqueued
          pipe,        \* [Chans -> Seq(chunk)] chunks inside the multiplexers (FIFO per channel)
          temp,        \* [Chans -> Seq(chunk)] ChannelBuffer.temp of the receiver (chunks pulled, not yet decoded)
          recvd        \* [Chans -> Seq(<<id, len>>)] messages returned by recv_full_msg

cvars == <<msgs, out, pipe, temp, recvd>>

RECURSIVE Sum(_)
Sum(q) == IF q = <<>> THEN 0 ELSE Head(q).n + Sum(Tail(q))

\* payload.chunks(S): full chunks then the remainder
RECURSIVE ChunkSizes(_)
ChunkSizes(len) == IF len = 0 THEN <<>> ELSE IF len <= S THEN <<len>> ELSE <<S>> \o ChunkSizes(len - S)
ChunksOf(id, len) == [i \in 1..Len(ChunkSizes(len)) |-> [m |-> id, n |-> ChunkSizes(len)[i]]]

InFlight == LET RECURSIVE Tot(_)
                Tot(cs) == IF cs = {} THEN 0 ELSE LET c == CHOOSE x \in cs : TRUE IN Len(pipe[c]) + Tot(cs \ {c})
            IN  Tot(Chans)

CInit ==
    /\ msgs = [c \in Chans |-> <<>>]
    /\ out = [c \in Chans |-> <<>>]
    /\ pipe = [c \in Chans |-> <<>>]
    /\ temp = [c \in Chans |-> <<>>]
    /\ recvd = [c \in Chans |-> <<>>]

\* send_msg_chunks(msg) is called: the message is encoded and cut
SendMsg(c, len) ==
    /\ out[c] = <<>> /\ Len(msgs[c]) < NMsgs
    /\ msgs' = [msgs EXCEPT ![c] = Append(@, len)]
    /\ out' = [out EXCEPT ![c] = ChunksOf(Len(msgs[c]) + 1, len)]
    /\ UNCHANGED <<pipe, temp, recvd>>

\* ... its loop body: enqueue_chunk of the next chunk (waits for room)
PushChunk(c) ==
    /\ out[c] # <<>> /\ Len(pipe[c]) < P /\ InFlight < Cap
    /\ pipe' = [pipe EXCEPT ![c] = Append(@, Head(out[c]))]
    /\ out' = [out EXCEPT ![c] = Tail(@)]
    /\ UNCHANGED <<msgs, temp, recvd>>

\* the message recv_full_msg is working on, and whether temp already holds all of it
NextLen(c) == msgs[c][Len(recvd[c]) + 1]
CanDecode(c) == Len(recvd[c]) < Len(msgs[c]) /\ temp[c] # <<>> /\ Sum(temp[c]) >= NextLen(c)

\* recv_full_msg: temp does not decode (end of input) => dequeue_chunk and extend temp
PullChunk(c) ==
    /\ ~CanDecode(c) /\ pipe[c] # <<>>
    /\ temp' = [temp EXCEPT ![c] = Append(@, Head(pipe[c]))]
    /\ pipe' = [pipe EXCEPT ![c] = Tail(@)]
    /\ UNCHANGED <<msgs, out, recvd>>

\* recv_full_msg: try_decode_message succeeds, drains the message's bytes and returns it
Decode(c) ==
    /\ CanDecode(c)
    /\ recvd' = [recvd EXCEPT ![c] = Append(@, <<temp[c][1].m, NextLen(c)>>)]
    /\ temp' = [temp EXCEPT ![c] = <<>>]     \* see TempIsOneMessage: nothing else can be in there
    /\ UNCHANGED <<msgs, out, pipe>>

CDone == (\A c \in Chans : Len(recvd[c]) = NMsgs) /\ UNCHANGED cvars

CNext == \/ \E c \in Chans : \E len \in 1..MaxLen : SendMsg(c, len)
         \/ \E c \in Chans : PushChunk(c)
         \/ \E c \in Chans : PullChunk(c)
         \/ \E c \in Chans : Decode(c)
         \/ CDone

CFair == \A c \in Chans : WF_cvars(PushChunk(c)) /\ WF_cvars(PullChunk(c)) /\ WF_cvars(Decode(c))
                          /\ WF_cvars(\E len \in 1..MaxLen : SendMsg(c, len))
CSpec == CInit /\ [][CNext]_cvars
CFairSpec == CSpec /\ CFair

---------------------------------------------------------------------------
SentMsgs(c) == [i \in 1..Len(msgs[c]) |-> <<i, msgs[c][i]>>]

\* every message is received exactly once, in order, with its own length - also when it spans several segments
MsgInOrderExactlyOnce == \A c \in Chans : IsPrefix(recvd[c], SentMsgs(c))

\* no chunk is larger than a segment, and a message of len units travels in ceil(len/S) chunks
ChunksFit ==
    \A c \in Chans : \A q \in {out[c], pipe[c], temp[c]} : \A i \in 1..Len(q) : q[i].n \in 1..S
ChunkCount == \A len \in 1..MaxLen : Len(ChunkSizes(len)) = (len + S - 1) \div S /\ Sum(ChunksOf(1, len)) = len

\* temp only ever holds chunks of the one message being reassembled, never more bytes than it has
TempIsOneMessage ==
    \A c \in Chans : temp[c] # <<>> =>
        /\ \A i \in 1..Len(temp[c]) : temp[c][i].m = Len(recvd[c]) + 1
        /\ Sum(temp[c]) <= NextLen(c)

\* bytes are conserved along the path
BytesConserved ==
    \A c \in Chans :
        LET sentBytes == Sum([i \in 1..Len(msgs[c]) |-> [n |-> msgs[c][i]]])
            gotBytes  == Sum([i \in 1..Len(recvd[c]) |-> [n |-> recvd[c][i][2]]])
        IN  sentBytes = gotBytes + Sum(temp[c]) + Sum(pipe[c]) + Sum(out[c])

Drained == \A c \in Chans : out[c] = <<>> /\ pipe[c] = <<>>
CompleteWhenDrained == Drained => \A c \in Chans : (~CanDecode(c)) => (recvd[c] = SentMsgs(c) /\ temp[c] = <<>>)

\* the rule TraceChannel applies to the real code
RecvIsNextSent ==
    [][\A c \in Chans : recvd'[c] # recvd[c] =>
          recvd'[c] = Append(recvd[c], <<Len(recvd[c]) + 1, msgs[c][Len(recvd[c]) + 1]>>)]_cvars

AllReceived == <>(\A c \in Chans : Len(recvd[c]) = NMsgs)
=============================================================================
