CONSTANTS
  NC = 2
  NM = 2
  MaxLen = 2
INIT Init
NEXT Next
INVARIANTS NeverAhead PolledMeansAllComplete AllFedAllDelivered LeftoverIsPartial
PROPERTIES DeliverIsDeterministic
CHECK_DEADLOCK FALSE
