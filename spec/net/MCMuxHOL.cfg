\* EXPECTED COUNTEREXAMPLE: HOLFree must be violated (head-of-line blocking), safety must hold.
CONSTANTS
  Agents <- MCAgents
  Quota <- MCQuota
  LenOf <- MCLenOf
  K = 1
  W = 1
  E = 1
  QA1 = 2
  QB1 = 0
  QBC1 = 0
  QA2 = 1
  QB3 = 0
SPECIFICATION HOLSpec
INVARIANTS TypeOK InOrderExactlyOnce NoLeak
PROPERTIES HOLFree
CHECK_DEADLOCK FALSE
