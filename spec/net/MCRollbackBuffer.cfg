CONSTANTS
  Points = {1, 2, 3}
  MaxDepth = 3
  MaxLen = 5
INIT Init
NEXT Next
CONSTRAINT Bound
INVARIANT TypeOK
PROPERTIES RollBackHandledKeepsPrefix PopReturnsOldestBeyondDepth ForwardAppends
CHECK_DEADLOCK FALSE
