-------------------------- MODULE RollbackBuffer --------------------------
(* C26 - pallas-network chainsync RollbackBuffer as a chain-suffix model.  *)
(*                                                                         *)
(* One action per public mutator of                                        *)
(*   pallas-network/src/miniprotocols/chainsync/buffer.rs                  *)
(* The observers (size/latest/oldest/position/peek) are functions of buf.  *)
(* A roll-back to a point that is buffered more than once keeps everything *)
(* up to its FIRST occurrence: that is the occurrence the public observer  *)
(* position() reports, so the two public methods must agree on what "the   *)
(* position of a point" is (tightened after seeded change C26-t12, which   *)
(* made roll_back search from the tip while position() searches from the   *)
(* front; on a real chain points are unique and the two coincide).         *)
EXTENDS Sequences, Integers, FiniteSets, SequencesExt

CONSTANTS Points,      \* point alphabet
          MaxDepth     \* depths offered to PopWithDepth

VARIABLES buf,         \* the buffered points, oldest first
          last         \* observable result of the last call

vars == <<buf, last>>

Occ(p) == { i \in 1..Len(buf) : buf[i] = p }

Init == buf = <<>> /\ last = [op |-> "new"]

RollForward(p) ==
    /\ buf' = Append(buf, p)
    /\ last' = [op |-> "roll_forward", p |-> p]

FirstOcc(p) == CHOOSE i \in Occ(p) : \A j \in Occ(p) : i <= j

\* keep everything up to (and including) the first occurrence of p; unknown => empty
RollBack(p) ==
    \/ /\ Occ(p) # {}
       /\ LET i == FirstOcc(p) IN
            /\ buf' = SubSeq(buf, 1, i)
            /\ last' = [op |-> "roll_back", p |-> p, res |-> "Handled"]
    \/ /\ Occ(p) = {}
       /\ buf' = <<>>
       /\ last' = [op |-> "roll_back", p |-> p, res |-> "OutOfScope"]

\* the oldest points beyond depth d, in order
Ready(d) == IF Len(buf) >= d THEN Len(buf) - d ELSE 0

PopWithDepth(d) ==
    /\ buf' = SubSeq(buf, Ready(d) + 1, Len(buf))
    /\ last' = [op |-> "pop_with_depth", d |-> d, popped |-> SubSeq(buf, 1, Ready(d))]

Next == \/ \E p \in Points : RollForward(p)
        \/ \E p \in Points : RollBack(p)
        \/ \E d \in 0..MaxDepth : PopWithDepth(d)

Spec == Init /\ [][Next]_vars

\* observers
Size == Len(buf)
Latest == IF buf = <<>> THEN "none" ELSE buf[Len(buf)]
Oldest == IF buf = <<>> THEN "none" ELSE buf[1]
Position(p) == IF Occ(p) = {} THEN -1 ELSE (CHOOSE i \in Occ(p) : \A j \in Occ(p) : i <= j) - 1

---------------------------------------------------------------------------
\* Properties of the list model (what C26 states), as action properties.
RollBackHandledKeepsPrefix ==
    [][\A p \in Points : (last'.op = "roll_back" /\ last'.p = p /\ last' # last) =>
          IF p \in Range(buf)
          THEN last'.res = "Handled" /\ IsPrefix(buf', buf) /\ buf' # <<>> /\ buf'[Len(buf')] = p
               /\ Len(buf') = Position(p) + 1
          ELSE last'.res = "OutOfScope" /\ buf' = <<>>]_vars

PopReturnsOldestBeyondDepth ==
    [][(last'.op = "pop_with_depth" /\ last' # last) =>
          /\ last'.popped \o buf' = buf
          /\ Len(buf') <= last'.d \/ Len(last'.popped) = 0
          /\ Len(buf') = IF Len(buf) >= last'.d THEN last'.d ELSE Len(buf)]_vars

ForwardAppends ==
    [][(last'.op = "roll_forward" /\ last' # last) => buf' = Append(buf, last'.p)]_vars

TypeOK == buf \in Seq(Points)
=============================================================================
