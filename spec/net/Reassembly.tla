----------------------------- MODULE Reassembly -----------------------------
(* C21 - message reassembly over a segmented byte stream.                   *)
(*   pallas-network:  ChannelBuffer::recv_full_msg / try_decode_message      *)
(*   pallas-network2: BearerReadHalf::read_full_msgs, AnyMessage::from_payload *)
(*                                                                          *)
(* On every channel c the sender's messages are encoded back to back; the    *)
(* k-th encoding has length Lens[c][k], so it ends at byte offset End(c, k).  *)
(* The transport cuts that byte stream into segments at arbitrary points     *)
(* (Feed).  The receiver keeps the bytes that do not yet form a complete     *)
(* message (temp / partial_chunks[c]) and hands over a message as soon as    *)
(* its last byte is there (Deliver = one successful try_decode).  What C21   *)
(* states: whatever the cuts, the receiver yields exactly the messages sent, *)
(* in order, each when - and only when - its encoding is complete; nothing   *)
(* is left over when the whole stream has been fed.  Channels are            *)
(* independent (per-channel partial buffers in network2).                    *)
EXTENDS Naturals, Sequences, FiniteSets

VARIABLES lens,            \* [Chans -> Seq(Nat \ {0})] the streams being sent (fixed by Start)
          fed,             \* [Chans -> Nat] bytes fed so far
          delivered        \* [Chans -> Nat] messages handed over so far

rvars == <<lens, fed, delivered>>

Chans == DOMAIN lens
Lens == lens

RECURSIVE SumTo(_, _)
SumTo(s, k) == IF k = 0 THEN 0 ELSE s[k] + SumTo(s, k - 1)

NMsgs(c)  == Len(Lens[c])
End(c, k) == SumTo(Lens[c], k)
Total(c)  == End(c, NMsgs(c))

\* number of messages whose encoding lies completely within the first f bytes
Complete(c, f) == Cardinality({ k \in 1..NMsgs(c) : End(c, k) <= f })

\* bytes buffered by the receiver: fed but not part of a delivered message
Leftover(c) == fed[c] - End(c, delivered[c])

RInit == lens = <<>> /\ fed = <<>> /\ delivered = <<>>

\* a new set of streams (one per channel) is about to be sent
Start(L) ==
    /\ lens' = L
    /\ fed' = [c \in DOMAIN L |-> 0]
    /\ delivered' = [c \in DOMAIN L |-> 0]

\* one segment of n >= 1 payload bytes arrives on channel c
Feed(c, n) ==
    /\ n >= 1 /\ fed[c] + n <= Total(c)
    /\ fed' = [fed EXCEPT ![c] = @ + n]
    /\ UNCHANGED <<lens, delivered>>

\* the receiver is polled and the next message is complete
CanDeliver(c) == delivered[c] < NMsgs(c) /\ End(c, delivered[c] + 1) <= fed[c]
Deliver(c) ==
    /\ CanDeliver(c)
    /\ delivered' = [delivered EXCEPT ![c] = @ + 1]
    /\ UNCHANGED <<lens, fed>>

\* Feed(c, n) followed by Deliver(c) until nothing more is complete, as one step
\* (what a receiver does per segment: read_full_msgs / the recv_full_msg loop).
\* By PolledMeansAllComplete below it must end at Complete(c, fed).
FeedAndPoll(c, n) ==
    /\ n >= 1 /\ fed[c] + n <= Total(c)
    /\ fed' = [fed EXCEPT ![c] = @ + n]
    /\ delivered' = [delivered EXCEPT ![c] = Complete(c, fed[c] + n)]
    /\ UNCHANGED lens

RNext == \E c \in Chans : (\E n \in 1..Total(c) : Feed(c, n)) \/ Deliver(c)

---------------------------------------------------------------------------
Polled(c) == ~CanDeliver(c)            \* the receiver has nothing more to hand over

NeverAhead == \A c \in Chans : End(c, delivered[c]) <= fed[c]

\* once polled, delivered = the messages with end <= fed, whatever the cuts were
PolledMeansAllComplete == \A c \in Chans : Polled(c) => delivered[c] = Complete(c, fed[c])

\* after the whole stream: all messages, nothing left over
AllFedAllDelivered ==
    \A c \in Chans : (fed[c] = Total(c) /\ Polled(c)) => (delivered[c] = NMsgs(c) /\ Leftover(c) = 0)

\* what is buffered while polled is a proper prefix of the next message
LeftoverIsPartial ==
    \A c \in Chans : Polled(c) =>
        IF delivered[c] = NMsgs(c) THEN Leftover(c) = 0 ELSE Leftover(c) < Lens[c][delivered[c] + 1]
=============================================================================
