------------------------------ MODULE TraceMux ------------------------------
(* C20, thorough tier, DRIFT only: the log of ONE run of the real Plexer pair *)
(* (mux-trace --detail 1) validated against the DESIGN MODEL Mux.tla, with the *)
(* muxer / demuxer steps (MuxTick, DemuxRead, DemuxDeliver) as silent steps.   *)
(* It checks what MuxProps cannot: the real capacities (egress queue of 100,   *)
(* one segment in the demuxer's hand) and the cross-protocol order imposed by  *)
(* the shared ingress queue / single demuxer (head-of-line blocking).          *)
(*                                                                            *)
(* Calls are intervals, not points (DESIGN 4.2, partial order):                *)
(*   enq (ticket before enqueue_chunk) .. enq_done (ticket after it returned)  *)
(*        the model's Enqueue fires anywhere in between (SEnqueue) - so two    *)
(*        overlapping calls may enter the shared ingress queue in either order *)
(*   deq_start .. deq | deq_none (timeout): the model's Dequeue fires at the   *)
(*        deq event, or earlier (SEarlyDequeue) when the queue is full - the   *)
(*        only time the instant matters to anyone else (it unblocks the        *)
(*        demuxer).  A late deq (drain after abort) has no deq_start.          *)
(* Silent pipeline steps run to completion before the next event is consumed   *)
(* (PipeEnabled): the pipeline of one direction is a FIFO network, so moving   *)
(* chunks as early as possible makes every chunk available no later than any   *)
(* other schedule - no behaviour of the log is lost, and the search stays      *)
(* narrow (depth-first queue).  The socket is modelled unbounded (W huge), so  *)
(* enqueue never blocks in the model: permissive where the log says nothing.   *)
(* A rejection here is a DRIFT note, never a verdict.                          *)
EXTENDS Mux, TraceKit

VARIABLES l,
          penq,      \* agents inside enqueue_chunk whose chunk is not yet in ingress
          pdeq,      \* agents inside dequeue_chunk
          got        \* [agent -> Seq(tag)] chunk taken early for a pending dequeue_chunk

tmvars == <<l, penq, pdeq, got>>

\* ---- constants read from the log (one run per file)
TrAgents == { Rec[1].chans[i] : i \in 1..Len(Rec[1].chans) }
EnqSeq == [a \in TrAgents |-> SelectSeq(Rec, LAMBDA r : r.ev = "enq" /\ r.ch = a)]
TrQuota == [a \in TrAgents |-> Len(EnqSeq[a])]
TrLenOf(tag) == EnqSeq[tag[1]][tag[2]].len

IsEvent(e) == l <= NRec /\ Rec[l].ev = e /\ l' = l + 1

\* the logged projection of the chunk with this tag
SameChunk(tag, r) ==
    LET s == EnqSeq[tag[1]][tag[2]]
    IN  s.len = r.len /\ s.sum = r.sum /\ s.tag = r.tag

Deliverable(s) ==
    LET subs == Subscriber(s, HeaderDec(hand[s].hdr).proto)
    IN  subs = {} \/ \E a \in subs : Len(egress[a]) < E

PipeEnabled ==
    \E s \in Sides : \/ ingress[s] # <<>> /\ Len(wire[s]) < W
                     \/ hand[s] = None /\ wire[Other(s)] # <<>>
                     \/ hand[s] # None /\ Deliverable(s)

TMInit == Init /\ l = 1 /\ penq = {} /\ pdeq = {} /\ got = [a \in Agents |-> <<>>] /\ TLCSet(1, 1)

\* ---- silent steps of the multiplexers
SPipe ==
    /\ \E s \in Sides : MuxTick(s) \/ DemuxRead(s) \/ DemuxDeliver(s)
    /\ UNCHANGED tmvars

SEnqueue ==
    /\ ~PipeEnabled
    /\ \E a \in penq : Enqueue(a) /\ penq' = penq \ {a}
    /\ UNCHANGED <<l, pdeq, got>>

SEarlyDequeue ==
    /\ ~PipeEnabled
    /\ \E a \in pdeq :
         /\ got[a] = <<>> /\ Len(egress[a]) = E
         /\ Dequeue(a)
         /\ got' = [got EXCEPT ![a] = <<Head(egress[a])>>]
    /\ UNCHANGED <<l, penq, pdeq>>

\* ---- logged events
MuxUnchanged == UNCHANGED vars

TOpen == IsEvent("open") /\ l = 1 /\ MuxUnchanged /\ UNCHANGED <<penq, pdeq, got>>

TEnqStart ==
    /\ IsEvent("enq") /\ Rec[l].ch \in Agents /\ Rec[l].ch \notin penq
    /\ penq' = penq \cup {Rec[l].ch}
    /\ MuxUnchanged /\ UNCHANGED <<pdeq, got>>

TEnqDone ==
    /\ IsEvent("enq_done") /\ Rec[l].ch \notin penq      \* the chunk must be in ingress by now
    /\ MuxUnchanged /\ UNCHANGED <<penq, pdeq, got>>

TDeqStart ==
    /\ IsEvent("deq_start")
    /\ pdeq' = pdeq \cup {Rec[l].ch}
    /\ MuxUnchanged /\ UNCHANGED <<penq, got>>

TDeqNone ==
    /\ IsEvent("deq_none") /\ got[Rec[l].ch] = <<>>
    /\ pdeq' = pdeq \ {Rec[l].ch}
    /\ MuxUnchanged /\ UNCHANGED <<penq, got>>

TDeq ==
    /\ IsEvent("deq")
    /\ LET a == Rec[l].ch IN
         /\ a \in Agents
         /\ pdeq' = pdeq \ {a}
         /\ IF got[a] # <<>>
            THEN /\ got[a][1][1] = Peer(a) /\ SameChunk(got[a][1], Rec[l])
                 /\ got' = [got EXCEPT ![a] = <<>>]
                 /\ MuxUnchanged
            ELSE /\ egress[a] # <<>>
                 /\ Head(egress[a])[1] = Peer(a) /\ SameChunk(Head(egress[a]), Rec[l])
                 /\ Dequeue(a)
                 /\ UNCHANGED got
    /\ UNCHANGED penq

TQuiesce ==
    /\ IsEvent("quiesce") /\ Quiescent /\ penq = {}
    /\ MuxUnchanged /\ UNCHANGED <<penq, pdeq, got>>

Consume == ~PipeEnabled /\ (TOpen \/ TEnqStart \/ TEnqDone \/ TDeqStart \/ TDeqNone \/ TDeq \/ TQuiesce)

TMNext == (PipeEnabled /\ SPipe) \/ SEnqueue \/ SEarlyDequeue \/ Consume

\* the capacities the design model claims, on every state of the replay
Capacities == TypeOK /\ InOrderExactlyOnce /\ NoLeak

\* progress register: longest matched prefix (the state graph is not a path here)
Track == TLCSet(1, IF l > TLCGet(1) THEN l ELSE TLCGet(1))
MuxVerdict ==
    LET m == TLCGet(1) - 1
    IN  /\ PrintT(<<"TRACE", m, NRec>>)
        /\ IF m < NRec THEN PrintT(<<"UNMATCHED", m + 1, Rec[m + 1]>>) ELSE TRUE
=============================================================================
