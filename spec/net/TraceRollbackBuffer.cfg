CONSTANTS
  Points = {1, 2, 3, 4}
  MaxDepth = 0
INIT TInit
NEXT TNext
CHECK_DEADLOCK FALSE
POSTCONDITION TraceVerdict
