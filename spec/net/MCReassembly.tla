---------------------------- MODULE MCReassembly ----------------------------
(* Exhaustive check of Reassembly (C21): every stream of NM messages with    *)
(* lengths 1..MaxLen on each channel, every cut set and every interleaving   *)
(* of feeding and polling.  The lengths are chosen in the initial state.     *)
EXTENDS Naturals, Sequences, FiniteSets, TLC

CONSTANTS NC, NM, MaxLen
VARIABLES lens, fed, delivered

MCChans == 1..NC
R == INSTANCE Reassembly

Init == R!RInit
Start == lens = <<>> /\ \E L \in [MCChans -> [1..NM -> 1..MaxLen]] : R!Start(L)
Feed == \E c \in DOMAIN lens : \E n \in 1..(NM * MaxLen) : R!Feed(c, n)
Deliver == \E c \in DOMAIN lens : R!Deliver(c)
Next == Start \/ Feed \/ Deliver

NeverAhead == R!NeverAhead
PolledMeansAllComplete == R!PolledMeansAllComplete
AllFedAllDelivered == R!AllFedAllDelivered
LeftoverIsPartial == R!LeftoverIsPartial

\* the step the trace spec takes ("feed one segment, then poll until nothing is
\* complete") always lands on Complete(fed): Deliver is deterministic
DeliverIsDeterministic ==
    [][\A c \in DOMAIN lens : delivered'[c] # delivered[c] =>
          delivered'[c] = delivered[c] + 1 /\ R!End(c, delivered'[c]) <= fed[c]]_<<lens, fed, delivered>>
=============================================================================
