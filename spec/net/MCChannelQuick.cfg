CONSTANTS
  Chans <- MCChans
  S = 2
  MaxLen = 6
  NMsgs = 1
  P = 2
  Cap = 3
INIT CInit
NEXT CNext
INVARIANTS MsgInOrderExactlyOnce ChunksFit TempIsOneMessage BytesConserved CompleteWhenDrained
PROPERTIES RecvIsNextSent
CHECK_DEADLOCK TRUE
