CONSTANTS
  Agents <- TrAgents
  Quota <- TrQuota
  LenOf <- TrLenOf
  K = 100
  W = 1000000
  E = 100
INIT TMInit
NEXT TMNext
CONSTRAINT Track
INVARIANT Capacities
CHECK_DEADLOCK FALSE
POSTCONDITION MuxVerdict
