CONSTANTS
  Chans <- MCChans
  S = 3
  MaxLen = 7
  NMsgs = 1
  P = 1
  Cap = 2
SPECIFICATION CFairSpec
INVARIANTS MsgInOrderExactlyOnce ChunksFit TempIsOneMessage
PROPERTIES AllReceived
CHECK_DEADLOCK TRUE
