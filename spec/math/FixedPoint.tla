------------------------------ MODULE FixedPoint ------------------------------
(* Fixed-point decimals of pallas-math (src/math_dashu.rs, `Decimal`): a       *)
(* value is an integer `d` (BigNat) read at a scale 10^p:  value = d / 10^p.    *)
(*                                                                             *)
(* Arithmetic (Add/Sub/Mul/Div and the *Assign forms) works at the scale       *)
(* 10^ArithDigits — pallas-math uses a static PRECISION = 10^34 there and      *)
(* ignores the `precision` field; rounding and printing honour the value's     *)
(* own precision p.                                                            *)
(*                                                                             *)
(* `acc` models a Decimal that is updated in place (x op= y, x = x op y);      *)
(* `out` is the observable result of the last call, in the shape the harness   *)
(* logs it.  Characters of printed strings are one-character strings.          *)
EXTENDS BigNat, TLC

CONSTANT ArithDigits

VARIABLES acc, out
vars == <<acc, out>>

Scale(p) == Pow10(p)
P == Scale(ArithDigits)

\* ---- arithmetic on scaled integers (exact rationals a/P, b/P) ----
AddFx(a, b) == Add(a, b)                          \* exact
SubFx(a, b) == Sub(a, b)                          \* exact
MulFx(a, b) == FloorDiv(Mul(a, b), P)             \* floor of the exact product   (scale())
DivFx(a, b) == QuotTrunc(Mul(a, P), b)            \* truncation of the exact quotient (div()), b # 0
CmpFx(a, b) == Cmp(a, b)                          \* same scale: order of the rationals = order of the integers
BinOps == {"add", "sub", "mul", "div"}
Apply(op, a, b) == CASE op = "add" -> AddFx(a, b) [] op = "sub" -> SubFx(a, b)
                     [] op = "mul" -> MulFx(a, b) [] op = "div" -> DivFx(a, b)

\* ---- rounding to an integer, at the value's own precision p ----
IsIntegral(r, p) == IsZero(RemTrunc(r, Scale(p)))
FloorFx(x, p) == Mul(FloorDiv(x, Scale(p)), Scale(p))
CeilFx(x, p)  == Neg(FloorFx(Neg(x), p))
TruncFx(x, p) == Mul(QuotTrunc(x, Scale(p)), Scale(p))
\* the property: an integer within one half of x (either direction at an exact half)
RoundOk(r, x, p) == IsIntegral(r, p) /\ Le(MulSmall(Abs(Sub(r, x)), 2), Scale(p))
\* design model (what the code does): nearest, ties away from zero
RoundAway(x, p) == LET f == FloorFx(x, p)  c == CeilFx(x, p)
                       df == MulSmall(Sub(x, f), 2)      \* 2 * distance to floor, in 0..2*10^p
                   IN IF Lt(df, Scale(p)) THEN f
                      ELSE IF Lt(Scale(p), df) THEN c
                      ELSE IF x.neg THEN f ELSE c
RoundKinds == {"floor", "ceil", "trunc", "round"}
RoundSpec(kind, r, x, p) == CASE kind = "floor" -> r = FloorFx(x, p) [] kind = "ceil" -> r = CeilFx(x, p)
                              [] kind = "trunc" -> r = TruncFx(x, p) [] kind = "round" -> RoundOk(r, x, p)

\* ---- printing ----
DigitChar == <<"0", "1", "2", "3", "4", "5", "6", "7", "8", "9">>
IsDigitChar(c) == \E i \in 1..10 : DigitChar[i] = c
CharDigit(c) == (CHOOSE i \in 1..10 : DigitChar[i] = c) - 1
Chars(ds) == [i \in 1..Len(ds) |-> DigitChar[ds[i] + 1]]
ZeroPad(ds, n) == [i \in 1..(n - Len(ds)) |-> 0] \o ds
\* canonical form (design model of Display for Decimal): sign, integer part, ".",
\* exactly p fraction digits (the code prints a single "0" when p = 0)
PrintChars(x, p) ==
    LET q == QuotTrunc(Abs(x), Scale(p))  r == RemTrunc(Abs(x), Scale(p))
        frac == IF p = 0 THEN <<0>> ELSE ZeroPad(IF IsZero(r) THEN <<>> ELSE DecDigits(r), p)
    IN (IF x.neg THEN <<"-">> ELSE <<>>) \o Chars(DecDigits(q)) \o <<".">> \o Chars(frac)
\* the property: the printed numeral is well formed and denotes exactly x / 10^p
DotPos(cs) == IF \E i \in 1..Len(cs) : cs[i] = "." THEN CHOOSE i \in 1..Len(cs) : cs[i] = "." ELSE Len(cs) + 1
Denotes(cs, x, p) ==
    LET neg  == cs # <<>> /\ cs[1] = "-"
        body == IF neg THEN Tail(cs) ELSE cs
        dot  == DotPos(body)
        ip   == SubSeq(body, 1, dot - 1)
        fp   == SubSeq(body, dot + 1, Len(body))
        ds   == [i \in 1..(Len(ip) + Len(fp)) |-> CharDigit((ip \o fp)[i])]
        n    == FromDecDigits(ds)
    IN /\ Len(ip) >= 1
       /\ \A i \in 1..Len(ip) : IsDigitChar(ip[i])
       /\ \A i \in 1..Len(fp) : IsDigitChar(fp[i])
       /\ Mul(n, Scale(p)) = Mul(Abs(x), Scale(Len(fp)))         \* |x| / 10^p = n / 10^len(fp)
       /\ (IsZero(x) \/ neg = x.neg)

\* ---- the object and its entry points ----
Init == acc = Zero /\ out = [ev |-> "none"]

\* Decimal::from_str(s, 34) / From<i64>: a fresh value
Load(v) == acc' = v /\ out' = [ev |-> "load", r |-> v]
\* acc = acc op b   (operators on values, on references, and the *Assign forms)
BinOp(op, b) == /\ op \in BinOps /\ (op = "div" => ~IsZero(b))
                /\ acc' = Apply(op, acc, b)
                /\ out' = [ev |-> op, a |-> acc, b |-> b, r |-> acc']
NegOp == acc' = Neg(acc) /\ out' = [ev |-> "neg", a |-> acc, r |-> acc']
AbsOp == acc' = Abs(acc) /\ out' = [ev |-> "abs", a |-> acc, r |-> acc']
\* partial_cmp / == on equal precisions
CmpOp(b) == UNCHANGED acc /\ out' = [ev |-> "cmp", a |-> acc, b |-> b, r |-> CmpFx(acc, b), eq |-> (acc = b)]
\* floor / ceil / trunc / round of a value x at precision p
RoundOp(kind, x, p, r) == /\ kind \in RoundKinds /\ RoundSpec(kind, r, x, p) /\ UNCHANGED acc
                          /\ out' = [ev |-> kind, p |-> p, x |-> x, r |-> r]
\* to_string of a value x at precision p
PrintOp(x, p, cs) == /\ Denotes(cs, x, p) /\ UNCHANGED acc
                     /\ out' = [ev |-> "print", p |-> p, x |-> x, chars |-> cs]
=============================================================================
