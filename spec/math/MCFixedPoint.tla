---------------------------- MODULE MCFixedPoint ----------------------------
(* Exhaustive configuration: scale 10^2, operands in -Range..Range, and the   *)
(* rounding / printing operators at precisions 0..MaxP.  Every BigNat result  *)
(* is cross-checked against TLC's native integer arithmetic.                  *)
EXTENDS FixedPoint
CONSTANTS Range, RRange, MaxP

Vals == {FromInt(i) : i \in -Range..Range}
RVals == {FromInt(i) : i \in -RRange..RRange}     \* arguments of the rounding / printing operators
Pw2(p) == IF p = 0 THEN 1 ELSE IF p = 1 THEN 10 ELSE IF p = 2 THEN 100 ELSE 1000
NatP == Pw2(ArithDigits)
AbsI(i) == IF i < 0 THEN -i ELSE i
TruncDivI(a, b) == LET q == AbsI(a) \div AbsI(b) IN IF (a < 0) # (b < 0) THEN -q ELSE q

\* The operators are functions of their arguments, so every call is explored once:
\* a value is loaded from the initial state, one operator is applied to it.
Start  == out.ev = "none"
Loaded == out.ev = "load"
DoLoad  == Start /\ \E v \in Vals : Load(v)
DoAdd   == Loaded /\ \E b \in Vals : BinOp("add", b)
DoSub   == Loaded /\ \E b \in Vals : BinOp("sub", b)
DoMul   == Loaded /\ \E b \in Vals : BinOp("mul", b)
DoDiv   == Loaded /\ \E b \in Vals \ {Zero} : BinOp("div", b)
DoNeg   == Loaded /\ NegOp
DoAbs   == Loaded /\ AbsOp
DoCmp   == Loaded /\ \E b \in Vals : CmpOp(b)
\* the rounding operators are functions except `round` at an exact half, where both neighbours are allowed
DoFloor == Start /\ \E x \in RVals, p \in 0..MaxP : RoundOp("floor", x, p, FloorFx(x, p))
DoCeil  == Start /\ \E x \in RVals, p \in 0..MaxP : RoundOp("ceil", x, p, CeilFx(x, p))
DoTrunc == Start /\ \E x \in RVals, p \in 0..MaxP : RoundOp("trunc", x, p, TruncFx(x, p))
DoRound == Start /\ \E x \in RVals, p \in 0..MaxP : \E r \in {FloorFx(x, p), CeilFx(x, p)} : RoundOp("round", x, p, r)
DoPrint == Start /\ \E x \in RVals, p \in 0..MaxP : PrintOp(x, p, PrintChars(x, p))
MCNext == DoLoad \/ DoAdd \/ DoSub \/ DoMul \/ DoDiv \/ DoNeg \/ DoAbs \/ DoCmp
          \/ DoFloor \/ DoCeil \/ DoTrunc \/ DoRound \/ DoPrint

I(x) == ToInt(x)
InvArith ==
    /\ out.ev = "add" => I(out.r) = I(out.a) + I(out.b)
    /\ out.ev = "sub" => I(out.r) = I(out.a) - I(out.b)
    /\ out.ev = "mul" => I(out.r) = (I(out.a) * I(out.b)) \div NatP               \* TLC's \div is floor
    /\ out.ev = "div" => I(out.r) = TruncDivI(I(out.a) * NatP, I(out.b))
    /\ out.ev = "neg" => I(out.r) = -I(out.a)
    /\ out.ev = "abs" => I(out.r) = AbsI(I(out.a))
    /\ out.ev = "cmp" => out.r = (IF I(out.a) < I(out.b) THEN -1 ELSE IF I(out.a) > I(out.b) THEN 1 ELSE 0)
InvRound ==
    out.ev \in RoundKinds =>
        LET s == Pw2(out.p)  x == I(out.x)  r == I(out.r) IN
        /\ r % s = 0
        /\ out.ev = "floor" => (r <= x /\ x < r + s)
        /\ out.ev = "ceil"  => (r - s < x /\ x <= r)
        /\ out.ev = "trunc" => (AbsI(r) <= AbsI(x) /\ AbsI(x) < AbsI(r) + s /\ (r = 0 \/ (r < 0) = (x < 0)))
        /\ out.ev = "round" => 2 * AbsI(r - x) <= s
\* floor <= x <= ceil, ceil - floor in {0, 1}; the design rounding is one of the allowed roundings
InvOrder == out.ev \in RoundKinds =>
    LET x == out.x  p == out.p IN
    /\ Le(FloorFx(x, p), x) /\ Le(x, CeilFx(x, p))
    /\ Sub(CeilFx(x, p), FloorFx(x, p)) \in {Zero, Scale(p)}
    /\ RoundOk(RoundAway(x, p), x, p)
InvPrint == out.ev = "print" =>
    /\ Denotes(out.chars, out.x, out.p)
    /\ ~Denotes(out.chars, Add(out.x, FromInt(1)), out.p)
    /\ ((out.p > 0 /\ ~IsZero(out.x)) => ~Denotes(out.chars, out.x, out.p - 1))
InvAll == InvArith /\ InvRound /\ InvOrder /\ InvPrint

ASSUME PrintChars(FromInt(-5), 1) = <<"-", "0", ".", "5">>
ASSUME PrintChars(FromInt(1205), 3) = <<"1", ".", "2", "0", "5">>
ASSUME PrintChars(FromInt(7), 0) = <<"7", ".", "0">>
ASSUME Denotes(<<"7", ".", "0">>, FromInt(7), 0) /\ Denotes(<<"7">>, FromInt(7), 0) /\ ~Denotes(<<".", "5">>, FromInt(5), 1)
ASSUME Denotes(<<"-", "0", ".", "0", "5", "0">>, FromInt(-5), 2) /\ ~Denotes(<<"0", ".", "0", "5">>, FromInt(-5), 2)
ASSUME ~Denotes(<<"1", ".", "5">>, FromInt(105), 2) /\ ~Denotes(<<"1", ".", "x">>, FromInt(10), 1)
ASSUME RoundAway(FromInt(-25), 1) = FromInt(-30) /\ RoundAway(FromInt(25), 1) = FromInt(30) /\ RoundAway(FromInt(24), 1) = FromInt(20)
ASSUME RoundOk(FromInt(20), FromInt(25), 1) /\ RoundOk(FromInt(30), FromInt(25), 1) /\ ~RoundOk(FromInt(30), FromInt(24), 1)
ASSUME RoundOk(FromInt(5), FromInt(5), 0) /\ ~RoundOk(FromInt(6), FromInt(5), 0)
=============================================================================
