--------------------------- MODULE TraceFixedPoint ---------------------------
(* Trace validation for C17 (impl -> spec).  Events (numbers are BigNat JSON,   *)
(* the raw scaled integers):                                                    *)
(*  {"ev":"load","r":V}                          a fresh Decimal at precision 34 *)
(*  {"ev":"add"|"sub"|"mul"|"div","a":A,"b":B,"r":R}   acc = acc op b            *)
(*  {"ev":"neg"|"abs","a":A,"r":R}                                               *)
(*  {"ev":"cmp","a":A,"b":B,"r":-1|0|1,"eq":BOOL}                                *)
(*  {"ev":"floor"|"ceil"|"trunc"|"round","p":P,"x":X,"r":R}                      *)
(*  {"ev":"print","p":P,"x":X,"chars":["-","1",".","5",..]}                      *)
EXTENDS FixedPoint, TraceKit

VARIABLE l
tvars == <<acc, out, l>>

IsEvent(e) == l <= NRec /\ Rec[l].ev = e /\ l' = l + 1
TInit == Init /\ l = 1

TLoad  == IsEvent("load") /\ IsBig(Rec[l].r) /\ Load(Rec[l].r)
TBin   == /\ l <= NRec /\ Rec[l].ev \in BinOps /\ l' = l + 1
          /\ IsBig(Rec[l].b) /\ Rec[l].a = acc
          /\ BinOp(Rec[l].ev, Rec[l].b) /\ acc' = Rec[l].r
TNeg   == IsEvent("neg") /\ Rec[l].a = acc /\ NegOp /\ acc' = Rec[l].r
TAbs   == IsEvent("abs") /\ Rec[l].a = acc /\ AbsOp /\ acc' = Rec[l].r
TCmp   == IsEvent("cmp") /\ Rec[l].a = acc /\ IsBig(Rec[l].b) /\ CmpOp(Rec[l].b)
          /\ out'.r = Rec[l].r /\ out'.eq = Rec[l].eq
TRound == /\ l <= NRec /\ Rec[l].ev \in RoundKinds /\ l' = l + 1
          /\ IsBig(Rec[l].x) /\ IsBig(Rec[l].r)
          /\ RoundOp(Rec[l].ev, Rec[l].x, Rec[l].p, Rec[l].r)
TPrint == IsEvent("print") /\ IsBig(Rec[l].x) /\ PrintOp(Rec[l].x, Rec[l].p, Rec[l].chars)
TReset == IsEvent("reset") /\ acc' = Zero /\ out' = [ev |-> "none"]

TNext == TLoad \/ TBin \/ TNeg \/ TAbs \/ TCmp \/ TRound \/ TPrint \/ TReset
=============================================================================
