CONSTANTS
  ArithDigits = 2
  Range = 10
  RRange = 30
  MaxP = 2
INIT Init
NEXT MCNext
INVARIANT InvAll
CHECK_DEADLOCK FALSE
