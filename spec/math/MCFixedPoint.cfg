CONSTANTS
  ArithDigits = 2
  Range = 14
  RRange = 40
  MaxP = 2
INIT Init
NEXT MCNext
INVARIANT InvAll
CHECK_DEADLOCK FALSE
