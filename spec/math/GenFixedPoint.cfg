CONSTANTS
  ArithDigits = 34
  RRange = 120
  MaxP = 3
INIT Init
NEXT GNext
CHECK_DEADLOCK FALSE
