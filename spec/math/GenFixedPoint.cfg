CONSTANTS
  ArithDigits = 34
  RRange = 160
  MaxP = 3
INIT Init
NEXT GNext
CHECK_DEADLOCK FALSE
