---------------------------- MODULE GenFixedPoint ----------------------------
(* Vector generator for C17 (spec -> impl, M1): rounding and printing at small *)
(* precisions, exhaustively over x in -RRange..RRange.  One JSON line each:    *)
(* {"p":P,"x":X,"floor":F,"ceil":C,"trunc":T,"round":[allowed..],"print":[chars]} *)
EXTENDS FixedPoint, Json
CONSTANTS RRange, MaxP

Allowed(x, p) == {ToInt(r) : r \in {r \in {FloorFx(x, p), CeilFx(x, p)} : RoundOk(r, x, p)}}
Vec(i, p) == LET x == FromInt(i) IN
    [p |-> p, x |-> i, floor |-> ToInt(FloorFx(x, p)), ceil |-> ToInt(CeilFx(x, p)), trunc |-> ToInt(TruncFx(x, p)),
     round |-> Allowed(x, p), print |-> PrintChars(x, p)]
ASSUME \A p \in 0..MaxP : \A i \in -RRange..RRange : PrintT(<<"VEC", ToJson(Vec(i, p))>>)
GNext == UNCHANGED vars
=============================================================================
