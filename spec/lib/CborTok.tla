------------------------------- MODULE CborTok -------------------------------
(* Token-level CBOR (RFC 8949) for TLC.                                     *)
(*                                                                          *)
(* An *item* is a record tree that keeps everything a byte-exact re-encoder *)
(* must keep: the width of every head (0 = argument inside the initial      *)
(* byte, 1/2/4/8 = following bytes), definite vs indefinite containers and  *)
(* the chunking of indefinite strings.  Head arguments of integers and tags *)
(* are carried as big-endian BYTE SEQUENCES (TLC integers are 32-bit), so   *)
(* 2^64-1 is <<255,255,255,255,255,255,255,255>>.  Lengths / counts are     *)
(* implied by the content and are small.                                    *)
(*                                                                          *)
(*   UInt(w,a) NInt(w,a)      a: w bytes (w = 0: one byte < 24)              *)
(*   BStr(w,b) TStr(w,b)      definite string, payload b, length head width w*)
(*   BStrI(cs) TStrI(cs)      indefinite string, cs: sequence of BStr / TStr *)
(*   Arr(w,xs) ArrI(xs)       array of items                                 *)
(*   Map(w,kv) MapI(kv)       kv: sequence of <<key item, value item>>       *)
(*   Tag(w,a,x)               tag number a (bytes), content x                *)
(*   Simple(v)                v in 20..23: false, true, null, undefined      *)
(*   BWrap(w,x)               byte string (length head width w) holding Ser(x)*)
(*                                                                          *)
(* Ser(item) is the byte sequence; Tokens(item) the head-token stream; WF   *)
(* is the pushdown well-formedness machine over token streams.              *)
EXTENDS Integers, Sequences

Widths == {0, 1, 2, 4, 8}

UInt(w, a)   == [t |-> "uint", w |-> w, a |-> a]
NInt(w, a)   == [t |-> "nint", w |-> w, a |-> a]
BStr(w, b)   == [t |-> "bytes", w |-> w, b |-> b]
TStr(w, b)   == [t |-> "text", w |-> w, b |-> b]
BStrI(cs)    == [t |-> "bytesI", cs |-> cs]
TStrI(cs)    == [t |-> "textI", cs |-> cs]
Arr(w, xs)   == [t |-> "arr", w |-> w, xs |-> xs]
ArrI(xs)     == [t |-> "arrI", xs |-> xs]
Map(w, kv)   == [t |-> "map", w |-> w, kv |-> kv]
MapI(kv)     == [t |-> "mapI", kv |-> kv]
Tag(w, a, x) == [t |-> "tag", w |-> w, a |-> a, x |-> x]
Simple(v)    == [t |-> "simple", v |-> v]
BWrap(w, x)  == [t |-> "bwrap", w |-> w, x |-> x]    \* definite byte string whose payload is the encoding of item x

CFalse == Simple(20)
CTrue  == Simple(21)
CNull  == Simple(22)
CUndef == Simple(23)

\* ------------------------------------------------------------ byte helpers
\* byte k (0 = least significant) of a natural n < 2^31
ByteOf(n, k) == IF k >= 4 THEN 0 ELSE (n \div (256 ^ k)) % 256

\* big-endian argument bytes of a small natural at head width w
BE(n, w) == IF w = 0 THEN <<n>> ELSE [i \in 1..w |-> ByteOf(n, w - i)]

\* smallest head width that can carry a small natural n
MinW(n) == IF n < 24 THEN 0 ELSE IF n < 256 THEN 1 ELSE IF n < 65536 THEN 2 ELSE 4

\* does the small natural n fit head width w?
FitsW(n, w) == CASE w = 0 -> n < 24 [] w = 1 -> n < 256 [] w = 2 -> n < 65536 [] OTHER -> TRUE

\* strip leading zero bytes: the numeric value of an argument as a canonical byte string
RECURSIVE NormB(_)
NormB(a) == IF a # <<>> /\ a[1] = 0 THEN NormB(Tail(a)) ELSE a

\* numeric value of an argument when it is below 2^24, else -1 is not available: callers test Small first
Small(a) == Len(NormB(a)) <= 3
RECURSIVE ValB(_)
ValB(a) == IF a = <<>> THEN 0 ELSE ValB(SubSeq(a, 1, Len(a) - 1)) * 256 + a[Len(a)]
ValOf(a) == ValB(NormB(a))

\* minimal-width (canonical) argument for a value given as normalised bytes
MinWB(nb) == IF Len(nb) = 0 THEN 0
             ELSE IF Len(nb) = 1 THEN (IF nb[1] < 24 THEN 0 ELSE 1)
             ELSE IF Len(nb) = 2 THEN 2 ELSE IF Len(nb) <= 4 THEN 4 ELSE 8
PadB(nb, w) == IF w = 0 THEN (IF nb = <<>> THEN <<0>> ELSE nb)
               ELSE [i \in 1..w |-> IF i <= w - Len(nb) THEN 0 ELSE nb[i - (w - Len(nb))]]
\* canonical (shortest) unsigned / negative integer item and tag for a value given as bytes
UIntMin(a) == LET nb == NormB(a) IN UInt(MinWB(nb), PadB(nb, MinWB(nb)))
NIntMin(a) == LET nb == NormB(a) IN NInt(MinWB(nb), PadB(nb, MinWB(nb)))
UIntN(n)   == UInt(MinW(n), BE(n, MinW(n)))          \* small natural, canonical
NIntN(n)   == NInt(MinW(n), BE(n, MinW(n)))          \* the integer -1-n, canonical
TagN(n, x) == Tag(MinW(n), BE(n, MinW(n)), x)
BStrMin(b) == BStr(MinW(Len(b)), b)
ArrMin(xs) == Arr(MinW(Len(xs)), xs)
MapMin(kv) == Map(MinW(Len(kv)), kv)

\* compare two byte strings of equal length lexicographically: -1 / 0 / 1
RECURSIVE CmpLex(_, _)
CmpLex(a, b) == IF a = <<>> /\ b = <<>> THEN 0
                ELSE IF a = <<>> THEN -1 ELSE IF b = <<>> THEN 1
                ELSE IF a[1] < b[1] THEN -1 ELSE IF a[1] > b[1] THEN 1
                ELSE CmpLex(Tail(a), Tail(b))
\* numeric comparison of two arguments
CmpArg(a, b) == LET x == NormB(a) y == NormB(b)
                IN IF Len(x) < Len(y) THEN -1 ELSE IF Len(x) > Len(y) THEN 1 ELSE CmpLex(x, y)
\* RFC 8949 4.2.1 / RFC 7049 3.9 bytewise order of encoded keys (shorter first, then lexicographic)
CmpCanon(a, b) == IF Len(a) < Len(b) THEN -1 ELSE IF Len(a) > Len(b) THEN 1 ELSE CmpLex(a, b)

\* ------------------------------------------------------------ serialisation
AddInfo(w) == CASE w = 1 -> 24 [] w = 2 -> 25 [] w = 4 -> 26 [] w = 8 -> 27

\* head: major type m (0..7), width w, argument bytes a
HeadB(m, w, a) == IF w = 0 THEN <<m * 32 + a[1]>> ELSE <<m * 32 + AddInfo(w)>> \o a

\* width/argument agree
ArgOK(w, a) == IF w = 0 THEN Len(a) = 1 /\ a[1] < 24 ELSE Len(a) = w

RECURSIVE Ser(_), SerSeq(_), SerKV(_)
Ser(x) ==
    CASE x.t = "uint"   -> HeadB(0, x.w, x.a)
      [] x.t = "nint"   -> HeadB(1, x.w, x.a)
      [] x.t = "bytes"  -> HeadB(2, x.w, BE(Len(x.b), x.w)) \o x.b
      [] x.t = "text"   -> HeadB(3, x.w, BE(Len(x.b), x.w)) \o x.b
      [] x.t = "bytesI" -> <<95>> \o SerSeq(x.cs) \o <<255>>
      [] x.t = "textI"  -> <<127>> \o SerSeq(x.cs) \o <<255>>
      [] x.t = "arr"    -> HeadB(4, x.w, BE(Len(x.xs), x.w)) \o SerSeq(x.xs)
      [] x.t = "arrI"   -> <<159>> \o SerSeq(x.xs) \o <<255>>
      [] x.t = "map"    -> HeadB(5, x.w, BE(Len(x.kv), x.w)) \o SerKV(x.kv)
      [] x.t = "mapI"   -> <<191>> \o SerKV(x.kv) \o <<255>>
      [] x.t = "tag"    -> HeadB(6, x.w, x.a) \o Ser(x.x)
      [] x.t = "simple" -> <<224 + x.v>>
      [] x.t = "bwrap"  -> LET p == Ser(x.x) IN HeadB(2, x.w, BE(Len(p), x.w)) \o p
SerSeq(xs) == IF xs = <<>> THEN <<>> ELSE Ser(xs[1]) \o SerSeq(Tail(xs))
SerKV(kv)  == IF kv = <<>> THEN <<>> ELSE Ser(kv[1][1]) \o Ser(kv[1][2]) \o SerKV(Tail(kv))

\* structural well-formedness of an item tree (what Ser assumes)
RECURSIVE ItemOK(_)
ItemOK(x) ==
    CASE x.t \in {"uint", "nint"} -> x.w \in Widths /\ ArgOK(x.w, x.a)
      [] x.t \in {"bytes", "text"} -> x.w \in Widths /\ FitsW(Len(x.b), x.w)
      [] x.t = "bytesI" -> \A i \in 1..Len(x.cs) : x.cs[i].t = "bytes" /\ ItemOK(x.cs[i])
      [] x.t = "textI"  -> \A i \in 1..Len(x.cs) : x.cs[i].t = "text" /\ ItemOK(x.cs[i])
      [] x.t = "arr"    -> x.w \in Widths /\ FitsW(Len(x.xs), x.w) /\ \A i \in 1..Len(x.xs) : ItemOK(x.xs[i])
      [] x.t = "arrI"   -> \A i \in 1..Len(x.xs) : ItemOK(x.xs[i])
      [] x.t = "map"    -> x.w \in Widths /\ FitsW(Len(x.kv), x.w)
                           /\ \A i \in 1..Len(x.kv) : ItemOK(x.kv[i][1]) /\ ItemOK(x.kv[i][2])
      [] x.t = "mapI"   -> \A i \in 1..Len(x.kv) : ItemOK(x.kv[i][1]) /\ ItemOK(x.kv[i][2])
      [] x.t = "tag"    -> x.w \in Widths /\ ArgOK(x.w, x.a) /\ ItemOK(x.x)
      [] x.t = "simple" -> x.v \in 20..23
      [] x.t = "bwrap"  -> x.w \in Widths /\ ItemOK(x.x) /\ FitsW(Len(Ser(x.x)), x.w)

\* payload of a (possibly chunked) string item
RECURSIVE Payload(_)
Payload(x) == IF x.t \in {"bytes", "text"} THEN x.b
              ELSE IF x.cs = <<>> THEN <<>>
              ELSE x.cs[1].b \o Payload([x EXCEPT !.cs = Tail(x.cs)])

\* split a payload into chunks of at most n bytes
RECURSIVE Chunks(_, _)
Chunks(b, n) == IF Len(b) <= n THEN (IF b = <<>> THEN <<>> ELSE <<b>>)
                ELSE <<SubSeq(b, 1, n)>> \o Chunks(SubSeq(b, n + 1, Len(b)), n)

\* ------------------------------------------------------------ token streams
(* A token is one head: [k |-> kind, n |-> count].                          *)
(*   atom         a complete leaf (integer, definite string, simple)        *)
(*   chunk        a definite string inside an indefinite one                *)
(*   arr / map    definite container with n items / n pairs                 *)
(*   arrI / mapI / strI   indefinite start                                  *)
(*   tag          one content item follows                                  *)
(*   break        0xFF                                                      *)
Tok(k, n) == [k |-> k, n |-> n]

RECURSIVE Tokens(_), TokSeq(_), TokKV(_)
Tokens(x) ==
    CASE x.t \in {"uint", "nint", "bytes", "text", "simple", "bwrap"} -> <<Tok("atom", 0)>>
      [] x.t \in {"bytesI", "textI"} -> <<Tok("strI", 0)>> \o [i \in 1..Len(x.cs) |-> Tok("chunk", 0)] \o <<Tok("break", 0)>>
      [] x.t = "arr"  -> <<Tok("arr", Len(x.xs))>> \o TokSeq(x.xs)
      [] x.t = "arrI" -> <<Tok("arrI", 0)>> \o TokSeq(x.xs) \o <<Tok("break", 0)>>
      [] x.t = "map"  -> <<Tok("map", Len(x.kv))>> \o TokKV(x.kv)
      [] x.t = "mapI" -> <<Tok("mapI", 0)>> \o TokKV(x.kv) \o <<Tok("break", 0)>>
      [] x.t = "tag"  -> <<Tok("tag", 0)>> \o Tokens(x.x)
TokSeq(xs) == IF xs = <<>> THEN <<>> ELSE Tokens(xs[1]) \o TokSeq(Tail(xs))
TokKV(kv)  == IF kv = <<>> THEN <<>> ELSE Tokens(kv[1][1]) \o Tokens(kv[1][2]) \o TokKV(Tail(kv))

(* Pushdown machine.  A frame is [f |-> "def", left |-> items still owed]   *)
(* or [f |-> "arrI" | "mapI" | "strI", odd |-> a map key is waiting for its  *)
(* value].  The stack starts with one definite frame owing the top-level     *)
(* item; the stream is a complete well-formed item exactly when the stack   *)
(* becomes empty.  "bad" is the error state.                                *)
WFInit == <<[f |-> "def", left |-> 1, odd |-> FALSE]>>
WFBad  == <<[f |-> "bad", left |-> 0, odd |-> FALSE]>>
WFDone(st) == st = <<>>
WFIsBad(st) == st = WFBad

Top(st) == st[Len(st)]
Pop(st) == SubSeq(st, 1, Len(st) - 1)

\* pop every definite frame that owes nothing any more
RECURSIVE Close(_)
Close(st) == IF st # <<>> /\ Top(st).f = "def" /\ Top(st).left = 0 THEN Close(Pop(st)) ELSE st

\* the enclosing frame has received one complete data item (or is about to: containers are charged when opened)
Charge(st) ==
    LET tp == Top(st) IN
    IF tp.f = "def" THEN [st EXCEPT ![Len(st)].left = tp.left - 1]
    ELSE IF tp.f = "mapI" THEN [st EXCEPT ![Len(st)].odd = ~tp.odd]
    ELSE st

Push(st, fr) == Append(st, fr)

Consume(st, tok) ==
    IF st = <<>> \/ st = WFBad THEN WFBad            \* trailing token after a complete item / sticky error
    ELSE LET tp == Top(st) IN
    IF tok.k = "break" THEN
        IF tp.f \in {"arrI", "strI"} \/ (tp.f = "mapI" /\ ~tp.odd) THEN Close(Pop(st)) ELSE WFBad
    ELSE IF tp.f = "strI" THEN (IF tok.k = "chunk" THEN st ELSE WFBad)
    ELSE IF tok.k = "chunk" THEN WFBad
    ELSE IF tok.k = "atom" THEN Close(Charge(st))
    ELSE IF tok.k = "arr"  THEN Close(Push(Charge(st), [f |-> "def", left |-> tok.n, odd |-> FALSE]))
    ELSE IF tok.k = "map"  THEN Close(Push(Charge(st), [f |-> "def", left |-> 2 * tok.n, odd |-> FALSE]))
    ELSE IF tok.k = "tag"  THEN Push(Charge(st), [f |-> "def", left |-> 1, odd |-> FALSE])
    ELSE IF tok.k \in {"arrI", "mapI", "strI"} THEN Push(Charge(st), [f |-> tok.k, left |-> 0, odd |-> FALSE])
    ELSE WFBad

RECURSIVE Run(_, _)
Run(st, toks) == IF toks = <<>> THEN st ELSE Run(Consume(st, toks[1]), Tail(toks))

\* a token stream is exactly one well-formed item
WF(toks) == WFDone(Run(WFInit, toks))
=============================================================================
