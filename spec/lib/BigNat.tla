------------------------------- MODULE BigNat -------------------------------
(* Arbitrary-precision signed integers for TLC (whose integers are 32-bit). *)
(* A number is a record [neg |-> BOOLEAN, mag |-> little-endian sequence of *)
(* limbs in 0..Base-1], normalised: no most-significant zero limb, zero is  *)
(* [neg |-> FALSE, mag |-> <<>>].  Base = 10^4, so that a decimal string is *)
(* converted by chunking digits (harness side: pv_core::big_json) and limb  *)
(* products stay below 2^31.                                                *)
(* JSON form: {"neg": false, "mag": [limb0, limb1, ...]}                    *)
EXTENDS Integers, Sequences

Base == 10000

Zero == [neg |-> FALSE, mag |-> <<>>]

RECURSIVE StripM(_)
StripM(m) == IF m # <<>> /\ m[Len(m)] = 0 THEN StripM(SubSeq(m, 1, Len(m) - 1)) ELSE m

Norm(x) == LET m == StripM(x.mag) IN [neg |-> (x.neg /\ m # <<>>), mag |-> m]

IsBig(x) == /\ DOMAIN x = {"neg", "mag"} /\ x.neg \in BOOLEAN
            /\ \A i \in 1..Len(x.mag) : x.mag[i] \in 0..(Base - 1)
            /\ Norm(x) = x

\* magnitude of a small natural
RECURSIVE MagOfNat(_)
MagOfNat(n) == IF n = 0 THEN <<>> ELSE <<n % Base>> \o MagOfNat(n \div Base)

FromInt(i) == IF i < 0 THEN [neg |-> TRUE, mag |-> MagOfNat(-i)] ELSE [neg |-> FALSE, mag |-> MagOfNat(i)]

Limb(m, i) == IF i <= Len(m) THEN m[i] ELSE 0
Max(a, b) == IF a >= b THEN a ELSE b

\* ---- magnitudes ----
RECURSIVE CmpMagFrom(_, _, _)
CmpMagFrom(a, b, i) ==    \* compare limbs i..1 (most significant first)
    IF i = 0 THEN 0
    ELSE IF Limb(a, i) < Limb(b, i) THEN -1
    ELSE IF Limb(a, i) > Limb(b, i) THEN 1
    ELSE CmpMagFrom(a, b, i - 1)
CmpMag(a, b) == CmpMagFrom(a, b, Max(Len(a), Len(b)))

RECURSIVE AddMagFrom(_, _, _, _)
AddMagFrom(a, b, i, carry) ==
    IF i > Max(Len(a), Len(b)) THEN (IF carry = 0 THEN <<>> ELSE <<carry>>)
    ELSE LET s == Limb(a, i) + Limb(b, i) + carry
         IN <<s % Base>> \o AddMagFrom(a, b, i + 1, s \div Base)
AddMag(a, b) == AddMagFrom(a, b, 1, 0)

RECURSIVE SubMagFrom(_, _, _, _)
SubMagFrom(a, b, i, borrow) ==   \* requires a >= b
    IF i > Len(a) THEN <<>>
    ELSE LET d == Limb(a, i) - Limb(b, i) - borrow
         IN IF d < 0 THEN <<d + Base>> \o SubMagFrom(a, b, i + 1, 1)
                     ELSE <<d>> \o SubMagFrom(a, b, i + 1, 0)
SubMag(a, b) == StripM(SubMagFrom(a, b, 1, 0))

RECURSIVE MulSmallFrom(_, _, _, _)
MulSmallFrom(a, k, i, carry) ==  \* 0 <= k < 2^17
    IF i > Len(a) THEN MagOfNat(carry)
    ELSE LET p == a[i] * k + carry
         IN <<p % Base>> \o MulSmallFrom(a, k, i + 1, p \div Base)
MulSmallMag(a, k) == StripM(MulSmallFrom(a, k, 1, 0))

ShiftMag(a, n) == IF a = <<>> THEN <<>> ELSE [i \in 1..n |-> 0] \o a

RECURSIVE MulMagFrom(_, _, _)
MulMagFrom(a, b, j) ==
    IF j > Len(b) THEN <<>>
    ELSE AddMag(ShiftMag(MulSmallMag(a, b[j]), j - 1), MulMagFrom(a, b, j + 1))
MulMag(a, b) == StripM(MulMagFrom(a, b, 1))

\* divide magnitude by a small positive k (k < 2^17): <<quotient, remainder>>
RECURSIVE DivSmallFrom(_, _, _, _)
DivSmallFrom(a, k, i, rem) ==   \* processes limbs i..1, returns <<quot limbs (little endian), rem>>
    IF i = 0 THEN <<<<>>, rem>>
    ELSE LET cur == rem * Base + a[i]
             rest == DivSmallFrom(a, k, i - 1, cur % k)
         IN <<rest[1] \o <<cur \div k>>, rest[2]>>
DivSmallMag(a, k) == LET r == DivSmallFrom(a, k, Len(a), 0) IN <<StripM(r[1]), r[2]>>

\* ---- signed ----
Neg(x) == Norm([neg |-> ~x.neg, mag |-> x.mag])
Abs(x) == [neg |-> FALSE, mag |-> x.mag]
IsZero(x) == x.mag = <<>>
Sign(x) == IF x.mag = <<>> THEN 0 ELSE IF x.neg THEN -1 ELSE 1

Cmp(x, y) ==
    IF x.neg # y.neg THEN (IF x.neg THEN -1 ELSE 1)
    ELSE IF x.neg THEN CmpMag(y.mag, x.mag) ELSE CmpMag(x.mag, y.mag)
Lt(x, y) == Cmp(x, y) < 0
Le(x, y) == Cmp(x, y) <= 0
Eq(x, y) == Cmp(x, y) = 0

Add(x, y) ==
    IF x.neg = y.neg THEN Norm([neg |-> x.neg, mag |-> AddMag(x.mag, y.mag)])
    ELSE IF CmpMag(x.mag, y.mag) >= 0
         THEN Norm([neg |-> x.neg, mag |-> SubMag(x.mag, y.mag)])
         ELSE Norm([neg |-> y.neg, mag |-> SubMag(y.mag, x.mag)])
Sub(x, y) == Add(x, Neg(y))
Mul(x, y) == Norm([neg |-> (x.neg # y.neg), mag |-> MulMag(x.mag, y.mag)])
MulSmall(x, k) == IF k >= 0 THEN Norm([neg |-> x.neg, mag |-> MulSmallMag(x.mag, k)])
                           ELSE Norm([neg |-> ~x.neg, mag |-> MulSmallMag(x.mag, -k)])

\* truncating division / remainder by a small positive k (sign follows the dividend, like Rust `/` and `%`)
QuotSmall(x, k) == Norm([neg |-> x.neg, mag |-> DivSmallMag(x.mag, k)[1]])
RemSmall(x, k) == IF x.neg THEN -(DivSmallMag(x.mag, k)[2]) ELSE DivSmallMag(x.mag, k)[2]
\* floor division by a small positive k
FloorDivSmall(x, k) == IF x.neg /\ DivSmallMag(x.mag, k)[2] # 0 THEN Sub(QuotSmall(x, k), FromInt(1)) ELSE QuotSmall(x, k)

RECURSIVE SumSeq(_)
SumSeq(s) == IF s = <<>> THEN Zero ELSE Add(s[1], SumSeq(Tail(s)))

\* 10^n as a BigNat (n >= 0)
RECURSIVE Pow10(_)
Pow10(n) == IF n >= 4 THEN [neg |-> FALSE, mag |-> <<0>> \o Pow10(n - 4).mag]
            ELSE FromInt(IF n = 0 THEN 1 ELSE IF n = 1 THEN 10 ELSE IF n = 2 THEN 100 ELSE 1000)

\* small value back to a TLC integer (only when it fits: |x| < 2*10^8)
ToInt(x) == LET v == Limb(x.mag, 1) + Base * Limb(x.mag, 2) + Base * Base * Limb(x.mag, 3)
            IN IF x.neg THEN -v ELSE v
FitsInt(x) == Len(x.mag) <= 2 \/ (Len(x.mag) = 3 /\ x.mag[3] <= 20)

\* ---- general division (schoolbook long division by a BigNat divisor) ----
\* largest q in lo..hi with q*b <= cur   (requires lo*b <= cur < (hi+1)*b)
RECURSIVE FindQMag(_, _, _, _)
FindQMag(cur, b, lo, hi) ==
    IF lo >= hi THEN lo
    ELSE LET mid == (lo + hi + 1) \div 2
         IN IF CmpMag(MulSmallMag(b, mid), cur) <= 0 THEN FindQMag(cur, b, mid, hi)
                                                      ELSE FindQMag(cur, b, lo, mid - 1)

\* processes limbs i..1 of a (most significant first) with running remainder
\* rem < b; returns <<quotient limbs (little endian, unstripped), remainder>>
RECURSIVE DivModMagFrom(_, _, _, _)
DivModMagFrom(a, b, i, rem) ==
    IF i = 0 THEN <<<<>>, rem>>
    ELSE LET cur  == StripM(<<a[i]>> \o rem)                 \* rem * Base + a[i]
             n    == Len(b)
             top  == Limb(cur, n + 1) * Base + Limb(cur, n)     \* leading limbs of cur (< 10^8)
             qhi0 == top \div b[n]                            \* q <= top / b_top
             qhi  == IF qhi0 > Base - 1 THEN Base - 1 ELSE qhi0
             qlo  == top \div (b[n] + 1)                       \* q >= top / (b_top + 1)
             q    == IF CmpMag(cur, b) < 0 THEN 0 ELSE FindQMag(cur, b, qlo, qhi)
             r2   == SubMag(cur, MulSmallMag(b, q))
             rest == DivModMagFrom(a, b, i - 1, r2)
         IN <<rest[1] \o <<q>>, rest[2]>>
\* <<quotient, remainder>> of magnitudes, b # <<>>
DivModMag(a, b) == LET r == DivModMagFrom(a, b, Len(a), <<>>) IN <<StripM(r[1]), r[2]>>

\* truncating division (quotient rounds toward zero, remainder has the sign of x), y # 0
QuotTrunc(x, y) == Norm([neg |-> (x.neg # y.neg), mag |-> DivModMag(x.mag, y.mag)[1]])
RemTrunc(x, y)  == Norm([neg |-> x.neg, mag |-> DivModMag(x.mag, y.mag)[2]])
\* floor division (quotient rounds toward minus infinity), y # 0
FloorDiv(x, y) == LET qr == DivModMag(x.mag, y.mag)
                      q  == Norm([neg |-> (x.neg # y.neg), mag |-> qr[1]])
                  IN IF (x.neg # y.neg) /\ qr[2] # <<>> THEN Sub(q, FromInt(1)) ELSE q

\* from big-endian decimal digits (each in 0..9)
RECURSIVE FromDecDigits(_)
FromDecDigits(ds) == IF ds = <<>> THEN Zero
                     ELSE Add(MulSmall(FromDecDigits(SubSeq(ds, 1, Len(ds) - 1)), 10), FromInt(ds[Len(ds)]))
\* big-endian decimal digits of |x| (<<0>> for zero)
RECURSIVE DecDigitsMag(_)
DecDigitsMag(m) == IF m = <<>> THEN <<>> ELSE LET qr == DivSmallMag(m, 10) IN Append(DecDigitsMag(qr[1]), qr[2])
DecDigits(x) == IF x.mag = <<>> THEN <<0>> ELSE DecDigitsMag(x.mag)
=============================================================================
