---------------------------- MODULE TraceKit ----------------------------
(* Shared plumbing for trace validation (impl -> spec).                    *)
(* The implementation trace is an ndjson file, one event per line, path in *)
(* the environment variable TRACE.  A trace spec has one variable `l`      *)
(* (index of the next event) next to the variables of the specification it *)
(* re-uses; every trace action is                                          *)
(*     IsEvent("name") /\ <bind logged fields> /\ SpecAction(args)         *)
(* An event {"ev":"reset"} separates independent runs in one file.         *)
(* Acceptance: POSTCONDITION TraceVerdict prints <<"TRACE", matched, n>>;  *)
(* bin/check reads that line (matched = n  <=>  accepted).  The state graph *)
(* of a trace spec is a path (or a narrow DAG when unlogged choices are     *)
(* resolved by TLC), so the diameter is the longest matched prefix + 1.    *)
EXTENDS Json, IOUtils, TLC, Sequences, Naturals

Rec == ndJsonDeserialize(IOEnv.TRACE)
NRec == Len(Rec)

Has(r, f) == f \in DOMAIN r

TraceVerdict ==
    LET d == TLCGet("stats").diameter
        matched == IF d > 0 THEN d - 1 ELSE 0
    IN  /\ PrintT(<<"TRACE", matched, NRec>>)
        /\ IF matched < NRec THEN PrintT(<<"UNMATCHED", matched + 1, Rec[matched + 1]>>) ELSE TRUE
=============================================================================
