---- MODULE TestBigNat ----
EXTENDS BigNat, TLC
S == {-100020003, -10000, -9999, -1, 0, 1, 9999, 10000, 12345678, 99999999}
ASSUME \A a \in S, b \in S :
   /\ ToInt(Add(FromInt(a), FromInt(b))) = a + b
   /\ ToInt(Sub(FromInt(a), FromInt(b))) = a - b
   /\ Cmp(FromInt(a), FromInt(b)) = (IF a < b THEN -1 ELSE IF a > b THEN 1 ELSE 0)
   /\ IsBig(Add(FromInt(a), FromInt(b)))
ASSUME \A a \in {-12345, -1, 0, 1, 7, 9999, 10000, 12345} , b \in {-12345, -1, 0, 3, 9999, 10001} :
   /\ ToInt(Mul(FromInt(a), FromInt(b))) = a * b
   /\ ToInt(MulSmall(FromInt(a), 7)) = a * 7
ASSUME \A a \in S : \A k \in {1, 3, 7, 10000, 65535} :
   /\ ToInt(FloorDivSmall(FromInt(a), k)) = a \div k
   /\ ToInt(QuotSmall(FromInt(a), k)) = (IF a < 0 THEN -((-a) \div k) ELSE a \div k)
ASSUME Mul(Pow10(17), Pow10(17)) = Pow10(34)
ASSUME PrintT(<<"ok", Mul(FromInt(99999999), FromInt(99999999))>>)
====
