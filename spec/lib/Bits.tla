------------------------------- MODULE Bits -------------------------------
(* Bit-sequence helpers shared by the bit-level specifications (C01, C02,  *)
(* C14).  A bit is 0 or 1; a bit sequence is an ordinary TLA+ sequence.    *)
(* Two number views are provided:                                          *)
(*   * MSB-first fixed-width fields (ToBits / FromBits) - TLC ints, w<=30; *)
(*   * LSB-first unbounded naturals (Lsb..) - so that 64-bit and larger     *)
(*     quantities can be handled although TLC ints are 32-bit.             *)
(* Everything is TLC-evaluable; no operator enumerates Seq(_).             *)
EXTENDS Naturals, Sequences

Bit == {0, 1}
IsBits(s) == \A i \in 1..Len(s) : s[i] \in Bit

MinN(a, b) == IF a <= b THEN a ELSE b

\* n copies of x
Rep(x, n) == [i \in 1..n |-> x]

\* concatenation of a sequence of sequences
RECURSIVE Flat(_)
Flat(ss) == IF ss = <<>> THEN <<>> ELSE Head(ss) \o Flat(Tail(ss))

---------------------------------------------------------------------------
\* MSB-first fixed-width fields

\* the w low bits of n, most significant first
ToBits(n, w) == [i \in 1..w |-> (n \div 2^(w - i)) % 2]

RECURSIVE FromBitsUpTo(_, _)
FromBitsUpTo(s, k) == IF k = 0 THEN 0 ELSE 2 * FromBitsUpTo(s, k - 1) + s[k]
\* value of a bit sequence read most significant first (Len(s) <= 30)
FromBits(s) == FromBitsUpTo(s, Len(s))

\* the k-th byte (k = 1..) of a bit stream, MSB first
ByteAt(s, k) ==
    LET j == 8 * (k - 1) IN
    128 * s[j + 1] + 64 * s[j + 2] + 32 * s[j + 3] + 16 * s[j + 4]
      + 8 * s[j + 5] + 4 * s[j + 6] + 2 * s[j + 7] + s[j + 8]

\* a bit stream whose length is a multiple of 8, as bytes; and back
PackBytes(s) == [k \in 1..(Len(s) \div 8) |-> ByteAt(s, k)]
UnpackBytes(bytes) ==
    [i \in 1..(8 * Len(bytes)) |-> (bytes[((i - 1) \div 8) + 1] \div 2^(7 - ((i - 1) % 8))) % 2]

---------------------------------------------------------------------------
\* LSB-first naturals of any size (s[1] is the least significant bit)

RECURSIVE LsbTrim(_)
LsbTrim(s) == IF s = <<>> THEN <<>>
              ELSE IF s[Len(s)] = 0 THEN LsbTrim(SubSeq(s, 1, Len(s) - 1)) ELSE s

RECURSIVE NatToLsb(_)
NatToLsb(n) == IF n = 0 THEN <<>> ELSE <<n % 2>> \o NatToLsb(n \div 2)

RECURSIVE LsbToNatFrom(_, _)
LsbToNatFrom(s, i) == IF i > Len(s) THEN 0 ELSE s[i] + 2 * LsbToNatFrom(s, i + 1)
\* only for values < 2^31
LsbToNat(s) == LsbToNatFrom(s, 1)

RECURSIVE LsbInc(_)
LsbInc(s) == IF s = <<>> THEN <<1>>
             ELSE IF s[1] = 0 THEN <<1>> \o Tail(s) ELSE <<0>> \o LsbInc(Tail(s))

\* s must denote a positive number
RECURSIVE LsbDecRaw(_)
LsbDecRaw(s) == IF s[1] = 1 THEN <<0>> \o Tail(s) ELSE <<1>> \o LsbDecRaw(Tail(s))
LsbDec(s) == LsbTrim(LsbDecRaw(s))

LsbIsZero(s) == \A i \in 1..Len(s) : s[i] = 0

\* the low w bits (padded with zeros when shorter)
LsbLow(s, w) == [i \in 1..w |-> IF i <= Len(s) THEN s[i] ELSE 0]
=============================================================================
