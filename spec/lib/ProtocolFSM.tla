---------------------------- MODULE ProtocolFSM ----------------------------
(* Generic Ouroboros mini-protocol state machine.                          *)
(*                                                                         *)
(* A protocol is a record                                                  *)
(*   [ name   |-> STRING,                                                  *)
(*     init   |-> initial state,                                           *)
(*     agency |-> [state |-> "client" | "server" | "nobody"],  (a record)  *)
(*     trans  |-> set of [from, msg, to] ]                                 *)
(* States are the field names of `agency`, messages the `msg` of `trans`.  *)
(* "client" is the initiator of the mini-protocol, "server" the responder. *)
(* All operators take the protocol record as first argument so that one    *)
(* module can hold many protocols (spec/proto/MiniProtocols.tla).          *)
EXTENDS Naturals, Sequences, FiniteSets

Roles == {"client", "server"}
Peer(r) == IF r = "client" THEN "server" ELSE "client"

Tr(from, msg, to) == [from |-> from, msg |-> msg, to |-> to]

States(P) == DOMAIN P.agency
Msgs(P)   == { t.msg : t \in P.trans }

\* the transition relation as a partial function of (state, message)
Has(P, s, m)  == \E t \in P.trans : t.from = s /\ t.msg = m
Next(P, s, m) == (CHOOSE t \in P.trans : t.from = s /\ t.msg = m).to
MsgsFrom(P, s) == { t.msg : t \in { u \in P.trans : u.from = s } }

HasAgency(P, r, s) == P.agency[s] = r
\* role r may send m in state s  /  may be sent m by its peer in state s
MaySend(P, r, s, m) == HasAgency(P, r, s) /\ Has(P, s, m)
MayRecv(P, r, s, m) == HasAgency(P, Peer(r), s) /\ Has(P, s, m)

\* run a message sequence from s; "_|_" when some message is not allowed
Bottom == "_|_"
RECURSIVE Run(_, _, _)
Run(P, s, ms) ==
    IF ms = <<>> THEN s
    ELSE IF s = Bottom \/ ~Has(P, s, Head(ms)) THEN Bottom
    ELSE Run(P, Next(P, s, Head(ms)), Tail(ms))

(* ------------------------------ well-formedness ------------------------ *)
Deterministic(P) ==
    \A t, u \in P.trans : (t.from = u.from /\ t.msg = u.msg) => t.to = u.to
Closed(P) ==
    /\ P.init \in States(P)
    /\ \A t \in P.trans : t.from \in States(P) /\ t.to \in States(P)
    /\ \A s \in States(P) : P.agency[s] \in Roles \cup {"nobody"}
\* exactly the terminal states have nobody's agency, and they have no exits
TerminalsSilent(P) ==
    \A s \in States(P) : (P.agency[s] = "nobody") <=> (MsgsFrom(P, s) = {})

RECURSIVE ReachFrom(_, _)
ReachFrom(P, S) ==
    LET N == S \cup { t.to : t \in { u \in P.trans : u.from \in S } }
    IN  IF N = S THEN S ELSE ReachFrom(P, N)
Reachable(P) == ReachFrom(P, {P.init})
AllReachable(P) == Reachable(P) = States(P)

WellFormed(P) ==
    Closed(P) /\ Deterministic(P) /\ TerminalsSilent(P) /\ AllReachable(P)

(* --------------------- shortest message path to a state ---------------- *)
\* breadth-first: Paths maps every state found so far to one shortest path
RECURSIVE Bfs(_, _, _)
Bfs(P, paths, frontier) ==
    IF frontier = {} THEN paths
    ELSE
      LET new == { t \in P.trans : t.from \in frontier /\ t.to \notin DOMAIN paths }
          tgt == { t.to : t \in new }
          pick(s) == CHOOSE t \in new : t.to = s
          np == [ s \in DOMAIN paths \cup tgt |->
                    IF s \in DOMAIN paths THEN paths[s]
                    ELSE Append(paths[pick(s).from], pick(s).msg) ]
      IN  Bfs(P, np, tgt)
ShortestPaths(P) == Bfs(P, [ s \in {P.init} |-> <<>> ], {P.init})
PathTo(P, s) == ShortestPaths(P)[s]
=============================================================================
