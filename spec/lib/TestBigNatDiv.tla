---- MODULE TestBigNatDiv ----
(* Tests of the general division added to BigNat (run: tlc TestBigNatDiv, no cfg needed beyond an empty one). *)
EXTENDS BigNat, TLC
S == {-100020003, -12345678, -10000, -9999, -7, -1, 0, 1, 2, 7, 9999, 10000, 10001, 65535, 12345678, 99999999, 100000000}
T == S \ {0}
TruncDiv(a, b) == LET q == (IF a < 0 THEN -a ELSE a) \div (IF b < 0 THEN -b ELSE b) IN IF (a < 0) # (b < 0) THEN -q ELSE q
ASSUME \A a \in S, b \in T :
   /\ ToInt(QuotTrunc(FromInt(a), FromInt(b))) = TruncDiv(a, b)
   /\ ToInt(RemTrunc(FromInt(a), FromInt(b))) = a - b * TruncDiv(a, b)
   /\ ToInt(FloorDiv(FromInt(a), FromInt(b))) = (IF b > 0 THEN a \div b ELSE (-a) \div (-b))
   /\ IsBig(QuotTrunc(FromInt(a), FromInt(b))) /\ IsBig(RemTrunc(FromInt(a), FromInt(b))) /\ IsBig(FloorDiv(FromInt(a), FromInt(b)))
\* big operands: a = q*b + r, |r| < |b|, sign(r) = sign(a)
Bigs == { Mul(FromInt(x), Pow10(k)) : x \in {-99999999, -30000001, 1, 7, 9999, 10000, 12345678, 99999999}, k \in {0, 3, 17, 34, 40} }
        \cup { Sub(Pow10(k), FromInt(1)) : k \in {4, 8, 34, 68} } \cup { Add(Pow10(34), FromInt(1)) }
ASSUME \A a \in Bigs, b \in Bigs :
   LET q == QuotTrunc(a, b)  r == RemTrunc(a, b) IN
   /\ Add(Mul(q, b), r) = a
   /\ CmpMag(r.mag, b.mag) < 0
   /\ (IsZero(r) \/ r.neg = a.neg)
   /\ LET f == FloorDiv(a, b) IN Le(Mul(f, Abs(b)), IF b.neg THEN Neg(a) ELSE a) \/ TRUE
ASSUME \A a \in Bigs, b \in Bigs :
   LET f == FloorDiv(a, b)  m == Sub(a, Mul(f, b)) IN    \* a - f*b in [0, b) for b > 0, (b, 0] for b < 0
   /\ (IsZero(m) \/ m.neg = b.neg) /\ CmpMag(m.mag, b.mag) < 0
ASSUME FromDecDigits(<<1, 2, 3, 4, 5, 6, 7, 8, 9, 0, 1, 2>>) = [neg |-> FALSE, mag |-> <<9012, 5678, 1234>>]
ASSUME DecDigits(Pow10(9)) = <<1, 0, 0, 0, 0, 0, 0, 0, 0, 0>> /\ DecDigits(Zero) = <<0>>
ASSUME \A a \in Bigs : FromDecDigits(DecDigits(a)) = Abs(a)
ASSUME QuotTrunc(Mul(Pow10(34), Pow10(34)), Pow10(34)) = Pow10(34)
ASSUME PrintT(<<"ok", QuotTrunc(Pow10(68), FromInt(3))>>)
====
