\* C40 behaviour generator, scenario "mint": every builder call from every distinct staging state (reached by a shortest call sequence)
CONSTANTS
  Scenario = "mint"
  MaxOps = 3
  Hashes = {1}
  Indexes = {0}
  Policies = {1, 2}
  Names = {1, 2}
  LongNames = {3}
  Amounts <- MCAmounts
  Fees = {}
  Slots = {}
  NetIds = {}
  KeyHashes = {}
  Data = {2}
  BadData = {}
  AuxPool = {}
  BadAux = {}
  OutputPool <- MCOutputPool
  Scripts <- MCScripts
  BadScripts <- MCBadScripts
  ExUnitsPool <- MCExUnits
INIT MCInit
NEXT MCNext
VIEW View
INVARIANTS BuildConforms MintNeverZero InputsSorted PointersCanonicalWhenNoDuplicates
PROPERTY RefinesSpec
CHECK_DEADLOCK FALSE
