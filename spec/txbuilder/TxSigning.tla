----------------------------- MODULE TxSigning -----------------------------
(* C41 - pallas-txbuilder BuiltTransaction::{sign, add_signature,          *)
(* remove_signature}  (pallas-txbuilder/src/transaction/model.rs).         *)
(*                                                                         *)
(* A built transaction carries                                             *)
(*   body, id  - the body bytes inside tx_bytes and the reported tx_hash   *)
(*   sigmap    - BuiltTransaction.signatures : Key -|-> Sig                *)
(*   wits      - the vkey witnesses found in tx_bytes, in wire order       *)
(* One action per public entry point.  A signature value is abstract:      *)
(* "valid" is *the* Ed25519 signature of `id` under the key it is filed    *)
(* under (what sign() must produce; add_signature may be handed it too),   *)
(* the members of Foreign are 64-byte strings that do not verify.          *)
(*                                                                         *)
(* Two layers:                                                             *)
(*  - Sign / AddSignature / RemoveSignature : the design (replace the      *)
(*    witness of that key, append the new one at the end; drop it);        *)
(*  - SignAny / AddSignatureAny / RemoveSignatureAny : what the property   *)
(*    demands - the same signature map, and *any* witness list that is in  *)
(*    step with it (the property does not fix the wire order).             *)
(* The design refines the property layer (checked by MCTxSigning); only    *)
(* the property layer decides implementation traces.                       *)
EXTENDS Sequences, Integers, FiniteSets, SequencesExt

CONSTANTS Keys,      \* key pool
          Foreign,   \* out-of-band signature values that are not valid
          Body0, Id0 \* body bytes / id of the freshly built transaction

VARIABLES body, id, sigmap, wits, last

vars == <<body, id, sigmap, wits, last>>

SigVals == {"valid"} \cup Foreign
Wit(k, s) == [key |-> k, sig |-> s]

\* function update on partial maps
Put(m, k, s) == [x \in DOMAIN m \cup {k} |-> IF x = k THEN s ELSE m[x]]
Del(m, k)    == [x \in DOMAIN m \ {k} |-> m[x]]
Empty        == [x \in {} |-> "valid"]

\* witness list w is in step with signature map m
AtMostOnePerKey(w) == \A i, j \in 1..Len(w) : i # j => w[i].key # w[j].key
AsSet(w)  == { w[i] : i \in 1..Len(w) }
MapSet(m) == { Wit(k, m[k]) : k \in DOMAIN m }
InStep(w, m) == AtMostOnePerKey(w) /\ AsSet(w) = MapSet(m)

Init ==
    /\ body = Body0 /\ id = Id0
    /\ sigmap = Empty /\ wits = <<>>
    /\ last = [op |-> "built"]

Without(w, k) == SelectSeq(w, LAMBDA x : x.key # k)

---------------------------------------------------------------------------
\* design layer (what the repaired code does)
Sign(k) ==
    /\ sigmap' = Put(sigmap, k, "valid")
    /\ wits' = Append(Without(wits, k), Wit(k, "valid"))
    /\ last' = [op |-> "sign", k |-> k]
    /\ UNCHANGED <<body, id>>

AddSignature(k, s) ==
    /\ sigmap' = Put(sigmap, k, s)
    /\ wits' = Append(Without(wits, k), Wit(k, s))
    /\ last' = [op |-> "add_signature", k |-> k, s |-> s]
    /\ UNCHANGED <<body, id>>

\* total: an absent key and the last key are fine (empty witness list)
RemoveSignature(k) ==
    /\ sigmap' = Del(sigmap, k)
    /\ wits' = Without(wits, k)
    /\ last' = [op |-> "remove_signature", k |-> k]
    /\ UNCHANGED <<body, id>>

Next == \/ \E k \in Keys : Sign(k)
        \/ \E k \in Keys, s \in SigVals : AddSignature(k, s)
        \/ \E k \in Keys : RemoveSignature(k)

Spec == Init /\ [][Next]_vars

---------------------------------------------------------------------------
\* property layer: same map, any witness list in step with it.  `w` is the
\* witness list observed after the call (a parameter so that a trace spec
\* binds it to the logged list instead of enumerating orders).
SignAny(k, w) ==
    /\ sigmap' = Put(sigmap, k, "valid")
    /\ InStep(w, sigmap') /\ wits' = w
    /\ last' = [op |-> "sign", k |-> k]
    /\ UNCHANGED <<body, id>>

AddSignatureAny(k, s, w) ==
    /\ sigmap' = Put(sigmap, k, s)
    /\ InStep(w, sigmap') /\ wits' = w
    /\ last' = [op |-> "add_signature", k |-> k, s |-> s]
    /\ UNCHANGED <<body, id>>

RemoveSignatureAny(k, w) ==
    /\ sigmap' = Del(sigmap, k)
    /\ InStep(w, sigmap') /\ wits' = w
    /\ last' = [op |-> "remove_signature", k |-> k]
    /\ UNCHANGED <<body, id>>

\* all witness lists over the key pool with distinct keys (MC only)
Orders(m) == { [i \in 1..Len(ks) |-> Wit(ks[i], m[ks[i]])] : ks \in SetToSeqs(DOMAIN m) }

NextAny == \/ \E k \in Keys : \E w \in Orders(Put(sigmap, k, "valid")) : SignAny(k, w)
           \/ \E k \in Keys, s \in SigVals : \E w \in Orders(Put(sigmap, k, s)) : AddSignatureAny(k, s, w)
           \/ \E k \in Keys : \E w \in Orders(Del(sigmap, k)) : RemoveSignatureAny(k, w)

SpecAny == Init /\ [][NextAny]_vars

---------------------------------------------------------------------------
\* What C41 states.
TypeOK ==
    /\ DOMAIN sigmap \subseteq Keys
    /\ \A k \in DOMAIN sigmap : sigmap[k] \in SigVals
    /\ \A i \in 1..Len(wits) : wits[i].key \in Keys /\ wits[i].sig \in SigVals

BodyAndIdUnchanged == body = Body0 /\ id = Id0
OneWitnessPerKey   == AtMostOnePerKey(wits)
WitnessesAreTheMap == AsSet(wits) = MapSet(sigmap) /\ Len(wits) = Cardinality(DOMAIN sigmap)

\* every entry point is enabled in every reachable state (no panic: removing
\* an absent or the last key, signing twice, replacing a signature)
Total == /\ \A k \in Keys : ENABLED Sign(k) /\ ENABLED RemoveSignature(k)
         /\ \A k \in Keys, s \in SigVals : ENABLED AddSignature(k, s)

\* sign() files the valid signature of the id under the signer's key
SignProducesValid ==
    [][\A k \in Keys : (last' = [op |-> "sign", k |-> k]) =>
          /\ k \in DOMAIN sigmap' /\ sigmap'[k] = "valid"
          /\ Wit(k, "valid") \in AsSet(wits')]_vars

\* the other keys' entries are untouched by an operation on k
OthersUntouched ==
    [][\A k \in Keys : (last'.op # "built" /\ last'.k = k) =>
          \A o \in Keys \ {k} :
             /\ (o \in DOMAIN sigmap') = (o \in DOMAIN sigmap)
             /\ o \in DOMAIN sigmap => sigmap'[o] = sigmap[o]]_vars

RemoveRemoves ==
    [][\A k \in Keys : (last' = [op |-> "remove_signature", k |-> k]) =>
          k \notin DOMAIN sigmap' /\ \A i \in 1..Len(wits') : wits'[i].key # k]_vars
=============================================================================
