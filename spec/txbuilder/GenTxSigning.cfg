CONSTANTS
  Keys = {1, 2, 3}
  Foreign = {"f1"}
  Body0 = "B"
  Id0 = "I"
  MaxOps = 3
INIT GInit
NEXT GNext
INVARIANT Emit
CHECK_DEADLOCK FALSE
