--------------------------- MODULE TraceTxBuilder ---------------------------
(* Trace validation for C40 (impl -> spec): one event per builder call on  *)
(* a real StagingTransaction, {"ev": <method name>, <arguments>}, and      *)
(*   {"ev":"build","out":{"res":"ok","tx":{..},"id":HEX,"body_hash":HEX}}   *)
(*   {"ev":"build","out":{"res":"error","err":..}}                          *)
(*   {"ev":"build","out":{"res":"panic","msg":..}}                          *)
(*   {"ev":"reset"}                       a fresh StagingTransaction::new() *)
(* for build_conway_raw on a clone of the staging transaction; `tx` is the  *)
(* projection of MultiEraTx::decode(tx_bytes), `body_hash` the Blake2b-256  *)
(* of the body bytes found in tx_bytes (H is uninterpreted here).           *)
(* A build outcome is decided by Conforms(st, out) of TxBuilder.  So that   *)
(* one run lists every non-conforming build, a rejected outcome does not    *)
(* end the trace: TBuildRejected prints <<"REJECT", index, clause>> and     *)
(* goes on; the check reads those lines (no REJECT line and every event     *)
(* matched <=> accepted).                                                   *)
EXTENDS TxBuilder, TraceKit

VARIABLE l
IsEvent(e) == l <= NRec /\ Rec[l].ev = e /\ l' = l + 1
r == Rec[l]
X == <<r.h, r.i>>

TBadScripts == { <<"native", 9>> }

TInit == Init /\ l = 1

TReset == IsEvent("reset") /\ st' = [inputs |-> <<>>, refs |-> <<>>, colls |-> <<>>, outputs |-> <<>>, collout |-> None,
              fee |-> None, mint |-> EmptyFn, vfrom |-> None, ttl |-> None, net |-> None,
              signers |-> <<>>, scripts |-> {}, datums |-> {}, redeemers |-> EmptyFn,
              langs |-> {}, aux |-> None]

TOps ==
    \/ IsEvent("input") /\ Input(X)
    \/ IsEvent("remove_input") /\ RemoveInput(X)
    \/ IsEvent("reference_input") /\ ReferenceInput(X)
    \/ IsEvent("remove_reference_input") /\ RemoveReferenceInput(X)
    \/ IsEvent("collateral_input") /\ CollateralInput(X)
    \/ IsEvent("remove_collateral_input") /\ RemoveCollateralInput(X)
    \/ IsEvent("output") /\ Output(r.o)
    \/ IsEvent("remove_output") /\ RemoveOutput(r.idx)
    \/ IsEvent("collateral_output") /\ CollateralOutput(r.o)
    \/ IsEvent("clear_collateral_output") /\ ClearCollateralOutput
    \/ IsEvent("fee") /\ Fee(r.v)
    \/ IsEvent("clear_fee") /\ ClearFee
    \/ IsEvent("mint_asset") /\ MintAsset(r.p, r.n, r.a)
    \/ IsEvent("remove_mint_asset") /\ RemoveMintAsset(r.p, r.n)
    \/ IsEvent("valid_from_slot") /\ ValidFromSlot(r.v)
    \/ IsEvent("clear_valid_from_slot") /\ ClearValidFromSlot
    \/ IsEvent("invalid_from_slot") /\ InvalidFromSlot(r.v)
    \/ IsEvent("clear_invalid_from_slot") /\ ClearInvalidFromSlot
    \/ IsEvent("network_id") /\ NetworkId(r.v)
    \/ IsEvent("clear_network_id") /\ ClearNetworkId
    \/ IsEvent("disclosed_signer") /\ DisclosedSigner(r.k)
    \/ IsEvent("remove_disclosed_signer") /\ RemoveDisclosedSigner(r.k)
    \/ IsEvent("script") /\ Script(<<r.kind, r.s>>)
    \/ IsEvent("remove_script_by_hash") /\ RemoveScriptByHash(<<r.kind, r.s>>)
    \/ IsEvent("datum") /\ Datum(r.d)
    \/ IsEvent("remove_datum") /\ RemoveDatum(r.d)
    \/ IsEvent("remove_datum_by_hash") /\ RemoveDatum(r.d)
    \/ IsEvent("add_spend_redeemer") /\ AddSpendRedeemer(X, r.d, r.ex)
    \/ IsEvent("remove_spend_redeemer") /\ RemoveSpendRedeemer(X)
    \/ IsEvent("add_mint_redeemer") /\ AddMintRedeemer(r.p, r.d, r.ex)
    \/ IsEvent("remove_mint_redeemer") /\ RemoveMintRedeemer(r.p)
    \/ IsEvent("add_auxiliary_data") /\ AddAuxiliaryData(r.x)
    \/ IsEvent("clear_auxiliary_data") /\ ClearAuxiliaryData
    \/ IsEvent("add_language") /\ AddLanguage(r.kind)

TBuild         == IsEvent("build") /\ Conforms(st, r.out) /\ UNCHANGED st
TBuildRejected == IsEvent("build") /\ ~Conforms(st, r.out) /\ PrintT(<<"REJECT", l, Why(st, r.out)>>) /\ UNCHANGED st

TNext == TReset \/ TOps \/ TBuild \/ TBuildRejected
=============================================================================
