---------------------------- MODULE GenTxSigning ----------------------------
(* Behaviour generator for C41 (spec -> impl replay): every behaviour of   *)
(* the design layer with exactly MaxOps calls is printed once, with the    *)
(* model state after each call.  `hist` exists only in this module.        *)
(* The signature map is printed as an array over Keys = 1..N ("none" for   *)
(* an absent key).                                                         *)
EXTENDS TxSigning, TLC, Json
CONSTANT MaxOps
VARIABLE hist
MapArr(m) == [k \in Keys |-> IF k \in DOMAIN m THEN m[k] ELSE "none"]
GInit == Init /\ hist = <<>>
GNext == /\ Len(hist) < MaxOps
         /\ Next
         /\ hist' = Append(hist, [call |-> last', sigmap |-> MapArr(sigmap'), wits |-> wits',
                                  body |-> body', id |-> id'])
Emit == Len(hist) = MaxOps => PrintT(<<"VEC", ToJson(hist)>>)
=============================================================================
