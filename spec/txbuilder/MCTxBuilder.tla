---------------------------- MODULE MCTxBuilder ----------------------------
(* Bounded configurations of TxBuilder (C40): every staging state reachable *)
(* with at most MaxOps builder calls.  `ops` (the calls made) is a history  *)
(* variable hidden by VIEW, so TLC keeps one shortest call sequence per     *)
(* distinct staging state; every transition explored from it prints the     *)
(* extended call sequence with the design's Build(st') as the expected      *)
(* outcome (spec -> impl replay).                                           *)
EXTENDS TxBuilder, Json

CONSTANTS MaxOps, Scenario
VARIABLES n, ops

\* staged outputs: plain; assets accumulated over two add_asset calls, a
\* cancelled (zero) quantity and an inline datum; datum hash + script ref;
\* malformed inline datum
Out(a, l, adds, d, s) == [addr |-> a, lovelace |-> l, adds |-> adds, datum |-> d, script |-> s]
PoolAll == { Out(1, 2000000, <<>>, None, None),
             Out(2, 1500000, << <<1, 1, 2>>, <<2, 1, 5>>, <<1, 1, 1>> >>, <<"inline", 2>>, None),
             Out(1, 1200000, << <<1, 2, 7>> >>, <<"hash", 3>>, <<"plutus_v2", 1>>),
             Out(2, 1000000, <<>>, <<"inline", 9>>, <<"native", 1>>) }
PoolZero == { Out(1, 1100000, << <<1, 1, 0>>, <<2, 2, 4>> >>, None, None) }

MCOutputPool == CASE Scenario = "all"     -> PoolAll
                  [] Scenario = "outputs" -> PoolAll \cup PoolZero
                  [] OTHER                -> {}
MCScripts    == IF Scenario \in {"all", "witness"}
                THEN { <<"native", 1>>, <<"native", 9>>, <<"plutus_v1", 1>>, <<"plutus_v2", 1>>, <<"plutus_v3", 2>> } ELSE {}
MCBadScripts == { <<"native", 9>> }
MCExUnits    == { None, <<10, 20>> }
MCAmounts    == { 1, -1, 2 }
MCAmountsSmall == { 1, -1 }

Only(sc, S) == IF Scenario \in sc THEN S ELSE {}

\* two redeemer targets that sort against their index: <<1,1>> before <<2,0>>
SpendTargets == Only({"all", "inputs"}, InputRefs \cap { <<1, 1>>, <<2, 0>> })

MCInit == Init /\ n = 0 /\ ops = <<>>

\* the calls, with the JSON-able record describing each (op names = method names)
Call(rec, action) == action /\ ops' = Append(ops, rec)
XY(name, x) == [op |-> name, h |-> x[1], i |-> x[2]]

MCNext ==
    /\ n < MaxOps /\ n' = n + 1
    /\ \/ \E x \in InputRefs : Call(XY("input", x), Input(x))
       \/ \E x \in InputRefs : Call(XY("remove_input", x), RemoveInput(x))
       \/ \E x \in Only({"all", "outputs"}, InputRefs) : Call(XY("reference_input", x), ReferenceInput(x))
       \/ \E x \in Only({"all", "outputs"}, InputRefs) : Call(XY("remove_reference_input", x), RemoveReferenceInput(x))
       \/ \E x \in Only({"all", "outputs"}, InputRefs) : Call(XY("collateral_input", x), CollateralInput(x))
       \/ \E x \in Only({"all", "outputs"}, InputRefs) : Call(XY("remove_collateral_input", x), RemoveCollateralInput(x))
       \/ \E o \in OutputPool : Call([op |-> "output", o |-> o], Output(o))
       \/ \E i \in Only({"all", "outputs"}, 0..2) : Call([op |-> "remove_output", idx |-> i], RemoveOutput(i))
       \/ \E o \in OutputPool : Call([op |-> "collateral_output", o |-> o], CollateralOutput(o))
       \/ Scenario \in {"all", "outputs"} /\ Call([op |-> "clear_collateral_output"], ClearCollateralOutput)
       \/ \E v \in Fees : Call([op |-> "fee", v |-> v], Fee(v))
       \/ Fees # {} /\ Call([op |-> "clear_fee"], ClearFee)
       \/ \E p \in Policies, m \in Names \cup LongNames, a \in Amounts :
             Call([op |-> "mint_asset", p |-> p, n |-> m, a |-> a], MintAsset(p, m, a))
       \/ \E p \in Policies, m \in Names : Call([op |-> "remove_mint_asset", p |-> p, n |-> m], RemoveMintAsset(p, m))
       \/ \E v \in Slots : Call([op |-> "valid_from_slot", v |-> v], ValidFromSlot(v))
       \/ Slots # {} /\ Call([op |-> "clear_valid_from_slot"], ClearValidFromSlot)
       \/ \E v \in Slots : Call([op |-> "invalid_from_slot", v |-> v], InvalidFromSlot(v))
       \/ Slots # {} /\ Call([op |-> "clear_invalid_from_slot"], ClearInvalidFromSlot)
       \/ \E v \in NetIds : Call([op |-> "network_id", v |-> v], NetworkId(v))
       \/ NetIds # {} /\ Call([op |-> "clear_network_id"], ClearNetworkId)
       \/ \E k \in KeyHashes : Call([op |-> "disclosed_signer", k |-> k], DisclosedSigner(k))
       \/ \E k \in KeyHashes : Call([op |-> "remove_disclosed_signer", k |-> k], RemoveDisclosedSigner(k))
       \/ \E s \in Scripts : Call([op |-> "script", kind |-> s[1], s |-> s[2]], Script(s))
       \/ \E s \in Scripts : Call([op |-> "remove_script_by_hash", kind |-> s[1], s |-> s[2]], RemoveScriptByHash(s))
       \/ \E d \in Only({"all", "witness"}, Data \cup BadData) : Call([op |-> "datum", d |-> d], Datum(d))
       \/ \E d \in Only({"all", "witness"}, Data \cup BadData) : Call([op |-> "remove_datum", d |-> d], RemoveDatum(d))
       \/ \E d \in Only({"witness"}, Data) : Call([op |-> "remove_datum_by_hash", d |-> d], RemoveDatum(d))
       \/ \E x \in SpendTargets, d \in Data \cup BadData, ex \in ExUnitsPool :
             Call([op |-> "add_spend_redeemer", h |-> x[1], i |-> x[2], d |-> d, ex |-> ex], AddSpendRedeemer(x, d, ex))
       \/ \E x \in SpendTargets : Call(XY("remove_spend_redeemer", x), RemoveSpendRedeemer(x))
       \/ \E p \in Only({"all", "mint"}, Policies), d \in Data \cup BadData, ex \in ExUnitsPool :
             Call([op |-> "add_mint_redeemer", p |-> p, d |-> d, ex |-> ex], AddMintRedeemer(p, d, ex))
       \/ \E p \in Only({"all", "mint"}, Policies) : Call([op |-> "remove_mint_redeemer", p |-> p], RemoveMintRedeemer(p))
       \/ \E x \in AuxPool \cup BadAux : Call([op |-> "add_auxiliary_data", x |-> x], AddAuxiliaryData(x))
       \/ AuxPool # {} /\ Call([op |-> "clear_auxiliary_data"], ClearAuxiliaryData)
       \/ \E k \in Only({"all", "witness"}, {"native", "plutus_v2"}) : Call([op |-> "add_language", kind |-> k], AddLanguage(k))
    \* one vector per explored transition: the calls made and the outcome the design expects
    /\ PrintT(<<"VEC", ToJson([ops |-> ops', expect |-> Build(st')])>>)

\* breadth-first search with one worker reaches every staging state first by a shortest
\* call sequence; every builder call offered in that state is then a transition of its own
View == st

\* every MCNext step is a step of the specification
RefinesSpec == [][Next]_st

=============================================================================
