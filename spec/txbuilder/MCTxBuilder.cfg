\* all builder methods, small pools, MaxOps calls
CONSTANTS
  Scenario = "all"
  MaxOps = 2
  Hashes = {1, 2}
  Indexes = {0, 1}
  Policies = {1, 2}
  Names = {1}
  LongNames = {3}
  Amounts <- MCAmountsSmall
  Fees = {170000}
  Slots = {5}
  NetIds = {1, 2}
  KeyHashes = {1, 2}
  Data = {1}
  BadData = {9}
  AuxPool = {1}
  BadAux = {9}
  OutputPool <- MCOutputPool
  Scripts <- MCScripts
  BadScripts <- MCBadScripts
  ExUnitsPool <- MCExUnits
INIT MCInit
NEXT MCNext
VIEW View
INVARIANTS BuildConforms MintNeverZero InputsSorted PointersCanonicalWhenNoDuplicates
PROPERTY RefinesSpec
CHECK_DEADLOCK FALSE
