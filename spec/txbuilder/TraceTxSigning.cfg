CONSTANTS
  Keys = {1, 2, 3}
  Foreign = {"f1", "f2"}
  Body0 = "unused"
  Id0 = "unused"
INIT TInit
NEXT TNext
CHECK_DEADLOCK FALSE
POSTCONDITION TraceVerdict
