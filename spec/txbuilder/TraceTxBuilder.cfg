CONSTANTS
  Hashes = {}
  Indexes = {}
  Policies = {}
  Names = {}
  LongNames = {3}
  Amounts = {}
  OutputPool = {}
  Fees = {}
  Slots = {}
  NetIds = {}
  KeyHashes = {}
  Data = {}
  BadData = {9}
  Scripts = {}
  BadScripts <- TBadScripts
  ExUnitsPool = {}
  AuxPool = {}
  BadAux = {9}
INIT TInit
NEXT TNext
CHECK_DEADLOCK FALSE
POSTCONDITION TraceVerdict
