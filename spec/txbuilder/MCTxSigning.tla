---------------------------- MODULE MCTxSigning ----------------------------
(* Exhaustive configuration of TxSigning (C41): the whole reachable state  *)
(* space over the key pool (every history, of any length), the property    *)
(* invariants on the design layer, and design => property layer.           *)
EXTENDS TxSigning, TLC

\* the design refines the property layer step by step
DesignRefinesProperty == [][NextAny]_vars
=============================================================================
