\* C40 behaviour generator, scenario "outputs": every builder call from every distinct staging state (reached by a shortest call sequence)
CONSTANTS
  Scenario = "outputs"
  MaxOps = 2
  Hashes = {1, 2}
  Indexes = {0}
  Policies = {}
  Names = {}
  LongNames = {}
  Amounts <- MCAmounts
  Fees = {170000}
  Slots = {5, 90}
  NetIds = {0, 1, 2}
  KeyHashes = {1, 2}
  Data = {}
  BadData = {9}
  AuxPool = {1}
  BadAux = {9}
  OutputPool <- MCOutputPool
  Scripts <- MCScripts
  BadScripts <- MCBadScripts
  ExUnitsPool <- MCExUnits
INIT MCInit
NEXT MCNext
VIEW View
INVARIANTS BuildConforms MintNeverZero InputsSorted PointersCanonicalWhenNoDuplicates
PROPERTY RefinesSpec
CHECK_DEADLOCK FALSE
