--------------------------- MODULE TraceTxSigning ---------------------------
(* Trace validation for C41 (impl -> spec), against the *property layer*   *)
(* of TxSigning.  One event per public call on a real BuiltTransaction:    *)
(*   {"ev":"built","body":HEX,"id":HEX}            a fresh transaction     *)
(*   {"ev":"sign","k":K,"body":..,"id":..,"sigmap":[..],"wits":[{key,sig}]} *)
(*   {"ev":"add_signature","k":K,"s":S, ...}                                *)
(*   {"ev":"remove_signature","k":K, ...}                                   *)
(*   {"ev":"err","op":..}      the call returned Err: the transaction was   *)
(*                             consumed; the driver goes on with the copy   *)
(*                             taken before the call (state unchanged)      *)
(*   {"ev":"panic",..}         matches no action                            *)
(* body/id are the hex of the raw body bytes found in tx_bytes and of      *)
(* tx_hash; sigmap is BuiltTransaction.signatures as an array over the key *)
(* pool ("none" = absent); wits are the vkey witnesses decoded from         *)
(* tx_bytes, key 0 = not a pool key; sig "valid" = verifies for tx_hash    *)
(* under that key, "f1".. = a known foreign string, "other" = anything     *)
(* else.                                                                   *)
EXTENDS TxSigning, TraceKit

VARIABLES l, body0, id0
tvars == <<body, id, sigmap, wits, last, l, body0, id0>>

IsEvent(e) == l <= NRec /\ Rec[l].ev = e /\ l' = l + 1

\* logged projection of the implementation state after the call
Observed(r) ==
    /\ body' = r.body /\ id' = r.id
    /\ r.body = body0 /\ r.id = id0
    /\ \A k \in Keys : r.sigmap[k] = (IF k \in DOMAIN sigmap' THEN sigmap'[k] ELSE "none")
    /\ Len(r.sigmap) = Cardinality(Keys)

TInit == /\ l = 1 /\ body0 = "" /\ id0 = ""
         /\ body = "" /\ id = "" /\ sigmap = Empty /\ wits = <<>> /\ last = [op |-> "built"]

\* the spec's UNCHANGED <<body, id>> is relative to the built transaction
Same == UNCHANGED <<body0, id0>>

TBuilt == /\ IsEvent("built")
          /\ body' = Rec[l].body /\ id' = Rec[l].id /\ body0' = Rec[l].body /\ id0' = Rec[l].id
          /\ sigmap' = Empty /\ wits' = <<>> /\ last' = [op |-> "built"]
          /\ Rec[l].wits = <<>> /\ \A k \in Keys : Rec[l].sigmap[k] = "none"

TSign   == IsEvent("sign") /\ Same /\ SignAny(Rec[l].k, Rec[l].wits) /\ Observed(Rec[l])
TAdd    == IsEvent("add_signature") /\ Same /\ AddSignatureAny(Rec[l].k, Rec[l].s, Rec[l].wits) /\ Observed(Rec[l])
TRemove == IsEvent("remove_signature") /\ Same /\ RemoveSignatureAny(Rec[l].k, Rec[l].wits) /\ Observed(Rec[l])
TErr    == IsEvent("err") /\ Same /\ UNCHANGED vars

TNext == TBuilt \/ TSign \/ TAdd \/ TRemove \/ TErr
=============================================================================
