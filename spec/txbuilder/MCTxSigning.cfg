CONSTANTS
  Keys = {1, 2, 3}
  Foreign = {"f1", "f2"}
  Body0 = "B"
  Id0 = "I"
INIT Init
NEXT Next
INVARIANTS TypeOK BodyAndIdUnchanged OneWitnessPerKey WitnessesAreTheMap Total
PROPERTIES SignProducesValid OthersUntouched RemoveRemoves DesignRefinesProperty
CHECK_DEADLOCK TRUE
