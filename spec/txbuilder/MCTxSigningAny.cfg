CONSTANTS
  Keys = {1, 2, 3}
  Foreign = {"f1", "f2"}
  Body0 = "B"
  Id0 = "I"
INIT Init
NEXT NextAny
INVARIANTS TypeOK BodyAndIdUnchanged OneWitnessPerKey WitnessesAreTheMap
PROPERTIES SignProducesValid OthersUntouched RemoveRemoves
CHECK_DEADLOCK TRUE
