\* C40 behaviour generator, scenario "inputs": every builder call from every distinct staging state (reached by a shortest call sequence)
CONSTANTS
  Scenario = "inputs"
  MaxOps = 4
  Hashes = {1, 2}
  Indexes = {0, 1}
  Policies = {}
  Names = {}
  LongNames = {}
  Amounts <- MCAmounts
  Fees = {}
  Slots = {}
  NetIds = {}
  KeyHashes = {}
  Data = {1}
  BadData = {}
  AuxPool = {}
  BadAux = {}
  OutputPool <- MCOutputPool
  Scripts <- MCScripts
  BadScripts <- MCBadScripts
  ExUnitsPool <- MCExUnits
INIT MCInit
NEXT MCNext
VIEW View
INVARIANTS BuildConforms MintNeverZero InputsSorted PointersCanonicalWhenNoDuplicates
PROPERTY RefinesSpec
CHECK_DEADLOCK FALSE
