----------------------------- MODULE TxBuilder -----------------------------
(* C40 - pallas-txbuilder: StagingTransaction builder methods and          *)
(* BuildConway::build_conway_raw (pallas-txbuilder/src/transaction/model.rs *)
(* and src/conway.rs).                                                     *)
(*                                                                         *)
(* `st` is the staging record; one action per builder method, named after  *)
(* it.  Byte strings are abstracted to small labels (tx hashes, policies,  *)
(* names, key hashes, datums, scripts, auxiliary data); label order is the *)
(* byte order of what the harness maps them to.  An optional value is a    *)
(* sequence of length <= 1.                                                *)
(*                                                                         *)
(* Two layers:                                                             *)
(*  - Build(st)          the design: the abstract Conway transaction the   *)
(*                       builder is expected to produce, or "error";       *)
(*  - Conforms(st, out)  what C40 demands of an observed build outcome,    *)
(*                       nothing more (errors are accepted, panics never,  *)
(*                       set-like fields compared as sets, zero amounts    *)
(*                       omitted, redeemer pointers in canonical order).   *)
(* MCTxBuilder checks Conforms(st, Build(st)) on every reachable staging   *)
(* state; implementation outcomes are decided by Conforms only.            *)
EXTENDS Sequences, Integers, FiniteSets, SequencesExt, TLC

CONSTANTS
    Hashes, Indexes,        \* transaction hash labels, output indexes
    Policies, Names,        \* mint policy labels, asset name labels
    LongNames,              \* asset names of more than 32 bytes (rejected by mint_asset)
    Amounts,                \* mint/burn amounts offered to mint_asset
    OutputPool,             \* staged outputs offered to output / collateral_output
    Fees, Slots, NetIds,    \* NetIds may contain values other than 0/1 (build error)
    KeyHashes,              \* disclosed signers
    Data, BadData,          \* well-formed / malformed PlutusData labels
    Scripts,                \* <<kind, label>> pairs; kind \in ScriptKinds
    BadScripts,             \* subset of Scripts: native scripts that do not decode
    ExUnitsPool,            \* optional budgets: <<>> or <<mem, steps>>
    AuxPool, BadAux         \* well-formed / undecodable auxiliary data labels

VARIABLE st

ScriptKinds == {"native", "plutus_v1", "plutus_v2", "plutus_v3"}
InputRefs == Hashes \X Indexes
None == <<>>
Some(x) == <<x>>
EmptyFn == [x \in {} |-> 0]

Init == st = [inputs |-> <<>>, refs |-> <<>>, colls |-> <<>>, outputs |-> <<>>, collout |-> None,
              fee |-> None, mint |-> EmptyFn, vfrom |-> None, ttl |-> None, net |-> None,
              signers |-> <<>>, scripts |-> {}, datums |-> {}, redeemers |-> EmptyFn,
              langs |-> {}, aux |-> None]

Without(s, x) == SelectSeq(s, LAMBDA y : y # x)
Put(f, k, v) == [x \in DOMAIN f \cup {k} |-> IF x = k THEN v ELSE f[x]]
Del(f, k) == [x \in DOMAIN f \ {k} |-> f[x]]

---------------------------------------------------------------------------
\* builder methods (model.rs)
Input(x)                 == st' = [st EXCEPT !.inputs = Append(@, x)]
RemoveInput(x)           == st' = [st EXCEPT !.inputs = Without(@, x)]
ReferenceInput(x)        == st' = [st EXCEPT !.refs = Append(@, x)]
RemoveReferenceInput(x)  == st' = [st EXCEPT !.refs = Without(@, x)]
CollateralInput(x)       == st' = [st EXCEPT !.colls = Append(@, x)]
RemoveCollateralInput(x) == st' = [st EXCEPT !.colls = Without(@, x)]
Output(o)                == st' = [st EXCEPT !.outputs = Append(@, o)]
\* zero-based index; Vec::remove panics beyond the end: a staging-time
\* precondition, outside C40 (which is about build) - only valid indexes here
RemoveOutput(i)          == i < Len(st.outputs) /\ st' = [st EXCEPT !.outputs = RemoveAt(@, i + 1)]
CollateralOutput(o)      == st' = [st EXCEPT !.collout = Some(o)]
ClearCollateralOutput    == st' = [st EXCEPT !.collout = None]
Fee(v)                   == st' = [st EXCEPT !.fee = Some(v)]
ClearFee                 == st' = [st EXCEPT !.fee = None]
\* accumulates; an over-long name is rejected (Err, nothing staged)
MintAsset(p, n, a) ==
    IF n \in LongNames THEN UNCHANGED st
    ELSE st' = [st EXCEPT !.mint = Put(@, <<p, n>>, IF <<p, n>> \in DOMAIN @ THEN @[<<p, n>>] + a ELSE a)]
RemoveMintAsset(p, n)    == st' = [st EXCEPT !.mint = Del(@, <<p, n>>)]
ValidFromSlot(v)         == st' = [st EXCEPT !.vfrom = Some(v)]
ClearValidFromSlot       == st' = [st EXCEPT !.vfrom = None]
InvalidFromSlot(v)       == st' = [st EXCEPT !.ttl = Some(v)]
ClearInvalidFromSlot     == st' = [st EXCEPT !.ttl = None]
NetworkId(v)             == st' = [st EXCEPT !.net = Some(v)]
ClearNetworkId           == st' = [st EXCEPT !.net = None]
DisclosedSigner(k)       == st' = [st EXCEPT !.signers = Append(@, k)]
RemoveDisclosedSigner(k) == st' = [st EXCEPT !.signers = Without(@, k)]
\* keyed by the language-tagged hash of the bytes: a set of <<kind, label>>
Script(s)                == st' = [st EXCEPT !.scripts = @ \cup {s}]
RemoveScriptByHash(s)    == st' = [st EXCEPT !.scripts = @ \ {s}]
Datum(d)                 == st' = [st EXCEPT !.datums = @ \cup {d}]
RemoveDatum(d)           == st' = [st EXCEPT !.datums = @ \ {d}]
AddSpendRedeemer(x, d, ex)  == st' = [st EXCEPT !.redeemers = Put(@, <<"spend", x[1], x[2]>>, [data |-> d, ex |-> ex])]
RemoveSpendRedeemer(x)      == st' = [st EXCEPT !.redeemers = Del(@, <<"spend", x[1], x[2]>>)]
AddMintRedeemer(p, d, ex)   == st' = [st EXCEPT !.redeemers = Put(@, <<"mint", p, 0>>, [data |-> d, ex |-> ex])]
RemoveMintRedeemer(p)       == st' = [st EXCEPT !.redeemers = Del(@, <<"mint", p, 0>>)]
\* undecodable auxiliary data is silently ignored
AddAuxiliaryData(x)      == IF x \in BadAux THEN UNCHANGED st ELSE st' = [st EXCEPT !.aux = Some(x)]
ClearAuxiliaryData       == st' = [st EXCEPT !.aux = None]
\* native is a no-op
AddLanguage(k)           == IF k = "native" THEN UNCHANGED st ELSE st' = [st EXCEPT !.langs = @ \cup {k}]

Next ==
    \/ \E x \in InputRefs : Input(x)
    \/ \E x \in InputRefs : RemoveInput(x)
    \/ \E x \in InputRefs : ReferenceInput(x)
    \/ \E x \in InputRefs : RemoveReferenceInput(x)
    \/ \E x \in InputRefs : CollateralInput(x)
    \/ \E x \in InputRefs : RemoveCollateralInput(x)
    \/ \E o \in OutputPool : Output(o)
    \/ \E i \in 0..2 : RemoveOutput(i)
    \/ \E o \in OutputPool : CollateralOutput(o)
    \/ ClearCollateralOutput
    \/ \E v \in Fees : Fee(v)
    \/ ClearFee
    \/ \E p \in Policies, n \in Names \cup LongNames, a \in Amounts : MintAsset(p, n, a)
    \/ \E p \in Policies, n \in Names : RemoveMintAsset(p, n)
    \/ \E v \in Slots : ValidFromSlot(v)
    \/ ClearValidFromSlot
    \/ \E v \in Slots : InvalidFromSlot(v)
    \/ ClearInvalidFromSlot
    \/ \E v \in NetIds : NetworkId(v)
    \/ ClearNetworkId
    \/ \E k \in KeyHashes : DisclosedSigner(k)
    \/ \E k \in KeyHashes : RemoveDisclosedSigner(k)
    \/ \E s \in Scripts : Script(s)
    \/ \E s \in Scripts : RemoveScriptByHash(s)
    \/ \E d \in Data \cup BadData : Datum(d)
    \/ \E d \in Data \cup BadData : RemoveDatum(d)
    \/ \E x \in InputRefs, d \in Data \cup BadData, ex \in ExUnitsPool : AddSpendRedeemer(x, d, ex)
    \/ \E x \in InputRefs : RemoveSpendRedeemer(x)
    \/ \E p \in Policies, d \in Data \cup BadData, ex \in ExUnitsPool : AddMintRedeemer(p, d, ex)
    \/ \E p \in Policies : RemoveMintRedeemer(p)
    \/ \E x \in AuxPool \cup BadAux : AddAuxiliaryData(x)
    \/ ClearAuxiliaryData
    \/ \E k \in ScriptKinds : AddLanguage(k)

Spec == Init /\ [][Next]_st

---------------------------------------------------------------------------
\* helpers shared by both layers
InputLess(a, b) == a[1] < b[1] \/ (a[1] = b[1] /\ a[2] < b[2])
IntLess(a, b) == a < b
FirstPos(s, x) == SelectInSeq(s, LAMBDA y : y = x)      \* 1-based, 0 = absent
SeqSum(s) == FoldSeq(LAMBDA a, acc : a + acc, 0, s)

\* Output::add_asset accumulates per (policy, name); `adds` is the call list
AssetKeys(adds) == { <<a[1], a[2]>> : a \in ToSet(adds) }
AssetQty(adds, k) == SeqSum([i \in 1..Len(adds) |-> IF <<adds[i][1], adds[i][2]>> = k THEN adds[i][3] ELSE 0])
\* quantities that can be put on the wire (a zero amount cannot)
WireAssets(adds) == { <<k[1], k[2], AssetQty(adds, k)>> : k \in { k \in AssetKeys(adds) : AssetQty(adds, k) # 0 } }
WireMint(s) == { <<k[1], k[2], s.mint[k]>> : k \in { k \in DOMAIN s.mint : s.mint[k] # 0 } }

OutputMalformed(o) ==
    \/ o.datum # None /\ o.datum[1] = "inline" /\ o.datum[2] \in BadData
    \/ o.script # None /\ o.script \in { Some(b) : b \in BadScripts }
BuiltOutput(o) == [addr |-> o.addr, lovelace |-> o.lovelace, assets |-> SetToSeq(WireAssets(o.adds)),
                   datum |-> o.datum, script |-> o.script]

---------------------------------------------------------------------------
\* design layer: build_conway_raw
WireInputs(s) == SortSeq(s.inputs, InputLess)
MintPolicies(s) == SetToSortSeq({ m[1] : m \in WireMint(s) }, IntLess)

\* zero-based pointer of a staged redeemer, -1 when its target is missing
Pointer(s, pr) ==
    IF pr[1] = "spend" THEN FirstPos(WireInputs(s), <<pr[2], pr[3]>>) - 1
    ELSE FirstPos(MintPolicies(s), pr[2]) - 1

BuildFails(s) ==
    \/ \E i \in 1..Len(s.outputs) : OutputMalformed(s.outputs[i])
    \/ s.collout # None /\ OutputMalformed(s.collout[1])
    \/ s.net # None /\ s.net[1] \notin {0, 1}
    \/ s.scripts \cap BadScripts # {}
    \/ s.datums \cap BadData # {}
    \/ \E pr \in DOMAIN s.redeemers :
          \/ s.redeemers[pr].ex = None        \* budgets are not computed by this builder
          \/ s.redeemers[pr].data \in BadData
          \/ Pointer(s, pr) < 0

BuiltRedeemer(s, pr) == [tag |-> pr[1], idx |-> Pointer(s, pr), data |-> s.redeemers[pr].data,
                         mem |-> s.redeemers[pr].ex[1], steps |-> s.redeemers[pr].ex[2]]

BuiltTx(s) ==
    [inputs |-> WireInputs(s), refs |-> s.refs, colls |-> s.colls,
     outputs |-> [i \in 1..Len(s.outputs) |-> BuiltOutput(s.outputs[i])],
     collret |-> IF s.collout = None THEN None ELSE Some(BuiltOutput(s.collout[1])),
     fee |-> IF s.fee = None THEN 0 ELSE s.fee[1],
     mint |-> SetToSeq(WireMint(s)),
     vfrom |-> s.vfrom, ttl |-> s.ttl, net |-> s.net, signers |-> s.signers,
     scripts |-> SetToSeq(s.scripts), datums |-> SetToSeq(s.datums),
     redeemers |-> SetToSeq({ BuiltRedeemer(s, pr) : pr \in DOMAIN s.redeemers }),
     aux |-> s.aux, sdh |-> s.langs # {}]

\* H (Blake2b-256) is uninterpreted: an outcome carries the reported id and the
\* hash of the body bytes found in tx_bytes; the design makes them equal.
Build(s) == IF BuildFails(s) THEN [res |-> "error"]
            ELSE [res |-> "ok", tx |-> BuiltTx(s), id |-> "H(body)", body_hash |-> "H(body)"]

---------------------------------------------------------------------------
\* property layer: what C40 demands of an observed outcome `out` for staging
\* state `s`.  Sequences in `out` are in wire order.
OutputMatches(o, w) ==
    /\ w.addr = o.addr /\ w.lovelace = o.lovelace
    /\ ToSet(w.assets) = WireAssets(o.adds) /\ Len(w.assets) = Cardinality(WireAssets(o.adds))
    /\ w.datum = o.datum /\ w.script = o.script

\* the ledger's canonical order: the *set* of inputs, ascending by (hash, index);
\* the set of minted policies, ascending.  When the staged inputs hold a
\* duplicate and the wire repeats it, the position in the sorted wire list is
\* accepted as well (the property does not say what a duplicate becomes).
CanonInputs(tx) == SetToSortSeq(ToSet(tx.inputs), InputLess)
CanonPolicies(tx) == SetToSortSeq({ m[1] : m \in ToSet(tx.mint) }, IntLess)
PointsAt(tx, r, pr) ==
    IF pr[1] = "spend"
    THEN LET t == <<pr[2], pr[3]>>
             c == CanonInputs(tx)
             w == SortSeq(tx.inputs, InputLess)
         IN  \/ r.idx + 1 \in 1..Len(c) /\ c[r.idx + 1] = t
             \/ r.idx + 1 \in 1..Len(w) /\ w[r.idx + 1] = t
    ELSE LET c == CanonPolicies(tx)
         IN  r.idx + 1 \in 1..Len(c) /\ c[r.idx + 1] = pr[2]

RedeemerMatches(s, tx, pr, r) ==
    /\ r.tag = pr[1] /\ r.data = s.redeemers[pr].data
    /\ s.redeemers[pr].ex # None => (r.mem = s.redeemers[pr].ex[1] /\ r.steps = s.redeemers[pr].ex[2])
    /\ PointsAt(tx, r, pr)

TxMatches(s, tx) ==
    /\ ToSet(tx.inputs) = ToSet(s.inputs)
    /\ ToSet(tx.refs) = ToSet(s.refs)
    /\ ToSet(tx.colls) = ToSet(s.colls)
    /\ ToSet(tx.signers) = ToSet(s.signers)
    /\ Len(tx.outputs) = Len(s.outputs)
    /\ \A i \in 1..Len(s.outputs) : OutputMatches(s.outputs[i], tx.outputs[i])
    /\ Len(tx.collret) = Len(s.collout)
    /\ s.collout # None => OutputMatches(s.collout[1], tx.collret[1])
    /\ ToSet(tx.mint) = WireMint(s) /\ Len(tx.mint) = Cardinality(WireMint(s))
    /\ tx.vfrom = s.vfrom /\ tx.ttl = s.ttl /\ tx.net = s.net
    /\ ToSet(tx.datums) = s.datums /\ Len(tx.datums) = Cardinality(s.datums)
    /\ ToSet(tx.scripts) = s.scripts /\ Len(tx.scripts) = Cardinality(s.scripts)
    /\ tx.aux = s.aux
    /\ Len(tx.redeemers) = Cardinality(DOMAIN s.redeemers)
    /\ \A pr \in DOMAIN s.redeemers : \E i \in 1..Len(tx.redeemers) : RedeemerMatches(s, tx, pr, tx.redeemers[i])
    /\ \A i, j \in 1..Len(tx.redeemers) :
          i # j => <<tx.redeemers[i].tag, tx.redeemers[i].idx>> # <<tx.redeemers[j].tag, tx.redeemers[j].idx>>

Conforms(s, out) ==
    \/ out.res = "error"                      \* the builder may refuse; C40 speaks of what it accepts
    \/ /\ out.res = "ok"
       /\ out.id = out.body_hash              \* id = H[body bytes inside tx_bytes]
       /\ TxMatches(s, out.tx)

\* name of the first clause of Conforms that an outcome breaks ("" = conforms);
\* used to key findings, never to decide
Why(s, out) ==
    IF out.res = "error" THEN ""
    ELSE IF out.res # "ok" THEN       \* a panic: name the staged feature that is the likely site
         LET zm == \E k \in DOMAIN s.mint : s.mint[k] = 0
             zo == \E o \in ToSet(s.outputs) \cup ToSet(s.collout) : \E k \in AssetKeys(o.adds) : AssetQty(o.adds, k) = 0
         IN  IF \E pr \in DOMAIN s.redeemers : s.redeemers[pr].ex = None THEN "panic/redeemer-without-ex-units"
             ELSE IF zm /\ zo THEN "panic/zero-mint-amount-or-zero-output-asset"
             ELSE IF zm THEN "panic/zero-mint-amount"
             ELSE IF zo THEN "panic/zero-output-asset"
             ELSE "panic/other"
    ELSE LET tx == out.tx IN
         IF out.id # out.body_hash THEN "id"
    ELSE IF ToSet(tx.inputs) # ToSet(s.inputs) THEN "inputs"
    ELSE IF ToSet(tx.refs) # ToSet(s.refs) THEN "reference_inputs"
    ELSE IF ToSet(tx.colls) # ToSet(s.colls) THEN "collateral"
    ELSE IF ToSet(tx.signers) # ToSet(s.signers) THEN "signers"
    ELSE IF Len(tx.outputs) # Len(s.outputs) \/ \E i \in 1..Len(s.outputs) : ~OutputMatches(s.outputs[i], tx.outputs[i]) THEN "outputs"
    ELSE IF Len(tx.collret) # Len(s.collout) \/ (s.collout # None /\ ~OutputMatches(s.collout[1], tx.collret[1])) THEN "collateral_return"
    ELSE IF ToSet(tx.mint) # WireMint(s) \/ Len(tx.mint) # Cardinality(WireMint(s)) THEN "mint"
    ELSE IF tx.vfrom # s.vfrom \/ tx.ttl # s.ttl THEN "validity"
    ELSE IF tx.net # s.net THEN "network_id"
    ELSE IF ToSet(tx.datums) # s.datums \/ Len(tx.datums) # Cardinality(s.datums) THEN "datums"
    ELSE IF ToSet(tx.scripts) # s.scripts \/ Len(tx.scripts) # Cardinality(s.scripts) THEN "scripts"
    ELSE IF tx.aux # s.aux THEN "auxiliary_data"
    ELSE IF ~TxMatches(s, tx) THEN "redeemers"
    ELSE ""

\* the design satisfies the property
BuildConforms == Conforms(st, Build(st)) /\ Why(st, Build(st)) = ""

\* lemmas about the design (extra; not needed for the verdict)
PointersCanonicalWhenNoDuplicates ==
    (Build(st).res = "ok" /\ Cardinality(ToSet(st.inputs)) = Len(st.inputs)) =>
        \A i \in 1..Len(Build(st).tx.redeemers) :
            LET r == Build(st).tx.redeemers[i]
            IN  r.tag = "spend" =>
                  /\ <<"spend", CanonInputs(Build(st).tx)[r.idx + 1][1], CanonInputs(Build(st).tx)[r.idx + 1][2]>> \in DOMAIN st.redeemers
MintNeverZero ==
    Build(st).res = "ok" => \A i \in 1..Len(Build(st).tx.mint) : Build(st).tx.mint[i][3] # 0
InputsSorted ==
    Build(st).res = "ok" =>
        \A i \in 1..(Len(Build(st).tx.inputs) - 1) : ~InputLess(Build(st).tx.inputs[i + 1], Build(st).tx.inputs[i])
=============================================================================
