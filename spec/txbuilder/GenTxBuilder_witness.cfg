\* C40 behaviour generator, scenario "witness": every builder call from every distinct staging state (reached by a shortest call sequence)
CONSTANTS
  Scenario = "witness"
  MaxOps = 3
  Hashes = {1}
  Indexes = {0}
  Policies = {}
  Names = {}
  LongNames = {}
  Amounts <- MCAmounts
  Fees = {}
  Slots = {}
  NetIds = {}
  KeyHashes = {}
  Data = {1, 3}
  BadData = {9}
  AuxPool = {}
  BadAux = {}
  OutputPool <- MCOutputPool
  Scripts <- MCScripts
  BadScripts <- MCBadScripts
  ExUnitsPool <- MCExUnits
INIT MCInit
NEXT MCNext
VIEW View
INVARIANTS BuildConforms MintNeverZero InputsSorted PointersCanonicalWhenNoDuplicates
PROPERTY RefinesSpec
CHECK_DEADLOCK FALSE
