CONSTANTS
  Ints <- GenNone
  Datums <- GenNone
  Txs <- GenNone
INIT Init
NEXT MCNext
CHECK_DEADLOCK FALSE
