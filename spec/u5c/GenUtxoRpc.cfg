CONSTANTS
  Ks = {0, 7, 8, 16, 31, 32, 62, 63, 64, 65, 72, 128}
  Ints <- GenNone
  Datums <- GenNone
  Txs <- GenNone
INIT Init
NEXT MCNext
CHECK_DEADLOCK FALSE
