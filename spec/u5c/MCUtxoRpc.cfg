CONSTANTS
  Ints <- MCInts
  Datums <- MCDatums
  Txs <- MCTxs
INIT Init
NEXT MCNext
INVARIANTS IntsExact IntClass MinimalBytes DatumPreserved TxPreserved
CHECK_DEADLOCK FALSE
