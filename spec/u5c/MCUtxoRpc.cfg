CONSTANTS
  Ks = {0, 7, 8, 16, 31, 32, 62, 63, 64, 65, 72, 128}
  Ints <- MCInts
  Datums <- MCDatums
  Txs <- MCTxs
INIT Init
NEXT MCNext
INVARIANTS IntsExact IntClass MinimalBytes DatumPreserved TxPreserved
CHECK_DEADLOCK FALSE
