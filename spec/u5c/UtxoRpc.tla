------------------------------ MODULE UtxoRpc ------------------------------
(* C44 - pallas-utxorpc: mapping ledger data to the UTxO RPC schema         *)
(*   pallas-utxorpc/src/shared.rs, v1alpha/mod.rs, v1beta/mod.rs            *)
(*                                                                          *)
(* Integers are BigNat values (spec/lib/BigNat.tla): TLC's own integers are *)
(* 32-bit, the values at stake sit around 2^63 and 2^64.                    *)
(*                                                                          *)
(* An integer on the RPC side (u5c BigInt) is one of                        *)
(*   [cls |-> "int",   v |-> x]         a signed 64-bit value               *)
(*   [cls |-> "buint", bytes |-> bs]    big-endian magnitude of x  (x >= 0) *)
(*   [cls |-> "bnint", bytes |-> bs]    big-endian magnitude of -1 - x      *)
(* the same three shapes CBOR has for a Plutus integer (major type 0/1,     *)
(* tag 2, tag 3), so the ledger side of an integer is written the same way. *)
(*                                                                          *)
(* PROPERTY: Denote(rpc) = Denote(ledger) for every integer (Exact), and    *)
(* Preserve(ledgerTx, rpcTx) for the projected transaction content.         *)
(* DESIGN MODEL: MapInt / MapU64 / MapDatum / MapTx mirror the mapper       *)
(* (map_plutus_bigint, u64_to_bigint, map_plutus_datum, map_tx).            *)
EXTENDS BigNat, FiniteSets

---------------------------------------------------------------------------
\* ---- numbers ----
RECURSIVE Pow2(_)
Pow2(n) == IF n = 0 THEN FromInt(1) ELSE MulSmall(Pow2(n - 1), 2)
One == FromInt(1)
P63 == Pow2(63)
P64 == Pow2(64)
MinI64 == Neg(P63)
MaxI64 == Sub(P63, One)
InI64(x) == Le(MinI64, x) /\ Le(x, MaxI64)
InU64(x) == ~x.neg /\ Lt(x, P64)
\* what a CBOR major type 0 / 1 integer can hold
InCborInt(x) == Le(Neg(P64), x) /\ Lt(x, P64)

\* big-endian bytes <-> natural number
RECURSIVE FromBytesAcc(_, _, _)
FromBytesAcc(bs, i, acc) ==
    IF i > Len(bs) THEN acc ELSE FromBytesAcc(bs, i + 1, Add(MulSmall(acc, 256), FromInt(bs[i])))
FromBytes(bs) == FromBytesAcc(bs, 1, Zero)

RECURSIVE ToBytes(_)
ToBytes(x) ==    \* minimal big-endian bytes of x >= 0 (zero: no bytes)
    IF IsZero(x) THEN <<>> ELSE ToBytes(QuotSmall(x, 256)) \o <<RemSmall(x, 256)>>

Pad(bs, n) == [i \in 1..(n - Len(bs)) |-> 0] \o bs

\* ---- integers on either side ----
IntV(x)    == [cls |-> "int", v |-> x]
BigU(bs)   == [cls |-> "buint", bytes |-> bs]
BigN(bs)   == [cls |-> "bnint", bytes |-> bs]

Denote(r) == CASE r.cls = "int"   -> r.v
               [] r.cls = "buint" -> FromBytes(r.bytes)
               [] r.cls = "bnint" -> Sub(Neg(One), FromBytes(r.bytes))

\* the ledger-side shape of an integer x with a given CBOR encoding
Ledger(x, enc) ==
    IF enc = "int" THEN IntV(x)
    ELSE IF ~x.neg THEN BigU(ToBytes(x)) ELSE BigN(ToBytes(Sub(Neg(x), One)))

\* ---- design model of the mapper ----
\* map_plutus_bigint: a CBOR integer becomes Int when it fits 64 bits signed,
\* otherwise big-integer bytes; bignum-encoded values are passed through
MapInt(l) ==
    IF l.cls = "int"
    THEN IF InI64(l.v) THEN IntV(l.v)
         ELSE IF ~l.v.neg THEN BigU(ToBytes(l.v)) ELSE BigN(ToBytes(Sub(Neg(l.v), One)))
    ELSE l

\* u64_to_bigint (coin, fee, asset quantities): Int up to i64::MAX, else the 8 bytes of the u64
MapU64(x) == IF Le(x, MaxI64) THEN IntV(x) ELSE BigU(Pad(ToBytes(x), 8))

\* ---- the property ----
Exact(l, r) == Eq(Denote(r), Denote(l))
\* class the statement describes: small values as integers, larger ones as bytes
ClassOk(l, r) == (r.cls = "int") <=> InI64(Denote(l))

\* datum trees: [t |-> "c", tag, any, fields] | [t |-> "m", pairs] | [t |-> "a", items]
\*              | [t |-> "i", int] | [t |-> "b", bytes]
RECURSIVE SameDatum(_, _)
SameDatum(l, r) ==
    /\ l.t = r.t
    /\ CASE l.t = "i" -> Exact(l.int, r.int)
         [] l.t = "b" -> l.bytes = r.bytes
         [] l.t = "c" -> /\ l.tag = r.tag /\ l.any = r.any /\ Len(l.fields) = Len(r.fields)
                         /\ \A i \in 1..Len(l.fields) : SameDatum(l.fields[i], r.fields[i])
         [] l.t = "a" -> /\ Len(l.items) = Len(r.items)
                         /\ \A i \in 1..Len(l.items) : SameDatum(l.items[i], r.items[i])
         [] l.t = "m" -> /\ Len(l.pairs) = Len(r.pairs)
                         /\ \A i \in 1..Len(l.pairs) :
                               /\ SameDatum(l.pairs[i][1], r.pairs[i][1])
                               /\ SameDatum(l.pairs[i][2], r.pairs[i][2])
         [] l.t = "none" -> TRUE

RECURSIVE MapDatum(_)
MapDatum(d) ==
    CASE d.t = "i" -> [d EXCEPT !.int = MapInt(@)]
      [] d.t = "c" -> [d EXCEPT !.fields = [i \in 1..Len(@) |-> MapDatum(@[i])]]
      [] d.t = "a" -> [d EXCEPT !.items = [i \in 1..Len(@) |-> MapDatum(@[i])]]
      [] d.t = "m" -> [d EXCEPT !.pairs = [i \in 1..Len(@) |-> <<MapDatum(@[i][1]), MapDatum(@[i][2])>>]]
      [] OTHER -> d

\* an asset is <<policy, name, quantity>>; an output [addr, coin, assets, dhash, dwire, datum].
\* dwire = the bytes of an inline datum as they are on the wire ("" when the output only refers to
\* a datum by hash or has none; rpc side: Datum.original_cbor); dhash = the datum hash.  On the
\* ledger side dhash = H[dwire] for an inline datum, H an uninterpreted function the harness
\* supplies values of (blake2b-256 over the wire bytes - NOT over a re-encoding) and the trace
\* spec learns; so `l.dhash = r.dhash` below demands rpc.datum.hash = H[wire bytes].
SameOutput(l, r) ==
    /\ l.addr = r.addr
    /\ Exact(l.coin, r.coin)
    /\ Len(l.assets) = Len(r.assets)
    /\ \A i \in 1..Len(l.assets) :
          /\ l.assets[i][1] = r.assets[i][1] /\ l.assets[i][2] = r.assets[i][2]
          /\ Exact(l.assets[i][3], r.assets[i][3])
    /\ l.dhash = r.dhash
    /\ l.dwire = r.dwire
    /\ SameDatum(l.datum, r.datum)

Range(s) == { s[i] : i \in 1..Len(s) }

\* hash, inputs (a set on the ledger side), outputs in order, witness datums, fee, validity
Preserve(l, r) ==
    /\ l.hash = r.hash
    /\ Range(l.inputs) = Range(r.inputs) /\ Cardinality(Range(l.inputs)) = Len(r.inputs)
    /\ Len(l.outputs) = Len(r.outputs)
    /\ \A i \in 1..Len(l.outputs) : SameOutput(l.outputs[i], r.outputs[i])
    /\ Len(l.wdatums) = Len(r.wdatums)                       \* witness-set datums, in order
    /\ \A i \in 1..Len(l.wdatums) : SameDatum(l.wdatums[i], r.wdatums[i])
    /\ Exact(l.fee, r.fee)
    /\ l.start = r.start /\ l.ttl = r.ttl

MapOutput(o) == [o EXCEPT !.coin = MapU64(@.v), !.datum = MapDatum(@),
                          !.assets = [i \in 1..Len(@) |-> <<@[i][1], @[i][2], MapU64(@[i][3].v)>>]]
\* inputs_sorted_set: the inputs without duplicates (the order is not part of the projection)
RECURSIVE Dedup(_)
Dedup(s) == IF s = <<>> THEN <<>>
            ELSE LET rest == Dedup(Tail(s)) IN IF Head(s) \in Range(rest) THEN rest ELSE <<Head(s)>> \o rest
MapTx(t) == [t EXCEPT !.inputs = Dedup(@), !.outputs = [i \in 1..Len(@) |-> MapOutput(@[i])],
                      !.wdatums = [i \in 1..Len(@) |-> MapDatum(@[i])], !.fee = MapU64(@.v)]

---------------------------------------------------------------------------
\* ---- state machine: one action per mapper entry point ----
CONSTANTS Ints,     \* ledger-side integers offered to map_plutus_bigint
          Datums,   \* ledger-side datum trees offered to map_plutus_datum
          Txs       \* ledger-side transactions offered to map_tx

VARIABLES arg, res
vars == <<arg, res>>

NoCall == [op |-> "none"]
Init == arg = NoCall /\ res = NoCall

MapPlutusBigInt(l) == arg' = [op |-> "map_plutus_bigint", l |-> l] /\ res' = MapInt(l)
MapPlutusDatum(d)  == arg' = [op |-> "map_plutus_datum", l |-> d] /\ res' = MapDatum(d)
MapTxAction(t)     == arg' = [op |-> "map_tx", l |-> t] /\ res' = MapTx(t)

Next == \/ \E l \in Ints : MapPlutusBigInt(l)
        \/ \E d \in Datums : MapPlutusDatum(d)
        \/ \E t \in Txs : MapTxAction(t)

\* what C44 states about integers: exact, never truncated
IntsExact     == arg.op = "map_plutus_bigint" => Exact(arg.l, res)
\* "small values as integers, larger ones as big-integer bytes" for CBOR-integer-encoded values
IntClass      == (arg.op = "map_plutus_bigint" /\ arg.l.cls = "int") => ClassOk(arg.l, res)
MinimalBytes  == (arg.op = "map_plutus_bigint" /\ arg.l.cls = "int" /\ res.cls # "int") =>
                     res.bytes # <<>> /\ res.bytes[1] # 0
DatumPreserved == arg.op = "map_plutus_datum" => SameDatum(arg.l, res)
TxPreserved    == arg.op = "map_tx" => Preserve(arg.l, res)
=============================================================================
