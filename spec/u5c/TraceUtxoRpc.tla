---------------------------- MODULE TraceUtxoRpc ----------------------------
(* Trace validation for C44 (impl -> spec, M3).  Events, one per mapper     *)
(* call, `l` = ledger side as projected by the harness, `rpc`/`r` = what the *)
(* real mapper returned (both schema versions):                             *)
(*  {"ev":"int","ver":V,"via":"datum"|"output","l":INT,"rpc":INT,"want":INT}*)
(*  {"ev":"datum","ver":V,"via":..,"l":TREE,"rpc":TREE}                     *)
(*  {"ev":"out","ver":V,"enc":E,"l":OUT,"r":OUT}  generated output, inline   *)
(*        datum in wire variant E; OUT has dhash (= H[dwire] on the ledger   *)
(*        side) and dwire (wire bytes / Datum.original_cbor)                 *)
(*  {"ev":"mint","ver":V,"l":INT,"rpc":INT}  mint amount of a generated tx    *)
(*  {"ev":"tx","ver":V,"src":FILE,"l":TX,"r":TX}                             *)
(*  {"ev":"block","ver":V,"src":FILE,"l":HDR,"r":HDR}                        *)
(*  {"ev":"panic",...}   a panic inside the mapper: matched by no action     *)
(* INT = {"cls":"int","v":BigNat} | {"cls":"buint"|"bnint","bytes":[..]}     *)
(* Verdict: Exact / SameDatum / Preserve of UtxoRpc.tla.  A mapped integer   *)
(* that is exact but not the one the design model produces (MapInt) is      *)
(* printed as DRIFT.                                                         *)
EXTENDS UtxoRpc, TraceKit

VARIABLES l,     \* index of the next event
          hm     \* the uninterpreted datum hash H, learned: wire bytes -> hash (first use defines)
tvars == <<arg, res, l, hm>>

\* H is a function: the same wire bytes never come with two hashes
Pairs(outs) == { <<outs[i].dwire, outs[i].dhash>> : i \in { j \in 1..Len(outs) : outs[j].dwire # "" } }
Learn(outs) ==
    LET P == Pairs(outs)
        new == { p[1] : p \in P } \ DOMAIN hm
    IN  /\ \A p \in P : p[1] \in DOMAIN hm => hm[p[1]] = p[2]
        /\ \A p, q \in P : p[1] = q[1] => p[2] = q[2]
        /\ hm' = [w \in DOMAIN hm \cup new |->
                     IF w \in DOMAIN hm THEN hm[w] ELSE (CHOOSE p \in P : p[1] = w)[2]]

IsEvent(e) == l <= NRec /\ Rec[l].ev = e /\ l' = l + 1
IsInt(r) == r.cls \in {"int", "buint", "bnint"}

TInit == Init /\ l = 1 /\ hm = [w \in {} |-> ""]

TInt ==
    /\ IsEvent("int")
    /\ IsInt(Rec[l].rpc)
    /\ MapPlutusBigInt(Rec[l].l)                    \* design model: res' = MapInt(l)
    /\ Exact(Rec[l].l, Rec[l].rpc)                  \* the property
    /\ IF Rec[l].rpc = res' THEN TRUE ELSE PrintT(<<"DRIFT", l, "model", res', "impl", Rec[l].rpc>>)
    /\ UNCHANGED hm

TDatum ==
    /\ IsEvent("datum")
    /\ MapPlutusDatum(Rec[l].l)
    /\ SameDatum(Rec[l].l, Rec[l].rpc)
    /\ UNCHANGED hm

\* a generated output carrying a datum inline in some wire variant
TOut ==
    /\ IsEvent("out")
    /\ arg' = [op |-> "map_tx_output", l |-> Rec[l].l.dhash] /\ res' = Rec[l].r.dhash
    /\ SameOutput(Rec[l].l, Rec[l].r)
    /\ Learn(<<Rec[l].l>>)

TTx ==
    /\ IsEvent("tx")
    /\ arg' = [op |-> "map_tx", l |-> Rec[l].l.hash] /\ res' = Rec[l].r.hash
    /\ Preserve(Rec[l].l, Rec[l].r)
    /\ Learn(Rec[l].l.outputs)

TBlock ==
    /\ IsEvent("block")
    /\ arg' = [op |-> "map_block", l |-> Rec[l].l.hash] /\ res' = Rec[l].r.hash
    /\ Rec[l].l = Rec[l].r
    /\ UNCHANGED hm

\* mint amounts are not among the fields C44 lists: compared, never rejected
TMint ==
    /\ IsEvent("mint")
    /\ IF IsInt(Rec[l].rpc) /\ Exact(Rec[l].l, Rec[l].rpc) THEN TRUE
       ELSE PrintT(<<"DRIFT", l, "mint amount", Rec[l].l, "impl", Rec[l].rpc>>)
    /\ UNCHANGED <<arg, res, hm>>

TNext == TInt \/ TDatum \/ TOut \/ TTx \/ TBlock \/ TMint
=============================================================================
