---------------------------- MODULE TraceUtxoRpc ----------------------------
(* Trace validation for C44 (impl -> spec, M3).  Events, one per mapper     *)
(* call, `l` = ledger side as projected by the harness, `rpc`/`r` = what the *)
(* real mapper returned (both schema versions):                             *)
(*  {"ev":"int","ver":V,"via":"datum"|"output","l":INT,"rpc":INT,"want":INT}*)
(*  {"ev":"datum","ver":V,"via":..,"l":TREE,"rpc":TREE}                     *)
(*  {"ev":"tx","ver":V,"src":FILE,"l":TX,"r":TX}                             *)
(*  {"ev":"block","ver":V,"src":FILE,"l":HDR,"r":HDR}                        *)
(*  {"ev":"panic",...}   a panic inside the mapper: matched by no action     *)
(* INT = {"cls":"int","v":BigNat} | {"cls":"buint"|"bnint","bytes":[..]}     *)
(* Verdict: Exact / SameDatum / Preserve of UtxoRpc.tla.  A mapped integer   *)
(* that is exact but not the one the design model produces (MapInt) is      *)
(* printed as DRIFT.                                                         *)
EXTENDS UtxoRpc, TraceKit

VARIABLE l
tvars == <<arg, res, l>>

IsEvent(e) == l <= NRec /\ Rec[l].ev = e /\ l' = l + 1
IsInt(r) == r.cls \in {"int", "buint", "bnint"}

TInit == Init /\ l = 1

TInt ==
    /\ IsEvent("int")
    /\ IsInt(Rec[l].rpc)
    /\ MapPlutusBigInt(Rec[l].l)                    \* design model: res' = MapInt(l)
    /\ Exact(Rec[l].l, Rec[l].rpc)                  \* the property
    /\ IF Rec[l].rpc = res' THEN TRUE ELSE PrintT(<<"DRIFT", l, "model", res', "impl", Rec[l].rpc>>)

TDatum ==
    /\ IsEvent("datum")
    /\ MapPlutusDatum(Rec[l].l)
    /\ SameDatum(Rec[l].l, Rec[l].rpc)

TTx ==
    /\ IsEvent("tx")
    /\ arg' = [op |-> "map_tx", l |-> Rec[l].l.hash] /\ res' = Rec[l].r.hash
    /\ Preserve(Rec[l].l, Rec[l].r)

TBlock ==
    /\ IsEvent("block")
    /\ arg' = [op |-> "map_block", l |-> Rec[l].l.hash] /\ res' = Rec[l].r.hash
    /\ Rec[l].l = Rec[l].r

TNext == TInt \/ TDatum \/ TTx \/ TBlock
=============================================================================
