----------------------------- MODULE GenUtxoRpc -----------------------------
(* Vector generator for C44 (spec -> impl, M1): every integer of MCInts (all *)
(* boundary values, both CBOR encodings) and every datum tree of MCDatums,   *)
(* with the value the design model maps it to.  The harness turns `l` into   *)
(* CBOR, lets both mappers map it and logs what comes back; exactness is     *)
(* then decided by TraceUtxoRpc.                                             *)
EXTENDS MCUtxoRpc, Json
GenNone == {}
Emit ==
    /\ \A l \in MCInts : PrintT(<<"VEC", ToJson([l |-> l, x |-> Denote(l), want |-> MapInt(l)])>>)
    /\ \A d \in MCDatums : PrintT(<<"VEC", ToJson([l |-> d, want |-> MapDatum(d)])>>)
    \* lovelace / asset quantities (u64_to_bigint): the harness puts them into an output's value
    /\ \A c \in U64s \cup {Pow2(32), Pow2(62)} : PrintT(<<"VEC", ToJson([coin |-> IntV(c), want |-> MapU64(c)])>>)
ASSUME Emit
=============================================================================
