----------------------------- MODULE GenUtxoRpc -----------------------------
(* Vector generator for C44 (spec -> impl, M1): every integer of MCInts (all *)
(* boundary values, both CBOR encodings) and every datum tree of MCDatums,   *)
(* with the value the design model maps it to.  The harness turns `l` into   *)
(* CBOR, lets both mappers map it and logs what comes back; exactness is     *)
(* then decided by TraceUtxoRpc.                                             *)
EXTENDS MCUtxoRpc, Json
GenNone == {}
Emit ==
    \* `enc` = wire variant the harness encodes the datum in: canonical, non-minimal heads
    \* ("wide": 5 as 18 05), indefinite-length containers, both.  The content is the same; the
    \* datum hash and original_cbor of the mapped output must follow the wire bytes.
    /\ \A l \in MCInts, e \in {"canon", "wide"} :
          PrintT(<<"VEC", ToJson([l |-> l, enc |-> e, x |-> Denote(l), want |-> MapInt(l)])>>)
    /\ \A d \in MCDatums, e \in {"canon", "wide", "indef", "wideindef"} :
          PrintT(<<"VEC", ToJson([l |-> d, enc |-> e, want |-> MapDatum(d)])>>)
    \* lovelace / asset quantities (u64_to_bigint): the harness puts them into an output's value
    /\ \A c \in U64s \cup {Pow2(32), Pow2(62)} : PrintT(<<"VEC", ToJson([coin |-> IntV(c), want |-> MapU64(c)])>>)
    \* mint amounts (i64_to_bigint): the whole signed 64-bit range
    /\ \A m \in {MaxI64, MinI64, One, Neg(One), Pow2(32), Neg(Pow2(62))} :
          PrintT(<<"VEC", ToJson([mint |-> IntV(m), want |-> IntV(m)])>>)
ASSUME Emit
=============================================================================
