----------------------------- MODULE MCUtxoRpc -----------------------------
(* Exhaustive configuration for C44: integers at and around every boundary  *)
(* that matters (0, +-1, 2^7.., 2^31, 2^32, 2^62, 2^63, 2^64, 2^65, 2^72,   *)
(* 2^128), in both CBOR encodings (major type 0/1 where it fits, bignum tag *)
(* 2/3 always); datum trees and transactions built from them.               *)
EXTENDS UtxoRpc, TLC

CONSTANT Ks      \* exponents k of the boundary values 2^k + d
Ds == {-2, -1, 0, 1, 2}
Values == { Add(Pow2(k), FromInt(d)) : k \in Ks, d \in Ds } \cup { Neg(Add(Pow2(k), FromInt(d))) : k \in Ks, d \in Ds }

MCInts == { Ledger(x, "int") : x \in { v \in Values : InCborInt(v) } } \cup { Ledger(x, "bignum") : x \in Values }

I(x) == [t |-> "i", int |-> Ledger(x, "int")]
B(x) == [t |-> "i", int |-> Ledger(x, "bignum")]
Bytes(bs) == [t |-> "b", bytes |-> bs]
Edge == { Pow2(63), Sub(Pow2(63), One), Neg(Pow2(63)), Sub(Neg(Pow2(63)), One), Sub(Pow2(64), One), Neg(Pow2(64)), Zero }
MCDatums ==
    { [t |-> "c", tag |-> "121", any |-> "0", fields |-> <<I(x), B(y)>>] : x \in Edge, y \in {Pow2(64), Neg(Pow2(72))} }
    \cup { [t |-> "a", items |-> <<I(x), [t |-> "m", pairs |-> << <<Bytes(<<1, 2>>), I(y)>> >>]>>] : x \in Edge, y \in Edge }

U64s == { Zero, One, MaxI64, Pow2(63), Sub(Pow2(64), One) }
Out(c, q, d) == [addr |-> "addr", coin |-> IntV(c), assets |-> << <<"policy", "name", IntV(q)>> >>,
                 dhash |-> (IF d.t = "none" THEN "" ELSE "H[wire]"), dwire |-> (IF d.t = "none" THEN "" ELSE "wire"), datum |-> d]
MCTxs == { [hash |-> "h", inputs |-> <<"a#0", "b#1", "a#0">>, outputs |-> <<Out(c, q, [t |-> "none"]), Out(q, c, I(f))>>,
            wdatums |-> <<I(f), B(c)>>, fee |-> IntV(f), start |-> "0", ttl |-> "100"] : c \in U64s, q \in U64s, f \in U64s }

\* the mapper is stateless: one call of each entry point per argument is every behaviour
Fresh == arg = NoCall
CallMapPlutusBigInt == Fresh /\ \E l \in Ints : MapPlutusBigInt(l)
CallMapPlutusDatum == Fresh /\ \E d \in Datums : MapPlutusDatum(d)
CallMapTx == Fresh /\ \E t \in Txs : MapTxAction(t)
MCNext == CallMapPlutusBigInt \/ CallMapPlutusDatum \/ CallMapTx
=============================================================================
