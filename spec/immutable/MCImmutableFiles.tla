-------------------------- MODULE MCImmutableFiles --------------------------
(* Exhaustive configuration for C43: a database of two immutable chunk      *)
(* files in miniature (2-byte primary offsets, 2-byte secondary entries,    *)
(* blocks of 1..3 bytes, empty relative slots, and garbage block_offset     *)
(* values at the misaligned secondary offsets), every truncation point of   *)
(* every file and every overwrite of every offset with every value from 0   *)
(* to past the end of the file it points into (and one huge value); region    *)
(* faults: runs of entries filled with 0 / huge, padding appended, a run of *)
(* primary offsets duplicated.                                              *)
EXTENDS ImmutableFiles, TLC

Huge == 1000
MCPristine == <<
   [plen |-> 13, poff |-> <<0, 0, 2, 2, 4, 4>>, slen |-> 4,
    sat |-> << <<0, 0>>, <<2, 2>>, <<1, 4>> >>, clen |-> 5, bounds |-> <<0, 2, 5>>],
   [plen |-> 11, poff |-> <<0, 2, 4, 4, 6>>, slen |-> 6,
    sat |-> << <<0, 0>>, <<2, 1>>, <<4, 3>>, <<1, 7>>, <<3, 0>> >>, clen |-> 5, bounds |-> <<0, 1, 3, 5>>] >>

DoTruncate == \E c \in 1..Len(files), f \in {"primary", "secondary", "chunk"}, k \in 0..13 : Truncate(c, f, k)
DoCorruptPrimary == \E c \in 1..Len(files), j \in 1..6, v \in (0..8) \cup {Huge} : CorruptPrimary(c, j, v)
DoCorruptSecondary == \E c \in 1..Len(files), j \in 1..3, v \in (0..7) \cup {Huge} : CorruptSecondary(c, j, v)
DoFillRegion == \E c \in 1..Len(files), f \in {"primary", "secondary"}, j \in 1..6, n \in 1..6, v \in {0, Huge} : FillRegion(c, f, j, n, v)
DoExtendFile == \E c \in 1..Len(files), f \in {"primary", "secondary"}, n \in 1..4, v \in {0, 1, Huge} : ExtendFile(c, f, n, v)
DoDupPrimary == \E c \in 1..Len(files), j \in 1..6, n \in 1..6 : DupPrimary(c, j, n)
MCFNext == DoTruncate \/ DoCorruptPrimary \/ DoCorruptSecondary \/ DoFillRegion \/ DoExtendFile \/ DoDupPrimary \/ ReadBlocks
=============================================================================
