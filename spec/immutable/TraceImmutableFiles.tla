------------------------- MODULE TraceImmutableFiles -------------------------
(* Trace validation for C43 (impl -> spec, M3).                             *)
(* The harness copies a database into a scratch directory, injects one      *)
(* fault, re-parses the faulted files on its own and drives read_blocks of  *)
(* the real reader to exhaustion under catch_unwind.  Events:               *)
(*  {"ev":"open","db":[chunk triple,..]}        fault-free abstract files   *)
(*  {"ev":"fault","fault":{kind,chunk,file,k|j,v},"db":[..]}  files after   *)
(*        the fault, as re-parsed by the harness                            *)
(*  {"ev":"read_blocks","out":[[id,len],..]}    what the real reader gave:  *)
(*        id = index of the identical fault-free block, 0 other bytes,      *)
(*        -1 error item, -2 panic, -3 abort (process died / allocation      *)
(*        guard)                                                            *)
(*  {"ev":"reset"}                              back to the pristine files  *)
(*  {"ev":"big","fault":{..},"n_ok":N,"n_err":M,"bad":0|-2|-3,"total":T}    *)
(*        same on the large test database, outcome summarised               *)
(* Verdict: the fault is one of the specification's fault actions and the   *)
(* outcome is allowed by the property (AllowedOutcome).  Disagreement with  *)
(* the design model (ModelReadBlocks) is printed as DRIFT, never rejected.  *)
EXTENDS ImmutableFiles, TraceKit

VARIABLE l
tvars == <<files, fault, out, l>>

TPristine == Rec[1].db

IsEvent(e) == l <= NRec /\ Rec[l].ev = e /\ l' = l + 1

\* the specification's fault applied to the abstract files agrees with what
\* the harness re-parsed from the faulted files (8 = width of block_offset)
Agree(a, p) ==
    /\ Len(a) = Len(p)
    /\ \A c \in 1..Len(a) :
         /\ a[c].plen = p[c].plen /\ Offsets(a[c]) = Offsets(p[c])
         /\ a[c].slen = p[c].slen /\ a[c].clen = p[c].clen /\ a[c].bounds = p[c].bounds
         /\ \A n \in 1..Len(a[c].sat) :
              a[c].sat[n][1] + 8 <= p[c].slen => \E m \in 1..Len(p[c].sat) : p[c].sat[m] = a[c].sat[n]

TInit == files = TPristine /\ fault = NoFault /\ out = <<>> /\ l = 1

TOpen == IsEvent("open") /\ l = 1 /\ UNCHANGED <<files, fault, out>>

TFault ==
    /\ IsEvent("fault")
    /\ LET f == Rec[l].fault
       IN  \/ f.kind = "truncate" /\ Truncate(f.chunk, f.file, f.k)
           \/ f.kind = "corrupt" /\ f.file = "primary" /\ CorruptPrimary(f.chunk, f.j, f.v)
           \/ f.kind = "corrupt" /\ f.file = "secondary" /\ CorruptSecondary(f.chunk, f.j, f.v)
           \/ f.kind = "fill" /\ FillRegion(f.chunk, f.file, f.j, f.n, f.v)
           \/ f.kind = "extend" /\ ExtendFile(f.chunk, f.file, f.n, f.v)
           \/ f.kind = "dup" /\ DupPrimary(f.chunk, f.j, f.n)
    /\ Agree(files', Rec[l].db)

\* the read itself: the property decides; the design model only comments.
\* Misaligned secondary reads need the bytes found there: taken from the log.
TRead ==
    /\ IsEvent("read_blocks")
    /\ out' = Rec[l].out
    /\ AllowedOutcome(out')
    /\ LET model == Project(TPristine, ModelReadBlocks(Rec[l - 1].db))
       IN  IF model = out' THEN TRUE ELSE PrintT(<<"DRIFT", l, fault, "model", model, "impl", out'>>)
    /\ UNCHANGED <<files, fault>>

TReset == IsEvent("reset") /\ files' = TPristine /\ fault' = NoFault /\ out' = <<>>

TBig ==
    /\ IsEvent("big")
    /\ Rec[l].bad = 0 /\ Rec[l].n_ok <= Rec[l].total
    /\ UNCHANGED <<files, fault, out>>

TNext == TOpen \/ TFault \/ TRead \/ TReset \/ TBig
=============================================================================
