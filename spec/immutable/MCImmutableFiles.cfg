CONSTANTS
  W = 2
  E = 2
  Pristine <- MCPristine
  CheckedArith = TRUE
INIT FInit
NEXT MCFNext
INVARIANTS OutcomeAllowed FaultFree EarlierChunksIntact TruncationShape
CHECK_DEADLOCK FALSE
