CONSTANTS
  MaxSlot = 0
  MaxFiles = 4
  MaxPerChunk = 3
  MaxEmpty = 0
  DBs <- GenDBs
  Points <- GenPoints
INIT Init
NEXT MCNext
CHECK_DEADLOCK FALSE
