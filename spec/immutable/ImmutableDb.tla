---------------------------- MODULE ImmutableDb ----------------------------
(* C42 - pallas-hardano immutable-DB reader                                 *)
(*   pallas-hardano/src/storage/immutable/mod.rs                            *)
(*                                                                          *)
(* A database is the sequence of its chunk files in file-name order; a      *)
(* chunk is a sequence of blocks [slot, h] (h = an interned header hash),   *)
(* slots strictly increasing over the whole database.  The reader drops the *)
(* lexicographically last chunk file on purpose (build_stack_of_chunk_names:*)
(* "the last chunk files are not really immutable ... omitted"); the spec   *)
(* follows that documented behaviour.                                       *)
(*                                                                          *)
(* Two layers, kept apart:                                                  *)
(*  - the PROPERTY (what C42 states): All, Tip, SpecStart/Allowed;          *)
(*  - the DESIGN MODEL of the code (chunk_binary_search over the chunks in  *)
(*    descending order, then iterate_till_point): Model*.                   *)
(* MCImmutableDb checks, for every small database and every point, that the *)
(* design model's answer is allowed by the property; the Gen modules let    *)
(* TLC compute the property's answer for concrete databases and the harness *)
(* compares the real reader with it.                                        *)
EXTENDS Integers, Sequences, FiniteSets

---------------------------------------------------------------------------
\* ---- values ----
Origin        == [kind |-> "origin"]
Exact(s, h)   == [kind |-> "exact", slot |-> s, h |-> h]
Fuzzy(s)      == [kind |-> "fuzzy", slot |-> s]      \* Point::Specific(s, empty hash)

Ok(blocks)    == [res |-> "ok", blocks |-> blocks]
Err(why)      == [res |-> "err", why |-> why]

RECURSIVE Flat(_)
Flat(cs) == IF cs = <<>> THEN <<>> ELSE Head(cs) \o Flat(Tail(cs))

StrictlyIncreasing(bs) == \A i \in 1..(Len(bs) - 1) : bs[i].slot < bs[i + 1].slot

\* well-formed database: slots strictly increasing across all chunk files.  A chunk file may hold
\* no block at all (zero-length .chunk / .secondary, all-zero .primary): an empty sequence.
WellFormed(db) == StrictlyIncreasing(Flat(db))
NoEmptyChunk(db) == \A c \in 1..Len(db) : db[c] # <<>>

\* ---- the property ----
Immutable(db) == IF db = <<>> THEN <<>> ELSE SubSeq(db, 1, Len(db) - 1)
All(db) == Flat(Immutable(db))                       \* read_blocks
Suffix(bs, i) == SubSeq(bs, i, Len(bs))

SetMin(S) == CHOOSE x \in S : \A y \in S : x <= y

\* index of the first block with slot >= s (Len+1: none)
FirstAtOrAfter(bs, s) ==
    LET S == { i \in 1..Len(bs) : bs[i].slot >= s }
    IN  IF S = {} THEN Len(bs) + 1 ELSE SetMin(S)

\* SpecStart: i >= 1 : the call succeeds and yields Suffix(All, i) (i = Len+1: nothing)
\*            0      : the call must fail
\*            -1     : the property is silent (any outcome but a panic)
SpecStart(db, p) ==
    LET all == All(db)
        n   == Len(all)
    IN  CASE p.kind = "exact" ->
               LET S == { i \in 1..n : all[i].slot = p.slot /\ all[i].h = p.h }
               IN  IF S = {} THEN 0 ELSE SetMin(S)
          [] p.kind = "fuzzy" ->
               IF n = 0 \/ p.slot < all[1].slot THEN -1      \* "in and between blocks" only
               ELSE FirstAtOrAfter(all, p.slot)
          [] p.kind = "origin" -> -1                          \* not part of the statement

Allowed(db, p, r) ==
    LET st == SpecStart(db, p)
    IN  CASE st = -1 -> r.res \in {"ok", "err"}
          [] st = 0  -> r.res = "err"
          [] OTHER   -> r.res = "ok" /\ r.blocks = Suffix(All(db), st)

\* get_tip: the last immutable block, 0 when there is none
None == [slot |-> -1, h |-> 0]
Tip(db) == LET all == All(db) IN IF all = <<>> THEN None ELSE all[Len(all)]

---------------------------------------------------------------------------
\* ---- design model of the code ----
Reverse(s) == [i \in 1..Len(s) |-> s[Len(s) + 1 - i]]
Names(db) == Reverse(Immutable(db))      \* build_stack_of_chunk_names: sorted, pop(), reverse()

\* comparator of read_blocks_from_point: first block's slot against the point
Cmp(chunk, s) == IF chunk = <<>> THEN "Greater"
                 ELSE IF chunk[1].slot < s THEN "Less"
                 ELSE IF chunk[1].slot > s THEN "Greater" ELSE "Equal"

\* chunk_binary_search over the descending chunk list (0-based indices as in
\* the code; result -1 = None)
RECURSIVE BinSearch(_, _, _, _, _)
BinSearch(chunks, s, left, right, size) ==
    IF size > 0
    THEN LET mid == left + size \div 2
             c   == Cmp(chunks[mid + 1], s)
         IN  IF c = "Equal" THEN mid
             ELSE IF c = "Less" THEN BinSearch(chunks, s, left, mid, mid - left)
             ELSE BinSearch(chunks, s, mid + 1, right, right - (mid + 1))
    ELSE IF right < Len(chunks) THEN right ELSE -1
ChunkBinarySearch(chunks, s) == BinSearch(chunks, s, 0, Len(chunks), Len(chunks))

\* iterate_till_point: skip blocks below the slot, then test the first one
\* at or after it; `fuzzy` is "block_hash.is_empty()".
ModelIterateTillPoint(bs, slot, h, fuzzy) ==
    LET k == FirstAtOrAfter(bs, slot)
    IN  IF k > Len(bs)
        THEN (IF bs = <<>> \/ fuzzy THEN Ok(<<>>) ELSE Err("CannotFindBlock"))
        ELSE IF fuzzy \/ (bs[k].h = h /\ bs[k].slot = slot)
             THEN Ok(Suffix(bs, k))
             ELSE Err("CannotFindBlock")

ModelReadFromPoint(db, p) ==
    LET names == Names(db)
    IN  IF p.kind = "origin"
        THEN LET all == All(db)
             IN  IF all = <<>> \/ all[1].slot = 0 THEN Ok(all) ELSE Err("OriginMissing")
        ELSE LET idx == ChunkBinarySearch(names, p.slot)
             IN  IF idx = -1 THEN Err("CannotFindBlock")
                 ELSE \* names[..idx+1] popped from the back: chunk idx first, then newer ones
                      LET from == Flat(Reverse(SubSeq(names, 1, idx + 1)))
                      IN  ModelIterateTillPoint(from, p.slot,
                                                IF p.kind = "exact" THEN p.h ELSE 0,
                                                p.kind = "fuzzy")

ModelTip(db) ==
    LET names == Names(db)
    IN  IF names = <<>> \/ names[1] = <<>> THEN None ELSE names[1][Len(names[1])]

---------------------------------------------------------------------------
\* ---- state machine: one action per public entry point ----
CONSTANTS DBs,        \* the databases explored
          Points      \* the points offered to read_blocks_from_point

VARIABLES db, out
vars == <<db, out>>

Init == db \in DBs /\ out = [op |-> "open"]

ReadBlocks ==
    /\ out' = [op |-> "read_blocks", r |-> Ok(All(db))]
    /\ UNCHANGED db

ReadBlocksFromPoint(p) ==
    /\ out' = [op |-> "read_blocks_from_point", p |-> p, r |-> ModelReadFromPoint(db, p)]
    /\ UNCHANGED db

GetTip ==
    /\ out' = [op |-> "get_tip", tip |-> ModelTip(db)]
    /\ UNCHANGED db

Next == \/ ReadBlocks
        \/ \E p \in Points : ReadBlocksFromPoint(p)
        \/ GetTip

Spec == Init /\ [][Next]_vars

\* ---- what C42 states, as invariants over the design model ----
ReadAllOnceInOrder ==
    out.op = "read_blocks" =>
        /\ out.r.blocks = All(db)
        /\ StrictlyIncreasing(out.r.blocks)          \* hence every block exactly once

\* Known deviation of the code (recorded as known findings C42 .../empty-chunk): with an EMPTY
\* immutable chunk file the comparator treats it as "Greater", the binary search can run off the
\* old end and the call fails with CannotFindBlock although the point exists; get_tip looks at the
\* newest immutable chunk file only.  What is still guaranteed - and checked here - is that the
\* code then fails / reports no tip, it never delivers wrong blocks or a wrong tip.
HasEmptyImmutable(d) == \E c \in 1..Len(Immutable(d)) : Immutable(d)[c] = <<>>

ReadFromPointConforms ==
    out.op = "read_blocks_from_point" =>
        \/ Allowed(db, out.p, out.r)
        \/ HasEmptyImmutable(db) /\ out.r.res = "err"

TipIsLastImmutable ==
    out.op = "get_tip" =>
        \/ out.tip = Tip(db)
        \/ Immutable(db) # <<>> /\ Immutable(db)[Len(Immutable(db))] = <<>> /\ out.tip = None

\* lemma used by the generators: the fuzzy start index is monotone in the slot,
\* so equal answers at both ends of a slot range hold for every slot inside
FuzzyMonotone == out.op = "open" =>
    \A s, t \in { p.slot : p \in { q \in Points : q.kind = "fuzzy" } } :
        s <= t => FirstAtOrAfter(All(db), s) <= FirstAtOrAfter(All(db), t)
=============================================================================
