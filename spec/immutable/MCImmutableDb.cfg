CONSTANTS
  MaxSlot = 7
  MaxFiles = 4
  MaxPerChunk = 3
  DBs <- MCDBs
  Points <- MCPoints
INIT Init
NEXT MCNext
INVARIANTS AllWellFormed ReadAllOnceInOrder ReadFromPointConforms TipIsLastImmutable FuzzyMonotone
CHECK_DEADLOCK FALSE
