CONSTANTS
  MaxSlot = 7
  MaxFiles = 5
  MaxPerChunk = 3
  MaxEmpty = 2
  DBs <- MCDBs
  Points <- MCPoints
INIT Init
NEXT MCNext
INVARIANTS AllWellFormed ReadAllOnceInOrder ReadFromPointConforms TipIsLastImmutable FuzzyMonotone
CHECK_DEADLOCK FALSE
