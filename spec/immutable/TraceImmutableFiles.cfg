CONSTANTS
  W = 4
  E = 56
  Pristine <- TPristine
  CheckedArith = TRUE
INIT TInit
NEXT TNext
CHECK_DEADLOCK FALSE
POSTCONDITION TraceVerdict
