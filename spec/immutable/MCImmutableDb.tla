--------------------------- MODULE MCImmutableDb ---------------------------
(* Exhaustive configuration for C42: every well-formed database of at most  *)
(* MaxFiles chunk files (the last one is dropped by the reader) with 1..     *)
(* MaxPerChunk blocks each over slots 0..MaxSlot, and every point kind.     *)
(* The hash of the block at slot s is 1 + (s % 2); exact points are offered *)
(* with both hash ids at every slot, so matching, mismatching and absent    *)
(* points all occur.                                                        *)
EXTENDS ImmutableDb, TLC

CONSTANTS MaxSlot, MaxFiles, MaxPerChunk, MaxEmpty

Blk(s) == [slot |-> s, h |-> 1 + (s % 2)]

\* databases whose blocks all have slots < s, built slot by slot: skip the
\* slot, append to the last chunk file, or start a new chunk file
RECURSIVE Upto(_)
Upto(s) ==
    IF s = 0 THEN { <<>> }
    ELSE LET prev == Upto(s - 1)
             b == Blk(s - 1)
         IN  prev
             \cup { [d EXCEPT ![Len(d)] = Append(@, b)] :
                        d \in { e \in prev : e # <<>> /\ Len(e[Len(e)]) < MaxPerChunk } }
             \cup { Append(d, <<b>>) : d \in { e \in prev : Len(e) < MaxFiles } }
             \* an empty chunk file in front of the new one (at most MaxEmpty per database)
             \cup { Append(Append(d, <<>>), <<b>>) :
                        d \in { e \in prev : Len(e) + 1 < MaxFiles /\ Cardinality({ c \in 1..Len(e) : e[c] = <<>> }) < MaxEmpty } }

\* ... and possibly an empty chunk file at the very end (it is the dropped / last immutable one)
MCDBs == LET U == Upto(MaxSlot + 1)
         IN  U \cup { Append(d, <<>>) : d \in { e \in U : Len(e) < MaxFiles /\ Cardinality({ c \in 1..Len(e) : e[c] = <<>> }) < MaxEmpty } }

MCPoints == { Origin }
            \cup { Fuzzy(s) : s \in 0..(MaxSlot + 1) }
            \cup { Exact(s, h) : s \in 0..(MaxSlot + 1), h \in 1..2 }

AllWellFormed == WellFormed(db)

\* The entry points are pure functions of the files, so one call of each per
\* database is every behaviour; calls are explored from the freshly opened
\* database only (keeps the state graph at |DBs| * (|Points| + 3) states).
Fresh == out.op = "open"
CallReadBlocks == Fresh /\ ReadBlocks
CallReadBlocksFromPoint == Fresh /\ \E p \in Points : ReadBlocksFromPoint(p)
CallGetTip == Fresh /\ GetTip
MCNext == CallReadBlocks \/ CallReadBlocksFromPoint \/ CallGetTip
=============================================================================
