CONSTANTS
  MaxSlot = 5
  MaxFiles = 4
  MaxPerChunk = 3
  DBs <- GenDBs
  Points <- GenPoints
INIT Init
NEXT MCNext
CHECK_DEADLOCK FALSE
