CONSTANTS
  MaxSlot = 5
  MaxFiles = 5
  MaxPerChunk = 3
  MaxEmpty = 2
  DBs <- GenDBs
  Points <- GenPoints
INIT Init
NEXT MCNext
CHECK_DEADLOCK FALSE
