--------------------------- MODULE ImmutableFiles ---------------------------
(* C43 - the three file readers of the immutable DB under file faults       *)
(*   pallas-hardano/src/storage/immutable/{primary,secondary,chunk}.rs      *)
(*                                                                          *)
(* ImmutableDb.tla (C42) describes the database by its content; this module *)
(* refines one level down, to what is on disk, so that truncated files and  *)
(* inconsistent offsets can be expressed.  A chunk triple is                *)
(*   plen   byte length of NNNNN.primary  (1 version byte + W-byte offsets) *)
(*   poff   the offsets stored in it (offsets into the secondary file)      *)
(*   slen   byte length of NNNNN.secondary (E-byte entries)                 *)
(*   sat    <<offset, v>> pairs: the block_offset field an entry read at    *)
(*          `offset` of the secondary file carries                          *)
(*   clen   byte length of NNNNN.chunk                                      *)
(*   bounds fault-free block boundaries 0 = b0 < b1 < .. < bn = clen        *)
(* `files` is the sequence of the immutable chunk triples (the dropped last *)
(* chunk file is never opened).                                             *)
(*                                                                          *)
(* PROPERTY (what C43 states): reading faulted files yields blocks and      *)
(* errors, never a panic / abort, and not more blocks than the fault-free   *)
(* database has:  NoPanic, FewerBlocks.                                     *)
(* DESIGN MODEL: Model* mirror the readers step by step (offset arithmetic, *)
(* look-ahead of one entry, where an error ends the iteration).  Comparing  *)
(* the real reader with the design model is a drift check, not a verdict.   *)
EXTENDS Integers, Sequences, FiniteSets

CONSTANTS W,            \* bytes per primary offset (4 on disk)
          E,            \* bytes per secondary entry (56 on disk)
          Pristine,     \* the fault-free files
          CheckedArith  \* TRUE: offsets are subtracted with checked_sub (the repaired code);
                        \* FALSE: plain `-` on u64 as in the original code (overflow panics)

VARIABLES files, fault, out
fvars == <<files, fault, out>>

---------------------------------------------------------------------------
\* ---- items a read produces ----
Blk(start, len) == [t |-> "blk", start |-> start, len |-> len]
ErrItem(why)    == [t |-> "err", why |-> why]
PanicItem(why)  == [t |-> "panic", why |-> why]      \* never produced by the model of the repaired code

SatAt(ch, c) == LET S == { i \in 1..Len(ch.sat) : ch.sat[i][1] = c }
                IN  ch.sat[CHOOSE i \in S : TRUE][2]

\* ---- primary::Reader ----
\* offsets that are completely inside the file
Offsets(ch) == LET m == IF ch.plen = 0 THEN 0 ELSE (ch.plen - 1) \div W
               IN  SubSeq(ch.poff, 1, IF m < Len(ch.poff) THEN m ELSE Len(ch.poff))
\* next_occupied: relative slot j is occupied iff offset j+1 > offset j; yields offset j
RECURSIVE OccFrom(_, _)
OccFrom(o, j) == IF j >= Len(o) THEN <<>>
                 ELSE (IF o[j + 1] > o[j] THEN <<o[j]>> ELSE <<>>) \o OccFrom(o, j + 1)
Occupied(ch) == OccFrom(Offsets(ch), 1)

\* ---- secondary::Reader ----
\* entries are Ok(block_offset) or an error; an error ends the iteration.
\* `pos` is the stream position: the reader only moves forward.
OkE(v) == [ok |-> TRUE, panic |-> FALSE, v |-> v]
ErrE   == [ok |-> FALSE, panic |-> FALSE]
PanicE == [ok |-> FALSE, panic |-> TRUE]
RECURSIVE SecFrom(_, _, _, _)
SecFrom(ch, occ, i, pos) ==
    IF i > Len(occ) THEN <<>>
    ELSE LET c == occ[i]
         IN  IF c < pos THEN <<IF CheckedArith THEN ErrE ELSE PanicE>>   \* `current - start`
             ELSE IF c + E > ch.slen THEN <<ErrE>>      \* UnexpectedEof -> InconsistentState
             ELSE <<OkE(SatAt(ch, c))>> \o SecFrom(ch, occ, i + 1, c + E)
Entries(ch) == SecFrom(ch, Occupied(ch), 1, 0)

\* ---- chunk::Reader ----
\* current = entry i, next = entry i+1; a middle block runs from the stream
\* position to next.block_offset, the last block to the end of the file.
RECURSIVE ChunkFrom(_, _, _, _)
ChunkFrom(es, i, pos, clen) ==
    IF i > Len(es) THEN <<>>
    ELSE IF i = Len(es) THEN <<Blk(pos, clen - pos)>>                    \* read_last_block
    ELSE IF ~es[i + 1].ok
         THEN <<IF es[i + 1].panic THEN PanicItem("current - start") ELSE ErrItem("SecondaryIndexError")>>   \* current is dropped
    ELSE LET off == es[i + 1].v
         IN  IF off < pos                                                  \* `next_offset - start`
             THEN (IF CheckedArith THEN <<ErrItem("CannotReadBlock")>> \o ChunkFrom(es, i + 1, pos, clen)
                                   ELSE <<PanicItem("next_offset - start")>>)
             ELSE IF off > clen THEN <<ErrItem("CannotReadBlock")>> \o ChunkFrom(es, i + 1, clen, clen)
             ELSE <<Blk(pos, off - pos)>> \o ChunkFrom(es, i + 1, off, clen)
ModelChunk(ch) == ChunkFrom(Entries(ch), 1, 0, ch.clen)

\* ---- ChunkReaders / read_blocks: map_while(Result::ok).flatten() ----
\* a chunk whose primary file has no version byte cannot be opened: the
\* iteration ends there without an error item
RECURSIVE DbFrom(_, _)
DbFrom(fs, c) == IF c > Len(fs) THEN <<>>
                 ELSE IF fs[c].plen = 0 THEN <<>>
                 ELSE LET items == ModelChunk(fs[c])
                      IN  [i \in 1..Len(items) |-> [chunk |-> c, item |-> items[i]]] \o DbFrom(fs, c + 1)
ModelReadBlocks(fs) == DbFrom(fs, 1)

\* ---- projection shared with the harness: <<id, len>> per item ----
\* id = global index of the fault-free block an item is identical to, 0 for
\* any other byte range, -1 for an error, -2 for a panic, -3 for an abort
NBlocks(ch) == Len(ch.bounds) - 1
RECURSIVE Before(_, _)
Before(fs, c) == IF c <= 1 THEN 0 ELSE NBlocks(fs[c - 1]) + Before(fs, c - 1)
Total(fs) == Before(fs, Len(fs) + 1)
BlockId(fs, c, it) ==
    LET b == fs[c].bounds
        S == { i \in 1..NBlocks(fs[c]) : b[i] = it.start /\ b[i + 1] = it.start + it.len }
    IN  IF S = {} THEN 0 ELSE Before(fs, c) + (CHOOSE i \in S : TRUE)
Project(fs, items) ==
    [i \in 1..Len(items) |->
        LET it == items[i].item
        IN  IF it.t = "blk" THEN <<BlockId(fs, items[i].chunk, it), it.len>>
            ELSE IF it.t = "err" THEN <<-1, 0>> ELSE <<-2, 0>>]

---------------------------------------------------------------------------
\* ---- faults (one per run) ----
NoFault == [kind |-> "none"]

FileLen(ch, f) == IF f = "primary" THEN ch.plen ELSE IF f = "secondary" THEN ch.slen ELSE ch.clen

\* the files after a fault
Rep(n, v) == [i \in 1..n |-> v]
Apply(fs, flt) ==
    LET ch == fs[flt.chunk] IN
    CASE flt.kind = "truncate" ->
           [fs EXCEPT ![flt.chunk] =
               IF flt.file = "primary" THEN [@ EXCEPT !.plen = flt.k]
               ELSE IF flt.file = "secondary" THEN [@ EXCEPT !.slen = flt.k]
               ELSE [@ EXCEPT !.clen = flt.k]]
      [] flt.kind = "corrupt" /\ flt.file = "primary" ->
           [fs EXCEPT ![flt.chunk].poff[flt.j] = flt.v]
      [] flt.kind = "corrupt" /\ flt.file = "secondary" ->
           [fs EXCEPT ![flt.chunk].sat =
               [n \in 1..Len(@) |-> IF @[n][1] = (flt.j - 1) * E THEN <<@[n][1], flt.v>> ELSE @[n]]]
      \* region faults: whole entries j .. j+n-1 filled with a constant (0x00.. -> 0, 0xff.. -> huge)
      [] flt.kind = "fill" /\ flt.file = "primary" ->
           [fs EXCEPT ![flt.chunk].poff = [i \in 1..Len(@) |-> IF flt.j <= i /\ i < flt.j + flt.n THEN flt.v ELSE @[i]]]
      [] flt.kind = "fill" /\ flt.file = "secondary" ->
           [fs EXCEPT ![flt.chunk].sat =
               [n \in 1..Len(@) |->
                   IF @[n][1] % E = 0 /\ (flt.j - 1) * E <= @[n][1] /\ @[n][1] < (flt.j - 1 + flt.n) * E
                   THEN <<@[n][1], flt.v>> ELSE @[n]]]
      \* the file grows by n entries of constant content (padding)
      [] flt.kind = "extend" /\ flt.file = "primary" ->
           [fs EXCEPT ![flt.chunk] = [@ EXCEPT !.poff = @ \o Rep(flt.n, flt.v), !.plen = @ + flt.n * W]]
      [] flt.kind = "extend" /\ flt.file = "secondary" ->
           [fs EXCEPT ![flt.chunk] = [@ EXCEPT !.sat = @ \o [i \in 1..flt.n |-> <<ch.slen + (i - 1) * E, flt.v>>],
                                                !.slen = @ + flt.n * E]]
      \* offsets j .. j+n-1 of the primary index written twice
      [] flt.kind = "dup" ->
           [fs EXCEPT ![flt.chunk] =
               [@ EXCEPT !.poff = SubSeq(@, 1, flt.j + flt.n - 1) \o SubSeq(@, flt.j, Len(@)), !.plen = @ + flt.n * W]]

Whole(ch) == ch.plen = 1 + W * Len(ch.poff) /\ ch.slen % E = 0
NEntries(ch, f) == IF f = "primary" THEN Len(ch.poff) ELSE ch.slen \div E

Truncate(c, f, k) ==
    /\ fault = NoFault /\ out = <<>>
    /\ c \in 1..Len(files) /\ f \in {"primary", "secondary", "chunk"}
    /\ k \in 0..(FileLen(files[c], f) - 1)
    /\ fault' = [kind |-> "truncate", chunk |-> c, file |-> f, k |-> k]
    /\ files' = Apply(files, fault')
    /\ UNCHANGED out

\* the j-th offset of the primary file is overwritten with v
CorruptPrimary(c, j, v) ==
    /\ fault = NoFault /\ out = <<>>
    /\ c \in 1..Len(files) /\ j \in 1..Len(files[c].poff)
    /\ fault' = [kind |-> "corrupt", chunk |-> c, file |-> "primary", j |-> j, v |-> v]
    /\ files' = Apply(files, fault')
    /\ UNCHANGED out

\* the block_offset field of the j-th secondary entry is overwritten with v
CorruptSecondary(c, j, v) ==
    /\ fault = NoFault /\ out = <<>>
    /\ c \in 1..Len(files) /\ j \in 1..(files[c].slen \div E)
    /\ fault' = [kind |-> "corrupt", chunk |-> c, file |-> "secondary", j |-> j, v |-> v]
    /\ files' = Apply(files, fault')
    /\ UNCHANGED out

\* region faults (one per run, on intact files)
FillRegion(c, f, j, n, v) ==
    /\ fault = NoFault /\ out = <<>>
    /\ c \in 1..Len(files) /\ f \in {"primary", "secondary"} /\ Whole(files[c])
    /\ j >= 1 /\ n >= 1 /\ j + n - 1 <= NEntries(files[c], f)
    /\ fault' = [kind |-> "fill", chunk |-> c, file |-> f, j |-> j, n |-> n, v |-> v]
    /\ files' = Apply(files, fault')
    /\ UNCHANGED out

ExtendFile(c, f, n, v) ==
    /\ fault = NoFault /\ out = <<>>
    /\ c \in 1..Len(files) /\ f \in {"primary", "secondary"} /\ Whole(files[c]) /\ n >= 1
    /\ fault' = [kind |-> "extend", chunk |-> c, file |-> f, n |-> n, v |-> v]
    /\ files' = Apply(files, fault')
    /\ UNCHANGED out

DupPrimary(c, j, n) ==
    /\ fault = NoFault /\ out = <<>>
    /\ c \in 1..Len(files) /\ Whole(files[c])
    /\ j >= 1 /\ n >= 1 /\ j + n - 1 <= Len(files[c].poff)
    /\ fault' = [kind |-> "dup", chunk |-> c, file |-> "primary", j |-> j, n |-> n]
    /\ files' = Apply(files, fault')
    /\ UNCHANGED out

ReadBlocks ==
    /\ out = <<>>
    /\ out' = Project(Pristine, ModelReadBlocks(files))
    /\ UNCHANGED <<files, fault>>

FInit == files = Pristine /\ fault = NoFault /\ out = <<>>

---------------------------------------------------------------------------
\* ---- the property: what may come out of a read of faulted files ----
NoPanic(o)     == \A i \in 1..Len(o) : o[i][1] >= -1
OkCount(o)     == Cardinality({ i \in 1..Len(o) : o[i][1] >= 0 })
FewerBlocks(o) == OkCount(o) <= Total(Pristine)
AllowedOutcome(o) == NoPanic(o) /\ FewerBlocks(o)

OutcomeAllowed == AllowedOutcome(out)

\* ---- design-level lemmas (drift, not verdict) ----
\* without a fault every block comes out once, in order
FaultFree == (fault = NoFault /\ out # <<>>) =>
                 out = [i \in 1..Total(Pristine) |->
                          <<i, LET c == CHOOSE c \in 1..Len(Pristine) : Before(Pristine, c) < i /\ i <= Before(Pristine, c + 1)
                                   b == Pristine[c].bounds
                               IN  b[i - Before(Pristine, c) + 1] - b[i - Before(Pristine, c)]>>]
\* the blocks of the chunk files in front of the faulted one are delivered first, unchanged
GoodPrefixLen(o) == LET bad == { i \in 1..Len(o) : o[i][1] # i } IN
                    IF bad = {} THEN Len(o) ELSE (CHOOSE i \in bad : \A j \in bad : i <= j) - 1
EarlierChunksIntact == (fault # NoFault /\ out # <<>>) => GoodPrefixLen(out) >= Before(Pristine, fault.chunk)
\* truncating the secondary index or the chunk file leaves a fault-free prefix
\* followed by errors and at most one short last block
TruncationShape ==
    (fault.kind = "truncate" /\ fault.file \in {"secondary", "chunk"} /\ out # <<>>) =>
        LET g == GoodPrefixLen(out)
        IN  \A i \in (g + 1)..Len(out) :
               \/ out[i][1] = -1                                   \* an error
               \/ out[i][1] > 0 /\ out[i][1] > Before(Pristine, fault.chunk + 1)   \* a block of a later chunk file
               \/ out[i][1] = 0                                    \* the short/merged last block of the faulted chunk
=============================================================================
