------------------------- MODULE GenImmutableSmall -------------------------
EXTENDS GenImmutableDb
ASSUME EmitSmall
=============================================================================
