--------------------------- MODULE GenImmutableDb ---------------------------
(* Vector generator for C42 (spec -> impl, M1).                             *)
(*                                                                          *)
(* Real databases: the harness extracts the abstract content of the test    *)
(* database on its own (56-byte secondary-index entries: slot, header hash  *)
(* interned to an id), lists the points it is going to ask, and writes both *)
(* to the JSON file named by the environment variable DBJSON:               *)
(*   {"dbs":[{"id":"AB","chunks":[[[slot,h],..],..],                        *)
(*            "queries":[{"k":"exact","s":S,"h":H} | {"k":"fuzzy","s":S}    *)
(*                       | {"k":"range","lo":S1,"hi":S2}, ..]}, ..]}        *)
(* TLC evaluates the property (All, Tip, SpecStart of ImmutableDb) on every *)
(* database and prints one vector per database.  A "range" query is a run   *)
(* of fuzzy slots; both ends are answered, and when the answers are equal   *)
(* FuzzyMonotone (checked in MCImmutableDb) gives the same answer inside.   *)
(*                                                                          *)
(* Small databases (no DBJSON): TLC enumerates MCDBs x MCPoints itself; the *)
(* harness materialises each database as chunk/primary/secondary files made *)
(* of real blocks and asks the real reader.                                 *)
EXTENDS MCImmutableDb, Json, IOUtils

Blocks(chunk) == [i \in 1..Len(chunk) |-> [slot |-> chunk[i][1], h |-> chunk[i][2]]]
DbOf(j) == [c \in 1..Len(j.chunks) |-> Blocks(j.chunks[c])]
Pair(b) == <<b.slot, b.h>>
Pairs(bs) == [i \in 1..Len(bs) |-> Pair(bs[i])]

PointOf(q) == IF q.k = "exact" THEN Exact(q.s, q.h) ELSE Fuzzy(q.s)

Answer(d, q) ==
    IF q.k = "range"
    THEN [k |-> "range", lo |-> q.lo, hi |-> q.hi,
          st |-> SpecStart(d, Fuzzy(q.lo)), st_hi |-> SpecStart(d, Fuzzy(q.hi))]
    ELSE [k |-> q.k, s |-> q.s, h |-> (IF q.k = "exact" THEN q.h ELSE 0),
          st |-> SpecStart(d, PointOf(q))]

Vector(id, d, qs) ==
    [id |-> id,
     wf |-> WellFormed(d),
     chunks |-> [c \in 1..Len(d) |-> Pairs(d[c])],
     all |-> Pairs(All(d)),
     tip |-> Pair(Tip(d)),
     ans |-> [i \in 1..Len(qs) |-> Answer(d, qs[i])]]

\* the generators evaluate constant expressions; the behaviour spec is trivial
GenDBs == { <<>> }
GenPoints == {}

\* ---- real databases from the JSON file ----
Input == JsonDeserialize(IOEnv.DBJSON)
EmitReal ==
    \A i \in 1..Len(Input.dbs) :
        LET j == Input.dbs[i]
        IN  PrintT(<<"VEC", ToJson(Vector(j.id, DbOf(j), j.queries))>>)

\* ---- small databases enumerated by TLC ----
SmallQueries ==
    LET S == MCPoints \ {Origin}
        q(p) == IF p.kind = "exact" THEN [k |-> "exact", s |-> p.slot, h |-> p.h]
                ELSE [k |-> "fuzzy", s |-> p.slot]
        RECURSIVE ToSeq(_)
        ToSeq(T) == IF T = {} THEN <<>> ELSE LET x == CHOOSE y \in T : TRUE IN <<q(x)>> \o ToSeq(T \ {x})
    IN  ToSeq(S)
EmitSmall ==
    LET qs == SmallQueries
    IN  \A d \in MCDBs : PrintT(<<"VEC", ToJson(Vector("small", d, qs))>>)
=============================================================================
