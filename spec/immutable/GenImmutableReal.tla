-------------------------- MODULE GenImmutableReal --------------------------
EXTENDS GenImmutableDb
ASSUME EmitReal
=============================================================================
