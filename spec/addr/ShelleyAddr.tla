----------------------------- MODULE ShelleyAddr -----------------------------
(* Shelley payment addresses (types 0..7) and stake addresses (types 14,15) *)
(* as laid out by CIP-19 and implemented by pallas-addresses/src/lib.rs and  *)
(* varuint.rs.  An address is a record                                        *)
(*   [t |-> type id, n |-> network id, h1 |-> first 28-byte hash,            *)
(*    h2 |-> second 28-byte hash or <<>>, ptr |-> <<slot, tx, cert>> or <<>>] *)
(* Bytes are integers 0..255, pointer components are BigNat values (u64).    *)
(* The variables model one address object and the result of the last public  *)
(* call on it; every action is one public entry point of `Address`.          *)
EXTENDS BigNat, TLC

VARIABLES addr, out
vars == <<addr, out>>

ShelleyTypes == 0..7
StakeTypes   == {14, 15}
Types        == ShelleyTypes \cup StakeTypes
Nets         == 0..15

\* ---- header byte (ShelleyAddress::to_header / StakeAddress::to_header) ----
Header(t, n)  == t * 16 + n
HeaderType(h) == h \div 16
HeaderNet(h)  == h % 16

\* ---- dispatch table (typeid / bytes_to_address / parse_shelley_fn!) ----
PayKind(t) == CASE t \in {0, 2, 4, 6} -> "key"
                [] t \in {1, 3, 5, 7} -> "script"
                [] t = 14 -> "stake_key"
                [] t = 15 -> "stake_script"
DelegKind(t) == CASE t \in {0, 1} -> "key"
                  [] t \in {2, 3} -> "script"
                  [] t \in {4, 5} -> "pointer"
                  [] OTHER -> "none"
IsHashDeleg(t) == DelegKind(t) \in {"key", "script"}
IsPointer(t)   == DelegKind(t) = "pointer"

\* ---- variable-length unsigned integers (varuint::{write,read}) ----
U64Max == [neg |-> FALSE, mag |-> <<1615, 955, 737, 6744, 1844>>]   \* 18446744073709551615
IsU64(v) == ~v.neg /\ Le(v, U64Max)

RECURSIVE Digits128(_)
Digits128(v) == IF IsZero(v) THEN <<>> ELSE Append(Digits128(QuotSmall(v, 128)), RemSmall(v, 128))
\* big-endian base-128 digits, no leading zero digit, zero is <<0>>
VarDigits(v) == IF IsZero(v) THEN <<0>> ELSE Digits128(v)

RECURSIVE ValueOf(_)
ValueOf(ds) == IF ds = <<>> THEN Zero
               ELSE Add(MulSmall(ValueOf(SubSeq(ds, 1, Len(ds) - 1)), 128), FromInt(ds[Len(ds)]))

CanonicalDigits(ds) == /\ Len(ds) >= 1 /\ \A i \in 1..Len(ds) : ds[i] \in 0..127
                       /\ (Len(ds) > 1 => ds[1] # 0)

\* continuation bit on all but the last digit
VarEncDigits(ds) == [i \in 1..Len(ds) |-> IF i < Len(ds) THEN ds[i] + 128 ELSE ds[i]]
VarEnc(v) == VarEncDigits(VarDigits(v))

\* varuint::read: accumulates 7 bits per byte; saturates to u64::MAX (and
\* stops there) as soon as the accumulator exceeds it; fails at end of input
RECURSIVE VarRead(_, _)
VarRead(bs, acc) ==
    IF bs = <<>> THEN [ok |-> FALSE]
    ELSE LET v == Add(MulSmall(acc, 128), FromInt(bs[1] % 128))
         IN IF Lt(U64Max, v) THEN [ok |-> TRUE, v |-> U64Max, rest |-> Tail(bs)]
            ELSE IF bs[1] < 128 THEN [ok |-> TRUE, v |-> v, rest |-> Tail(bs)]
            ELSE VarRead(Tail(bs), v)

\* Pointer::to_vec / Pointer::parse
PtrEnc(p) == VarEnc(p[1]) \o VarEnc(p[2]) \o VarEnc(p[3])
PtrParse(bs) ==
    LET a == VarRead(bs, Zero) IN
    IF ~a.ok THEN [ok |-> FALSE] ELSE
    LET b == VarRead(a.rest, Zero) IN
    IF ~b.ok THEN [ok |-> FALSE] ELSE
    LET c == VarRead(b.rest, Zero) IN
    IF ~c.ok THEN [ok |-> FALSE] ELSE [ok |-> TRUE, p |-> <<a.v, b.v, c.v>>]

\* ---- addresses ----
IsHash(h) == Len(h) = 28 /\ \A i \in 1..28 : h[i] \in 0..255
MkAddr(t, n, h1, h2, ptr) == [t |-> t, n |-> n, h1 |-> h1, h2 |-> h2, ptr |-> ptr]
WellFormed(a) ==
    /\ a.t \in Types /\ a.n \in Nets /\ IsHash(a.h1)
    /\ IF IsHashDeleg(a.t) THEN IsHash(a.h2) ELSE a.h2 = <<>>
    /\ IF IsPointer(a.t) THEN Len(a.ptr) = 3 /\ \A i \in 1..3 : IsU64(a.ptr[i]) ELSE a.ptr = <<>>

\* to_vec: header, payment part, delegation part
DelegBytes(a) == IF IsHashDeleg(a.t) THEN a.h2 ELSE IF IsPointer(a.t) THEN PtrEnc(a.ptr) ELSE <<>>
Encode(a) == <<Header(a.t, a.n)>> \o a.h1 \o DelegBytes(a)
PayloadLen(a) == IF IsHashDeleg(a.t) THEN 56 ELSE IF IsPointer(a.t) THEN 28 + Len(PtrEnc(a.ptr)) ELSE 28

\* bytes_to_address: dispatch on the high nibble; minimum lengths as in the
\* code (longer payloads are accepted, the excess is ignored)
Err(why) == [ok |-> FALSE, why |-> why]
Ok(a)    == [ok |-> TRUE, a |-> a]
Parse(bs) ==
    IF bs = <<>> THEN Err("MissingHeader") ELSE
    LET h == bs[1]  t == HeaderType(h)  n == HeaderNet(h)  p == Tail(bs) IN
    IF t = 8 THEN Err("Byron") ELSE
    IF t \notin Types THEN Err("InvalidHeader") ELSE
    IF IsHashDeleg(t) THEN
        IF Len(p) < 56 THEN Err("InvalidAddressLength")
        ELSE Ok(MkAddr(t, n, SubSeq(p, 1, 28), SubSeq(p, 29, 56), <<>>))
    ELSE IF IsPointer(t) THEN
        IF Len(p) < 29 THEN Err("InvalidAddressLength")
        ELSE LET r == PtrParse(SubSeq(p, 29, Len(p)))
             IN IF r.ok THEN Ok(MkAddr(t, n, SubSeq(p, 1, 28), <<>>, r.p)) ELSE Err("VarUintError")
    ELSE IF Len(p) < 28 THEN Err("InvalidAddressLength")
         ELSE Ok(MkAddr(t, n, SubSeq(p, 1, 28), <<>>, <<>>))

\* ---- text forms ----
HexDigit == <<"0", "1", "2", "3", "4", "5", "6", "7", "8", "9", "a", "b", "c", "d", "e", "f">>
RECURSIVE HexStr(_)
HexStr(bs) == IF bs = <<>> THEN ""
              ELSE HexDigit[(bs[1] \div 16) + 1] \o HexDigit[(bs[1] % 16) + 1] \o HexStr(Tail(bs))

\* bech32 human-readable part: defined for testnet (0) and mainnet (1) only
KnownHrps == {"addr", "addr_test", "stake", "stake_test"}
Hrp(t, n) == IF n = 1 THEN (IF t \in StakeTypes THEN "stake" ELSE "addr")
             ELSE IF n = 0 THEN (IF t \in StakeTypes THEN "stake_test" ELSE "addr_test")
             ELSE "none"

\* ---- the object and its entry points ----
\* `out` is the observable result of the last call, in the shape the harness
\* logs it (field `ev` names the entry point).
\* An address as the API shows it: kinds instead of the numeric type.
Proj(a) == [pk |-> PayKind(a.t), dk |-> DelegKind(a.t), n |-> a.n, h1 |-> a.h1, h2 |-> a.h2, ptr |-> a.ptr]
TypeOf(pk, dk) == CHOOSE t \in Types : PayKind(t) = pk /\ DelegKind(t) = dk
KindsOk(pk, dk) == \E t \in Types : PayKind(t) = pk /\ DelegKind(t) = dk
FromProj(p) == MkAddr(TypeOf(p.pk, p.dk), p.n, p.h1, p.h2, p.ptr)
Parsed(a)   == [ok |-> TRUE, a |-> Proj(a), same |-> TRUE]     \* a parser returned exactly `a`

NoAddr == [t |-> -1]
Init == addr = NoAddr /\ out = [ev |-> "none"]

NewOut(a)      == [ev |-> "new"] @@ Proj(a)
ToHeaderOut(a) == [ev |-> "to_header", h |-> Header(a.t, a.n), typeid |-> a.t]
ToVecOut(a)    == [ev |-> "to_vec", bytes |-> Encode(a)]
ToHexOut(a)    == [ev |-> "to_hex", str |-> HexStr(Encode(a))]
HrpOut(a)      == [ev |-> "hrp", hrp |-> IF a.n \in {0, 1} THEN Hrp(a.t, a.n) ELSE "refused"]
\* to_bech32: hrp and data part (the checksum is not modelled); refused for other networks
ToBech32Out(a) == IF a.n \in {0, 1} THEN [ev |-> "to_bech32", hrp |-> Hrp(a.t, a.n), data |-> Encode(a)]
                  ELSE [ev |-> "to_bech32", hrp |-> "refused", data |-> <<>>]

New(a)   == WellFormed(a) /\ addr' = a /\ out' = NewOut(a)
ToHeader == addr # NoAddr /\ out' = ToHeaderOut(addr) /\ UNCHANGED addr
ToVec    == addr # NoAddr /\ out' = ToVecOut(addr) /\ UNCHANGED addr
ToHex    == addr # NoAddr /\ out' = ToHexOut(addr) /\ UNCHANGED addr
GetHrp   == addr # NoAddr /\ out' = HrpOut(addr) /\ UNCHANGED addr
ToBech32 == addr # NoAddr /\ out' = ToBech32Out(addr) /\ UNCHANGED addr
\* from_bytes / from_hex / from_bech32 / from_str all end in bytes_to_address;
\* the design model parses an arbitrary byte string
FromBytes(bs) == out' = [ev |-> "parse", input |-> bs, res |-> Parse(bs)] /\ UNCHANGED addr
\* the property: parsing back what the address was encoded to yields the address
ParseBack(entry) == addr # NoAddr /\ out' = [ev |-> entry, res |-> Parsed(addr)] /\ UNCHANGED addr

\* ---- properties ----
\* the header is injective on (type, network) and splits back
HeaderFaithful == \A t \in Types, n \in Nets :
    /\ Header(t, n) \in 0..255 /\ HeaderType(Header(t, n)) = t /\ HeaderNet(Header(t, n)) = n
RoundTrip(a)  == Parse(Encode(a)) = Ok(a)
LengthOk(a)   == Len(Encode(a)) = 1 + PayloadLen(a)
VarUintInverse(ds) == CanonicalDigits(ds) =>
    /\ VarDigits(ValueOf(ds)) = ds
    /\ LET r == VarRead(VarEncDigits(ds) \o <<77>>, Zero) IN r.ok /\ r.v = ValueOf(ds) /\ r.rest = <<77>>
=============================================================================
