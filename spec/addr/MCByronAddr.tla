----------------------------- MODULE MCByronAddr -----------------------------
(* Toy instance: 2 payloads x 2 checksum values, every checksum function is   *)
(* learnable; every parser on every (payload, crc) pair.                      *)
EXTENDS ByronAddr
CONSTANTS Payloads, Crcs

DoLearn      == \E p \in Payloads, c \in Crcs : Learn(p, c)
DoFromDecoded == \E p \in Payloads : FromDecoded(p)
DoRoundTrip  == \E e \in Parsers, p \in Payloads : RoundTrip(e, p)
DoParse      == \E e \in Parsers, p \in Payloads, c \in Crcs : Known(p) /\ ParseModel(e, p, c)
DoParseOther == \E e \in Parsers : ParseOtherKind(e)
MCNext == DoLearn \/ DoFromDecoded \/ DoRoundTrip \/ DoParse \/ DoParseOther

\* the learned function never changes a value once defined
LearnedIsStable == [][\A p \in DOMAIN crcOf : p \in DOMAIN crcOf' /\ crcOf'[p] = crcOf[p]]_vars
RoundTripValid == out.ev = "roundtrip" => Valid(out.payload, out.crc)
=============================================================================
