---------------------------- MODULE GenShelleyAddr ----------------------------
(* Vector generator for C18 (spec -> impl, M1).  For every address of the   *)
(* bounded domain the expected observable result of every entry point is    *)
(* printed as one JSON line: {"a": <address as the API shows it>,            *)
(* "calls": [<expected event>, ...]}.  The harness builds the address from   *)
(* "a" with the real constructors, performs the calls and compares.          *)
EXTENDS ShelleyAddr, Json

CONSTANT PtrInts, AllTriples, TripleNets   \* TripleNets: networks that get every triple (the others get one)

H(k) == [i \in 1..28 |-> (k + i * 37) % 256]
Two63 == [neg |-> FALSE, mag |-> <<5808, 5477, 368, 3372, 922>>]   \* 9223372036854775808
Two64m2 == Sub(U64Max, FromInt(1))
PtrVals == {FromInt(i) : i \in PtrInts} \cup {U64Max, Two64m2, Two63, Sub(Two63, FromInt(1))}

\* every boundary value in every position, the other two positions small
Triples == IF AllTriples THEN {<<a, b, c>> : a \in PtrVals, b \in PtrVals, c \in PtrVals}
           ELSE {<<v, Zero, FromInt(1)>> : v \in PtrVals} \cup {<<FromInt(1), v, Zero>> : v \in PtrVals}
                \cup {<<Zero, FromInt(300), v>> : v \in PtrVals} \cup {<<U64Max, U64Max, U64Max>>}

GenAddrs ==
    {MkAddr(t, n, H(t + n), H(100 + t * n), <<>>) : t \in 0..3, n \in Nets}
    \cup {MkAddr(t, n, H(t + 3 * n), <<>>, p) : t \in {4, 5}, n \in TripleNets, p \in Triples}
    \cup {MkAddr(t, n, H(t + 3 * n), <<>>, <<FromInt(128), Two63, Two64m2>>) : t \in {4, 5}, n \in Nets}
    \cup {MkAddr(t, n, H(t + 5 * n), <<>>, <<>>) : t \in {6, 7, 14, 15}, n \in Nets}

Calls(a) == << ToHeaderOut(a), ToVecOut(a), ToHexOut(a), HrpOut(a), ToBech32Out(a),
               [ev |-> "from_bytes", res |-> Parsed(a)], [ev |-> "from_hex", res |-> Parsed(a)],
               [ev |-> "from_bech32", res |-> Parsed(a)], [ev |-> "from_str", res |-> Parsed(a)] >>

ASSUME \A a \in GenAddrs : WellFormed(a) /\ PrintT(<<"VEC", ToJson([a |-> Proj(a), calls |-> Calls(a)])>>)

GInit == addr = NoAddr /\ out = [ev |-> "none"]
GNext == UNCHANGED vars
=============================================================================
