---------------------------- MODULE GenShelleyAddr ----------------------------
(* Vector generator for C18 (spec -> impl, M1).  For every address of the   *)
(* bounded domain the expected observable result of every entry point is    *)
(* printed as one JSON line: {"a": <address as the API shows it>,            *)
(* "calls": [<expected event>, ...]}.  The harness builds the address from   *)
(* "a" with the real constructors, performs the calls and compares.          *)
EXTENDS ShelleyAddr, Json

CONSTANT PtrInts, AllTriples, TripleNets   \* TripleNets: networks that get every triple (the others get one)

H(k) == [i \in 1..28 |-> (k + i * 37) % 256]
Two63 == [neg |-> FALSE, mag |-> <<5808, 5477, 368, 3372, 922>>]   \* 9223372036854775808
Two64m2 == Sub(U64Max, FromInt(1))
PtrVals == {FromInt(i) : i \in PtrInts} \cup {U64Max, Two64m2, Two63, Sub(Two63, FromInt(1))}

\* every boundary value in every position, the other two positions small
Triples == IF AllTriples THEN {<<a, b, c>> : a \in PtrVals, b \in PtrVals, c \in PtrVals}
           ELSE {<<v, Zero, FromInt(1)>> : v \in PtrVals} \cup {<<FromInt(1), v, Zero>> : v \in PtrVals}
                \cup {<<Zero, FromInt(300), v>> : v \in PtrVals} \cup {<<U64Max, U64Max, U64Max>>}

GenAddrs ==
    {MkAddr(t, n, H(t + n), H(100 + t * n), <<>>) : t \in 0..3, n \in Nets}
    \cup {MkAddr(t, n, H(t + 3 * n), <<>>, p) : t \in {4, 5}, n \in TripleNets, p \in Triples}
    \cup {MkAddr(t, n, H(t + 3 * n), <<>>, <<FromInt(128), Two63, Two64m2>>) : t \in {4, 5}, n \in Nets}
    \cup {MkAddr(t, n, H(t + 5 * n), <<>>, <<>>) : t \in {6, 7, 14, 15}, n \in Nets}

Calls(a) == << ToHeaderOut(a), ToVecOut(a), ToHexOut(a), HrpOut(a), ToBech32Out(a),
               [ev |-> "from_bytes", res |-> Parsed(a)], [ev |-> "from_hex", res |-> Parsed(a)],
               [ev |-> "from_bech32", res |-> Parsed(a)], [ev |-> "from_str", res |-> Parsed(a)] >>

ASSUME \A a \in GenAddrs : WellFormed(a) /\ PrintT(<<"VEC", ToJson([a |-> Proj(a), calls |-> Calls(a)])>>)

\* Parser-side vectors of the design model (the property is silent on these
\* inputs; a disagreement is reported as DRIFT, never as a violation): trailing
\* and missing bytes, non-canonical and saturating varuints, unknown headers.
ParseInputs ==
    LET e0 == Encode(MkAddr(0, 0, H(2), H(3), <<>>))
        e3 == Encode(MkAddr(3, 7, H(4), H(5), <<>>))
        e6 == Encode(MkAddr(6, 2, H(6), <<>>, <<>>))
        e14 == Encode(MkAddr(14, 0, H(7), <<>>, <<>>))
        p4 == <<Header(4, 1)>> \o H(1)
        p5 == <<Header(5, 0)>> \o H(8)
    IN { <<>>, e0, e0 \o <<9>>, SubSeq(e0, 1, 56), SubSeq(e3, 1, 29), e3 \o <<0, 0>>,
         e6 \o <<255>>, SubSeq(e6, 1, 28), e14 \o <<1, 2, 3>>, SubSeq(e14, 1, 28), <<Header(15, 15)>>,
         p4, p4 \o <<1>>, p4 \o <<1, 2>>, p4 \o <<1, 2, 3>>, p4 \o <<1, 2, 3, 4>>, p4 \o <<129>>, p4 \o <<1, 2, 129>>,
         p4 \o <<128, 128, 1, 128, 0, 0>>,                                             \* leading zero digits
         p5 \o <<129, 255, 255, 255, 255, 255, 255, 255, 255, 127, 0, 0>>,               \* 2^64 - 1
         p5 \o <<130, 128, 128, 128, 128, 128, 128, 128, 128, 0, 5, 6>>,                 \* 2^64: saturates, stops early
         p5 \o <<255, 255, 255, 255, 255, 255, 255, 255, 255, 255, 127, 1, 2>> }
       \cup { <<Header(t, 3)>> \o H(9) \o H(10) : t \in 9..13 }
ParseVec(bs) == LET r == Parse(bs) IN
    [kind |-> "parse", bytes |-> bs,
     res |-> IF r.ok THEN [ok |-> TRUE, a |-> Proj(r.a)] ELSE [ok |-> FALSE, why |-> r.why]]
ASSUME \A bs \in ParseInputs : PrintT(<<"VEC", ToJson(ParseVec(bs))>>)

GInit == addr = NoAddr /\ out = [ev |-> "none"]
GNext == UNCHANGED vars
=============================================================================
