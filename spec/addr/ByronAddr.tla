------------------------------ MODULE ByronAddr ------------------------------
(* Byron addresses as implemented by pallas-addresses/src/byron.rs: an       *)
(* address is a pair (payload, crc) — CBOR [#6.24(bytes payload), uint crc] — *)
(* where crc must be the CRC-32/ISO-HDLC of the payload bytes.               *)
(*                                                                           *)
(* The checksum function is UNINTERPRETED: `crcOf` is learned from an        *)
(* independent implementation (first occurrence defines, later ones must     *)
(* agree), pinned by the known-answer constants `Kat`.  Payloads are opaque  *)
(* values (the harness uses the hex string of the payload bytes), checksums   *)
(* too (8 hex digits).  CBOR and base58 framing is not modelled: what the     *)
(* specification says about it is the round trip, observed on the real code.  *)
(*                                                                           *)
(* Entry points (actions): from_decoded, the encoders/parsers in round-trip   *)
(* position, and the parsers on arbitrary (corrupted) input.                  *)
EXTENDS TLC, Sequences, Naturals, FiniteSets

VARIABLES crcOf,    \* learned checksum function: payload -> crc (a finite function)
          out       \* observable result of the last call
vars == <<crcOf, out>>

\* known answers of CRC-32/ISO-HDLC, computed once with python3 zlib.crc32
Kat == {
  [data |-> "", crc |-> "00000000"],
  [data |-> "00", crc |-> "d202ef8d"],
  [data |-> "313233343536373839", crc |-> "cbf43926"],
  [data |-> "ffffffff", crc |-> "ffffffff"],
  [data |-> "000102030405060708090a0b0c0d0e0f101112131415161718191a1b1c1d1e1f", crc |-> "91267e8a"],
  [data |-> "83581cababababababababababababababababababababababababababababa000", crc |-> "95d9b9e9"] }

\* parsers that can yield a Byron address
Parsers == {"ByronAddress::from_bytes", "ByronAddress::from_base58", "Address::from_bytes", "Address::from_hex",
            "Address::from_str(base58)", "Address::from_str(hex)", "Address::try_from"}

Known(p)     == p \in DOMAIN crcOf
Valid(p, c)  == Known(p) /\ crcOf[p] = c

Init == crcOf = <<>> /\ out = [ev |-> "none"]

\* the independent implementation reports CRC(p) = c
Learn(p, c) == /\ (Known(p) => crcOf[p] = c)
               /\ crcOf' = IF Known(p) THEN crcOf ELSE crcOf @@ (p :> c)
               /\ out' = [ev |-> "crc", payload |-> p, crc |-> c]

\* a known answer: the independent implementation must reproduce the constant
LearnKat(p, c) == [data |-> p, crc |-> c] \in Kat /\ Learn(p, c)

\* ByronAddress::from_decoded: the address carries the checksum of its payload
FromDecoded(p) == /\ Known(p) /\ UNCHANGED crcOf
                  /\ out' = [ev |-> "from_decoded", payload |-> p, crc |-> crcOf[p]]

\* encode a valid address (to_vec / to_base58 / to_hex / Display) and parse it
\* back: the parser succeeds and yields the same address
RoundTrip(entry, p) == /\ Known(p) /\ entry \in Parsers /\ UNCHANGED crcOf
                       /\ out' = [ev |-> "roundtrip", entry |-> entry, payload |-> p, crc |-> crcOf[p],
                                  outcome |-> "ok", same |-> TRUE]

\* a parser is given arbitrary bytes.  THE PROPERTY: it may yield a Byron
\* address (p, c) only if c is the checksum of p; it may always fail, and it
\* may yield an address of another kind (the bytes were not a Byron address).
ParseYields(entry, p, c) == /\ entry \in Parsers /\ Valid(p, c) /\ UNCHANGED crcOf
                            /\ out' = [ev |-> "parse", entry |-> entry, outcome |-> "ok", payload |-> p, crc |-> c]
ParseFails(entry)        == /\ entry \in Parsers /\ UNCHANGED crcOf
                            /\ out' = [ev |-> "parse", entry |-> entry, outcome |-> "err"]
ParseOtherKind(entry)    == /\ entry \in Parsers /\ UNCHANGED crcOf
                            /\ out' = [ev |-> "parse", entry |-> entry, outcome |-> "other-kind"]

\* design model of a parser on a (possibly corrupted) Byron address (p, c):
\* accept iff the checksum matches
ParseModel(entry, p, c) == IF Valid(p, c) THEN ParseYields(entry, p, c) ELSE ParseFails(entry)

\* ---- properties ----
AcceptedOnlyIfMatching ==
    (out.ev = "parse" /\ out.outcome = "ok") => (Known(out.payload) /\ out.crc = crcOf[out.payload])
BuiltIsValid == out.ev = "from_decoded" => Valid(out.payload, out.crc)
KatRespected == \A k \in Kat : Known(k.data) => crcOf[k.data] = k.crc
=============================================================================
