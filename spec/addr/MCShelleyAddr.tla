---------------------------- MODULE MCShelleyAddr ----------------------------
(* Exhaustive configuration for ShelleyAddr: every address type x network   *)
(* id, a few hash fillers, pointer components from a set of boundary values; *)
(* every entry point is called on every address.                             *)
EXTENDS ShelleyAddr

CONSTANT PtrInts, WithU64Edges, PtrNets    \* small pointer values; add 2^63, 2^64-1, ... ?; networks that get every pointer triple

H(k) == [i \in 1..28 |-> (k + i * 37) % 256]
Two63 == [neg |-> FALSE, mag |-> <<5808, 5477, 368, 3372, 922>>]   \* 9223372036854775808
PtrVals == {FromInt(i) : i \in PtrInts}
           \cup (IF WithU64Edges THEN {U64Max, Sub(U64Max, FromInt(1)), Two63, Sub(Two63, FromInt(1))} ELSE {})

Addrs ==
    {MkAddr(t, n, hh[1], hh[2], <<>>) : t \in 0..3, n \in Nets, hh \in {<<H(0), H(255)>>, <<H(255), H(0)>>}}
    \cup {MkAddr(t, n, H(0), <<>>, <<FromInt(128), Zero, U64Max>>) : t \in {4, 5}, n \in Nets}
    \cup {MkAddr(t, n, H(0), <<>>, <<a, b, c>>) : t \in {4, 5}, n \in PtrNets, a \in PtrVals, b \in PtrVals, c \in PtrVals}
    \cup {MkAddr(t, n, H(7), <<>>, <<>>) : t \in {6, 7, 14, 15}, n \in Nets}

MCInit == \E a \in Addrs : WellFormed(a) /\ addr = a /\ out = NewOut(a)

\* inputs offered to the parser: the address's own bytes, with a trailing
\* byte, and truncated by one byte
Inputs(a) == LET e == Encode(a) IN {e, e \o <<0>>, SubSeq(e, 1, Len(e) - 1)}

\* every entry point is called on every fresh address (the calls do not change
\* the address, so exploring them from later states adds nothing)
Fresh == out.ev = "new"
CallToHeader  == Fresh /\ ToHeader
CallToVec     == Fresh /\ ToVec
CallToHex     == Fresh /\ ToHex
CallHrp       == Fresh /\ GetHrp
CallToBech32  == Fresh /\ ToBech32
CallParse     == Fresh /\ \E bs \in Inputs(addr) : FromBytes(bs)
CallParseBack == Fresh /\ \E e \in {"from_bytes", "from_hex", "from_bech32", "from_str"} : ParseBack(e)
MCNext == CallToHeader \/ CallToVec \/ CallToHex \/ CallHrp \/ CallToBech32 \/ CallParse \/ CallParseBack

\* ---- invariants over the result of the last call ----
InvHeader == out.ev = "to_header" => /\ HeaderType(out.h) = addr.t /\ HeaderNet(out.h) = addr.n
InvVec == out.ev = "to_vec" =>
    /\ out.bytes[1] = Header(addr.t, addr.n)
    /\ Len(out.bytes) = 1 + PayloadLen(addr)
    /\ SubSeq(out.bytes, 2, 29) = addr.h1
    /\ \A i \in 1..Len(out.bytes) : out.bytes[i] \in 0..255
InvHex == out.ev = "to_hex" => Len(out.str) = 2 * (1 + PayloadLen(addr))
InvHrp == out.ev = "hrp" => (out.hrp = "refused") = (addr.n \notin {0, 1})
InvBech32 == out.ev = "to_bech32" => (addr.n \in {0, 1} => out.hrp \in KnownHrps /\ out.data = Encode(addr))
InvRoundTrip == (out.ev = "parse" /\ out.input = Encode(addr)) => out.res = Ok(addr)
\* trailing bytes are ignored by hash-carrying types; a truncated hash-type address is refused
InvTrunc == (out.ev = "parse" /\ Len(out.input) < Len(Encode(addr)) /\ ~IsPointer(addr.t)) => ~out.res.ok
InvProj == out.ev = "new" => FromProj(Proj(addr)) = addr
InvParseBack == out.ev \in {"from_bytes", "from_hex", "from_bech32", "from_str"} => out.res.ok /\ FromProj(out.res.a) = addr
InvAll == InvProj /\ InvParseBack /\ InvHeader /\ InvVec /\ InvHex /\ InvHrp /\ InvBech32 /\ InvRoundTrip /\ InvTrunc

\* ---- constant-level laws, checked once ----
Digs == {0, 1, 127}
DigitLists == {<<a>> : a \in Digs} \cup {<<a, b>> : a \in Digs, b \in Digs} \cup {<<a, b, c>> : a \in Digs, b \in Digs, c \in Digs}
ASSUME HeaderFaithful
ASSUME \A t1 \in Types, t2 \in Types, n1 \in Nets, n2 \in Nets : Header(t1, n1) = Header(t2, n2) => (t1 = t2 /\ n1 = n2)
ASSUME \A ds \in DigitLists : VarUintInverse(ds)
ASSUME VarEnc(U64Max) = <<129, 255, 255, 255, 255, 255, 255, 255, 255, 127>>
ASSUME VarEnc(FromInt(128)) = <<129, 0>> /\ VarEnc(Zero) = <<0>> /\ VarEnc(FromInt(127)) = <<127>>
\* saturation of varuint::read above u64::MAX (documented workaround in the code)
ASSUME VarRead(<<130, 128, 128, 128, 128, 128, 128, 128, 128, 0, 5>>, Zero).v = U64Max
ASSUME HexStr(<<0, 171, 255>>) = "00abff"
=============================================================================
