CONSTANTS
  PtrInts = {0, 127, 128, 16384}
  AllTriples = FALSE
  TripleNets = {0, 1, 9}
INIT GInit
NEXT GNext
CHECK_DEADLOCK FALSE
