---------------------------- MODULE TraceByronAddr ----------------------------
(* Trace validation for C19 (impl -> spec).  Events logged by the harness:    *)
(*  {"ev":"kat","data":HEX,"crc":HEX8}       independent CRC on a known answer *)
(*  {"ev":"crc","payload":HEX,"crc":HEX8}     independent CRC of a payload      *)
(*  {"ev":"from_decoded","payload":HEX,"crc":HEX8}   ByronAddress::from_decoded *)
(*  {"ev":"roundtrip","entry":E,"payload":HEX,"crc":HEX8,"outcome":"ok"|"err"|..,"same":BOOL} *)
(*  {"ev":"corrupt","bit":I,"region":R}        one bit of the encoding flipped  *)
(*  {"ev":"parse","entry":E,"outcome":"ok","payload":HEX,"crc":HEX8}            *)
(*  {"ev":"parse","entry":E,"outcome":"err"|"other-kind"}                       *)
(*  {"ev":"rejected","entries":[E,..]}         parsers that failed on the input *)
(* Every "ok" parse is preceded by a "crc" event for the parsed payload.       *)
EXTENDS ByronAddr, TraceKit

VARIABLE l
tvars == <<crcOf, out, l>>

IsEvent(e) == l <= NRec /\ Rec[l].ev = e /\ l' = l + 1

TInit == Init /\ l = 1

TKat         == IsEvent("kat") /\ LearnKat(Rec[l].data, Rec[l].crc)
TLearn       == IsEvent("crc") /\ Learn(Rec[l].payload, Rec[l].crc)
\* events may carry informational fields (e.g. "len", the encoded size): the spec's fields are compared one by one
TFromDecoded == IsEvent("from_decoded") /\ FromDecoded(Rec[l].payload) /\ out'.crc = Rec[l].crc
TRoundTrip   == /\ IsEvent("roundtrip") /\ RoundTrip(Rec[l].entry, Rec[l].payload)
                /\ out'.crc = Rec[l].crc /\ out'.outcome = Rec[l].outcome /\ out'.same = Rec[l].same
TCorrupt     == IsEvent("corrupt") /\ UNCHANGED <<crcOf, out>>
TParseOk     == IsEvent("parse") /\ Rec[l].outcome = "ok" /\ ParseYields(Rec[l].entry, Rec[l].payload, Rec[l].crc)
TParseErr    == IsEvent("parse") /\ Rec[l].outcome = "err" /\ ParseFails(Rec[l].entry)
TParseOther  == IsEvent("parse") /\ Rec[l].outcome = "other-kind" /\ ParseOtherKind(Rec[l].entry)
TRejected    == IsEvent("rejected") /\ (\A i \in 1..Len(Rec[l].entries) : Rec[l].entries[i] \in Parsers) /\ UNCHANGED <<crcOf, out>>
TReset       == IsEvent("reset") /\ UNCHANGED crcOf /\ out' = [ev |-> "none"]

TNext == TKat \/ TLearn \/ TFromDecoded \/ TRoundTrip \/ TCorrupt \/ TParseOk \/ TParseErr \/ TParseOther \/ TRejected \/ TReset
=============================================================================
