--------------------------- MODULE TraceShelleyAddr ---------------------------
(* Trace validation for C18 (impl -> spec).  The harness builds random        *)
(* addresses with the real constructors and logs one event per public call:   *)
(*   {"ev":"new","pk":..,"dk":..,"n":N,"h1":[28 bytes],"h2":[..]|[],"ptr":[big,big,big]|[]} *)
(*   {"ev":"to_header","h":H,"typeid":T}     {"ev":"to_vec","bytes":[..]}     *)
(*   {"ev":"to_hex","str":".."}              {"ev":"hrp","hrp":".."|"refused"} *)
(*   {"ev":"to_bech32","hrp":"..","data":[..]}  (the string decoded by the     *)
(*       bech32 crate; "refused" when the call returns an error)              *)
(*   {"ev":"from_bytes"|"from_hex"|"from_bech32"|"from_str","res":{"ok":true,"a":{..},"same":true}} *)
(* pointer components are BigNat JSON; the spec computes the varuint digits.  *)
EXTENDS ShelleyAddr, TraceKit

VARIABLE l
tvars == <<addr, out, l>>

IsEvent(e) == l <= NRec /\ Rec[l].ev = e /\ l' = l + 1

TInit == Init /\ l = 1

KindsKnown(r) == KindsOk(r.pk, r.dk)
TNew      == IsEvent("new") /\ KindsKnown(Rec[l]) /\ New(FromProj(Rec[l])) /\ out' = Rec[l]
TToHeader == IsEvent("to_header") /\ ToHeader /\ out' = Rec[l]
TToVec    == IsEvent("to_vec") /\ ToVec /\ out' = Rec[l]
TToHex    == IsEvent("to_hex") /\ ToHex /\ out' = Rec[l]
\* The property fixes the prefix for testnet and mainnet; for other networks
\* it only forbids a prefix that belongs to one of those two.
THrp      == /\ IsEvent("hrp")
             /\ IF addr.n \in {0, 1} THEN GetHrp /\ out' = Rec[l]
                ELSE addr # NoAddr /\ Rec[l].hrp \notin KnownHrps /\ out' = Rec[l] /\ UNCHANGED addr
TToBech32 == /\ IsEvent("to_bech32")
             /\ IF addr.n \in {0, 1} THEN ToBech32 /\ out' = Rec[l]
                ELSE addr # NoAddr /\ Rec[l].hrp \notin KnownHrps /\ out' = Rec[l] /\ UNCHANGED addr
TParseBack == /\ l <= NRec /\ Rec[l].ev \in {"from_bytes", "from_hex", "from_bech32", "from_str"} /\ l' = l + 1
              /\ ParseBack(Rec[l].ev) /\ out' = Rec[l]
TReset    == IsEvent("reset") /\ addr' = NoAddr /\ out' = [ev |-> "none"]

TNext == TNew \/ TToHeader \/ TToVec \/ TToHex \/ THrp \/ TToBech32 \/ TParseBack \/ TReset
=============================================================================
