CONSTANTS
  Payloads = {"p1", "p2"}
  Crcs = {"c1", "c2"}
INIT Init
NEXT MCNext
INVARIANTS AcceptedOnlyIfMatching BuiltIsValid RoundTripValid KatRespected
PROPERTY LearnedIsStable
CHECK_DEADLOCK FALSE
