CONSTANTS
  PtrInts = {0, 127, 128}
  WithU64Edges = FALSE
  PtrNets = {0, 1}
INIT MCInit
NEXT MCNext
INVARIANT InvAll
CHECK_DEADLOCK FALSE
