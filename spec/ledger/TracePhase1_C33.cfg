CONSTANTS
  Prop = "C33"
  Mutate <- TraceMutate
  SideEffects <- TraceSideEffects
INIT TInit
NEXT TNext
CHECK_DEADLOCK FALSE
POSTCONDITION TraceVerdict
