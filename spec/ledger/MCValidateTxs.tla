---------------------------- MODULE MCValidateTxs ----------------------------
(* Sequences of length <= MaxLen over a state-changing accepted transaction   *)
(* ("inc"), a neutral accepted one ("nop"), a failing one ("bad"), one whose  *)
(* effect depends on its index in the sequence ("ptr", like certificate       *)
(* pointers) and one that is only accepted in some states ("dep", like a      *)
(* delegation to a pool that must be registered first); 3 abstract states.    *)
EXTENDS ValidateTxs

CONSTANT MaxLen
Kinds == {"inc", "nop", "bad", "ptr", "dep"}
States == 0..2

RECURSIVE SeqsUpTo(_)
SeqsUpTo(n) == IF n = 0 THEN {<<>>} ELSE SeqsUpTo(n - 1) \cup {Append(s, k) : s \in {x \in SeqsUpTo(n - 1) : Len(x) = n - 1}, k \in Kinds}
MCSeqs == SeqsUpTo(MaxLen)

MCStep(st, k, i) ==
    CASE k = "inc" -> [ok |-> TRUE, st2 |-> (st + 1) % 3]
      [] k = "nop" -> [ok |-> TRUE, st2 |-> st]
      [] k = "bad" -> [ok |-> FALSE, st2 |-> (st + 1) % 3]   \* fails after touching its working copy
      [] k = "ptr" -> [ok |-> TRUE, st2 |-> (st + i) % 3]
      [] k = "dep" -> [ok |-> st > 0, st2 |-> st]
MCStepTable == [x \in States \X Kinds \X (0..MaxLen) |-> MCStep(x[1], x[2], x[3])]

\* bound the exploration: the caller's state after a call is what matters, not how often calls were made
=============================================================================
