-------------------------- MODULE GenScriptIntegrity --------------------------
(* Vector generator for C08 (M1).  Generated cases: the witness-set bytes to  *)
(* decode, the language views to pass, and the set of acceptable pre-images   *)
(* (empty = no hash may be produced).  Real transactions: the pre-image       *)
(* assembled from their raw parts (file named by the environment variable     *)
(* PARTS, written by `pv-cbor scriptdata-parts`); the same for transactions   *)
(* built by pallas-txbuilder: the redeemer / datum bytes AS EMITTED in the    *)
(* built witness set, the staged language views.                              *)
EXTENDS ScriptIntegrityDom, Json, IOUtils

LangSeq(L) == LET o == Ascending(DOMAIN L) IN [i \in 1..Len(o) |-> [lang |-> o[i], costs |-> L[o[i]]]]

Row(r, d, L, canon) ==
    [kind |-> "gen", ws |-> Ser(WitnessSet(r, d)), has_r |-> ~IsNone(r),
     rform |-> IF IsNone(r) THEN "none" ELSE IF r.t \in {"arr", "arrI"} THEN "list" ELSE "map", has_d |-> ~IsNone(d), rcanon |-> canon,
     langs |-> LangSeq(L), nohash |-> ~HasHash(r, d), pre |-> Acceptable(r, d, L)]

ASSUME \A c \in Cases : PrintT(<<"VEC", ToJson(Row(Redeemers[c[1]], Datums[c[2]], c[3], TRUE))>>)
ASSUME \A i \in 1..Len(RedeemersOther) : \A j \in {1, 3} : \A L \in {ViewSet({}, 0), ViewSet({0, 1}, 1)} :
          PrintT(<<"VEC", ToJson(Row(RedeemersOther[i], Datums[j], L, FALSE))>>)

Parts == IF "PARTS" \in DOMAIN IOEnv /\ IOEnv.PARTS # "" THEN ndJsonDeserialize(IOEnv.PARTS) ELSE <<>>
ViewsOf(p) == LET ls == p.langs IN
    [l \in {ls[i].lang : i \in 1..Len(ls)} |->
        LET e == CHOOSE i \in 1..Len(ls) : ls[i].lang = l IN [k \in 1..Len(ls[e].costs) |-> Den(ls[e].costs[k])]]
\* the formula applied to raw parts: no hash without redeemers and datums; no views without redeemers
RawAcceptable(p) == IF p.r = <<>> /\ p.d = <<>> THEN {}
                    ELSE {PreRaw(p.r, p.d, IF p.r = <<>> THEN NoViews ELSE ViewsOf(p))}
ASSUME \A i \in 1..Len(Parts) :
          PrintT(<<"VEC", ToJson([kind |-> "real", name |-> Parts[i].name, pre |-> RawAcceptable(Parts[i])])>>)
=============================================================================
