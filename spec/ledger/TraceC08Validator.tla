------------------------ MODULE TraceC08Validator ------------------------
(* C08 bound to the Conway validator (check_script_data_hash).  One event per  *)
(* transaction run through the real validate_tx:                               *)
(*  {"ev":"c08v","seq":n,"era":..,"shape":..,"redeemer_bytes":hex|"none",       *)
(*   "datum_bytes":hex,"views_bytes":hex,"pre":hex,"body_hash":hex|"none",      *)
(*   "expected_hash":hex,"verdict":"accept"|"reject"|"panic","error":..}        *)
(* The ledger formula: pre-image = (redeemers, or A0 when there are none) ||    *)
(* datums || language views (A0 when no language is used), hash = H[pre-image]. *)
(* H is uninterpreted: the harness reports Blake2b-256 of `pre`; the spec checks *)
(* that `pre` IS the concatenation it prescribes and that H is a function.       *)
EXTENDS TraceKit

VARIABLES l, learned
tvars == <<l, learned>>

PreImage(r) == (IF r.redeemer_bytes = "none" THEN "a0" ELSE r.redeemer_bytes) \o r.datum_bytes \o r.views_bytes

TInit == l = 1 /\ learned = <<>>

\* what the property demands of the validator's verdict
Demand(r) ==
    IF r.body_hash = "none" THEN TRUE                       \* hash absent: the property is about the hash value
    ELSE IF r.body_hash = r.expected_hash
         THEN ~(r.verdict = "reject" /\ r.error = "ScriptIntegrityHash")
         ELSE r.verdict = "reject"

TEvent ==
    /\ l <= NRec /\ Rec[l].ev = "c08v" /\ Rec[l].seq = l /\ l' = l + 1
    /\ LET r == Rec[l]
           pre == PreImage(r)
       IN /\ r.pre = pre                                     \* the hash was taken over the specified pre-image
          /\ r.verdict \in {"accept", "reject"}
          /\ IF pre \in DOMAIN learned THEN learned[pre] = r.expected_hash /\ UNCHANGED learned
             ELSE learned' = [x \in DOMAIN learned \cup {pre} |-> IF x = pre THEN r.expected_hash ELSE learned[x]]
          /\ Demand(r)

TNext == TEvent
=============================================================================
