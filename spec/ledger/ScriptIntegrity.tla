--------------------------- MODULE ScriptIntegrity ---------------------------
(* C08 - script integrity hash (pallas-primitives/src/conway/script_data.rs).*)
(*                                                                          *)
(*   hash = Blake2b-256( redeemers | datums | language views )               *)
(*     redeemers       the redeemers of the witness set (list or map form),  *)
(*                     or the empty map A0 when there are none               *)
(*     datums          the datum set exactly as it appeared on the wire, or  *)
(*                     nothing                                               *)
(*     language views  a definite map; keys in canonical CBOR order of their *)
(*                     encodings: PlutusV2 (01), PlutusV3 (02), then PlutusV1*)
(*                     whose key is the byte string 41 00 and whose value is *)
(*                     a byte string wrapping an INDEFINITE list; V2 / V3    *)
(*                     values are definite lists.  No views => A0.           *)
(*   no hash at all when there are neither redeemers nor datums.             *)
(* The hash function is uninterpreted: the specification assembles the       *)
(* pre-image.  Cost-model coefficients are denotations [neg, m] (value m or  *)
(* -1-m, m a byte sequence) so that 2^63-1 needs no TLC arithmetic.          *)
EXTENDS CborTok, FiniteSets, TLC

None == [t |-> "none"]
IsNone(x) == x.t = "none"

\* ---- redeemers (token trees)
ExUnits(mem, steps) == Arr(0, <<UIntN(mem), UIntN(steps)>>)
\* entry e = [tag, idx, data (item), mem, steps]
ListEntry(e) == Arr(0, <<UIntN(e.tag), UIntN(e.idx), e.data, ExUnits(e.mem, e.steps)>>)
MapEntry(e)  == <<Arr(0, <<UIntN(e.tag), UIntN(e.idx)>>), Arr(0, <<e.data, ExUnits(e.mem, e.steps)>>)>>
RedeemerList(es) == ArrMin([i \in 1..Len(es) |-> ListEntry(es[i])])
RedeemerMap(es)  == MapMin([i \in 1..Len(es) |-> MapEntry(es[i])])

\* ---- language views
IntItem(c) == IF c.neg THEN NIntMin(c.m) ELSE UIntMin(c.m)
CostItems(cs) == [i \in 1..Len(cs) |-> IntItem(cs[i])]
V1Key == BWrap(0, UIntN(0))                                  \* 41 00
V1Val(cs) == LET l == ArrI(CostItems(cs)) IN BWrap(MinW(Len(Ser(l))), l)
ViewEntry(lang, cs) == IF lang = 0 THEN <<V1Key, V1Val(cs)>> ELSE <<UIntN(lang), ArrMin(CostItems(cs))>>
\* L: function from a set of languages (0 = V1, 1 = V2, 2 = V3) to cost vectors
RECURSIVE Ascending(_)
Ascending(S) == IF S = {} THEN <<>> ELSE LET m == CHOOSE x \in S : \A y \in S : x <= y IN <<m>> \o Ascending(S \ {m})
KeyOrder(L) == Ascending(DOMAIN L \ {0}) \o (IF 0 \in DOMAIN L THEN <<0>> ELSE <<>>)
LangViews(L) == LET o == KeyOrder(L) IN MapMin([i \in 1..Len(o) |-> ViewEntry(o[i], L[o[i]])])
NoViews == [x \in {} |-> <<>>]

\* ---- the pre-image
Pre(r, d, L) == (IF IsNone(r) THEN <<160>> ELSE Ser(r)) \o (IF IsNone(d) THEN <<>> ELSE Ser(d)) \o Ser(LangViews(L))
HasHash(r, d) == ~(IsNone(r) /\ IsNone(d))

(* Which views enter: the ledger takes the views of the languages of the     *)
(* scripts the redeemers run; a witness set without redeemers runs none, so  *)
(* the view part is the empty map whatever cost models the caller has at     *)
(* hand - the CDDL states this case explicitly: [ A0 | datums | A0 ].        *)
EffViews(r, L) == IF IsNone(r) THEN NoViews ELSE L
Acceptable(r, d, L) == IF ~HasHash(r, d) THEN {} ELSE {Pre(r, d, EffViews(r, L))}

\* the same from raw parts (real transactions): rb / db are the redeemer / datum bytes as they appeared (<<>> = absent)
PreRaw(rb, db, L) == (IF rb = <<>> THEN <<160>> ELSE rb) \o db \o Ser(LangViews(L))
\* denotation of a small integer (cost-model coefficients of the real protocol parameters fit TLC integers)
Den(n) == IF n < 0 THEN [neg |-> TRUE, m |-> NormB(BE(-n - 1, 4))] ELSE [neg |-> FALSE, m |-> NormB(BE(n, 4))]

\* ---- canonical order of the encoded view keys (RFC 7049 3.9: shorter first, then bytewise)
KeyBytes(L) == LET v == LangViews(L) IN [i \in 1..Len(v.kv) |-> Ser(v.kv[i][1])]
KeysCanonical(L) == LET k == KeyBytes(L) IN \A i \in 1..(Len(k) - 1) : CmpCanon(k[i], k[i + 1]) < 0

\* the witness set carrying r and d (fields 5 and 4)
WitnessSet(r, d) == MapMin((IF IsNone(d) THEN <<>> ELSE <<<<UIntN(4), d>>>>) \o (IF IsNone(r) THEN <<>> ELSE <<<<UIntN(5), r>>>>))
=============================================================================
