CONSTANTS
  Seqs <- TraceSeqs
  StepTable <- TraceStepTable
INIT TInit
NEXT TNext
CHECK_DEADLOCK FALSE
POSTCONDITION TraceVerdict
