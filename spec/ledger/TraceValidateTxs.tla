-------------------------- MODULE TraceValidateTxs --------------------------
(* Trace validation for C39.  Events (certificate states are interned ids of  *)
(* a canonical structural dump):                                              *)
(*   {"ev":"reset","seq":n,"st":s}                     fresh initial state    *)
(*   {"ev":"step","seq":n,"st":s,"tx":x,"ix":i,"ok":b,"st2":s2}              *)
(*        reference run of validate_tx on a CLONE (learns Step)               *)
(*   {"ev":"call","seq":n,"st":s,"txs":[x..],"res":"Ok"|"Err","st2":s2}      *)
(*        the real validate_txs on the caller's state                         *)
EXTENDS ValidateTxs, TraceKit

VARIABLES l, learned
tvars == <<cs, pc, delta, rest, ix, res, snap, called, l, learned>>

TraceSeqs == {}
TraceStepTable == <<>>

IsEvent(e) == l <= NRec /\ Rec[l].ev = e /\ Rec[l].seq = l /\ l' = l + 1
Idle == UNCHANGED <<pc, delta, rest, ix>>

TInit == Init /\ l = 1 /\ learned = <<>>

TReset == IsEvent("reset") /\ cs' = Rec[l].st /\ res' = "none" /\ snap' = Rec[l].st /\ called' = <<>> /\ Idle /\ UNCHANGED learned

\* a function is learned: its first occurrence defines it, later occurrences must agree
TStep ==
    /\ IsEvent("step")
    /\ LET r == Rec[l]
           k == <<r.st, r.tx, r.ix>>
           v == [ok |-> r.ok, st2 |-> r.st2]
       IN IF k \in DOMAIN learned THEN learned[k] = v /\ UNCHANGED learned
          ELSE learned' = [x \in DOMAIN learned \cup {k} |-> IF x = k THEN v ELSE learned[x]]
    /\ UNCHANGED <<cs, res, snap, called>> /\ Idle

\* validate_txs: the observed result and state are what the property demands
TCall ==
    /\ IsEvent("call")
    /\ Rec[l].st = cs
    /\ LET want == CallSpec(learned, cs, Rec[l].txs)
       IN /\ want.res \in {"Ok", "Err"}             \* every needed step was observed in a reference run
          /\ Rec[l].res = want.res
          /\ Rec[l].st2 = want.st
    /\ cs' = Rec[l].st2 /\ res' = Rec[l].res /\ snap' = cs /\ called' = Rec[l].txs
    /\ Idle /\ UNCHANGED learned

TNext == TReset \/ TStep \/ TCall
=============================================================================
