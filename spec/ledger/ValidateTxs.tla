----------------------------- MODULE ValidateTxs -----------------------------
(* C39 - pallas_validate::phase1::validate_txs (ledger rule LEDGERS).         *)
(*                                                                            *)
(* The certificate state is an opaque value `cs`.  What one transaction does  *)
(* to it is an uninterpreted function Step: (state, tx, index-in-sequence) -> *)
(* [ok, st2] -- in the model a small concrete table, in trace validation      *)
(* LEARNED from single-transaction reference runs (validate_tx on a clone).   *)
(*                                                                            *)
(* Property (CallSpec): validating a sequence either succeeds and leaves the  *)
(* state as if each transaction had been applied in order, or fails and       *)
(* leaves the caller's state unchanged.                                       *)
(* Design model (CallBegin / StepTx / Commit / Abort): the code's             *)
(* copy-on-write loop -- clone into `delta`, fold, commit only at the end.    *)
EXTENDS Integers, Sequences

\* F is a function on <<st, tx, ix>> triples (possibly partial: only learned points)
Known(F, st, tx, ix) == <<st, tx, ix>> \in DOMAIN F

RECURSIVE Fold(_, _, _, _)
\* result of applying seq from position ix on: [ok, st] ; unknown steps make the result "unknown"
Fold(F, st, seq, ix) ==
    IF seq = <<>> THEN [res |-> "Ok", st |-> st]
    ELSE IF ~Known(F, st, Head(seq), ix) THEN [res |-> "unknown", st |-> st]
    ELSE LET r == F[<<st, Head(seq), ix>>]
         IN IF r.ok THEN Fold(F, r.st2, Tail(seq), ix + 1) ELSE [res |-> "Err", st |-> st]

\* the property: all-or-nothing
CallSpec(F, st, seq) ==
    LET f == Fold(F, st, seq, 0)
    IN IF f.res = "Ok" THEN [res |-> "Ok", st |-> f.st]
       ELSE IF f.res = "Err" THEN [res |-> "Err", st |-> st]
       ELSE f

\* ---------------------------------------------------------------- design model
CONSTANTS Seqs,        \* sequences offered to validate_txs
          StepTable    \* the step function of the model
VARIABLES cs, pc, delta, rest, ix, res, snap, called
vars == <<cs, pc, delta, rest, ix, res, snap, called>>

Init == cs = 0 /\ pc = "idle" /\ delta = 0 /\ rest = <<>> /\ ix = 0 /\ res = "none" /\ snap = 0 /\ called = <<>>

\* let mut delta_state = cert_state.clone();
CallBegin(seq) ==
    /\ pc = "idle"
    /\ pc' = "loop" /\ delta' = cs /\ rest' = seq /\ ix' = 0 /\ snap' = cs /\ called' = seq /\ res' = "none"
    /\ UNCHANGED cs

\* validate_tx(metx, txix, env, utxos, &mut delta_state)?   -- success
StepTx ==
    /\ pc = "loop" /\ rest # <<>>
    /\ StepTable[<<delta, Head(rest), ix>>].ok
    /\ delta' = StepTable[<<delta, Head(rest), ix>>].st2
    /\ rest' = Tail(rest) /\ ix' = ix + 1
    /\ UNCHANGED <<cs, pc, res, snap, called>>

\* ... `?` returns the error; the caller's state was never touched
Abort ==
    /\ pc = "loop" /\ rest # <<>>
    /\ ~StepTable[<<delta, Head(rest), ix>>].ok
    /\ pc' = "idle" /\ res' = "Err"
    /\ UNCHANGED <<cs, delta, rest, ix, snap, called>>

\* *cert_state = delta_state; Ok(())
Commit ==
    /\ pc = "loop" /\ rest = <<>>
    /\ cs' = delta /\ pc' = "idle" /\ res' = "Ok"
    /\ UNCHANGED <<delta, rest, ix, snap, called>>

Next == (\E s \in Seqs : CallBegin(s)) \/ StepTx \/ Abort \/ Commit

\* the design model implements the property
Atomic == (pc = "idle" /\ res # "none") => [res |-> res, st |-> cs] = CallSpec(StepTable, snap, called)
\* the caller's state is never visible half-updated
Untouched == pc = "loop" => cs = snap
=============================================================================
