CONSTANTS
  Tier = 1
