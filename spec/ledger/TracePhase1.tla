---------------------------- MODULE TracePhase1 ----------------------------
(* Trace validation for C33..C38 (impl -> spec).  One event per run of the  *)
(* real pallas_validate::phase1::validate_tx on a (mutated) fixture:         *)
(*   {"ev":"tx","seq":n,"fx":F,"era":E,"mut":class,"rule":R|"","boundary":b, *)
(*    "verdict":"accept"|"reject"|"panic","detail":..., "T":{projection}}     *)
(*   {"ev":"base", ...same...}   the un-mutated fixture (must be accepted)    *)
(* T is the independent projection (see Phase1).  The constant Prop selects   *)
(* the property whose demand every event must satisfy; an event that does     *)
(* not satisfy it is not matched by any action, so the trace is rejected at   *)
(* that event.                                                                *)
EXTENDS Phase1, TraceKit

CONSTANT Prop
VARIABLES l,      \* index of the next event
          fx      \* fixture whose baseline was validated last
tvars == <<t, phase, verdict, rule, l, fx>>

TraceMutate(R, T) == T
TraceSideEffects(R) == {}

\* events are numbered consecutively (nothing was lost between the harness and TLC)
IsEvent(e) == l <= NRec /\ Rec[l].ev = e /\ Rec[l].seq = l /\ l' = l + 1

\* the demand of each property on one observed run
Demand(r) ==
    CASE Prop = "C33" -> r.verdict \in {"accept", "reject"}
      [] Prop = "C34" -> (r.verdict = "accept" /\ ~r.T.special) => Conserved(r.T)
      [] Prop = "C35" -> r.verdict = "accept" => SigsOK(r.T)
      [] Prop = "C36" -> /\ r.verdict = "accept" => FeeSizeOK(r.T)
                         /\ r.boundary => r.verdict = (IF FeeSizeOK(r.T) THEN "accept" ELSE "reject")
      [] Prop = "C37" -> r.verdict = "accept" => BudgetOK(r.T)
      [] Prop = "C38" -> /\ BrokenRules(r.T) # {} => r.verdict = "reject"
                         /\ r.rule # "" => Breaks(r.rule, r.T)       \* the mutator did break its rule
      [] OTHER -> FALSE

Observe(r) ==
    /\ t' = r.T
    /\ verdict' = r.verdict
    /\ rule' = r.rule

TInit == l = 1 /\ fx = "" /\ t = [era |-> "none"] /\ phase = "fresh" /\ verdict = "none" /\ rule = "none"

\* validate_tx on the un-mutated fixture: accepted, and the property's demand holds
TBase == IsEvent("base") /\ Rec[l].verdict = "accept" /\ Demand(Rec[l]) /\ Observe(Rec[l]) /\ phase' = "validated" /\ fx' = Rec[l].fx
\* validate_tx on a mutant of that baseline
TTx   == IsEvent("tx") /\ Rec[l].fx = fx /\ Demand(Rec[l]) /\ Observe(Rec[l]) /\ phase' = "done" /\ UNCHANGED fx

TNext == TBase \/ TTx
=============================================================================
