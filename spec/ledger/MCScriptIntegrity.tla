-------------------------- MODULE MCScriptIntegrity --------------------------
(* Exhaustive configuration for C08: ScriptData::build_for / hash on every    *)
(* case of the bounded domain; structure of the pre-image as invariants.      *)
EXTENDS ScriptIntegrityDom

VARIABLES ph, r, d, L, pre
vars == <<ph, r, d, L, pre>>

Init == ph = "idle" /\ r = None /\ d = None /\ L = NoViews /\ pre = <<>>

BuildFor(hasR, hasD) ==
    /\ ph = "idle"
    /\ \E c \in Cases :
          /\ IsNone(Redeemers[c[1]]) = ~hasR /\ IsNone(Datums[c[2]]) = ~hasD
          /\ r' = Redeemers[c[1]] /\ d' = Datums[c[2]] /\ L' = c[3]
    /\ ph' = IF hasR \/ hasD THEN "built" ELSE "nothing"
    /\ pre' = <<>>
BuildForNeither       == ph = "idle" /\ BuildFor(FALSE, FALSE)
BuildForRedeemersOnly == ph = "idle" /\ BuildFor(TRUE, FALSE)
BuildForDatumsOnly    == ph = "idle" /\ BuildFor(FALSE, TRUE)
BuildForBoth          == ph = "idle" /\ BuildFor(TRUE, TRUE)
Hash == ph = "built" /\ pre' = Pre(r, d, EffViews(r, L)) /\ ph' = "hashed" /\ UNCHANGED <<r, d, L>>
Drop == ph \in {"nothing", "hashed"} /\ ph' = "idle" /\ r' = None /\ d' = None /\ L' = NoViews /\ pre' = <<>>

Next == BuildForNeither \/ BuildForRedeemersOnly \/ BuildForDatumsOnly \/ BuildForBoth \/ Hash \/ Drop

NoHashIffEmpty == (ph = "nothing") <=> (ph # "idle" /\ ~HasHash(r, d))
ViewKeysCanonical == KeysCanonical(L)
V2V3BeforeV1 == LET o == KeyOrder(L) IN \A i \in 1..Len(o) : o[i] = 0 => i = Len(o)
V1Shape == 0 \in DOMAIN L =>
              LET e == ViewEntry(0, L[0]) IN /\ Ser(e[1]) = <<65, 0>>
                                             /\ e[2].t = "bwrap" /\ e[2].x.t = "arrI"
                                             /\ Ser(e[2].x)[1] = 159
OtherShapes == \A l \in DOMAIN L \ {0} : ViewEntry(l, L[l])[2].t = "arr"
PreImageParts == ph = "hashed" =>
                    /\ pre \in Acceptable(r, d, L)
                    /\ WF(Tokens(LangViews(L))) /\ ItemOK(LangViews(L))
                    /\ (IsNone(r) => pre[1] = 160 /\ pre[Len(pre)] = 160)          \* A0 | datums | A0
                    /\ (~IsNone(d) => ItemOK(d) /\ WF(Tokens(d)))
                    /\ Len(pre) = (IF IsNone(r) THEN 1 ELSE Len(Ser(r))) + (IF IsNone(d) THEN 0 ELSE Len(Ser(d))) + Len(Ser(LangViews(EffViews(r, L))))
WitnessSetOK == ph \in {"built", "hashed"} => ItemOK(WitnessSet(r, d)) /\ WF(Tokens(WitnessSet(r, d)))
=============================================================================
