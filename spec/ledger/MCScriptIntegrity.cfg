CONSTANTS
  Tier = 1
INIT Init
NEXT Next
INVARIANT NoHashIffEmpty
INVARIANT ViewKeysCanonical
INVARIANT V2V3BeforeV1
INVARIANT V1Shape
INVARIANT OtherShapes
INVARIANT PreImageParts
INVARIANT WitnessSetOK
CHECK_DEADLOCK FALSE
