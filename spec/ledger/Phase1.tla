------------------------------- MODULE Phase1 -------------------------------
(* Phase-1 (ledger rule) validation of one transaction -- the specification *)
(* shared by properties C33..C38 of pallas-validate                         *)
(*   entry point: pallas_validate::phase1::validate_tx                      *)
(*                                                                          *)
(* A transaction is seen through an abstract projection T (a record).  The  *)
(* harness computes T for every concrete transaction INDEPENDENTLY of the   *)
(* validator (pallas-traverse accessors, own UTxO bookkeeping, own Ed25519  *)
(* check); quantities are BigNat (TLC integers are 32-bit).                 *)
(*                                                                          *)
(*  T.era        "byron" | "shelley" | "allegra" | "mary" | "alonzo" | "babbage" | "conway" *)
(*  T.nIns, T.insMissing, T.insDup   inputs listed / not in the UTxO / repeated            *)
(*  T.spent      resolved spent outputs   [coin, assets: Seq([id, q]), net, kh, sh, dh]   *)
(*  T.outs       produced outputs (same shape)                                             *)
(*  T.fee, T.mint: Seq([id, q]) (q signed)                                                 *)
(*  T.special    certificates / withdrawals / treasury / donation / governance present     *)
(*  T.wits       Seq([kh, ok]) vkey witnesses: key hash, signature verifies over the tx id *)
(*  T.needKeys   payment key hashes of key-locked spent and collateral inputs              *)
(*  T.reqSigners required signers                                                          *)
(*  T.redeemers  Seq([mem, steps, tag, idx]), T.rform "list" | "map" | "none"             *)
(*  T.plutus     uses Plutus scripts (witness set or reference), T.plutusWit (witness set) *)
(*  T.size       the ledger's transaction size (traversal size)                            *)
(*  T.pp         [a, b, maxSize, maxMem, maxSteps, coinsPerByte, minAdaUnits, dhUnits, maxValSize,   *)
(*                maxColl, collPct, langs]                                                 *)
(*  ... and the per-rule facts used by Breaks (see below).                                 *)
(*                                                                          *)
(* Property predicates:                                                     *)
(*   C33  verdict \in {"accept","reject"}  (there is no panic action)        *)
(*   C34  Conserved   C35 SigsOK   C36 FeeSizeOK   C37 BudgetOK              *)
(*   C38  Breaks(R, T) => reject, one mutation class per implemented rule    *)
(* EraOrder lists, per era, the checks of validate_<era>_tx in code order.   *)
(* The state machine below is the checking procedure the harness follows:   *)
(* validate an (accepted) transaction, mutate it with a rule-specific       *)
(* mutator, validate again.                                                 *)
EXTENDS BigNat, Integers, Sequences, FiniteSets

Range(s) == {s[i] : i \in 1..Len(s)}

\* ------------------------------------------------------------ value sums
RECURSIVE SumQ(_, _)
SumQ(as, id) ==            \* total quantity of asset `id` in a sequence of [id, q]
    IF as = <<>> THEN Zero
    ELSE Add(IF as[1].id = id THEN as[1].q ELSE Zero, SumQ(Tail(as), id))

RECURSIVE CoinSum(_)
CoinSum(os) == IF os = <<>> THEN Zero ELSE Add(os[1].coin, CoinSum(Tail(os)))

RECURSIVE AssetSum(_, _)
AssetSum(os, id) == IF os = <<>> THEN Zero ELSE Add(SumQ(os[1].assets, id), AssetSum(Tail(os), id))

IdsOf(as) == {as[i].id : i \in 1..Len(as)}
AssetIds(T) == UNION ({IdsOf(T.spent[i].assets) : i \in 1..Len(T.spent)}
                      \cup {IdsOf(T.outs[i].assets) : i \in 1..Len(T.outs)}
                      \cup {IdsOf(T.mint)})

MinFee(T) == Add(MulSmall(FromInt(T.size), T.pp.a), FromInt(T.pp.b))

\* ------------------------------------------------------------ C34
\* ada and every asset: spent + minted = produced + fee, in unbounded integers.
\* Byron: inputs exceed outputs by at least the minimum fee (none when only
\* redeem addresses are spent -- there the statement is read as inputs >= outputs).
Conserved(T) ==
    IF T.era = "byron"
    THEN Le(Add(CoinSum(T.outs), IF T.redeemOnly THEN Zero ELSE MinFee(T)), CoinSum(T.spent))
    ELSE /\ Eq(CoinSum(T.spent), Add(CoinSum(T.outs), T.fee))
         /\ \A id \in AssetIds(T) :
               Eq(Add(AssetSum(T.spent, id), SumQ(T.mint, id)), AssetSum(T.outs, id))

\* ------------------------------------------------------------ C35
HasGoodWit(T, k) == \E i \in 1..Len(T.wits) : T.wits[i].kh = k /\ T.wits[i].ok
SigsOK(T) ==
    /\ \A i \in 1..Len(T.wits) : T.wits[i].ok
    /\ \A k \in Range(T.needKeys) \cup Range(T.reqSigners) : HasGoodWit(T, k)

\* ------------------------------------------------------------ C36
FeeSizeOK(T) == Le(MinFee(T), T.fee) /\ Le(FromInt(T.size), T.pp.maxSize)

\* ------------------------------------------------------------ C37
RECURSIVE SumMem(_)
SumMem(rs) == IF rs = <<>> THEN Zero ELSE Add(rs[1].mem, SumMem(Tail(rs)))
RECURSIVE SumSteps(_)
SumSteps(rs) == IF rs = <<>> THEN Zero ELSE Add(rs[1].steps, SumSteps(Tail(rs)))
BudgetOK(T) == T.plutus => Le(SumMem(T.redeemers), T.pp.maxMem) /\ Le(SumSteps(T.redeemers), T.pp.maxSteps)

\* ------------------------------------------------------------ the ledger rules, one named predicate each
\* (C38).  Each predicate is what the rule guarantees of a valid transaction, stated over independently
\* observed facts; its negation is a SUFFICIENT condition for the rule to be violated (where a rule has
\* corner cases the property is silent about, the predicate is simply true there, so nothing is claimed).
Avail(T) == Range(T.witScripts) \cup Range(T.refScripts)     \* hashes of witness-set and reference scripts
CollNet(T) == Sub(CoinSum(T.coll), T.collReturn.coin)         \* collateral actually paid
HasAssets(o) == \E i \in 1..Len(o.assets) : ~IsZero(o.assets[i].q)
DistinctIns(T) == T.nIns - T.insDup

\* "The set of transaction inputs is not empty"
InputsNonEmpty(T) == T.nIns > 0
\* "All transaction inputs, collateral inputs and reference inputs are in the UTxO"
InputsInUtxo(T) == T.insMissing = 0
CollateralInUtxo(T) == T.collMissing = 0
RefInputsInUtxo(T) == T.refMissing = 0
\* "The block slot is contained in the transaction validity interval"
NotAfterTtl(T) == T.ttl.has => Le(T.slot, T.ttl.v)
NotBeforeStart(T) == T.vstart.has => Le(T.vstart.v, T.slot)
\* "All transaction outputs contain at least the minimum lovelace".  MinAdaFloor is a lower bound of the
\* minimum every reading of the rule agrees on: the era's price unit (T.pp.coinsPerByte: minUTxOValue in
\* Shelley-MA, coins per UTxO word in Alonzo, per byte in Babbage/Conway) times the units an output costs at
\* least (T.pp.minAdaUnits: 1 | 27 + 1 value word | 160 bytes), plus 10 words for a datum hash in Alonzo.
MinAdaFloor(T, o) == MulSmall(T.pp.coinsPerByte, T.pp.minAdaUnits + (IF o.dh THEN T.pp.dhUnits ELSE 0))
OutputsHoldMinAda(T) == \A i \in 1..Len(T.outs) : Le(MinAdaFloor(T, T.outs[i]), T.outs[i].coin)
\* "The size of the value in each of the outputs is not greater than the maximum allowed" (a value takes >= 1 word)
ValueSizeWithinLimit(T) == T.outs # <<>> => T.pp.maxValSize # 0
\* "The network ID of each output matches the global network ID" / "... of the transaction body ..."
OutputNetworksMatch(T) == \A i \in 1..Len(T.outs) : T.outs[i].net >= 0 => T.outs[i].net = T.envNet
BodyNetworkMatches(T) == T.txNet >= 0 => T.txNet = T.envNet
\* "Fees" (collateral part; applies when Plutus scripts are in the witness set -- what the validator implements):
\*  the set of collateral inputs is not empty and not larger than allowed, each is key-locked, the balance
\*  holds only lovelace, is at least fee * percentage / 100 and equals the annotated total collateral
CollateralCountOK(T) == T.plutusWit => (T.nColl > 0 /\ T.nColl <= T.pp.maxColl)
CollateralKeyLocked(T) == T.plutusWit => \A i \in 1..Len(T.coll) : T.coll[i].sh = ""
CollateralAdaOnly(T) == (T.plutusWit /\ ~T.collReturn.has) => \A i \in 1..Len(T.coll) : ~HasAssets(T.coll[i])
CollateralSufficient(T) ==
    (T.plutusWit /\ T.nColl > 0 /\ T.collMissing = 0) => Le(MulSmall(T.fee, T.pp.collPct), MulSmall(CollNet(T), 100))
CollateralAnnotationExact(T) ==
    (T.plutusWit /\ T.nColl > 0 /\ T.collMissing = 0 /\ T.totalColl.has) => Eq(T.totalColl.v, CollNet(T))
\* "Each minted / burned asset can be related to the corresponding native or Plutus script"
MintPoliciesWitnessed(T) == Range(T.mintPolicies) \subseteq Avail(T)
\* "Witnesses": scripts of script-locked inputs, datums of Plutus inputs, redeemers <-> scripts
ScriptsWitnessed(T) == Range(T.needScripts) \subseteq Avail(T)
DatumsWitnessed(T) == T.plutus => Range(T.inDatumHashes) \subseteq Range(T.witDatums)
RedeemersPointAtScripts(T) ==
    /\ T.redeemers # <<>> => T.plutus
    /\ \A i \in 1..Len(T.redeemers) : T.redeemers[i].tag = "Spend" => T.redeemers[i].idx < DistinctIns(T)
    \* a Reward redeemer points at a script-credential withdrawal; T.withdrawals is listed in the ledger's order
    \* of reward accounts (network, script credentials before key credentials, credential hash)
    /\ \A i \in 1..Len(T.redeemers) : T.redeemers[i].tag = "Reward" =>
            /\ T.redeemers[i].idx < Len(T.withdrawals)
            /\ T.withdrawals[T.redeemers[i].idx + 1].script
\* "The auxiliary data of the transaction is valid"
AuxDataHashMatches(T) == T.auxDeclared = T.auxActual
\* "The script data integrity hash matches the hash of the redeemers, languages and datums": it is present
\* when there are redeemers, and for unchanged script data it is the hash the accepted baseline carried
ScriptIntegrityHashMatches(T) ==
    /\ T.redeemers # <<>> => T.sdh # ""
    /\ T.scriptDataSame => T.sdh = T.sdhBase
\* "The required script languages are included in the protocol parameters"
LanguagesAvailable(T) == Range(T.langsUsed) \subseteq Range(T.pp.langs)

RuleHolds(R, T) ==
    CASE R = "InsNonEmpty"     -> InputsNonEmpty(T)
      [] R = "InsInUtxo"       -> InputsInUtxo(T)
      [] R = "CollInUtxo"      -> CollateralInUtxo(T)
      [] R = "RefInUtxo"       -> RefInputsInUtxo(T)
      [] R = "ValidityUpper"   -> NotAfterTtl(T)
      [] R = "ValidityLower"   -> NotBeforeStart(T)
      [] R = "MinAda"          -> OutputsHoldMinAda(T)
      [] R = "ValueSize"       -> ValueSizeWithinLimit(T)
      [] R = "OutNetwork"      -> OutputNetworksMatch(T)
      [] R = "TxNetwork"       -> BodyNetworkMatches(T)
      [] R = "CollateralCount" -> CollateralCountOK(T)
      [] R = "CollateralKind"  -> CollateralKeyLocked(T)
      [] R = "CollateralAssets" -> CollateralAdaOnly(T)
      [] R = "CollateralAmount" -> CollateralSufficient(T)
      [] R = "CollateralAnnotation" -> CollateralAnnotationExact(T)
      [] R = "MintPolicy"      -> MintPoliciesWitnessed(T)
      [] R = "ScriptWitness"   -> ScriptsWitnessed(T)
      [] R = "DatumWitness"    -> DatumsWitnessed(T)
      [] R = "RedeemerCoverage" -> RedeemersPointAtScripts(T)
      [] R = "AuxHash"         -> AuxDataHashMatches(T)
      [] R = "ScriptIntegrity" -> ScriptIntegrityHashMatches(T)
      [] R = "Language"        -> LanguagesAvailable(T)
      [] OTHER -> TRUE
Breaks(R, T) == ~RuleHolds(R, T)

\* Phase-1 validation per era: the checks in the order the validator performs them (validate_<era>_tx).
\* "Preservation" = Conserved (C34), "Witnesses" = SigsOK (C35), "MinFee" / "MaxSize" = FeeSizeOK (C36),
\* "ExUnits" = BudgetOK (C37); all other names are the structural rules above (C38).
ShelleyMAOrder == <<"InsNonEmpty", "InsInUtxo", "ValidityUpper", "MaxSize", "MinAda", "Certificates", "Preservation",
                    "MinFee", "OutNetwork", "AuxHash", "ScriptWitness", "Witnesses", "MintPolicy">>
AlonzoOrder == <<"InsNonEmpty", "InsInUtxo", "CollInUtxo", "ValidityLower", "ValidityUpper", "MinFee",
                 "CollateralCount", "CollateralKind", "CollateralAmount", "CollateralAssets", "Preservation", "MinAda",
                 "ValueSize", "OutNetwork", "TxNetwork", "MaxSize", "ExUnits", "ScriptWitness", "MintPolicy",
                 "DatumWitness", "RedeemerCoverage", "Witnesses", "AuxHash", "ScriptIntegrity">>
BabbageOrder == <<"InsNonEmpty", "InsInUtxo", "CollInUtxo", "RefInUtxo", "ValidityLower", "ValidityUpper", "MinFee",
                  "CollateralCount", "CollateralKind", "CollateralAssets", "CollateralAmount", "CollateralAnnotation",
                  "Preservation", "MinAda", "ValueSize", "OutNetwork", "TxNetwork", "MaxSize", "ExUnits", "MintPolicy",
                  "ScriptWitness", "DatumWitness", "RedeemerCoverage", "Witnesses", "AuxHash", "ScriptIntegrity">>
EraOrder == [
    byron   |-> <<"InsNonEmpty", "InsInUtxo", "MinAda", "Preservation", "MaxSize", "Witnesses">>,
    shelley |-> ShelleyMAOrder, allegra |-> ShelleyMAOrder, mary |-> ShelleyMAOrder,
    alonzo  |-> AlonzoOrder, babbage |-> BabbageOrder, conway |-> BabbageOrder \o <<"Language">> ]
CoreRules == {"Preservation", "Witnesses", "MinFee", "MaxSize", "ExUnits", "Certificates"}
\* the structural rules the validator implements in T's era (minting exists from Mary on)
RuleNames == (UNION {Range(EraOrder[e]) : e \in DOMAIN EraOrder}) \ CoreRules
Rules(T) == (Range(EraOrder[T.era]) \ CoreRules) \ (IF T.era \in {"shelley", "allegra"} THEN {"MintPolicy"} ELSE {})

BrokenRules(T) == {R \in Rules(T) : Breaks(R, T)}

\* ------------------------------------------------------------ reference validator
\* The rule set as a reference decision: a transaction is accepted iff no
\* implemented rule is broken, value is preserved, the witnesses are in order,
\* fee and size are within limits and the script budget is respected.  (On
\* concrete transactions Breaks is only a sufficient condition, so this
\* reference is used on the abstract transactions of the model only.)
Accept(T) ==
    /\ BrokenRules(T) = {}
    /\ T.special \/ Conserved(T)
    /\ T.era = "byron" \/ (SigsOK(T) /\ FeeSizeOK(T) /\ BudgetOK(T))

RefVerdict(T) == IF Accept(T) THEN "accept" ELSE "reject"

\* ------------------------------------------------------------ checking procedure
CONSTANTS Mutate(_, _),    \* Mutate(R, T): the rule-specific mutator for rule R
          SideEffects(_)  \* rules a mutator for R may break as an unavoidable consequence
VARIABLES t, phase, verdict, rule
vars == <<t, phase, verdict, rule>>

InitWith(T) == t = T /\ phase = "fresh" /\ verdict = "none" /\ rule = "none"

\* validate_tx on the un-mutated transaction
Validate ==
    /\ phase = "fresh"
    /\ verdict' = RefVerdict(t)
    /\ phase' = "validated"
    /\ UNCHANGED <<t, rule>>

\* apply the mutator of rule R to an accepted transaction
MutateRule(R) ==
    /\ phase = "validated" /\ verdict = "accept"
    /\ R \in Rules(t)
    /\ Mutate(R, t) # t
    /\ t' = Mutate(R, t)
    /\ rule' = R
    /\ phase' = "mutated"
    /\ UNCHANGED verdict

\* validate_tx on the mutant
Revalidate ==
    /\ phase = "mutated"
    /\ verdict' = RefVerdict(t)
    /\ phase' = "done"
    /\ UNCHANGED <<t, rule>>

\* ------------------------------------------------------------ properties of the model
TypeOK == verdict \in {"none", "accept", "reject"}                       \* C33: no other outcome exists
AcceptSound ==                                                            \* C34..C37
    (phase \in {"validated", "done"} /\ verdict = "accept") =>
        /\ t.special \/ Conserved(t)
        /\ t.era = "byron" \/ (SigsOK(t) /\ FeeSizeOK(t) /\ BudgetOK(t))
MutantBreaksItsRule == phase \in {"mutated", "done"} => Breaks(rule, t)   \* the mutator does what it says
MutantBreaksOnlyItsRule == phase \in {"mutated", "done"} => BrokenRules(t) \subseteq {rule} \cup SideEffects(rule)
MutantRejected == phase = "done" => verdict = "reject"                    \* C38
=============================================================================
