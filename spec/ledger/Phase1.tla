------------------------------- MODULE Phase1 -------------------------------
(* Phase-1 (ledger rule) validation of one transaction -- the specification *)
(* shared by properties C33..C38 of pallas-validate                         *)
(*   entry point: pallas_validate::phase1::validate_tx                      *)
(*                                                                          *)
(* A transaction is seen through an abstract projection T (a record).  The  *)
(* harness computes T for every concrete transaction INDEPENDENTLY of the   *)
(* validator (pallas-traverse accessors, own UTxO bookkeeping, own Ed25519  *)
(* check); quantities are BigNat (TLC integers are 32-bit).                 *)
(*                                                                          *)
(*  T.era        "byron" | "shelley" | "allegra" | "mary" | "alonzo" | "babbage" | "conway" *)
(*  T.nIns, T.insMissing, T.insDup   inputs listed / not in the UTxO / repeated            *)
(*  T.spent      resolved spent outputs   [coin, assets: Seq([id, q]), net, kh, sh, dh]   *)
(*  T.outs       produced outputs (same shape)                                             *)
(*  T.fee, T.mint: Seq([id, q]) (q signed)                                                 *)
(*  T.special    certificates / withdrawals / treasury / donation / governance present     *)
(*  T.wits       Seq([kh, ok]) vkey witnesses: key hash, signature verifies over the tx id *)
(*  T.needKeys   payment key hashes of key-locked spent and collateral inputs              *)
(*  T.reqSigners required signers                                                          *)
(*  T.redeemers  Seq([mem, steps, tag, idx]), T.rform "list" | "map" | "none"             *)
(*  T.plutus     uses Plutus scripts (witness set or reference), T.plutusWit (witness set) *)
(*  T.size       the ledger's transaction size (traversal size)                            *)
(*  T.pp         [a, b, maxSize, maxMem, maxSteps, coinsPerByte, minAdaUnits, dhUnits, maxValSize,   *)
(*                maxColl, collPct, langs]                                                 *)
(*  ... and the per-rule facts used by Breaks (see below).                                 *)
(*                                                                          *)
(* Property predicates:                                                     *)
(*   C33  verdict \in {"accept","reject"}  (there is no panic action)        *)
(*   C34  Conserved   C35 SigsOK   C36 FeeSizeOK   C37 BudgetOK              *)
(*   C38  Breaks(R, T) => reject, one mutation class per implemented rule    *)
(* The state machine below is the checking procedure the harness follows:   *)
(* validate an (accepted) transaction, mutate it with a rule-specific       *)
(* mutator, validate again.                                                 *)
EXTENDS BigNat, Integers, Sequences, FiniteSets

Range(s) == {s[i] : i \in 1..Len(s)}

\* ------------------------------------------------------------ value sums
RECURSIVE SumQ(_, _)
SumQ(as, id) ==            \* total quantity of asset `id` in a sequence of [id, q]
    IF as = <<>> THEN Zero
    ELSE Add(IF as[1].id = id THEN as[1].q ELSE Zero, SumQ(Tail(as), id))

RECURSIVE CoinSum(_)
CoinSum(os) == IF os = <<>> THEN Zero ELSE Add(os[1].coin, CoinSum(Tail(os)))

RECURSIVE AssetSum(_, _)
AssetSum(os, id) == IF os = <<>> THEN Zero ELSE Add(SumQ(os[1].assets, id), AssetSum(Tail(os), id))

IdsOf(as) == {as[i].id : i \in 1..Len(as)}
AssetIds(T) == UNION ({IdsOf(T.spent[i].assets) : i \in 1..Len(T.spent)}
                      \cup {IdsOf(T.outs[i].assets) : i \in 1..Len(T.outs)}
                      \cup {IdsOf(T.mint)})

MinFee(T) == Add(MulSmall(FromInt(T.size), T.pp.a), FromInt(T.pp.b))

\* ------------------------------------------------------------ C34
\* ada and every asset: spent + minted = produced + fee, in unbounded integers.
\* Byron: inputs exceed outputs by at least the minimum fee (none when only
\* redeem addresses are spent -- there the statement is read as inputs >= outputs).
Conserved(T) ==
    IF T.era = "byron"
    THEN Le(Add(CoinSum(T.outs), IF T.redeemOnly THEN Zero ELSE MinFee(T)), CoinSum(T.spent))
    ELSE /\ Eq(CoinSum(T.spent), Add(CoinSum(T.outs), T.fee))
         /\ \A id \in AssetIds(T) :
               Eq(Add(AssetSum(T.spent, id), SumQ(T.mint, id)), AssetSum(T.outs, id))

\* ------------------------------------------------------------ C35
HasGoodWit(T, k) == \E i \in 1..Len(T.wits) : T.wits[i].kh = k /\ T.wits[i].ok
SigsOK(T) ==
    /\ \A i \in 1..Len(T.wits) : T.wits[i].ok
    /\ \A k \in Range(T.needKeys) \cup Range(T.reqSigners) : HasGoodWit(T, k)

\* ------------------------------------------------------------ C36
FeeSizeOK(T) == Le(MinFee(T), T.fee) /\ Le(FromInt(T.size), T.pp.maxSize)

\* ------------------------------------------------------------ C37
RECURSIVE SumMem(_)
SumMem(rs) == IF rs = <<>> THEN Zero ELSE Add(rs[1].mem, SumMem(Tail(rs)))
RECURSIVE SumSteps(_)
SumSteps(rs) == IF rs = <<>> THEN Zero ELSE Add(rs[1].steps, SumSteps(Tail(rs)))
BudgetOK(T) == T.plutus => Le(SumMem(T.redeemers), T.pp.maxMem) /\ Le(SumSteps(T.redeemers), T.pp.maxSteps)

\* ------------------------------------------------------------ C38
\* Rules the validator implements, by era.
ShelleyOn == {"shelley", "allegra", "mary", "alonzo", "babbage", "conway"}
AlonzoOn == {"alonzo", "babbage", "conway"}
BabbageOn == {"babbage", "conway"}

RuleEras == [
    InsNonEmpty |-> ShelleyOn \cup {"byron"}, InsInUtxo |-> ShelleyOn \cup {"byron"},
    CollInUtxo |-> AlonzoOn, RefInUtxo |-> BabbageOn,
    ValidityUpper |-> ShelleyOn, ValidityLower |-> AlonzoOn,
    MinAda |-> ShelleyOn \cup {"byron"}, ValueSize |-> AlonzoOn,
    OutNetwork |-> ShelleyOn, TxNetwork |-> AlonzoOn,
    CollateralCount |-> AlonzoOn, CollateralKind |-> AlonzoOn, CollateralAssets |-> AlonzoOn,
    CollateralAmount |-> AlonzoOn, CollateralAnnotation |-> BabbageOn,
    MintPolicy |-> {"mary", "alonzo", "babbage", "conway"}, ScriptWitness |-> ShelleyOn,
    DatumWitness |-> AlonzoOn, RedeemerCoverage |-> AlonzoOn,
    AuxHash |-> ShelleyOn, ScriptIntegrity |-> AlonzoOn, Language |-> {"conway"} ]
RuleNames == DOMAIN RuleEras
Rules(T) == {R \in RuleNames : T.era \in RuleEras[R]}

\* A lower bound of the minimum ada every output must hold, whatever its value: the era's price unit
\* (T.pp.coinsPerByte: minUTxOValue in Shelley-MA, coins per UTxO word in Alonzo, per byte in Babbage/Conway)
\* times the units an output costs at least (T.pp.minAdaUnits: 1 | 27 + 1 value word | 160 bytes overhead)
\* plus, in Alonzo, 10 words for a datum hash (T.pp.dhUnits).  Below this floor the rule is broken for sure.
MinAdaFloor(T, o) == MulSmall(T.pp.coinsPerByte, T.pp.minAdaUnits + (IF o.dh THEN T.pp.dhUnits ELSE 0))

Avail(T) == Range(T.witScripts) \cup Range(T.refScripts)
CollNet(T) == Sub(CoinSum(T.coll), T.collReturn.coin)     \* collateral actually paid
HasAssets(o) == \E i \in 1..Len(o.assets) : ~IsZero(o.assets[i].q)
DistinctIns(T) == T.nIns - T.insDup

\* Breaks(R, T): a SUFFICIENT condition, over independently observed facts, for
\* T to violate rule R.  (Only these conditions are demanded -- where a rule
\* has corner cases the property is silent about, nothing is claimed.)
Breaks(R, T) ==
    CASE R = "InsNonEmpty"     -> T.nIns = 0
      [] R = "InsInUtxo"       -> T.insMissing > 0
      [] R = "CollInUtxo"      -> T.collMissing > 0
      [] R = "RefInUtxo"       -> T.refMissing > 0
      [] R = "ValidityUpper"   -> T.ttl.has /\ Lt(T.ttl.v, T.slot)
      [] R = "ValidityLower"   -> T.vstart.has /\ Lt(T.slot, T.vstart.v)
      [] R = "MinAda"          -> \E i \in 1..Len(T.outs) : Lt(T.outs[i].coin, MinAdaFloor(T, T.outs[i]))
      [] R = "ValueSize"       -> T.pp.maxValSize = 0 /\ T.outs # <<>>
      [] R = "OutNetwork"      -> \E i \in 1..Len(T.outs) : T.outs[i].net >= 0 /\ T.outs[i].net # T.envNet
      [] R = "TxNetwork"       -> T.txNet >= 0 /\ T.txNet # T.envNet
      [] R = "CollateralCount" -> T.plutusWit /\ (T.nColl = 0 \/ T.nColl > T.pp.maxColl)
      [] R = "CollateralKind"  -> T.plutusWit /\ \E i \in 1..Len(T.coll) : T.coll[i].sh # ""
      [] R = "CollateralAssets" -> T.plutusWit /\ ~T.collReturn.has /\ \E i \in 1..Len(T.coll) : HasAssets(T.coll[i])
      [] R = "CollateralAmount" -> T.plutusWit /\ T.nColl > 0 /\ T.collMissing = 0
                                    /\ Lt(MulSmall(CollNet(T), 100), MulSmall(T.fee, T.pp.collPct))
      [] R = "CollateralAnnotation" -> T.plutusWit /\ T.nColl > 0 /\ T.collMissing = 0 /\ T.totalColl.has
                                    /\ ~Eq(T.totalColl.v, CollNet(T))
      [] R = "MintPolicy"      -> \E p \in Range(T.mintPolicies) : p \notin Avail(T)
      [] R = "ScriptWitness"   -> \E s \in Range(T.needScripts) : s \notin Avail(T)
      [] R = "DatumWitness"    -> T.plutus /\ \E d \in Range(T.inDatumHashes) : d \notin Range(T.witDatums)
      [] R = "RedeemerCoverage" -> (T.redeemers # <<>> /\ ~T.plutus)
                                   \/ (\E i \in 1..Len(T.redeemers) :
                                          T.redeemers[i].tag = "Spend" /\ T.redeemers[i].idx >= DistinctIns(T))
      [] R = "AuxHash"         -> T.auxDeclared # T.auxActual
      [] R = "ScriptIntegrity" -> (T.sdh = "" /\ T.redeemers # <<>>)
                                   \/ (T.scriptDataSame /\ T.sdh # T.sdhBase)
      [] R = "Language"        -> \E x \in Range(T.langsUsed) : x \notin Range(T.pp.langs)
      [] OTHER -> FALSE

BrokenRules(T) == {R \in Rules(T) : Breaks(R, T)}

\* ------------------------------------------------------------ reference validator
\* The rule set as a reference decision: a transaction is accepted iff no
\* implemented rule is broken, value is preserved, the witnesses are in order,
\* fee and size are within limits and the script budget is respected.  (On
\* concrete transactions Breaks is only a sufficient condition, so this
\* reference is used on the abstract transactions of the model only.)
Accept(T) ==
    /\ BrokenRules(T) = {}
    /\ T.special \/ Conserved(T)
    /\ T.era = "byron" \/ (SigsOK(T) /\ FeeSizeOK(T) /\ BudgetOK(T))

RefVerdict(T) == IF Accept(T) THEN "accept" ELSE "reject"

\* ------------------------------------------------------------ checking procedure
CONSTANTS Mutate(_, _),    \* Mutate(R, T): the rule-specific mutator for rule R
          SideEffects(_)  \* rules a mutator for R may break as an unavoidable consequence
VARIABLES t, phase, verdict, rule
vars == <<t, phase, verdict, rule>>

InitWith(T) == t = T /\ phase = "fresh" /\ verdict = "none" /\ rule = "none"

\* validate_tx on the un-mutated transaction
Validate ==
    /\ phase = "fresh"
    /\ verdict' = RefVerdict(t)
    /\ phase' = "validated"
    /\ UNCHANGED <<t, rule>>

\* apply the mutator of rule R to an accepted transaction
MutateRule(R) ==
    /\ phase = "validated" /\ verdict = "accept"
    /\ R \in Rules(t)
    /\ Mutate(R, t) # t
    /\ t' = Mutate(R, t)
    /\ rule' = R
    /\ phase' = "mutated"
    /\ UNCHANGED verdict

\* validate_tx on the mutant
Revalidate ==
    /\ phase = "mutated"
    /\ verdict' = RefVerdict(t)
    /\ phase' = "done"
    /\ UNCHANGED <<t, rule>>

\* ------------------------------------------------------------ properties of the model
TypeOK == verdict \in {"none", "accept", "reject"}                       \* C33: no other outcome exists
AcceptSound ==                                                            \* C34..C37
    (phase \in {"validated", "done"} /\ verdict = "accept") =>
        /\ t.special \/ Conserved(t)
        /\ t.era = "byron" \/ (SigsOK(t) /\ FeeSizeOK(t) /\ BudgetOK(t))
MutantBreaksItsRule == phase \in {"mutated", "done"} => Breaks(rule, t)   \* the mutator does what it says
MutantBreaksOnlyItsRule == phase \in {"mutated", "done"} => BrokenRules(t) \subseteq {rule} \cup SideEffects(rule)
MutantRejected == phase = "done" => verdict = "reject"                    \* C38
=============================================================================
