INIT TInit
NEXT TNext
CHECK_DEADLOCK FALSE
POSTCONDITION TraceVerdict
