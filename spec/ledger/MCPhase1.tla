------------------------------ MODULE MCPhase1 ------------------------------
(* Exhaustive configuration of Phase1: tiny abstract transactions (one key-  *)
(* locked input, two outputs, one asset, amounts 0..3, optional mint +-1,    *)
(* up to two witnesses, optional Plutus part with up to two redeemers) and    *)
(* the abstract counterparts of the harness' rule-specific mutators.          *)
(* Shows that the rule set is not vacuous: some transactions are accepted,    *)
(* acceptance implies the four property predicates, every mutator breaks      *)
(* exactly its rule and the mutant is rejected.                               *)
EXTENDS Phase1

B(x) == FromInt(x)
Asset(id, q) == IF q = 0 THEN <<>> ELSE <<[id |-> id, q |-> B(q)]>>
Out(c, q) == [coin |-> B(c), assets |-> Asset("A", q), net |-> 1, kh |-> "", sh |-> "", dh |-> FALSE]
In(c, q)  == [coin |-> B(c), assets |-> Asset("A", q), net |-> 1, kh |-> "k1", sh |-> "", dh |-> FALSE]

W1g == [kh |-> "k1", ok |-> TRUE]
W1b == [kh |-> "k1", ok |-> FALSE]
W2g == [kh |-> "k2", ok |-> TRUE]
W2b == [kh |-> "k2", ok |-> FALSE]
WitChoices == {<<>>, <<W1g>>, <<W1b>>, <<W1g, W2g>>, <<W1g, W2b>>, <<W2g>>}
Red(m) == [mem |-> B(m), steps |-> B(m), tag |-> "Spend", idx |-> 0]
RedChoices == {<<>>, <<Red(1)>>, <<Red(1), Red(1)>>, <<Red(2), Red(1)>>}

Tx(era, pl, ic, iq, oc, oq, fee, mint, wits, reqs, size, reds) == [
    era |-> era, nIns |-> 1, insMissing |-> 0, insDup |-> 0,
    spent |-> <<In(ic, iq)>>, outs |-> <<Out(oc, oq), Out(1, 0)>>, fee |-> B(fee),
    mint |-> Asset("A", mint), mintPolicies |-> IF mint = 0 THEN <<>> ELSE <<"pA">>,
    special |-> FALSE, wits |-> wits, needKeys |-> <<"k1">>, reqSigners |-> reqs,
    redeemers |-> reds, rform |-> "list", plutus |-> pl, plutusWit |-> pl,
    size |-> size, redeemOnly |-> FALSE,
    nColl |-> IF pl THEN 1 ELSE 0, collMissing |-> 0, coll |-> IF pl THEN <<In(3, 0)>> ELSE <<>>,
    collReturn |-> [has |-> FALSE, coin |-> Zero, assets |-> <<>>],
    totalColl |-> [has |-> pl, v |-> B(IF pl THEN 3 ELSE 0)],
    nRef |-> 0, refMissing |-> 0, withdrawals |-> <<>>,
    needScripts |-> IF pl THEN <<"s1">> ELSE <<>>,
    witScripts |-> (IF pl THEN <<"s1">> ELSE <<>>) \o (IF mint = 0 THEN <<>> ELSE <<"pA">>),
    refScripts |-> <<>>,
    inDatumHashes |-> IF pl THEN <<"d1">> ELSE <<>>, witDatums |-> IF pl THEN <<"d1">> ELSE <<>>,
    auxDeclared |-> "", auxActual |-> "",
    sdh |-> IF pl THEN "h1" ELSE "", sdhBase |-> IF pl THEN "h1" ELSE "", scriptDataSame |-> TRUE,
    txNet |-> 1, envNet |-> 1,
    ttl |-> [has |-> TRUE, v |-> B(5)], vstart |-> [has |-> TRUE, v |-> B(1)], slot |-> B(3),
    langsUsed |-> IF pl THEN <<3>> ELSE <<>>,
    pp |-> [a |-> 1, b |-> 0, maxSize |-> B(2), maxMem |-> B(2), maxSteps |-> B(2), coinsPerByte |-> B(1), minAdaUnits |-> 1, dhUnits |-> 0,
            maxValSize |-> 10, maxColl |-> 1, collPct |-> 150, langs |-> <<1, 2, 3>>] ]

CONSTANTS MaxCoin,      \* largest ada amount of an input
          Full          \* TRUE: full product of all dimensions (thorough); FALSE: one aspect varied at a time
Eras == {<<"mary", FALSE>>, <<"conway", FALSE>>, <<"conway", TRUE>>}
DefReds(pl) == IF pl THEN <<Red(1)>> ELSE <<>>

\* one aspect varied, the others at a valid default (spent 3 = 1 + 1 + fee 1; asset 1 = 1; witness of k1)
ValueSlice(P(_)) ==
    \E ep \in Eras, ic \in 2..MaxCoin, iq \in 0..1, oc \in 0..(MaxCoin - 1), oq \in 0..2, fee \in 0..2, mint \in {-1, 0, 1} :
        P(Tx(ep[1], ep[2], ic, iq, oc, oq, fee, mint, <<W1g>>, <<>>, 1, DefReds(ep[2])))
SigSlice(P(_)) ==
    \E ep \in Eras, wits \in WitChoices, reqs \in {<<>>, <<"k2">>} :
        P(Tx(ep[1], ep[2], 3, 1, 1, 1, 1, 0, wits, reqs, 1, DefReds(ep[2])))
SizeSlice(P(_)) ==
    \E ep \in Eras, fee \in 0..3, size \in 1..3 :
        P(Tx(ep[1], ep[2], 2 + fee, 1, 1, 1, fee, 0, <<W1g>>, <<>>, size, DefReds(ep[2])))
BudgetSlice(P(_)) ==
    \E ep \in Eras, reds \in RedChoices :
        P(Tx(ep[1], ep[2], 3, 1, 1, 1, 1, 0, <<W1g>>, <<>>, 1, reds))
Product(P(_)) ==
    \E ep \in Eras, ic \in 2..MaxCoin, iq \in 0..1, oc \in 0..(MaxCoin - 1), oq \in 0..1, fee \in 0..2, mint \in {-1, 0, 1},
       wits \in WitChoices, reqs \in {<<>>, <<"k2">>}, size \in 1..3, reds \in RedChoices :
        P(Tx(ep[1], ep[2], ic, iq, oc, oq, fee, mint, wits, reqs, size, reds))
Tiny(P(_)) == IF Full THEN Product(P) ELSE ValueSlice(P) \/ SigSlice(P) \/ SizeSlice(P) \/ BudgetSlice(P)

MCInit == Tiny(InitWith)

\* Abstract mutators (what harness/pv-ledger/src/mutate.rs does to a concrete transaction).
MCMutate(R, T) ==
    CASE R = "InsNonEmpty"   -> [T EXCEPT !.nIns = 0, !.spent = <<>>, !.needKeys = <<>>]
      [] R = "InsInUtxo"     -> [T EXCEPT !.insMissing = 1, !.spent = <<>>, !.needKeys = <<>>]
      [] R = "CollInUtxo"    -> IF T.nColl = 0 THEN T ELSE [T EXCEPT !.collMissing = 1, !.coll = <<>>]
      [] R = "RefInUtxo"     -> [T EXCEPT !.nRef = 1, !.refMissing = 1]
      [] R = "ValidityUpper" -> [T EXCEPT !.slot = Add(T.ttl.v, B(1))]
      [] R = "ValidityLower" -> [T EXCEPT !.vstart = [has |-> TRUE, v |-> Add(T.slot, B(1))]]
      [] R = "MinAda"        -> [T EXCEPT !.outs[1].coin = Zero, !.outs[2].coin = Add(T.outs[2].coin, T.outs[1].coin)]
      [] R = "ValueSize"     -> [T EXCEPT !.pp.maxValSize = 0]
      [] R = "OutNetwork"    -> [T EXCEPT !.outs[1].net = 0]
      [] R = "TxNetwork"     -> [T EXCEPT !.txNet = 0]
      [] R = "CollateralCount" -> IF T.plutusWit THEN [T EXCEPT !.pp.maxColl = 0] ELSE T
      [] R = "CollateralKind"  -> IF T.plutusWit THEN [T EXCEPT !.coll[1].sh = "s9", !.coll[1].kh = ""] ELSE T
      [] R = "CollateralAssets" -> IF T.plutusWit THEN [T EXCEPT !.coll[1].assets = Asset("A", 1)] ELSE T
      [] R = "CollateralAmount" -> IF T.plutusWit /\ ~IsZero(T.fee)
                                   THEN [T EXCEPT !.coll[1].coin = Zero, !.totalColl.v = Zero] ELSE T
      [] R = "CollateralAnnotation" -> IF T.plutusWit THEN [T EXCEPT !.totalColl.v = Add(T.totalColl.v, B(1))] ELSE T
      [] R = "MintPolicy"    -> [T EXCEPT !.mint = T.mint \o Asset("B", 1), !.mintPolicies = T.mintPolicies \o <<"pB">>,
                                          !.outs[1].assets = T.outs[1].assets \o Asset("B", 1)]
      [] R = "ScriptWitness" -> IF T.plutusWit THEN [T EXCEPT !.witScripts = SelectSeq(T.witScripts, LAMBDA s : s # "s1")] ELSE T
      [] R = "DatumWitness"  -> IF T.plutusWit THEN [T EXCEPT !.witDatums = <<>>, !.scriptDataSame = FALSE] ELSE T
      [] R = "RedeemerCoverage" -> IF T.plutusWit
                                   THEN [T EXCEPT !.redeemers = T.redeemers \o <<[mem |-> Zero, steps |-> Zero, tag |-> "Spend", idx |-> 7]>>,
                                                  !.scriptDataSame = FALSE]
                                   ELSE T
      [] R = "AuxHash"       -> [T EXCEPT !.auxDeclared = "x"]
      [] R = "ScriptIntegrity" -> IF T.plutusWit THEN [T EXCEPT !.sdh = "h2"] ELSE T
      [] R = "Language"      -> IF T.plutusWit THEN [T EXCEPT !.pp.langs = <<1, 2>>] ELSE T
      [] OTHER -> T

\* without inputs the spend redeemer of a Plutus transaction points at nothing
MCSideEffects(R) == IF R \in {"InsNonEmpty"} THEN {"RedeemerCoverage"} ELSE {}

Mutate_InsNonEmpty == MutateRule("InsNonEmpty")
Mutate_InsInUtxo == MutateRule("InsInUtxo")
Mutate_CollInUtxo == MutateRule("CollInUtxo")
Mutate_RefInUtxo == MutateRule("RefInUtxo")
Mutate_ValidityUpper == MutateRule("ValidityUpper")
Mutate_ValidityLower == MutateRule("ValidityLower")
Mutate_MinAda == MutateRule("MinAda")
Mutate_ValueSize == MutateRule("ValueSize")
Mutate_OutNetwork == MutateRule("OutNetwork")
Mutate_TxNetwork == MutateRule("TxNetwork")
Mutate_CollateralCount == MutateRule("CollateralCount")
Mutate_CollateralKind == MutateRule("CollateralKind")
Mutate_CollateralAssets == MutateRule("CollateralAssets")
Mutate_CollateralAmount == MutateRule("CollateralAmount")
Mutate_CollateralAnnotation == MutateRule("CollateralAnnotation")
Mutate_MintPolicy == MutateRule("MintPolicy")
Mutate_ScriptWitness == MutateRule("ScriptWitness")
Mutate_DatumWitness == MutateRule("DatumWitness")
Mutate_RedeemerCoverage == MutateRule("RedeemerCoverage")
Mutate_AuxHash == MutateRule("AuxHash")
Mutate_ScriptIntegrity == MutateRule("ScriptIntegrity")
Mutate_Language == MutateRule("Language")

MCNext ==
    \/ Validate \/ Revalidate
    \/ Mutate_InsNonEmpty \/ Mutate_InsInUtxo \/ Mutate_CollInUtxo \/ Mutate_RefInUtxo
    \/ Mutate_ValidityUpper \/ Mutate_ValidityLower \/ Mutate_MinAda \/ Mutate_ValueSize
    \/ Mutate_OutNetwork \/ Mutate_TxNetwork \/ Mutate_CollateralCount \/ Mutate_CollateralKind
    \/ Mutate_CollateralAssets \/ Mutate_CollateralAmount \/ Mutate_CollateralAnnotation
    \/ Mutate_MintPolicy \/ Mutate_ScriptWitness \/ Mutate_DatumWitness \/ Mutate_RedeemerCoverage
    \/ Mutate_AuxHash \/ Mutate_ScriptIntegrity \/ Mutate_Language

\* some transaction is accepted in every explored era / script class (non-vacuity of Accept)
AccIn(e, pl, T) == T.era = e /\ T.plutus = pl /\ Accept(T)
AccMary(T) == AccIn("mary", FALSE, T)
AccConway(T) == AccIn("conway", FALSE, T)
AccPlutus(T) == AccIn("conway", TRUE, T)
\* each property predicate is decisive on its own: it fails on some transaction on which the others hold
OnlyValue(T) == ~Conserved(T) /\ SigsOK(T) /\ FeeSizeOK(T) /\ BudgetOK(T) /\ BrokenRules(T) = {}
OnlySigs(T) == Conserved(T) /\ ~SigsOK(T) /\ FeeSizeOK(T) /\ BudgetOK(T) /\ BrokenRules(T) = {}
OnlyFee(T) == Conserved(T) /\ SigsOK(T) /\ ~FeeSizeOK(T) /\ BudgetOK(T) /\ BrokenRules(T) = {}
OnlyBudget(T) == Conserved(T) /\ SigsOK(T) /\ FeeSizeOK(T) /\ ~BudgetOK(T) /\ BrokenRules(T) = {}
ASSUME ValueSlice(AccMary) /\ ValueSlice(AccConway) /\ ValueSlice(AccPlutus)
\* every rule has a mutator that applies to some accepted transaction
ASSUME \A R \in RuleNames : ValueSlice(LAMBDA T : Accept(T) /\ R \in Rules(T) /\ MCMutate(R, T) # T)
ASSUME ValueSlice(OnlyValue) /\ SigSlice(OnlySigs) /\ SizeSlice(OnlyFee) /\ BudgetSlice(OnlyBudget)
=============================================================================
