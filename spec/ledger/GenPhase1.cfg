CONSTANTS
  MaxOff = 2
  Mutate <- GenMutate
  SideEffects <- GenSideEffects
INIT GInit
NEXT GNext
CHECK_DEADLOCK FALSE
