CONSTANTS
  MaxCoin = 3
  Full = FALSE
  Mutate <- MCMutate
  SideEffects <- MCSideEffects
INIT MCInit
NEXT MCNext
INVARIANTS
  TypeOK
  AcceptSound
  MutantBreaksItsRule
  MutantBreaksOnlyItsRule
  MutantRejected
CHECK_DEADLOCK FALSE
