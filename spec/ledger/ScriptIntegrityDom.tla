-------------------------- MODULE ScriptIntegrityDom --------------------------
(* Bounded domain for C08: redeemer forms x datum wires x language-view sets. *)
EXTENDS ScriptIntegrity
CONSTANT Tier

Unit == Tag(1, <<121>>, ArrI(<<>>))                          \* d8 79 9f ff
E1 == [tag |-> 0, idx |-> 0, data |-> UIntN(42), mem |-> 1000, steps |-> 70000]
E2 == [tag |-> 1, idx |-> 3, data |-> Unit, mem |-> 0, steps |-> 1]
E3 == [tag |-> 0, idx |-> 300, data |-> BStrMin(<<1, 2, 3>>), mem |-> 16777215, steps |-> 23]

\* canonical wires (what the encoder writes for the value) ...
Redeemers == <<None, RedeemerList(<<E1>>), RedeemerList(<<E1, E2>>), RedeemerList(<<E2, E1, E3>>), RedeemerList(<<>>),
               RedeemerMap(<<E1>>), RedeemerMap(<<E1, E3, E2>>), RedeemerMap(<<>>)>>
\* ... and wires that carry the same redeemers in another encoding (indefinite list, unsorted map, wide head):
\* the property does not say "as they appeared" for redeemers, so these only produce drift notes
RedeemersOther == <<ArrI(<<ListEntry(E1)>>), Map(0, <<MapEntry(E2), MapEntry(E1)>>), Arr(1, <<ListEntry(E1)>>)>>

D1 == UIntN(5)
D2 == Tag(1, <<122>>, Arr(0, <<BStrMin(<<9>>)>>))
Datums == <<None, Arr(0, <<D1>>), Tag(2, <<1, 2>>, Arr(0, <<D1, D2>>)), ArrI(<<D2>>), Arr(1, <<D1>>), Arr(0, <<UInt(1, <<5>>)>>),
            Tag(2, <<1, 2>>, ArrI(<<D2, Unit>>))>>

P(n)  == [neg |-> FALSE, m |-> NormB(BE(n, 4))]
Ng(n) == [neg |-> TRUE, m |-> NormB(BE(n - 1, 4))]            \* the integer -n, n >= 1
I63max == [neg |-> FALSE, m |-> <<127, 255, 255, 255, 255, 255, 255, 255>>]
I63min == [neg |-> TRUE, m |-> <<127, 255, 255, 255, 255, 255, 255, 255>>]
CostVecs == <<<<>>, <<P(0)>>, <<Ng(1), P(2147483647)>>, <<Ng(2147483647)>>, <<I63max, I63min, P(23), P(24), Ng(24), Ng(25), P(65536)>>,
              [i \in 1..30 |-> P(i * 1000)]>>

\* language-view sets: every subset of {V1,V2,V3}; cost vectors assigned by rotation k
ViewSet(S, k) == [l \in S |-> CostVecs[((l + k) % Len(CostVecs)) + 1]]
Rot == IF Tier = 1 THEN {0, 3} ELSE 0..5
Views == {ViewSet(S, k) : <<S, k>> \in (SUBSET {0, 1, 2}) \X Rot}

Cases == {<<ri, di, L>> \in (1..Len(Redeemers)) \X (1..Len(Datums)) \X Views : TRUE}
=============================================================================
