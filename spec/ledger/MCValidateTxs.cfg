CONSTANTS
  MaxLen = 4
  Seqs <- MCSeqs
  StepTable <- MCStepTable
INIT Init
NEXT Next
INVARIANTS
  Atomic
  Untouched
CHECK_DEADLOCK FALSE
