------------------------------ MODULE GenPhase1 ------------------------------
(* Vector generator (spec -> impl, M1/M2) for Phase1: TLC enumerates abstract *)
(* transaction RECIPES -- which inputs of a small UTxO are spent, fee relative *)
(* to the minimum, balance, mint, witness shape, validity interval, network    *)
(* ids, Plutus part and collateral shape -- builds the abstract transaction    *)
(* T of each recipe and prints it with the specification's reference verdict   *)
(* (Accept / the set of broken rules / the four property predicates).  The     *)
(* harness (pv-ledger phase1-synth) synthesises a REAL signed transaction of    *)
(* the recipe's era for every vector and runs the real validate_tx on it.       *)
(* Recipes deviate from the all-valid default in at most MaxOff dimensions.     *)
EXTENDS Phase1, Json, TLC

CONSTANT MaxOff

B(x) == FromInt(x)
Asset(id, q) == IF q = 0 THEN <<>> ELSE <<[id |-> id, q |-> B(q)]>>

Eras == {"shelley", "mary", "alonzo", "babbage", "conway"}
Scripted == {"alonzo", "babbage", "conway"}
Default == [ins |-> "k1", fee |-> "min", bal |-> "ok", mint |-> "none", wits |-> "needed", val |-> "in", net |-> "ok", plutus |-> "no"]
Dims == DOMAIN Default
Choices == [ins |-> {"k1", "k1k2", "k1s1"}, fee |-> {"min-1", "min", "min+1"}, bal |-> {"ok", "out+1"},
            mint |-> {"none", "plusSpent", "minusSpent", "plusAbsent", "minusAbsent"},
            wits |-> {"needed", "missing", "extraValid", "extraInvalid", "dupCorrupted"},
            val |-> {"in", "afterTtl", "beforeStart"}, net |-> {"ok", "outWrong", "bodyWrong"},
            plutus |-> {"no", "ok", "collNone", "collScript", "collMissing", "collShort", "collAnnot"}]
Off(r) == Cardinality({d \in Dims : r[d] # Default[d]})

\* recipes the era can express
Wf(e, r) ==
    /\ (e = "shelley" => r.mint = "none")
    /\ (e \notin Scripted => r.val # "beforeStart" /\ r.net # "bodyWrong" /\ r.plutus = "no")
    /\ (r.plutus = "collAnnot" => e \in {"babbage", "conway"})
    /\ (r.plutus = "collShort" => r.fee = "min")

\* all recipes that deviate from the default in at most n dimensions
RECURSIVE Dev(_)
Dev(n) == IF n = 0 THEN {Default}
          ELSE LET prev == Dev(n - 1) IN prev \cup UNION {UNION {{[r EXCEPT ![d] = v] : v \in Choices[d]} : d \in Dims} : r \in prev}
Near == Dev(MaxOff)
Recipes(e) == {r \in Near : Wf(e, r)}

\* ---- the abstract transaction of a recipe (amounts are tokens: ada 5/3/3/2, asset A 2, minimum fee 1)
Key(k, c, q) == [coin |-> B(c), assets |-> Asset("A", q), net |-> 1, kh |-> k, sh |-> "", dh |-> FALSE]
Scr(s, c) == [coin |-> B(c), assets |-> <<>>, net |-> 1, kh |-> "", sh |-> s, dh |-> FALSE]

TOf(e, r) ==
    LET multi == e # "shelley"
        pl == r.plutus # "no"
        spent == <<Key("k1", 5, IF multi THEN 2 ELSE 0)>>
                 \o (IF r.ins = "k1k2" THEN <<Key("k2", 3, 0)>> ELSE <<>>)
                 \o (IF r.ins = "k1s1" THEN <<Scr("pA", 3)>> ELSE <<>>)
                 \o (IF pl THEN <<[Scr("sP", 2) EXCEPT !.dh = TRUE]>> ELSE <<>>)
        fee == IF r.fee = "min-1" THEN 0 ELSE IF r.fee = "min" THEN 1 ELSE 2
        bal == IF r.bal = "ok" THEN 0 ELSE 1
        inCoin == 5 + (IF r.ins = "k1" THEN 0 ELSE 3) + (IF pl THEN 2 ELSE 0)
        mintA == IF r.mint = "plusSpent" THEN 1 ELSE IF r.mint = "minusSpent" THEN -1 ELSE 0
        mintB == IF r.mint = "plusAbsent" THEN 1 ELSE IF r.mint = "minusAbsent" THEN -1 ELSE 0
        outA == (IF multi THEN 2 ELSE 0) + mintA
        outB == IF mintB > 0 THEN mintB ELSE 0
        out1 == [coin |-> B(inCoin - fee - 1 + bal), assets |-> Asset("A", outA) \o Asset("B", outB),
                 net |-> IF r.net = "outWrong" THEN 0 ELSE 1, kh |-> "k2", sh |-> "", dh |-> FALSE]
        out2 == [coin |-> B(1), assets |-> <<>>, net |-> 1, kh |-> "k1", sh |-> "", dh |-> FALSE]
        needed == <<"k1">> \o (IF r.ins = "k1k2" THEN <<"k2">> ELSE <<>>)
        collKeyed == pl /\ r.plutus \in {"ok", "collShort", "collAnnot"}
        good == [k \in 1..Len(needed) |-> [kh |-> needed[k], ok |-> TRUE]]
                \o (IF pl THEN <<[kh |-> "kc", ok |-> TRUE]>> ELSE <<>>)
        wits == CASE r.wits = "needed" -> good
                  [] r.wits = "missing" -> Tail(good)          \* the witness of k1 is left out
                  [] r.wits = "extraValid" -> good \o <<[kh |-> "kx", ok |-> TRUE]>>
                  [] r.wits = "extraInvalid" -> good \o <<[kh |-> "kx", ok |-> FALSE]>>
                  [] r.wits = "dupCorrupted" -> good \o <<[kh |-> "k1", ok |-> FALSE]>>
        coll == CASE r.plutus \in {"ok", "collAnnot"} -> <<Key("kc", 3, 0)>>
                  [] r.plutus = "collShort" -> <<Key("kc", 1, 0)>>
                  [] r.plutus = "collScript" -> <<Scr("sX", 3)>>
                  [] OTHER -> <<>>
        annotated == e \in {"babbage", "conway"} /\ r.plutus \in {"ok", "collShort", "collAnnot", "collScript"}
    IN [ era |-> e, nIns |-> Len(spent), insMissing |-> 0, insDup |-> 0,
         spent |-> spent, outs |-> <<out1, out2>>, fee |-> B(fee),
         mint |-> Asset("A", mintA) \o Asset("B", mintB),
         mintPolicies |-> IF r.mint = "none" THEN <<>> ELSE <<"pA">>,
         special |-> FALSE, wits |-> wits,
         needKeys |-> needed \o (IF collKeyed THEN <<"kc">> ELSE <<>>), reqSigners |-> <<>>,
         redeemers |-> IF pl THEN <<[mem |-> B(1), steps |-> B(1), tag |-> "Spend", idx |-> 0]>> ELSE <<>>,
         rform |-> IF pl THEN "list" ELSE "none", plutus |-> pl, plutusWit |-> pl,
         size |-> 1, redeemOnly |-> FALSE,
         nColl |-> IF pl /\ r.plutus # "collNone" THEN 1 ELSE 0,
         collMissing |-> IF r.plutus = "collMissing" THEN 1 ELSE 0, coll |-> coll,
         collReturn |-> [has |-> FALSE, coin |-> Zero, assets |-> <<>>, dh |-> FALSE],
         totalColl |-> [has |-> annotated, v |-> B(IF ~annotated THEN 0 ELSE IF r.plutus = "collShort" THEN 1
                                                   ELSE IF r.plutus = "collAnnot" THEN 4 ELSE 3)],
         nRef |-> 0, refMissing |-> 0, withdrawals |-> <<>>,
         needScripts |-> (IF r.ins = "k1s1" THEN <<"pA">> ELSE <<>>) \o (IF pl THEN <<"sP">> ELSE <<>>),
         witScripts |-> (IF r.ins = "k1s1" \/ r.mint # "none" THEN <<"pA">> ELSE <<>>) \o (IF pl THEN <<"sP">> ELSE <<>>),
         refScripts |-> <<>>,
         inDatumHashes |-> IF pl THEN <<"d1">> ELSE <<>>, witDatums |-> IF pl THEN <<"d1">> ELSE <<>>,
         auxDeclared |-> "", auxActual |-> "",
         sdh |-> IF pl THEN "h1" ELSE "", sdhBase |-> "", scriptDataSame |-> FALSE,
         txNet |-> IF e \notin Scripted THEN -1 ELSE IF r.net = "bodyWrong" THEN 0 ELSE 1, envNet |-> 1,
         ttl |-> [has |-> TRUE, v |-> B(IF r.val = "afterTtl" THEN 2 ELSE 5)],
         vstart |-> [has |-> e # "shelley", v |-> B(IF r.val = "beforeStart" THEN 4 ELSE 1)], slot |-> B(3),
         langsUsed |-> IF pl THEN <<1>> ELSE <<>>,
         pp |-> [a |-> 1, b |-> 0, maxSize |-> B(2), maxMem |-> B(2), maxSteps |-> B(2), coinsPerByte |-> B(1),
                 minAdaUnits |-> 1, dhUnits |-> 0, maxValSize |-> 10, maxColl |-> 3, collPct |-> 150, langs |-> <<1, 2, 3>>] ]

Vec(e, r) ==
    LET T == TOf(e, r)
    IN [era |-> e, recipe |-> r, off |-> Off(r),
        ref |-> RefVerdict(T), broken |-> BrokenRules(T),
        conserved |-> Conserved(T), sigs |-> SigsOK(T), feeSize |-> FeeSizeOK(T), budget |-> BudgetOK(T)]

GenMutate(R, T) == T
GenSideEffects(R) == {}

\* the default recipe is accepted by the reference in every era, and every structural rule the recipes can
\* break is broken by some recipe (the generator is not vacuous)
ASSUME \A e \in Eras : RefVerdict(TOf(e, Default)) = "accept"
ASSUME \A e \in Eras : \A r \in Recipes(e) : PrintT(<<"VEC", ToJson(Vec(e, r))>>)

\* (a trivial behaviour so that TLC has something to check after evaluating the assumptions)
GInit == t = 0 /\ phase = "gen" /\ verdict = "none" /\ rule = "none"
GNext == UNCHANGED vars
=============================================================================
