------------------------------- MODULE Identity -------------------------------
(* C05 - ledger identity hashes are taken over the original on-wire bytes.    *)
(*   pallas-traverse/src/hashes.rs   OriginalHash for KeepRaw<..>, hash_tagged *)
(*   pallas-traverse/src/tx.rs       MultiEraTx::hash                         *)
(*   pallas-traverse/src/header.rs   MultiEraHeader::hash, MultiEraBlock::hash *)
(*                                                                            *)
(* Byte strings are abstract values (the trace carries interned ids; equal    *)
(* ids <=> equal bytes).  Blake2b is uninterpreted: H is a partial function   *)
(* <<digest size, byte string>> -> digest that is *learned* (first occurrence *)
(* defines, later occurrences must agree), and Cat, likewise learned, records *)
(* the harness-side facts "p = prefix o w".  The specification decides only   *)
(* *which* bytes an identifier is the hash of:                                *)
(*      Reported(kind, wire) = H[Size(kind), Prefix(kind) o wire]             *)
EXTENDS Integers, Sequences, FiniteSets, TLC

Kinds == {"tx",                 \* transaction id            : body bytes
          "header",             \* Shelley+ block hash        : header bytes
          "byron_ebb_header",   \* Byron epoch-boundary block : 82 00 o header bytes
          "byron_header",       \* Byron main block           : 82 01 o header bytes
          "datum",              \* datum hash                 : datum bytes
          "native_script",      \* script hash                : 00 o script bytes (CBOR)
          "plutus_v1",          \*                            : 01 o script bytes (content of the byte string)
          "plutus_v2",          \*                            : 02 o ...
          "plutus_v3"}          \*                            : 03 o ...

Prefix(kind) == CASE kind = "byron_ebb_header" -> <<130, 0>>
                  [] kind = "byron_header"     -> <<130, 1>>
                  [] kind = "native_script"    -> <<0>>
                  [] kind = "plutus_v1"        -> <<1>>
                  [] kind = "plutus_v2"        -> <<2>>
                  [] kind = "plutus_v3"        -> <<3>>
                  [] OTHER                     -> <<>>

Size(kind) == IF kind \in {"native_script", "plutus_v1", "plutus_v2", "plutus_v3"} THEN 224 ELSE 256

VARIABLES H,     \* learned hash facts     : [<<size, bytes>> -> digest]
          Cat    \* learned concatenations : [<<prefix, bytes>> -> bytes]
ivars == <<H, Cat>>

Empty == [x \in {} |-> 0]
Init == H = Empty /\ Cat = Empty

\* first occurrence defines, later occurrences must agree
Learn(f, k, v) == IF k \in DOMAIN f THEN f[k] = v ELSE TRUE
Extend(f, k, v) == IF k \in DOMAIN f THEN f ELSE f @@ (k :> v)

\* harness fact: Hasher::<size>::hash(bytes) = digest
HashFact(size, bytes, digest) ==
    /\ Learn(H, <<size, bytes>>, digest) /\ H' = Extend(H, <<size, bytes>>, digest) /\ UNCHANGED Cat
\* harness fact: whole = prefix o part
CatFact(prefix, part, whole) ==
    /\ prefix # <<>>
    /\ Learn(Cat, <<prefix, part>>, whole) /\ Cat' = Extend(Cat, <<prefix, part>>, whole) /\ UNCHANGED H

\* the pre-image of an identifier, as far as the facts learned so far determine it
HasPreimage(kind, wire) == Prefix(kind) = <<>> \/ <<Prefix(kind), wire>> \in DOMAIN Cat
Preimage(kind, wire) == IF Prefix(kind) = <<>> THEN wire ELSE Cat[<<Prefix(kind), wire>>]

\* the library reports `digest` as the identifier of an artefact of `kind` decoded from `wire`
Accepts(kind, wire, digest) ==
    /\ kind \in Kinds
    /\ HasPreimage(kind, wire)
    /\ <<Size(kind), Preimage(kind, wire)>> \in DOMAIN H
    /\ digest = H[<<Size(kind), Preimage(kind, wire)>>]
Report(kind, wire, digest) == Accepts(kind, wire, digest) /\ UNCHANGED ivars

\* MultiEraTx::find_plutus_data(by): a lookup by hash is an observer of datum identity.
\* `among` = the witness datums of the transaction (their wire bytes), `found` = the wire
\* bytes of the datum returned, or `none` (0 in traces).  It must find a datum iff `by` is the hash of
\* the wire bytes of one of them (so not by the hash of some re-encoding).
FindAccepts(among, by, found, none) ==
    /\ \A w \in among : <<256, w>> \in DOMAIN H
    /\ LET hits == {w \in among : H[<<256, w>>] = by}
       IN IF hits = {} THEN found = none ELSE found \in hits
Find(among, by, found, none) == FindAccepts(among, by, found, none) /\ UNCHANGED ivars

\* ---- properties of the table ----
\* kinds hashed with the same digest size never share a pre-image for the same wire
\* bytes unless they are the same rule (script languages and Byron block types are
\* domain-separated by their prefixes)
Separated == \A j, k \in Kinds : (j # k /\ Size(j) = Size(k) /\ Prefix(j) # <<>> /\ Prefix(k) # <<>>) => Prefix(j) # Prefix(k)
ScriptTags == {Prefix(k)[1] : k \in {"native_script", "plutus_v1", "plutus_v2", "plutus_v3"}} = 0..3
=============================================================================
