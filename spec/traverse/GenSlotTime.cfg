CONSTANTS
  MaxSlot = 60
