CONSTANTS
  Refs <- Refs3
  MaxIn = 3
  MaxColl = 2
  MaxOut = 2
  Eras = {"alonzo", "babbage"}
INIT Init
NEXT Next
INVARIANTS Laws ResultsOK
CHECK_DEADLOCK FALSE
