----------------------------- MODULE MCSlotTime -----------------------------
(* Exhaustive configuration for C32: a clock that ticks through the slots   *)
(* 0..MaxSlot of every scaled-down genesis record, performing the three     *)
(* conversions at every slot (one action per public entry point).           *)
EXTENDS SlotTimeBig, SlotTimeConfigs, TLC, FiniteSets

CONSTANTS MaxSlot

VARIABLES g, slot, phase, rel, back, t0, t1
vars == <<g, slot, phase, rel, back, t0, t1>>

Init == /\ g \in Configs /\ slot = 0 /\ phase = "rel"
        /\ rel = <<0, 0>> /\ back = 0 /\ t0 = 0 /\ t1 = 0

AbsoluteSlotToRelative ==
    /\ phase = "rel" /\ rel' = ToRel(g, slot) /\ phase' = "abs"
    /\ UNCHANGED <<g, slot, back, t0, t1>>
RelativeSlotToAbsolute ==
    /\ phase = "abs" /\ back' = ToAbs(g, rel[1], rel[2]) /\ phase' = "wall"
    /\ UNCHANGED <<g, slot, rel, t0, t1>>
SlotToWallclock ==
    /\ phase = "wall" /\ t0' = Wallclock(g, slot) /\ t1' = Wallclock(g, slot + 1) /\ phase' = "tick"
    /\ UNCHANGED <<g, slot, rel, back>>
Tick ==
    /\ phase = "tick" /\ slot < MaxSlot /\ slot' = slot + 1 /\ phase' = "rel"
    /\ UNCHANGED <<g, rel, back, t0, t1>>

Next == AbsoluteSlotToRelative \/ RelativeSlotToAbsolute \/ SlotToWallclock \/ Tick

\* ---- C32 on the model: for well-formed records ----
SubHolds   == (WellFormed(g) /\ phase # "rel") => SubInRange(g, slot, rel[2])
RoundHolds == (WellFormed(g) /\ phase \in {"wall", "tick"}) => RoundTrip(g, slot, back)
ClockHolds == (WellFormed(g) /\ ClockContinuous(g) /\ phase = "tick") => ClockStep(g, slot, t0, t1)
\* inside an era the step never depends on continuity
ClockInEra == (Divisible(g) /\ phase = "tick" /\ slot + 1 # g.sks) => ClockStep(g, slot, t0, t1)
Laws       == WellFormed(g) => LawSub(g, slot) /\ LawRoundTrip(g, slot) /\ LawRelOK(g, slot) /\ LawEpochSucc(g, slot)
NearEpochs == LET e == ToRel(g, slot)[1] IN {x \in (e - 1)..(e + 1) : x >= 0}
NearSubs   == LET r == ToRel(g, slot)[2]  n == EpochSlots(g, EraOf(g, slot))
              IN {x \in {r - 1, r, r + 1, n - 1, n} : x >= 0}
\* RelOK characterises ToRel uniquely (among the neighbouring epochs, any sub-slot)
RelUnique  == phase = "rel" =>
                \A e \in NearEpochs, sub \in 0..12 :
                   (Divisible(g) /\ RelOK(g, slot, e, sub)) => <<e, sub>> = ToRel(g, slot)

\* ---- the hypotheses are needed (documented counter-examples) ----
\* off an epoch boundary the round trip breaks at the fork slot
OffBoundaryBreaks == \A c \in Configs : (Divisible(c) /\ ~ForkOnBoundary(c)) => ~LawRoundTrip(c, c.sks)
\* a discontinuous clock breaks the step exactly at the last Byron slot
GapBreaks == \A c \in Configs : (c.sks > 0 /\ ~ClockContinuous(c)) => ~LawClock(c, c.sks - 1)
\* the remainder modulo the epoch length in *seconds* (the pre-fix code) leaves the range
SecondsRemainderBreaks == \A c \in Configs : c.sks > EpochSlots(c, "byron") =>
                             ~SubInRange(c, EpochSlots(c, "byron"), EpochSlots(c, "byron") % c.bel)
ASSUME OffBoundaryBreaks /\ GapBreaks /\ SecondsRemainderBreaks

\* ---- BigNat twins agree with the integer definitions ----
G == BigGenesis(g)
BigAgree == phase = "rel" =>
    /\ EraOfB(G, Big(slot)) = EraOf(g, slot)
    /\ IsStartEpochB(G, Big(StartEpoch(g)))
    /\ ~IsStartEpochB(G, Big(StartEpoch(g) + 1))
    /\ \A e \in NearEpochs, sub \in NearSubs :
          /\ RelOKB(G, Big(StartEpoch(g)), Big(slot), Big(e), Big(sub)) = RelOK(g, slot, e, sub)
          /\ SubInRangeB(G, Big(slot), Big(sub)) = SubInRange(g, slot, sub)
    /\ WallclockB(G, Big(slot)) = Big(Wallclock(g, slot))
    /\ \A d \in 0..8 : ClockStepB(G, Big(slot), Big(t0), Big(t0 + d)) = ClockStep(g, slot, t0, t0 + d)
=============================================================================
