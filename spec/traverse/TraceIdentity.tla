---------------------------- MODULE TraceIdentity ----------------------------
(* Trace validation for C05 (impl -> spec).  Byte strings and digests are     *)
(* interned by the harness (equal ids <=> equal bytes, per block):            *)
(*  {"ev":"reset","seq":k,"src":..}            new block: forget ids and facts *)
(*  {"ev":"cat","seq":k,"prefix":[b..],"part":w,"whole":p}   bytes(p) = prefix o bytes(w) *)
(*  {"ev":"hash","seq":k,"size":256|224,"of":p,"digest":d}   Hasher::<size>::hash(bytes(p)) = d *)
(*  {"ev":"id","seq":k,"kind":K,"wire":w,"reported":d,"api":..,"at":..}       *)
(*        the library reports d for the artefact of kind K decoded from bytes(w) *)
(*  {"ev":"find","seq":k,"kind":"datum","among":[w..],"by":d,"found":w|0,"api":..,"at":..} *)
(*        MultiEraTx::find_plutus_data(d) among the witness datums with wire bytes w..  *)
EXTENDS Identity, TraceKit

VARIABLE l

IsEvent(e) == l <= NRec /\ Rec[l].ev = e /\ Rec[l].seq = l /\ l' = l + 1

TInit == Init /\ l = 1

TReset == IsEvent("reset") /\ H' = Empty /\ Cat' = Empty
THash  == IsEvent("hash") /\ HashFact(Rec[l].size, Rec[l].of, Rec[l].digest)
TCat   == IsEvent("cat") /\ CatFact(Rec[l].prefix, Rec[l].part, Rec[l].whole)
TId    == IsEvent("id") /\ Report(Rec[l].kind, Rec[l].wire, Rec[l].reported)

TFind  == IsEvent("find") /\ Find({Rec[l].among[i] : i \in 1..Len(Rec[l].among)}, Rec[l].by, Rec[l].found, 0)

TNext == TReset \/ THash \/ TCat \/ TId \/ TFind
=============================================================================
