---------------------------- MODULE BlockTraverse ----------------------------
(* C30 - block traversal exposes each transaction with its own parts.        *)
(*   pallas-traverse/src/block.rs    MultiEraBlock::{decode, era, txs, tx_count} *)
(*   pallas-traverse/src/support.rs  clone_tx_fn! (tx assembly by index)     *)
(*   pallas-traverse/src/probe.rs    block_era (wrapper tag -> era)          *)
(*                                                                           *)
(* A block on the wire is [tag, [header, bodies, witness sets, aux map,      *)
(* invalid list]]; it is projected to                                        *)
(*   [tag, bodies: Seq(Id), wits: Seq(Id), aux: Seq(<<index, Id>>),          *)
(*    has_invalid: BOOLEAN, invalid: Seq(index)]                             *)
(* with Ids identifying the wire bytes of a part (positive integers),        *)
(* indices 0-based.  aux and invalid are kept *in wire order*: the CDDL does *)
(* not order them, so the aux entries may come in any key order (keys        *)
(* pairwise distinct) and the invalid list may be unsorted, repeat an index  *)
(* or name an index beyond the last transaction; only membership matters.    *)
(* has_invalid says whether the block carries the list at all (any tag: the  *)
(* decoder accepts it under every Shelley+ wrapper).  Byron main            *)
(* blocks (tag 1) carry <<tx, witnesses>> pairs: same projection with an     *)
(* empty aux map and no invalid list; epoch boundary blocks (tag 0) carry no *)
(* transactions.                                                             *)
EXTENDS Integers, Sequences, FiniteSets, SequencesExt

NoAux == 0

EraOfTag(t) == CASE t \in {0, 1} -> "Byron"
                 [] t = 2 -> "Shelley"
                 [] t = 3 -> "Allegra"
                 [] t = 4 -> "Mary"
                 [] t = 5 -> "Alonzo"
                 [] t = 6 -> "Babbage"
                 [] t = 7 -> "Conway"

Era(b) == EraOfTag(b.tag)
Count(b) == Len(b.bodies)

AuxAt(b, i) ==
    LET hits == {p \in Range(b.aux) : p[1] = i}
    IN IF hits = {} THEN NoAux ELSE (CHOOSE p \in hits : TRUE)[2]
ListedInvalid(b, i) == b.has_invalid /\ i \in Range(b.invalid)

\* the i-th traversed transaction (i is 0-based)
TxAt(b, i) == [body  |-> b.bodies[i + 1],
               wits  |-> b.wits[i + 1],
               aux   |-> AuxAt(b, i),
               valid |-> ~ListedInvalid(b, i)]

\* MultiEraBlock::txs
Txs(b) == [k \in 1..Count(b) |-> TxAt(b, k - 1)]

WellShaped(b) == /\ Len(b.wits) = Len(b.bodies)
                 /\ \A p, q \in Range(b.aux) : p[1] = q[1] => p = q

\* ---- what C30 demands of an observed traversal ----
EraOK(b, era)     == era = Era(b)
CountOK(b, n)     == n = Count(b)
TxsOK(b, txs)     == txs = Txs(b)
=============================================================================
