----------------------------- MODULE GenSlotTime -----------------------------
(* Vector generator for C32 (spec -> impl, M1): for every scaled-down genesis *)
(* record and every slot 0..MaxSlot the expected results of the three         *)
(* conversions.  One vector per record:                                       *)
(*   {g: {...}, wf: bool, cont: bool, rows: [[slot, epoch, sub, back, t0, t1], ...]} *)
EXTENDS SlotTimeConfigs, TLC, Json
CONSTANT MaxSlot

Row(c, s) == LET r == ToRel(c, s)
             IN <<s, r[1], r[2], ToAbs(c, r[1], r[2]), Wallclock(c, s), Wallclock(c, s + 1)>>
Vec(c) == [g |-> c, wf |-> WellFormed(c), cont |-> ClockContinuous(c),
           rows |-> [i \in 1..(MaxSlot + 1) |-> Row(c, i - 1)]]
ASSUME \A c \in Configs : PrintT(<<"VEC", ToJson(Vec(c))>>)
=============================================================================
