----------------------------- MODULE SlotTimeBig -----------------------------
(* The C32 statements of SlotTime.tla over BigNat limb numbers, for values   *)
(* beyond TLC's 32-bit integers (slots up to 2^40, unix seconds).            *)
(* A "big genesis" record has small-integer lengths (bsl, bel, ssl, sel)     *)
(* and BigNat positions / times (bks, bkt, sks, skt).  Only +, -, *, < are   *)
(* used: quotients are *checked* (q*d + r = n, 0 <= r < d), never computed.  *)
(* MCSlotTime checks that every operator here agrees with its integer twin.  *)
EXTENDS SlotTime
B == INSTANCE BigNat

Big(i) == B!FromInt(i)
BigGenesis(g) == [bsl |-> g.bsl, bel |-> g.bel, ssl |-> g.ssl, sel |-> g.sel,
                  bks |-> Big(g.bks), bkt |-> Big(g.bkt), sks |-> Big(g.sks), skt |-> Big(g.skt)]

EraOfB(G, s) == IF B!Lt(s, G.sks) THEN "byron" ELSE "shelley"

SubInRangeB(G, s, sub) == ~sub.neg /\ B!Lt(sub, Big(EpochSlots(G, EraOfB(G, s))))
RoundTripB(G, s, back) == back = s
ClockStepB(G, s, t0, t1) == B!Sub(t1, t0) = Big(SlotLen(G, EraOfB(G, s)))

\* e0 is floor(sks * bsl / bel)
IsStartEpochB(G, e0) ==
    LET n == B!Mul(G.sks, Big(G.bsl))
    IN /\ ~e0.neg
       /\ B!Le(B!Mul(e0, Big(G.bel)), n)
       /\ B!Lt(n, B!Mul(B!Add(e0, Big(1)), Big(G.bel)))

RelOKB(G, e0, s, e, sub) ==
    IF B!Lt(s, G.sks)
    THEN /\ s = B!Add(B!Mul(e, Big(EpochSlots(G, "byron"))), sub)
         /\ ~sub.neg /\ B!Lt(sub, Big(EpochSlots(G, "byron")))
    ELSE /\ B!Sub(s, G.sks) = B!Add(B!Mul(B!Sub(e, e0), Big(EpochSlots(G, "shelley"))), sub)
         /\ ~sub.neg /\ B!Lt(sub, Big(EpochSlots(G, "shelley")))

WallclockB(G, s) ==
    IF B!Lt(s, G.sks) THEN B!Add(G.bkt, B!Mul(B!Sub(s, G.bks), Big(G.bsl)))
                      ELSE B!Add(G.skt, B!Mul(B!Sub(s, G.sks), Big(G.ssl)))
=============================================================================
