------------------------------ MODULE MCIdentity ------------------------------
(* Exhaustive configuration for C05.  Byte strings are modelled concretely    *)
(* as short sequences, the real hash function is any function from the        *)
(* relevant <<size, bytes>> pairs to Digests fixed at Init (oracle), the      *)
(* harness feeds facts that are true of it, and the library may report any    *)
(* digest.  Checked: Report accepts exactly the identifiers that are the      *)
(* oracle's hash of prefix o wire (sound; complete once the facts are known). *)
EXTENDS Identity

CONSTANTS Digests, MCKinds

W == <<7>>                          \* the wire bytes of the artefact
Pre(k) == <<Size(k), Prefix(k) \o W>>
\* the pairs some rule hashes, plus distractors (wrong size / no prefix)
Pairs == {Pre(k) : k \in MCKinds} \cup {<<224, W>>}

VARIABLES oracle
vars == <<H, Cat, oracle>>

MCInit == Init /\ oracle \in [Pairs -> Digests]

FeedHash == \E p \in Pairs : HashFact(p[1], p[2], oracle[p]) /\ UNCHANGED oracle
FeedCat  == \E k \in MCKinds : CatFact(Prefix(k), W, Prefix(k) \o W) /\ UNCHANGED oracle
\* a library call whose result the specification accepts (no state change)
Observe  == \/ \E k \in MCKinds, d \in Digests : Report(k, W, d) /\ UNCHANGED oracle
            \/ \E d \in Digests, f \in {<<>>, W} : Find({W}, d, f, <<>>) /\ UNCHANGED oracle

MCNext == FeedHash \/ FeedCat \/ Observe

\* learned facts are facts of the oracle
FactsTrue == /\ \A k \in DOMAIN H : H[k] = oracle[k]
             /\ \A k \in DOMAIN Cat : Cat[k] = k[1] \o k[2]
\* acceptance is sound: an accepted identifier is the oracle hash of prefix o wire
Sound == \A k \in MCKinds, d \in Digests : Accepts(k, W, d) => d = oracle[Pre(k)]
\* ... and complete once the needed facts were fed
Complete == \A k \in MCKinds, d \in Digests :
              (HasPreimage(k, W) /\ Pre(k) \in DOMAIN H /\ d = oracle[Pre(k)]) => Accepts(k, W, d)
\* an identifier computed from other bytes (another rule's pre-image) is rejected
\* whenever the oracle tells the two pre-images apart
Distinguishes == \A j, k \in MCKinds, d \in Digests :
              (Accepts(k, W, d) /\ Pre(j) \in DOMAIN H /\ oracle[Pre(j)] # oracle[Pre(k)]) => d # H[Pre(j)]
\* a lookup among {W} finds W exactly when asked for the oracle hash of W's wire bytes
FindSound == \A d \in Digests, f \in {<<>>, W} :
              (<<256, W>> \in DOMAIN H /\ FindAccepts({W}, d, f, <<>>)) => (f = W <=> d = oracle[<<256, W>>])
ASSUME Separated /\ ScriptTags /\ MCKinds \subseteq Kinds
=============================================================================
