--------------------------- MODULE MCBlockTraverse ---------------------------
(* Exhaustive configuration for C30: the traversal is modelled the way the   *)
(* code performs it - decode, then one clone_tx_at step per index which      *)
(* looks its parts up by position / key - and compared with the declarative  *)
(* Txs(b) for every block with <= MaxTx transactions, any invalid subset     *)
(* (including an out-of-range index), any sparse aux map, every wrapper tag. *)
EXTENDS BlockTraverse, TLC

CONSTANT MaxTx

Ids(n) == [k \in 1..n |-> k]
AuxSeq(keys) == SetToSortSeq({<<k, k + 1>> : k \in keys}, LAMBDA p, q : p[1] < q[1])

Blocks ==
    { [tag |-> t, bodies |-> Ids(n), wits |-> Ids(n), aux |-> AuxSeq(ks), invalid |-> inv] :
        t \in 2..7, n \in 0..MaxTx, ks \in SUBSET (0..MaxTx), inv \in (SUBSET (0..MaxTx)) \cup {NoField} }
Fits(b) == /\ (b.tag < 5 <=> b.invalid = NoField)
           /\ \A p \in Range(b.aux) : p[1] <= Count(b)           \* at most one key out of range
           /\ b.invalid # NoField => \A i \in b.invalid : i <= Count(b)

VARIABLES blk, cur, out, phase
vars == <<blk, cur, out, phase>>

Init == blk \in {b \in Blocks : Fits(b)} /\ cur = 0 /\ out = <<>> /\ phase = "decoded"

\* support.rs clone_tx_at: body and witness set by position, success from the
\* invalid list, aux by scanning the map for the key
CloneTxAt ==
    /\ phase = "decoded" /\ cur < Len(blk.bodies)
    /\ LET success == ~(blk.invalid # NoField /\ cur \in blk.invalid)
           found == SelectSeq(blk.aux, LAMBDA p : p[1] = cur)
           a == IF found = <<>> THEN NoAux ELSE found[1][2]
       IN out' = Append(out, [body |-> blk.bodies[cur + 1], wits |-> blk.wits[cur + 1], aux |-> a, valid |-> success])
    /\ cur' = cur + 1 /\ UNCHANGED <<blk, phase>>
Collect ==
    /\ phase = "decoded" /\ cur = Len(blk.bodies)
    /\ phase' = "done" /\ UNCHANGED <<blk, cur, out>>

Next == CloneTxAt \/ Collect

\* ---- C30 on the model ----
TraversalOK == phase = "done" => TxsOK(blk, out) /\ CountOK(blk, Len(out)) /\ WellShaped(blk)
PrefixOK    == \A k \in 1..Len(out) : out[k] = TxAt(blk, k - 1)
\* consequences worth stating
EachPartOnce == phase = "done" =>
    /\ [k \in 1..Len(out) |-> out[k].body] = blk.bodies
    /\ [k \in 1..Len(out) |-> out[k].wits] = blk.wits
    /\ {out[k].aux : k \in 1..Len(out)} \ {NoAux} = {p[2] : p \in {q \in Range(blk.aux) : q[1] < Count(blk)}}
InvalidExactly == phase = "done" =>
    {k - 1 : k \in {j \in 1..Len(out) : ~out[j].valid}} =
        (IF blk.invalid = NoField THEN {} ELSE blk.invalid \cap (0..(Count(blk) - 1)))
EraTable == /\ \A t \in 2..7 : \A u \in 2..7 : t # u => EraOfTag(t) # EraOfTag(u)
            /\ EraOfTag(0) = "Byron" /\ EraOfTag(1) = "Byron"
ASSUME EraTable
=============================================================================
