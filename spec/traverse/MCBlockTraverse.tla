--------------------------- MODULE MCBlockTraverse ---------------------------
(* Exhaustive configuration for C30: the traversal is modelled the way the   *)
(* code performs it - decode, then one clone_tx_at step per index which      *)
(* looks its parts up by position / key - and compared with the declarative  *)
(* Txs(b) for every block with <= MaxTx transactions, any invalid list       *)
(* (unsorted, repeated, out-of-range indices), any sparse aux map in several *)
(* wire orders, every wrapper tag.                                           *)
EXTENDS BlockTraverse, TLC

CONSTANTS MaxTx, MaxInv

Ids(n) == [k \in 1..n |-> k]
SeqsUpTo(S, n) == UNION {[1..k -> S] : k \in 0..n}
Rotate(s) == IF s = <<>> THEN s ELSE Tail(s) \o <<s[1]>>
\* the aux entries of a key set in ascending, descending and rotated wire order
AuxOrders(keys) == LET asc == SetToSortSeq({<<k, k + 1>> : k \in keys}, LAMBDA p, q : p[1] < q[1])
                   IN {asc, Reverse(asc), Rotate(asc)}

\* every block with n <= MaxTx transactions; aux keys and invalid indices range over
\* 0..n (n itself is out of range); the invalid list is any sequence of length <= MaxInv
\* (unsorted, with repetitions), present or absent under EVERY wrapper tag: the eras 2..5 share one block
\* type, so a Shelley / Allegra / Mary wrapper decodes with an invalid list too and C30 is era-independent
Blocks ==
    UNION { { [tag |-> t, bodies |-> Ids(n), wits |-> Ids(n), aux |-> a, has_invalid |-> h, invalid |-> inv] :
                a \in UNION {AuxOrders(ks) : ks \in SUBSET (0..n)},
                inv \in (IF h THEN SeqsUpTo(0..n, MaxInv) ELSE {<<>>}) } :
            t \in 2..7, n \in 0..MaxTx, h \in BOOLEAN }

VARIABLES blk, cur, out, phase
vars == <<blk, cur, out, phase>>

Init == blk \in Blocks /\ cur = 0 /\ out = <<>> /\ phase = "decoded"

\* support.rs clone_tx_at: body and witness set by position, success from the
\* invalid list, aux by scanning the map for the key
CloneTxAt ==
    /\ phase = "decoded" /\ cur < Len(blk.bodies)
    /\ LET success == ~(blk.has_invalid /\ \E k \in 1..Len(blk.invalid) : blk.invalid[k] = cur)   \* Vec::contains
           found == SelectSeq(blk.aux, LAMBDA p : p[1] = cur)
           a == IF found = <<>> THEN NoAux ELSE found[1][2]
       IN out' = Append(out, [body |-> blk.bodies[cur + 1], wits |-> blk.wits[cur + 1], aux |-> a, valid |-> success])
    /\ cur' = cur + 1 /\ UNCHANGED <<blk, phase>>
Collect ==
    /\ phase = "decoded" /\ cur = Len(blk.bodies)
    /\ phase' = "done" /\ UNCHANGED <<blk, cur, out>>

Next == CloneTxAt \/ Collect

\* ---- C30 on the model ----
TraversalOK == phase = "done" => TxsOK(blk, out) /\ CountOK(blk, Len(out)) /\ WellShaped(blk)
PrefixOK    == \A k \in 1..Len(out) : out[k] = TxAt(blk, k - 1)
\* consequences worth stating
EachPartOnce == phase = "done" =>
    /\ [k \in 1..Len(out) |-> out[k].body] = blk.bodies
    /\ [k \in 1..Len(out) |-> out[k].wits] = blk.wits
    /\ {out[k].aux : k \in 1..Len(out)} \ {NoAux} = {p[2] : p \in {q \in Range(blk.aux) : q[1] < Count(blk)}}
InvalidExactly == phase = "done" =>
    {k - 1 : k \in {j \in 1..Len(out) : ~out[j].valid}} =
        (IF blk.has_invalid THEN Range(blk.invalid) \cap (0..(Count(blk) - 1)) ELSE {})
EraTable == /\ \A t \in 2..7 : \A u \in 2..7 : t # u => EraOfTag(t) # EraOfTag(u)
            /\ EraOfTag(0) = "Byron" /\ EraOfTag(1) = "Byron"
ASSUME EraTable
=============================================================================
