----------------------------- MODULE UtxoEffects -----------------------------
(* C31 - UTxO effects of a transaction follow the phase-2 validity rule.     *)
(*   pallas-traverse/src/tx.rs   MultiEraTx::{consumes, produces, produces_at, *)
(*                               inputs_sorted_set, is_valid}                *)
(*   pallas-traverse/src/input.rs MultiEraInput::lexicographical_key         *)
(*                                                                           *)
(* A transaction is projected to                                             *)
(*   [era, valid, inputs, collateral, outputs, collret]                      *)
(* inputs / collateral : sequences of output references <<t, i>> (t stands   *)
(*     for a transaction id - ids are ordered like their labels -, i is the  *)
(*     output index); duplicates are possible in both;                       *)
(* outputs : sequence of output identities (positive integers);              *)
(* collret : the collateral-return output or NoOut.                          *)
(* Scripts failed  <=>  ~valid (the phase-2 flag carried by the transaction). *)
EXTENDS Integers, Sequences, FiniteSets, SequencesExt

NoOut == 0

RefLess(a, b) == a[1] < b[1] \/ (a[1] = b[1] /\ a[2] < b[2])

\* first occurrences, in order
RECURSIVE DedupFrom(_, _)
DedupFrom(s, seen) ==
    IF s = <<>> THEN <<>>
    ELSE IF s[1] \in seen THEN DedupFrom(Tail(s), seen)
         ELSE <<s[1]>> \o DedupFrom(Tail(s), seen \cup {s[1]})
Dedup(s) == DedupFrom(s, {})

\* ---- the four observers, one per public entry point ----
Spent(tx) == IF tx.valid THEN tx.inputs ELSE tx.collateral

\* MultiEraTx::consumes
Consumes(tx) == Dedup(Spent(tx))

\* MultiEraTx::produces : sequence of <<index, output>>
Produces(tx) ==
    IF tx.valid THEN [k \in 1..Len(tx.outputs) |-> <<k - 1, tx.outputs[k]>>]
    ELSE IF tx.collret # NoOut THEN << <<Len(tx.outputs), tx.collret>> >>
    ELSE <<>>

\* MultiEraTx::produces_at
ProducesAt(tx, i) ==
    LET hits == {p \in Range(Produces(tx)) : p[1] = i}
    IN IF hits = {} THEN NoOut ELSE (CHOOSE p \in hits : TRUE)[2]

\* MultiEraTx::inputs_sorted_set
SortedSet(tx) == SetToSortSeq(Range(tx.inputs), RefLess)

\* ---- what C31 demands of an observed result (order of `consumes` and of ----
\* ---- `produces` is not part of the statement)                          ----
NoDup(s) == Cardinality(Range(s)) = Len(s)
ConsumesOK(tx, c) == Range(c) = Range(Spent(tx)) /\ NoDup(c)
ProducesOK(tx, p) == Range(p) = Range(Produces(tx)) /\ Len(p) = Len(Produces(tx))
ProducesAtOK(tx, i, o) == o = ProducesAt(tx, i)
StrictlySorted(s) == \A k \in 1..(Len(s) - 1) : RefLess(s[k], s[k + 1])
SortedOK(tx, s) == StrictlySorted(s) /\ Range(s) = Range(tx.inputs)
ValidOK(tx, v) == v = tx.valid

\* design model: the code keeps first-occurrence order / output order
ConsumesExact(tx, c) == c = Consumes(tx)
ProducesExact(tx, p) == p = Produces(tx)

\* ---- laws of the specification (checked by MCUtxoEffects) ----
LawConsumes(tx) == ConsumesOK(tx, Consumes(tx))
LawSorted(tx)   == SortedOK(tx, SortedSet(tx))
\* a valid transaction produces exactly indices 0..n-1, an invalid one at most index n
LawIndices(tx)  == LET idx == {p[1] : p \in Range(Produces(tx))}
                   IN IF tx.valid THEN idx = 0..(Len(tx.outputs) - 1)
                      ELSE idx = (IF tx.collret = NoOut THEN {} ELSE {Len(tx.outputs)})
\* an invalid transaction never touches its regular inputs / outputs
LawInvalid(tx)  == ~tx.valid => /\ Range(Consumes(tx)) \subseteq Range(tx.collateral)
                                /\ \A p \in Range(Produces(tx)) : p[2] = tx.collret
\* indexed lookup agrees with the list, and is NoOut outside it
LawAt(tx)       == \A i \in 0..(Len(tx.outputs) + 1) :
                      \/ <<i, ProducesAt(tx, i)>> \in Range(Produces(tx))
                      \/ (ProducesAt(tx, i) = NoOut /\ \A p \in Range(Produces(tx)) : p[1] # i)
=============================================================================
