--------------------------- MODULE TraceUtxoEffects ---------------------------
(* Trace validation for C31 (impl -> spec).  One event per decoded            *)
(* transaction and validity flag:                                             *)
(*  {"ev":"tx","seq":k,"src":..,"flag":"orig"|"flipped",   (k = event number) *)
(*   "tx":{era, valid, inputs:[[t,i]..], collateral:[[t,i]..], outputs:[id..], collret:id|0}, *)
(*        projected by the harness from the wire bytes (t = rank of the       *)
(*        transaction id among the ids of this transaction, so the order of   *)
(*        ids is the order of ranks; id = interned output fingerprint)        *)
(*   "is_valid":b, "consumes":[[t,i]..], "produces":[[idx,id]..],             *)
(*   "produces_at":[id|0 for idx = 0..n+1], "sorted":[[t,i]..]}               *)
(*        what MultiEraTx reports.                                            *)
(* Strict = FALSE: the C31 statements.  Strict = TRUE adds the design model    *)
(* (first-occurrence order of consumes, output order of produces): DRIFT.     *)
EXTENDS UtxoEffects, TraceKit

CONSTANT Strict
VARIABLE l

IsEvent(e) == l <= NRec /\ Rec[l].ev = e /\ l' = l + 1

TInit == l = 1

TTx ==
    /\ IsEvent("tx")
    /\ LET r == Rec[l]  tx == r.tx IN
         /\ r.seq = l
         /\ ValidOK(tx, r.is_valid)
         /\ ConsumesOK(tx, r.consumes)
         /\ ProducesOK(tx, r.produces)
         /\ Len(r.produces_at) = Len(tx.outputs) + 2
         /\ \A k \in 1..Len(r.produces_at) : ProducesAtOK(tx, k - 1, r.produces_at[k])
         /\ SortedOK(tx, r.sorted)
         /\ Strict => ConsumesExact(tx, r.consumes) /\ ProducesExact(tx, r.produces)

TNext == TTx
=============================================================================
