-------------------------- MODULE TraceBlockTraverse --------------------------
(* Trace validation for C30 (impl -> spec).  One event per decoded block:     *)
(*  {"ev":"block","seq":k,"src":..,                                           *)
(*   "blk":{tag, bodies:[id..], wits:[id..], aux:[[idx,id]..], has_invalid:b, invalid:[idx..]}, *)
(*        projected by the harness from the wire bytes (ids = interned byte    *)
(*        strings of the parts)                                               *)
(*   "era":"Conway", "tx_count":n,                                            *)
(*   "txs":[{body, wits, aux (0 = none), valid}..]}                           *)
(*        what MultiEraBlock::{era, tx_count, txs} and each MultiEraTx report *)
EXTENDS BlockTraverse, TraceKit

VARIABLE l

IsEvent(e) == l <= NRec /\ Rec[l].ev = e /\ l' = l + 1

Block(r) == [tag |-> r.tag, bodies |-> r.bodies, wits |-> r.wits, aux |-> r.aux,
             has_invalid |-> r.has_invalid, invalid |-> r.invalid]

TInit == l = 1

TBlock ==
    /\ IsEvent("block")
    /\ LET r == Rec[l]  b == Block(r.blk) IN
         /\ r.seq = l
         /\ WellShaped(b)
         /\ EraOK(b, r.era)
         /\ CountOK(b, r.tx_count)
         /\ TxsOK(b, r.txs)

TNext == TBlock
=============================================================================
