---------------------------- MODULE MCUtxoEffects ----------------------------
(* Exhaustive configuration for C31: every projected transaction over a     *)
(* small reference alphabet; one action per observer of MultiEraTx.         *)
EXTENDS UtxoEffects, TLC

CONSTANTS Refs,        \* set of references <<t, i>>
          MaxIn,       \* max length of inputs
          MaxColl,     \* max length of collateral
          MaxOut,      \* max number of outputs
          Eras         \* eras to enumerate (the laws do not depend on the era; the generated
                       \* transactions of GenUtxoEffects do: "alonzo", "babbage", "conway")

\* (1,10) < (2,2) < (2,10) < (2,100): lexicographic by id then by the *numeric* index - not by index
\* first, and not by the decimal text of the index ("10" < "100" < "2")
Refs3 == {<<1, 10>>, <<2, 2>>, <<2, 10>>}
Refs4 == {<<1, 10>>, <<2, 2>>, <<2, 10>>, <<2, 100>>}

SeqsUpTo(S, n) == UNION {[1..k -> S] : k \in 0..n}
OutsOf(n) == [k \in 1..n |-> 10 + k]
Ret == 99

Txs == { [era |-> e, valid |-> v, inputs |-> ins, collateral |-> col, outputs |-> OutsOf(n), collret |-> r] :
           e \in Eras, v \in BOOLEAN, ins \in SeqsUpTo(Refs, MaxIn), col \in SeqsUpTo(Refs, MaxColl),
           n \in 0..MaxOut, r \in {NoOut, Ret} }
\* Alonzo has no collateral return
WellEra(tx) == tx.era = "alonzo" => tx.collret = NoOut

VARIABLES tx, last
vars == <<tx, last>>

Init == tx \in {t \in Txs : WellEra(t)} /\ last = [op |-> "decode"]

\* the observers are pure: each is explored once per decoded transaction
Fresh == last.op = "decode"
CallConsumes   == Fresh /\ last' = [op |-> "consumes", res |-> Consumes(tx)] /\ UNCHANGED tx
CallProduces   == Fresh /\ last' = [op |-> "produces", res |-> Produces(tx)] /\ UNCHANGED tx
CallProducesAt == Fresh /\ \E i \in 0..(MaxOut + 1) : last' = [op |-> "produces_at", i |-> i, res |-> ProducesAt(tx, i)] /\ UNCHANGED tx
CallSortedSet  == Fresh /\ last' = [op |-> "inputs_sorted_set", res |-> SortedSet(tx)] /\ UNCHANGED tx

Next == CallConsumes \/ CallProduces \/ CallProducesAt \/ CallSortedSet

Laws == LawConsumes(tx) /\ LawSorted(tx) /\ LawIndices(tx) /\ LawInvalid(tx) /\ LawAt(tx)

\* the results the model returns satisfy the C31 predicates, and the predicates
\* pin the results down (up to the order the statement leaves open)
ResultsOK ==
    /\ last.op = "consumes" => ConsumesOK(tx, last.res)
    /\ last.op = "produces" => ProducesOK(tx, last.res)
    /\ last.op = "produces_at" => ProducesAtOK(tx, last.i, last.res)
    /\ last.op = "inputs_sorted_set" =>
          /\ SortedOK(tx, last.res)
          /\ \A s \in SeqsUpTo(Refs, Cardinality(Refs)) : SortedOK(tx, s) => s = last.res
=============================================================================
