CONSTANTS
  MaxSlot = 60
INIT Init
NEXT Next
INVARIANTS SubHolds RoundHolds ClockHolds ClockInEra Laws RelUnique BigAgree
CHECK_DEADLOCK FALSE
