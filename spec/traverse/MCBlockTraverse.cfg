CONSTANTS
  MaxTx = 3
  MaxInv = 3
INIT Init
NEXT Next
INVARIANTS TraversalOK PrefixOK EachPartOnce InvalidExactly
CHECK_DEADLOCK FALSE
