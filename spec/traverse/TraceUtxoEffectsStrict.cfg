CONSTANTS
  Strict = TRUE
INIT TInit
NEXT TNext
CHECK_DEADLOCK FALSE
POSTCONDITION TraceVerdict
