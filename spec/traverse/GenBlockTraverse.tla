--------------------------- MODULE GenBlockTraverse ---------------------------
(* Vector generator for C30 (spec -> impl, M1): every block of MCBlockTraverse *)
(* with the era, count and traversal the specification expects.               *)
(*  {blk: {tag, bodies, wits, aux: [[idx, id]..], has_invalid, invalid: [idx..]}, *)
(*   era, count, txs: [{body, wits, aux, valid}..]}                           *)
EXTENDS MCBlockTraverse, Json

Vec(b) == [blk |-> b, era |-> Era(b), count |-> Count(b), txs |-> Txs(b)]
GInit == Init
GNext == FALSE /\ UNCHANGED vars
Emit == PrintT(<<"VEC", ToJson(Vec(blk))>>)
=============================================================================
