CONSTANTS
  MaxTx = 3
  MaxInv = 3
INIT GInit
NEXT GNext
INVARIANT Emit
CHECK_DEADLOCK FALSE
