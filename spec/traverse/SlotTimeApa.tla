----------------------------- MODULE SlotTimeApa -----------------------------
(* C32 - the unbounded lemma of the *specification* (SlotTime.tla), for      *)
(* Apalache (symbolic, SMT): for each of the four well-known genesis records *)
(* and EVERY slot 0 <= slot < 2^40                                           *)
(*     sub < EpochSlots(era(slot))  /\  ToAbs(ToRel(slot)) = slot            *)
(*  /\ inside an era the clock advances by the era's slot length             *)
(* This is about the specification's ToRel / ToAbs / Wallclock (the intended *)
(* definitions), not about the Rust code - the code is bound to the spec by  *)
(* the TLC trace validation of TraceSlotTime.  TLC cannot enumerate 2^40     *)
(* slots; Apalache checks the invariant of the one-step system "slot is any  *)
(* integer in range" with --length=0.  No TLC-only operators are used.       *)
(* Constants are copied from pallas-traverse/src/wellknown.rs.               *)
EXTENDS SlotTime

VARIABLE
    \* @type: Int;
    slot

Mainnet == [bsl |-> 20, bel |-> 432000, bks |-> 0, bkt |-> 1506203091,
            ssl |-> 1, sel |-> 432000, sks |-> 4492800, skt |-> 1596059091]
Testnet == [bsl |-> 20, bel |-> 432000, bks |-> 0, bkt |-> 1564010416,
            ssl |-> 1, sel |-> 432000, sks |-> 1598400, skt |-> 1595967616]
Preview == [bsl |-> 20, bel |-> 86400, bks |-> 0, bkt |-> 1666656000,
            ssl |-> 1, sel |-> 86400, sks |-> 0, skt |-> 1666656000]
Preprod == [bsl |-> 20, bel |-> 432000, bks |-> 0, bkt |-> 1654041600,
            ssl |-> 1, sel |-> 432000, sks |-> 86400, skt |-> 1655769600]

Top == 1099511627776      \* 2^40

Init == slot \in Int /\ 0 <= slot /\ slot < Top
Next == UNCHANGED slot

SameEra(g, s) == EraOf(g, s) = EraOf(g, s + 1)

Lemma(g) ==
    /\ WellFormed(g)
    /\ LawSub(g, slot)
    /\ LawRoundTrip(g, slot)
    /\ SameEra(g, slot) => LawClock(g, slot)
    /\ Wallclock(g, slot) < Wallclock(g, slot + 1) \/ ~SameEra(g, slot)

LemmaMainnet == Lemma(Mainnet)
LemmaTestnet == Lemma(Testnet)
LemmaPreview == Lemma(Preview)
LemmaPreprod == Lemma(Preprod)
\* negative control (must be VIOLATED): the remainder modulo the epoch length in
\* seconds - what compute_era_epoch does - leaves the range for Byron slots >= 21600
NegControlMainnet == slot < Mainnet.sks => SubInRange(Mainnet, slot, slot % Mainnet.bel)
\* across the era boundary the step holds iff the clock is continuous there
BoundaryMainnet == ClockContinuous(Mainnet) /\ LawClock(Mainnet, Mainnet.sks - 1)
BoundaryPreprod == ClockContinuous(Preprod) /\ LawClock(Preprod, Preprod.sks - 1)
=============================================================================
