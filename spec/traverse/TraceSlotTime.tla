---------------------------- MODULE TraceSlotTime ----------------------------
(* Trace validation for C32 (impl -> spec) on the well-known networks.       *)
(* One event per public call of the real GenesisValues; every slot / epoch / *)
(* time is a BigNat JSON number {"neg":false,"mag":[limbs base 10^4]}:       *)
(*  {"ev":"net","name":N,"g":{bsl,bel,ssl,sel: int; bks,bkt,sks,skt: big},"e0":big} *)
(*        the genesis record the library reports for network N and its       *)
(*        shelley_start_epoch()                                              *)
(*  {"ev":"rel","slot":s,"epoch":e,"sub":r}   (e, r) = absolute_slot_to_relative(s) *)
(*  {"ev":"abs","epoch":e,"sub":r,"slot":b}   b = relative_slot_to_absolute(e, r), *)
(*        called with the result of the preceding "rel"                      *)
(*  {"ev":"wall","slot":s,"t0":a,"t1":b}      a, b = slot_to_wallclock(s), (s+1) *)
(*  {"ev":"reset"}                                                           *)
(* Strict = FALSE: only what C32 states is demanded (verdict).               *)
(* Strict = TRUE : additionally the design model (epoch is the quotient, the *)
(*                 clock is the linear formula) - a rejection there is DRIFT. *)
EXTENDS SlotTimeBig, TraceKit

CONSTANT Strict

VARIABLES G,      \* genesis record of the current network (big form)
          e0,     \* reported first Shelley epoch
          pend,   \* last "rel" call not yet converted back
          l
tvars == <<G, e0, pend, l>>

IsEvent(e) == l <= NRec /\ Rec[l].ev = e /\ l' = l + 1

NoNet == [bsl |-> 1, bel |-> 1, ssl |-> 1, sel |-> 1, bks |-> B!Zero, bkt |-> B!Zero, sks |-> B!Zero, skt |-> B!Zero]
NoPend == [open |-> FALSE]
TInit == G = NoNet /\ e0 = B!Zero /\ pend = NoPend /\ l = 1

TNet ==
    /\ IsEvent("net")
    /\ G' = Rec[l].g /\ e0' = Rec[l].e0 /\ pend' = NoPend
    /\ Divisible(G')
    /\ Strict => IsStartEpochB(G', e0')

TRel ==
    /\ IsEvent("rel")
    /\ LET r == Rec[l] IN
         /\ SubInRangeB(G, r.slot, r.sub)
         /\ Strict => RelOKB(G, e0, r.slot, r.epoch, r.sub)
         /\ pend' = [open |-> TRUE, slot |-> r.slot, epoch |-> r.epoch, sub |-> r.sub]
    /\ UNCHANGED <<G, e0>>

TAbs ==
    /\ IsEvent("abs") /\ pend.open
    /\ LET r == Rec[l] IN
         /\ r.epoch = pend.epoch /\ r.sub = pend.sub
         /\ RoundTripB(G, pend.slot, r.slot)
    /\ pend' = NoPend
    /\ UNCHANGED <<G, e0>>

TWall ==
    /\ IsEvent("wall")
    /\ LET r == Rec[l] IN
         /\ ClockStepB(G, r.slot, r.t0, r.t1)
         /\ Strict => /\ r.t0 = WallclockB(G, r.slot)
                      /\ r.t1 = WallclockB(G, B!Add(r.slot, Big(1)))
    /\ UNCHANGED <<G, e0, pend>>

TReset == IsEvent("reset") /\ G' = NoNet /\ e0' = B!Zero /\ pend' = NoPend

TNext == TNet \/ TRel \/ TAbs \/ TWall \/ TReset
=============================================================================
