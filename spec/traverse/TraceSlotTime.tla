---------------------------- MODULE TraceSlotTime ----------------------------
(* Trace validation for C32 (impl -> spec) on the well-known networks.       *)
(* One event per public call of the real GenesisValues; every slot / epoch / *)
(* time is a BigNat JSON number {"neg":false,"mag":[limbs base 10^4]}:       *)
(*  {"ev":"net","name":N,"g":{bsl,bel,ssl,sel: int; bks,bkt,sks,skt: big},"e0":big} *)
(*        the genesis record the library reports for network N and its       *)
(*        shelley_start_epoch()                                              *)
(*  {"ev":"rel","slot":s,"epoch":e,"sub":r}   (e, r) = absolute_slot_to_relative(s) *)
(*  {"ev":"abs","epoch":e,"sub":r,"slot":b}   b = relative_slot_to_absolute(e, r), *)
(*        called with the result of the preceding "rel"                      *)
(*  {"ev":"wall","slot":s,"t0":a,"t1":b}      a, b = slot_to_wallclock(s), (s+1) *)
(*  {"ev":"panic","net":N,"call":C,..}        the call panicked              *)
(*  {"ev":"reset"}                                                           *)
(* The whole trace is consumed in one run.  A call that satisfies what C32   *)
(* states is matched by the conforming branch; a call that does not is       *)
(* consumed by the classifying branch, which records the class key           *)
(*      <kind>/<network>/<era | era-boundary>                                *)
(* in `bad` and prints it once ("CLASS|key|event index"); bin/check turns    *)
(* every class into a report.  Deviations from the design model (epoch is    *)
(* the quotient, the clock is the linear formula) are collected the same way *)
(* in `drift` ("DRIFT|..."), they are never a verdict.  Only a structurally  *)
(* impossible event (unknown kind, "abs" without its "rel") stops the run.   *)
EXTENDS SlotTimeBig, TraceKit

VARIABLES G,      \* genesis record of the current network (big form)
          e0,     \* reported first Shelley epoch
          net,    \* name of the current network
          pend,   \* last "rel" call not yet converted back
          bad,    \* classes of calls that break C32
          drift,  \* classes of calls that deviate from the design model only
          cnt,    \* number of calls per class in `bad`
          l
tvars == <<G, e0, net, pend, bad, drift, cnt, l>>

IsEvent(e) == l <= NRec /\ Rec[l].ev = e /\ l' = l + 1

NoNet == [bsl |-> 1, bel |-> 1, ssl |-> 1, sel |-> 1, bks |-> B!Zero, bkt |-> B!Zero, sks |-> B!Zero, skt |-> B!Zero]
NoPend == [open |-> FALSE]
TInit == /\ G = NoNet /\ e0 = B!Zero /\ net = "none" /\ pend = NoPend
         /\ bad = {} /\ drift = {} /\ cnt = <<>> /\ l = 1

Key(kind, where) == kind \o "/" \o net \o "/" \o where
\* record a class (printing it the first time it is seen)
Classify(key) ==
    /\ IF key \in bad THEN TRUE ELSE PrintT("CLASS|" \o key \o "|" \o ToString(l))
    /\ bad' = bad \cup {key}
    /\ cnt' = IF key \in DOMAIN cnt THEN [cnt EXCEPT ![key] = @ + 1] ELSE cnt @@ (key :> 1)
    /\ drift' = drift
Conform(designOK, dkey) ==
    /\ bad' = bad /\ cnt' = cnt
    /\ IF designOK THEN drift' = drift
       ELSE /\ IF dkey \in drift THEN TRUE ELSE PrintT("DRIFT|" \o dkey \o "|" \o ToString(l))
            /\ drift' = drift \cup {dkey}

\* relative_slot_to_absolute as designed (= ToAbs of SlotTime.tla for Divisible records)
ToAbsB(e, sub) ==
    IF B!Lt(e, e0) THEN B!Add(B!Mul(e, Big(EpochSlots(G, "byron"))), sub)
    ELSE B!Add(B!Add(B!Mul(e0, Big(EpochSlots(G, "byron"))),
                     B!Mul(B!Sub(e, e0), Big(EpochSlots(G, "shelley")))), sub)

WallWhere(s) == IF B!Add(s, Big(1)) = G.sks THEN "era-boundary" ELSE EraOfB(G, s)

TNet ==
    /\ IsEvent("net")
    /\ G' = Rec[l].g /\ e0' = Rec[l].e0 /\ net' = Rec[l].name /\ pend' = NoPend
    /\ Divisible(G')
    /\ bad' = bad /\ cnt' = cnt
    /\ IF IsStartEpochB(G', e0') THEN drift' = drift
       ELSE drift' = drift \cup {"start-epoch/" \o Rec[l].name}

TRel ==
    /\ IsEvent("rel")
    /\ LET r == Rec[l]
           ok == SubInRangeB(G, r.slot, r.sub)
       IN /\ pend' = [open |-> TRUE, ok |-> ok, slot |-> r.slot, epoch |-> r.epoch, sub |-> r.sub]
          /\ IF ok THEN Conform(RelOKB(G, e0, r.slot, r.epoch, r.sub), Key("rel-design", EraOfB(G, r.slot)))
                   ELSE Classify(Key("rel", EraOfB(G, r.slot)))
    /\ UNCHANGED <<G, e0, net>>

\* The round trip.  When the preceding "rel" already left the range (its class
\* is recorded) the pair handed to relative_slot_to_absolute is not one C32
\* speaks about: the failure of the round trip is then attributed to "rel" -
\* provided the inverse did what it is designed to do with that pair.
TAbs ==
    /\ IsEvent("abs") /\ pend.open
    /\ LET r == Rec[l]
           explained == ~pend.ok /\ IsStartEpochB(G, e0) /\ r.slot = ToAbsB(r.epoch, r.sub)
       IN /\ r.epoch = pend.epoch /\ r.sub = pend.sub
          /\ IF RoundTripB(G, pend.slot, r.slot) \/ explained
             THEN Conform(TRUE, "")
             ELSE Classify(Key("roundtrip", EraOfB(G, pend.slot)))
    /\ pend' = NoPend
    /\ UNCHANGED <<G, e0, net>>

TWall ==
    /\ IsEvent("wall")
    /\ LET r == Rec[l] IN
         IF ClockStepB(G, r.slot, r.t0, r.t1)
         THEN Conform(r.t0 = WallclockB(G, r.slot) /\ r.t1 = WallclockB(G, B!Add(r.slot, Big(1))),
                      Key("wall-design", EraOfB(G, r.slot)))
         ELSE Classify(Key("wall", WallWhere(r.slot)))
    /\ UNCHANGED <<G, e0, net, pend>>

TPanic ==
    /\ IsEvent("panic")
    /\ Classify("panic/" \o Rec[l].net \o "/" \o Rec[l].call)
    /\ pend' = NoPend
    /\ UNCHANGED <<G, e0, net>>

TReset ==
    /\ IsEvent("reset")
    /\ PrintT("COUNTS|" \o ToJson(cnt))
    /\ G' = NoNet /\ e0' = B!Zero /\ net' = "none" /\ pend' = NoPend
    /\ UNCHANGED <<bad, drift, cnt>>

TNext == TNet \/ TRel \/ TAbs \/ TWall \/ TPanic \/ TReset
=============================================================================
