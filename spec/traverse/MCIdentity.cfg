CONSTANTS
  Digests = {1, 2}
  MCKinds = {"tx", "byron_ebb_header", "byron_header", "native_script", "plutus_v2"}
INIT MCInit
NEXT MCNext
INVARIANTS FactsTrue Sound Complete Distinguishes FindSound
CHECK_DEADLOCK FALSE
