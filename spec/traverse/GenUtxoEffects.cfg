CONSTANTS
  Refs <- Refs3
  MaxIn = 3
  MaxColl = 2
  MaxOut = 2
  Eras = {"alonzo", "babbage", "conway"}
INIT GInit
NEXT GNext
INVARIANT Emit
CHECK_DEADLOCK FALSE
