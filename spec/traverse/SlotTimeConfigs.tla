--------------------------- MODULE SlotTimeConfigs ---------------------------
(* Scaled-down genesis records shared by MCSlotTime and GenSlotTime (C32).   *)
EXTENDS SlotTime

\* scaled-down genesis records: Byron slot length 2..3, Byron epoch 6 / 12
\* slots, Shelley slot length 1..2, Shelley epoch 5 / 10 slots, fork after 0
\* or 2 Byron epochs or 3 slots later (off boundary), clock continuous or not
Configs ==
    { [bsl |-> bsl, bel |-> bes * bsl, bks |-> 0, bkt |-> 1000,
       ssl |-> ssl, sel |-> ses * ssl, sks |-> k * bes + off,
       skt |-> 1000 + (k * bes + off) * bsl + gap] :
        bsl \in {2, 3}, bes \in {6, 12}, ssl \in {1, 2}, ses \in {5, 10},
        k \in {0, 2}, off \in {0, 3}, gap \in {0, 7} }
=============================================================================
