------------------------------ MODULE SlotTime ------------------------------
(* C32 - slot / epoch / wall-clock conversions of pallas-traverse           *)
(*   pallas-traverse/src/time.rs      (GenesisValues::absolute_slot_to_relative, *)
(*                                     relative_slot_to_absolute, slot_to_wallclock) *)
(*   pallas-traverse/src/wellknown.rs (GenesisValues, the four networks)    *)
(*                                                                          *)
(* Everything is parametric in a genesis record                             *)
(*   g = [bsl, bel, bks, bkt,  ssl, sel, sks, skt]                          *)
(*        byron_{slot_length, epoch_length, known_slot, known_time},        *)
(*        shelley_{...}.  Epoch *lengths* are configured in seconds, slot   *)
(* lengths in seconds per slot; the chain has two eras ("byron" before      *)
(* g.sks, "shelley" from g.sks on), each with its own slot length and its   *)
(* own epoch size in slots.                                                 *)
(* The module is written over the (unbounded) integers; TraceSlotTime       *)
(* evaluates the same statements over BigNat limb numbers because TLC's     *)
(* integers are 32-bit (the MC configuration checks that both agree).       *)
EXTENDS Integers, Sequences

\* Apalache type annotations (comments for TLC):
\* @typeAlias: genesis = { bsl: Int, bel: Int, bks: Int, bkt: Int, ssl: Int, sel: Int, sks: Int, skt: Int };
SlotTimeAliases == TRUE

Eras == {"byron", "shelley"}

\* ---- derived genesis quantities ----
\* @type: ($genesis, Str) => Int;
SlotLen(g, era)    == IF era = "byron" THEN g.bsl ELSE g.ssl
\* @type: ($genesis, Str) => Int;
EpochSecs(g, era)  == IF era = "byron" THEN g.bel ELSE g.sel
\* @type: ($genesis, Str) => Int;
EpochSlots(g, era) == EpochSecs(g, era) \div SlotLen(g, era)      \* epoch size in slots
\* @type: ($genesis, Int) => Str;
EraOf(g, s)        == IF s < g.sks THEN "byron" ELSE "shelley"

\* first epoch of the shelley era, as the code computes it (shelley_start_epoch)
\* @type: ($genesis) => Int;
StartEpoch(g) == (g.sks * g.bsl) \div g.bel

\* A genesis record describes a real chain when epochs are whole numbers of
\* slots, the hard fork sits on a Byron epoch boundary and the Shelley clock
\* continues the Byron clock.  The four well-known networks are meant to be
\* of this kind; the properties below are claimed for such records only.
\* @type: ($genesis) => Bool;
Divisible(g)       == g.bsl > 0 /\ g.ssl > 0 /\ g.bel % g.bsl = 0 /\ g.sel % g.ssl = 0
                      /\ EpochSlots(g, "byron") > 0 /\ EpochSlots(g, "shelley") > 0
\* @type: ($genesis) => Bool;
ForkOnBoundary(g)  == g.sks % EpochSlots(g, "byron") = 0
\* @type: ($genesis) => Bool;
ClockContinuous(g) == g.skt = g.bkt + (g.sks - g.bks) * g.bsl
\* @type: ($genesis) => Bool;
WellFormed(g)      == Divisible(g) /\ ForkOnBoundary(g) /\ g.bks = 0

\* ---- the three conversions (one operator per public entry point) ----
\* GenesisValues::absolute_slot_to_relative
\* @type: ($genesis, Int) => <<Int, Int>>;
ToRel(g, s) ==
    IF s < g.sks
    THEN <<s \div EpochSlots(g, "byron"), s % EpochSlots(g, "byron")>>
    ELSE <<StartEpoch(g) + (s - g.sks) \div EpochSlots(g, "shelley"),
           (s - g.sks) % EpochSlots(g, "shelley")>>

\* compute_absolute_slot_within_era, as coded (seconds / slot length)
\* @type: (Int, Int, Int, Int) => Int;
WithinEra(e, sub, epochSecs, slotLen) == (e * epochSecs) \div slotLen + sub

\* GenesisValues::relative_slot_to_absolute
\* @type: ($genesis, Int, Int) => Int;
ToAbs(g, e, sub) ==
    IF e < StartEpoch(g)
    THEN WithinEra(e, sub, g.bel, g.bsl)
    ELSE WithinEra(StartEpoch(g), 0, g.bel, g.bsl) + WithinEra(e - StartEpoch(g), sub, g.sel, g.ssl)

\* GenesisValues::slot_to_wallclock
\* @type: ($genesis, Int) => Int;
Wallclock(g, s) ==
    IF s < g.sks THEN g.bkt + (s - g.bks) * g.bsl
                 ELSE g.skt + (s - g.sks) * g.ssl

\* ---- what C32 states ----
\* (a) the slot-in-epoch is smaller than the epoch size (in slots) of the slot's era
\* @type: ($genesis, Int, Int) => Bool;
SubInRange(g, s, sub) == 0 <= sub /\ sub < EpochSlots(g, EraOf(g, s))
\* (b) converting back yields the original slot
\* @type: ($genesis, Int, Int) => Bool;
RoundTrip(g, s, back) == back = s
\* (c) the clock advances by the slot length of the era of s between s and s+1
\* @type: ($genesis, Int, Int, Int) => Bool;
ClockStep(g, s, t0, t1) == t1 - t0 = SlotLen(g, EraOf(g, s))

\* ---- division-free characterisation of ToRel (used on BigNat values) ----
\* @type: ($genesis, Int, Int, Int) => Bool;
RelOK(g, s, e, sub) ==
    IF s < g.sks
    THEN /\ s = e * EpochSlots(g, "byron") + sub
         /\ 0 <= sub /\ sub < EpochSlots(g, "byron")
    ELSE /\ s - g.sks = (e - StartEpoch(g)) * EpochSlots(g, "shelley") + sub
         /\ 0 <= sub /\ sub < EpochSlots(g, "shelley")

\* ---- laws of the specification itself (checked by MCSlotTime) ----
\* @type: ($genesis, Int) => Bool;
LawSub(g, s)       == SubInRange(g, s, ToRel(g, s)[2])
\* @type: ($genesis, Int) => Bool;
LawRoundTrip(g, s) == ToAbs(g, ToRel(g, s)[1], ToRel(g, s)[2]) = s
\* @type: ($genesis, Int) => Bool;
LawRelOK(g, s)     == RelOK(g, s, ToRel(g, s)[1], ToRel(g, s)[2])
\* @type: ($genesis, Int) => Bool;
LawClock(g, s)     == Wallclock(g, s + 1) - Wallclock(g, s) = SlotLen(g, EraOf(g, s))
\* epochs are contiguous: the slot after the last of an epoch opens the next
\* @type: ($genesis, Int) => Bool;
LawEpochSucc(g, s) == LET a == ToRel(g, s)  b == ToRel(g, s + 1)
                      IN \/ (b[1] = a[1] /\ b[2] = a[2] + 1)
                         \/ (b[1] = a[1] + 1 /\ b[2] = 0 /\ a[2] = EpochSlots(g, EraOf(g, s)) - 1)
=============================================================================
