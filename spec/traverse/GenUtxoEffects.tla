---------------------------- MODULE GenUtxoEffects ----------------------------
(* Vector generator for C31 (spec -> impl, M1): every projected transaction   *)
(* of MCUtxoEffects with the expected observer results.  The property leaves  *)
(* the order of `consumes` open, so it is given as a set (sorted) plus the    *)
(* first-occurrence order of the design model (`consumes_seq`, drift only).   *)
EXTENDS MCUtxoEffects, Json

Vec(t) == [tx |-> t,
           consumes_set |-> SetToSortSeq(Range(Spent(t)), RefLess),
           consumes_seq |-> Consumes(t),
           produces |-> Produces(t),
           produces_at |-> [k \in 1..(Len(t.outputs) + 2) |-> ProducesAt(t, k - 1)],
           sorted |-> SortedSet(t)]
GInit == Init
GNext == FALSE /\ UNCHANGED vars
Emit == PrintT(<<"VEC", ToJson(Vec(tx))>>)
=============================================================================
