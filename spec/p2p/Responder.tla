------------------------------ MODULE Responder ------------------------------
(* Design model of pallas-network2's ResponderBehavior (behavior/responder/): *)
(* connection accounting (per-IP limit, bans), handshake negotiation and the   *)
(* request/response visitors.  Like the initiator model it is TOTAL: every     *)
(* interface event and command has a successor in every state (C29), and the   *)
(* real behaviour's runs are compared with it step by step (TraceResponder;    *)
(* a mismatch is DRIFT, never a violation).                                    *)
(* Inbound messages are dispatched only to the visitor that owns the protocol; *)
(* once `violation` is set no visitor runs any more for that peer.             *)
EXTENDS P2PProto

CONSTANTS HostOf,        \* peer id -> IP (several peers may share one)
          MaxPerIp, RMaxErr,
          Supported      \* versions the responder accepts (default {13})

VARIABLES r,             \* responder state + outputs of the last step
          rev            \* last command / event

FreshR == [conn |-> "Connected", viol |-> FALSE, errs |-> 0, hs |-> "Propose", ver |-> 0, pver |-> {},
           ka |-> "Client", ps |-> "IdleEmpty", bf |-> "Idle", cs |-> "IdleNew", tx |-> "Init",
           ln |-> "IdleNone", lf |-> "IdleNone"]

RF == [handshake |-> "hs", keepalive |-> "ka", peersharing |-> "ps", blockfetch |-> "bf", chainsync |-> "cs",
       txsubmission |-> "tx", leiosnotify |-> "ln", leiosfetch |-> "lf"]

R0 == [peers |-> [x \in {} |-> FreshR], banned |-> {}, perip |-> [h \in {} |-> 0], accepted |-> {}, out |-> <<>>]

RE(k, p, m) == [ev |-> k, p |-> p, m |-> m]
RSend(p, m)    == [t |-> "send", p |-> p, m |-> m, k |-> ""]
RDisc(p)       == [t |-> "disconnect", p |-> p, m |-> NoMsg, k |-> ""]
REvent(p, k)   == [t |-> "event", p |-> p, m |-> NoMsg, k |-> k]
REmit(R, o) == [R EXCEPT !.out = Append(@, o)]
RSet(R, p, s) == [R EXCEPT !.peers = [q \in (DOMAIN R.peers) \cup {p} |-> IF q = p THEN s ELSE R.peers[q]]]
RDrop(R, p) == [R EXCEPT !.peers = [q \in (DOMAIN R.peers) \ {p} |-> R.peers[q]]]
Count(R, h) == IF h \in DOMAIN R.perip THEN R.perip[h] ELSE 0
SetCount(R, h, n) ==
  [R EXCEPT !.perip = IF n = 0 THEN [g \in (DOMAIN R.perip) \ {h} |-> R.perip[g]]
                      ELSE [g \in (DOMAIN R.perip) \cup {h} |-> IF g = h THEN n ELSE R.perip[g]]]

\* ResponderState::apply_msg; the proposed versions of a Propose are kept for the negotiation
RApply(s, m) ==
  LET f == RF[m.proto]
      nx == ImplNext(m.proto, s[f], m.kind)
  IN IF nx = "ERR" THEN [s EXCEPT !.viol = TRUE]
     ELSE LET s1 == [s EXCEPT ![f] = nx]
          IN CASE m.proto = "handshake" /\ m.kind = "Propose" -> [s1 EXCEPT !.pver = m.peers]
               [] m.proto = "handshake" /\ m.kind = "Accept" -> [s1 EXCEPT !.ver = m.ver]
               [] OTHER -> s1

Max(S) == CHOOSE x \in S : \A y \in S : y <= x

\* on_connected: a fresh state replaces whatever was there; ConnectionResponder::visit_connected
RConnected(R, p) ==
  LET h == HostOf[p]
      R1 == IF p \in R.banned THEN REmit(R, RDisc(p))
            ELSE LET n == Count(R, h) + 1
                     R2 == SetCount(R, h, n)
                 IN IF n > MaxPerIp THEN REmit(R2, RDisc(p))
                    ELSE [R2 EXCEPT !.accepted = @ \cup {p}]
  IN RSet(R1, p, FreshR)

\* on_disconnected: bookkeeping only for tracked peers, PeerDisconnected always
RDisconnected(R, p) ==
  LET R1 == IF p \in DOMAIN R.peers
            THEN LET h == HostOf[p]
                     R2 == IF h \in DOMAIN R.perip THEN SetCount(R, h, R.perip[h] - 1) ELSE R
                 IN RDrop([R2 EXCEPT !.accepted = @ \ {p}], p)
            ELSE R
  IN REmit(R1, REvent(p, "PeerDisconnected"))

RErrored(R, p) ==
  IF p \notin DOMAIN R.peers THEN R
  ELSE REmit(RSet(R, p, [R.peers[p] EXCEPT !.conn = "Errored", !.errs = Min(@ + 1, RMaxErr + 1)]), RDisc(p))

\* visit_inbound_msg of the sub-behaviour owning the message's protocol
RVisitInbound(R, p, m) ==
  LET s == R.peers[p]
      init == s.conn = "Initialized"
  IN CASE m.proto = "handshake" ->
            IF s.hs # "Confirm" THEN R
            ELSE LET common == s.pver \cap Supported IN
                 IF common = {} THEN REmit(R, RSend(p, Msg("handshake", "Refuse")))
                 ELSE REmit(REmit(RSet(R, p, [s EXCEPT !.conn = "Initialized"]),
                                  RSend(p, MsgAccept(Max(common), 1))), REvent(p, "PeerInitialized"))
       [] m.proto = "keepalive" ->
            IF init /\ s.ka = "Server" THEN REmit(R, RSend(p, Msg("keepalive", "ResponseKeepAlive"))) ELSE R
       [] m.proto = "chainsync" ->
            IF init /\ s.cs = "Intersect" THEN REmit(R, REvent(p, "IntersectionRequested"))
            ELSE IF init /\ s.cs \in {"CanAwait", "MustReply"} THEN REmit(R, REvent(p, "NextHeaderRequested"))
            ELSE R
       [] m.proto = "blockfetch" -> IF init /\ s.bf = "Busy" THEN REmit(R, REvent(p, "BlockRangeRequested")) ELSE R
       [] m.proto = "peersharing" -> IF init /\ s.ps = "Busy" THEN REmit(R, REvent(p, "PeersRequested")) ELSE R
       [] m.proto = "txsubmission" -> IF s.tx = "Txs" /\ m.kind = "ReplyTxs" THEN REmit(R, REvent(p, "TxReceived")) ELSE R
       [] m.proto = "leiosnotify" -> IF init /\ s.ln = "Busy" THEN REmit(R, REvent(p, "EbNotificationRequested")) ELSE R
       [] m.proto = "leiosfetch" ->
            IF init /\ s.lf = "AwaitingBlock" THEN REmit(R, REvent(p, "EbRequested"))
            ELSE IF init /\ s.lf = "AwaitingBlockTxs" THEN REmit(R, REvent(p, "EbTxsRequested"))
            ELSE R

RRecv(R, p, m) ==
  IF p \notin DOMAIN R.peers THEN R
  ELSE LET R1 == RSet(R, p, RApply(R.peers[p], m)) IN
       IF R1.peers[p].viol THEN R1 ELSE RVisitInbound(R1, p, m)

RSent(R, p, m) == IF p \notin DOMAIN R.peers THEN R ELSE RSet(R, p, RApply(R.peers[p], m))

\* housekeeping: connection (ban / disconnect), tx-submission (init, request ids); peers in any order -
\* the visitors of different peers do not interact, so one order is enough
RHkPeer(R, p) ==
  LET s == R.peers[p]
      R1 == IF p \notin R.banned /\ (s.viol \/ s.errs > RMaxErr)
            THEN REmit([R EXCEPT !.banned = @ \cup {p}], RDisc(p))
            ELSE IF p \in R.banned \/ s.conn = "Errored" THEN REmit(R, RDisc(p)) ELSE R
      R2 == IF s.conn = "Initialized" /\ s.tx = "Init" THEN REmit(R1, RSend(p, Msg("txsubmission", "Init"))) ELSE R1
  IN IF s.conn = "Initialized" /\ s.tx = "Idle"
     THEN REmit(R2, RSend(p, Msg("txsubmission", "RequestTxIdsBlocking"))) ELSE R2

RECURSIVE RHkAll(_, _)
RHkAll(R, order) == IF order = <<>> THEN R ELSE RHkAll(RHkPeer(R, Head(order)), Tail(order))
RECURSIVE ROrders(_)
ROrders(S) == IF S = {} THEN {<<>>} ELSE UNION {{<<x>> \o o : o \in ROrders(S \ {x})} : x \in S}
RHousekeeping(R) == {RHkAll(R, o) : o \in ROrders(DOMAIN R.peers)}

\* commands: Provide* push a message unconditionally; BanPeer / DisconnectPeer
ProvideMsgs(k) ==
  CASE k = "provide-intersection"    -> <<Msg("chainsync", "IntersectFound")>>
    [] k = "provide-header"          -> <<Msg("chainsync", "RollForward")>>
    [] k = "provide-rollback"        -> <<Msg("chainsync", "RollBackward")>>
    [] k = "provide-blocks"          -> <<Msg("blockfetch", "StartBatch"), Msg("blockfetch", "Block"),
                                          Msg("blockfetch", "Block"), Msg("blockfetch", "BatchDone")>>
    [] k = "provide-peers"           -> <<MsgSharePeers({})>>
    [] k = "provide-eb-announcement" -> <<Msg("leiosnotify", "BlockAnnouncement")>>
    [] k = "provide-eb-offer"        -> <<Msg("leiosnotify", "BlockOffer")>>
    [] k = "provide-eb-txs-offer"    -> <<Msg("leiosnotify", "BlockTxsOffer")>>
    [] k = "provide-votes"           -> <<Msg("leiosnotify", "Votes")>>
    [] k = "provide-eb"              -> <<Msg("leiosfetch", "Block")>>
    [] k = "provide-eb-txs"          -> <<Msg("leiosfetch", "BlockTxs")>>
ProvideCmds == {"provide-intersection", "provide-header", "provide-rollback", "provide-blocks", "provide-peers",
                "provide-eb-announcement", "provide-eb-offer", "provide-eb-txs-offer", "provide-votes",
                "provide-eb", "provide-eb-txs"}

RProvide(R, p, k) == [R EXCEPT !.out = @ \o [i \in DOMAIN ProvideMsgs(k) |-> RSend(p, ProvideMsgs(k)[i])]]

RResults(R, e) ==
  CASE e.ev = "connected"    -> {RConnected(R, e.p)}
    [] e.ev = "disconnected" -> {RDisconnected(R, e.p)}
    [] e.ev = "error"        -> {RErrored(R, e.p)}
    [] e.ev = "recv"         -> {RRecv(R, e.p, e.m)}
    [] e.ev = "sent"         -> {RSent(R, e.p, e.m)}
    [] e.ev = "hk"           -> RHousekeeping(R)
    [] e.ev = "ban"          -> {REmit([R EXCEPT !.banned = @ \cup {e.p}], RDisc(e.p))}
    [] e.ev = "disconnect-peer" -> {REmit(R, RDisc(e.p))}
    [] e.ev \in ProvideCmds  -> {RProvide(R, e.p, e.ev)}

RStep(e) == r' \in RResults([r EXCEPT !.out = <<>>], e) /\ rev' = e
RInit == r = R0 /\ rev = RE("init", 0, NoMsg)

RTypeOK ==
  /\ DOMAIN r.peers \subseteq Peers /\ r.banned \subseteq Peers /\ r.accepted \subseteq Peers
  /\ \A h \in DOMAIN r.perip : r.perip[h] \in Nat \ {0}
  /\ \A p \in DOMAIN r.peers : r.peers[p].conn \in {"Connected", "Initialized", "Errored"}
=============================================================================
