------------------------ MODULE TraceProtocolMonitor ------------------------
(* Trace validation for C28 (impl -> property spec): the emitted Send        *)
(* sequence per peer of the REAL InitiatorBehavior, together with the        *)
(* interface events delivered to it, is run through ProtocolMonitor.         *)
(* Event format: see TracePromotionProps.  Every event is consumed:          *)
(*   <<"BAD", line, keys>>       an emitted message outside the specification *)
(*   <<"ENVBREAK", line, event>> the environment itself was not consistent    *)
(*                               with a real connection; the rest of that run *)
(*                               is not judged (never a violation).           *)
EXTENDS ProtocolMonitor, TraceKit

VARIABLE l
tvars == <<mon, bad, l>>

TInit == l = 1 /\ mon = MonInit({13}) /\ bad = {}

TReset == /\ l <= NRec /\ Rec[l].ev = "reset" /\ l' = l + 1
          /\ mon' = MonInit(IF Has(Rec[l].cfg, "leios") /\ Rec[l].cfg.leios THEN {13, 15} ELSE {13})
          /\ bad' = {}

TIgnore == l <= NRec /\ Rec[l].ev \in {"skip", "panic"} /\ l' = l + 1 /\ UNCHANGED <<mon, bad>>

TStep == /\ l <= NRec /\ Rec[l].ev \notin {"reset", "skip", "panic"} /\ l' = l + 1
         /\ LET r == Rec[l]
                R == MonResult(mon, [ev |-> r.ev, p |-> r.p, m |-> r.m], r.out)
            IN /\ mon' = R.M /\ bad' = R.nb
               /\ (R.nb # {} => PrintT(<<"BAD", l, ToJson(R.nb)>>))
               /\ (R.M.tainted /\ ~mon.tainted => PrintT(<<"ENVBREAK", l, ToJson(r.ev)>>))

TNext == TReset \/ TIgnore \/ TStep
=============================================================================
