---------------------------- MODULE TraceNoPanic ----------------------------
(* Trace validation for C29 (impl -> property spec): "the behaviours process *)
(* the events and keep producing outputs without panicking".  The harness    *)
(* runs every step of the real Initiator/ResponderBehavior under             *)
(* catch_unwind; a panic is logged as {"ev":"panic","a":step,"msg":..} and   *)
(* ends that run.  The specification has NO behaviour step for a panic: the  *)
(* only action that consumes it is Violation, which reports it               *)
(*   <<"BAD", line, record>>                                                 *)
(* so that the runs after it in the same file are still judged.              *)
(* The report says whether the run up to and including the panicking event   *)
(* respected the connection lifecycle a TcpInterface guarantees (Lifecycle):  *)
(* a panic reached that way is peer-drivable and gets a different finding key *)
(* than the same panic site reached by an impossible event sequence.          *)
EXTENDS Naturals, Sequences, TLC, TraceKit, Lifecycle

VARIABLES l, steps, lc
tvars == <<l, steps, lc>>

TInit == l = 1 /\ steps = 0 /\ lc = LcInit(FALSE)

WellFormed(r) == Has(r, "ev") /\ (r.ev \notin {"reset", "skip", "panic"} => Has(r, "out") /\ Has(r, "p"))

IsResponder(r) == Has(r, "cfg") /\ Has(r.cfg, "responder") /\ r.cfg.responder
TReset == /\ l <= NRec /\ Rec[l].ev = "reset" /\ l' = l + 1 /\ steps' = 0
          /\ lc' = LcInit(IsResponder(Rec[l]))
TStep  == /\ l <= NRec /\ WellFormed(Rec[l]) /\ Rec[l].ev \notin {"reset", "panic"} /\ l' = l + 1 /\ steps' = steps + 1
          /\ lc' = IF Rec[l].ev = "skip" THEN lc ELSE LcNext(lc, Rec[l].ev, Rec[l].p, Rec[l].out)
Violation ==
  /\ l <= NRec /\ Rec[l].ev = "panic" /\ l' = l + 1 /\ steps' = steps
  /\ lc' = LcNext(lc, Rec[l].a, Rec[l].p, <<>>)
  /\ PrintT(<<"BAD", l, ToJson([a |-> Rec[l].a, msg |-> Rec[l].msg, pre_conn |-> Rec[l].pre_conn,
                               pre_hs |-> Rec[l].pre_hs, after_steps |-> steps,
                               lifecycle_ok |-> LcNext(lc, Rec[l].a, Rec[l].p, <<>>).ok])>>)

TNext == TReset \/ TStep \/ Violation
=============================================================================
