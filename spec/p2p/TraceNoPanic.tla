---------------------------- MODULE TraceNoPanic ----------------------------
(* Trace validation for C29 (impl -> property spec): "the behaviours process *)
(* the events and keep producing outputs without panicking".  The harness    *)
(* runs every step of the real Initiator/ResponderBehavior under             *)
(* catch_unwind; a panic is logged as {"ev":"panic","a":step,"msg":..} and   *)
(* ends that run.  The specification has NO behaviour step for a panic: the  *)
(* only action that consumes it is Violation, which reports it               *)
(*   <<"BAD", line, record>>                                                 *)
(* so that the runs after it in the same file are still judged.              *)
(* `alive` counts the steps of the current run that produced outputs.        *)
EXTENDS Naturals, Sequences, TLC, TraceKit

VARIABLES l, steps
tvars == <<l, steps>>

TInit == l = 1 /\ steps = 0

WellFormed(r) == Has(r, "ev") /\ (r.ev \notin {"reset", "skip", "panic"} => Has(r, "out") /\ Has(r, "p"))

TReset == l <= NRec /\ Rec[l].ev = "reset" /\ l' = l + 1 /\ steps' = 0
TStep  == l <= NRec /\ WellFormed(Rec[l]) /\ Rec[l].ev \notin {"reset", "panic"} /\ l' = l + 1 /\ steps' = steps + 1
Violation ==
  /\ l <= NRec /\ Rec[l].ev = "panic" /\ l' = l + 1 /\ steps' = steps
  /\ PrintT(<<"BAD", l, ToJson([a |-> Rec[l].a, msg |-> Rec[l].msg, pre_conn |-> Rec[l].pre_conn,
                               pre_hs |-> Rec[l].pre_hs, after_steps |-> steps])>>)

TNext == TReset \/ TStep \/ Violation
=============================================================================
