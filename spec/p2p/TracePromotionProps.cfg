CONSTANTS
  Peers = {0}
INIT TInit
NEXT TNext
CHECK_DEADLOCK FALSE
POSTCONDITION TraceVerdict
