CONSTANTS
  Peers = {1,2,3,4,5,6,7,8,9,10}
  HostOf <- HostOfDef
  MaxPerIp = 2
  RMaxErr = 1
  Supported = {13}
INIT TInit
NEXT TNext
CHECK_DEADLOCK FALSE
POSTCONDITION TraceVerdict
