------------------------------ MODULE P2PProto ------------------------------
(* Mini-protocol vocabulary of the node-to-node P2P stack (pallas-network2)  *)
(* shared by the property specs (ProtocolMonitor, PromotionProps) and the    *)
(* design models (Initiator, Responder).                                     *)
(*                                                                           *)
(*  * SpecTrans / SpecAgency : the Ouroboros mini-protocol state machines,   *)
(*    transcribed from "The Shelley Networking Protocol" ch. 3 (tables of    *)
(*    DESIGN.md 3.5) and the module docs of protocol/leios*.rs -- this is    *)
(*    what a specification-conformant responder follows.  Used by C28.       *)
(*  * ImplNext : the transition tables of the implementation's `apply`       *)
(*    functions (protocol/*.rs), at the granularity of the verif_snapshot    *)
(*    hook.  They ignore the direction of a message.  Used by the design     *)
(*    models only.                                                           *)
EXTENDS Naturals, Sequences, FiniteSets, TLC

CONSTANT Peers   \* universe of peer ids (positive integers; 0 = "no peer")

Protos == {"handshake", "keepalive", "peersharing", "blockfetch", "chainsync",
           "txsubmission", "leiosnotify", "leiosfetch"}

\* message kinds per protocol (the wire alphabet of AnyMessage)
Kinds == [
  handshake    |-> {"Propose", "Accept", "Refuse", "QueryReply"},
  keepalive    |-> {"KeepAlive", "ResponseKeepAlive", "Done"},
  peersharing  |-> {"ShareRequest", "SharePeers", "Done"},
  blockfetch   |-> {"RequestRange", "ClientDone", "StartBatch", "NoBlocks", "Block", "BatchDone"},
  chainsync    |-> {"RequestNext", "AwaitReply", "RollForward", "RollBackward", "FindIntersect",
                    "IntersectFound", "IntersectNotFound", "Done"},
  txsubmission |-> {"Init", "RequestTxIdsBlocking", "RequestTxIdsNonBlocking", "ReplyTxIds",
                    "RequestTxs", "ReplyTxs", "Done"},
  leiosnotify  |-> {"RequestNext", "BlockAnnouncement", "BlockOffer", "BlockTxsOffer", "Votes", "Done"},
  leiosfetch   |-> {"BlockRequest", "Block", "BlockTxsRequest", "BlockTxs", "Done"} ]

\* A message: protocol, kind and the few payload fields behaviour depends on
\* (accepted version + peer-sharing flag of Accept, addresses of SharePeers).
NoMsg == [proto |-> "-", kind |-> "-", ver |-> 0, ps |-> 0, peers |-> {}]
Msg(proto, kind) == [proto |-> proto, kind |-> kind, ver |-> 0, ps |-> 0, peers |-> {}]
MsgAccept(ver, ps) == [proto |-> "handshake", kind |-> "Accept", ver |-> ver, ps |-> ps, peers |-> {}]
MsgSharePeers(S) == [proto |-> "peersharing", kind |-> "SharePeers", ver |-> 0, ps |-> 0, peers |-> S]

-----------------------------------------------------------------------------
(* The specification: <<from, kind, to>> triples; agency c(lient) / s(erver) / n(obody) *)

SpecInit == [handshake |-> "Propose", keepalive |-> "Client", peersharing |-> "Idle", blockfetch |-> "Idle",
             chainsync |-> "Idle", txsubmission |-> "Init", leiosnotify |-> "Idle", leiosfetch |-> "Idle"]

SpecTrans == [
  handshake    |-> { <<"Propose", "Propose", "Confirm">>, <<"Confirm", "Accept", "Done">>,
                     <<"Confirm", "Refuse", "Done">>, <<"Confirm", "QueryReply", "Done">> },
  keepalive    |-> { <<"Client", "KeepAlive", "Server">>, <<"Server", "ResponseKeepAlive", "Client">>,
                     <<"Client", "Done", "Done">> },
  peersharing  |-> { <<"Idle", "ShareRequest", "Busy">>, <<"Busy", "SharePeers", "Idle">>, <<"Idle", "Done", "Done">> },
  blockfetch   |-> { <<"Idle", "RequestRange", "Busy">>, <<"Idle", "ClientDone", "Done">>,
                     <<"Busy", "StartBatch", "Streaming">>, <<"Busy", "NoBlocks", "Idle">>,
                     <<"Streaming", "Block", "Streaming">>, <<"Streaming", "BatchDone", "Idle">> },
  chainsync    |-> { <<"Idle", "RequestNext", "CanAwait">>, <<"Idle", "FindIntersect", "Intersect">>,
                     <<"Idle", "Done", "Done">>, <<"CanAwait", "AwaitReply", "MustReply">>,
                     <<"CanAwait", "RollForward", "Idle">>, <<"CanAwait", "RollBackward", "Idle">>,
                     <<"MustReply", "RollForward", "Idle">>, <<"MustReply", "RollBackward", "Idle">>,
                     <<"Intersect", "IntersectFound", "Idle">>, <<"Intersect", "IntersectNotFound", "Idle">> },
  txsubmission |-> { <<"Init", "Init", "Idle">>, <<"Idle", "RequestTxIdsBlocking", "TxIdsBlocking">>,
                     <<"Idle", "RequestTxIdsNonBlocking", "TxIdsNonBlocking">>, <<"Idle", "RequestTxs", "Txs">>,
                     <<"TxIdsBlocking", "ReplyTxIds", "Idle">>, <<"TxIdsNonBlocking", "ReplyTxIds", "Idle">>,
                     <<"TxIdsBlocking", "Done", "Done">>, <<"Txs", "ReplyTxs", "Idle">> },
  leiosnotify  |-> { <<"Idle", "RequestNext", "Busy">>, <<"Busy", "BlockAnnouncement", "Idle">>,
                     <<"Busy", "BlockOffer", "Idle">>, <<"Busy", "BlockTxsOffer", "Idle">>,
                     <<"Busy", "Votes", "Idle">>, <<"Idle", "Done", "Done">> },
  leiosfetch   |-> { <<"Idle", "BlockRequest", "AwaitingBlock">>, <<"AwaitingBlock", "Block", "Idle">>,
                     <<"Idle", "BlockTxsRequest", "AwaitingBlockTxs">>, <<"AwaitingBlockTxs", "BlockTxs", "Idle">>,
                     <<"Idle", "Done", "Done">> } ]

\* states in which the client (= the initiator side in node-to-node) / the server has agency
SpecClientStates == [handshake |-> {"Propose"}, keepalive |-> {"Client"}, peersharing |-> {"Idle"},
                     blockfetch |-> {"Idle"}, chainsync |-> {"Idle"},
                     txsubmission |-> {"Init", "TxIdsBlocking", "TxIdsNonBlocking", "Txs"},
                     leiosnotify |-> {"Idle"}, leiosfetch |-> {"Idle"}]
SpecServerStates == [handshake |-> {"Confirm"}, keepalive |-> {"Server"}, peersharing |-> {"Busy"},
                     blockfetch |-> {"Busy", "Streaming"}, chainsync |-> {"CanAwait", "MustReply", "Intersect"},
                     txsubmission |-> {"Idle"}, leiosnotify |-> {"Busy"},
                     leiosfetch |-> {"AwaitingBlock", "AwaitingBlockTxs"}]

SpecHas(proto, st, kind) == \E t \in SpecTrans[proto] : t[1] = st /\ t[2] = kind
SpecNext(proto, st, kind) == (CHOOSE t \in SpecTrans[proto] : t[1] = st /\ t[2] = kind)[3]

\* the initiator may emit `kind` when the responder's view is `st`
ClientMay(proto, st, kind) == st \in SpecClientStates[proto] /\ SpecHas(proto, st, kind)
\* a conformant responder may send `kind` when its view is `st`
ServerMay(proto, st, kind) == st \in SpecServerStates[proto] /\ SpecHas(proto, st, kind)

-----------------------------------------------------------------------------
(* The implementation's `State::apply` tables (direction-agnostic), over the  *)
(* state classes of the snapshot hook.  "ERR" = Err(..) => violation flag.   *)
(* (Reflects the tree with patches/fix-C24-*.diff applied: Done accepted in   *)
(* keep-alive Client / peer-sharing Idle / tx-submission TxIdsBlocking, the   *)
(* blocking flag of RequestTxIds honoured.)                                   *)

ImplInit == [handshake |-> "Propose", keepalive |-> "Client", peersharing |-> "IdleEmpty", blockfetch |-> "Idle",
             chainsync |-> "IdleNew", txsubmission |-> "Init", leiosnotify |-> "IdleNone", leiosfetch |-> "IdleNone"]

CsIdle == {"IdleNew", "IdleIntersection", "IdleNoIntersection", "IdleContent", "IdleRollback", "IdleDrained"}

ImplNext(proto, st, kind) ==
  CASE proto = "handshake" ->
         (CASE st = "Propose" /\ kind = "Propose" -> "Confirm"
            [] st = "Confirm" /\ kind = "Accept" -> "Accepted"
            [] st = "Confirm" /\ kind = "Refuse" -> "Rejected"
            [] st = "Confirm" /\ kind = "QueryReply" -> "Query"
            [] OTHER -> "ERR")
    [] proto = "keepalive" ->
         (CASE st = "Client" /\ kind = "KeepAlive" -> "Server"
            [] st = "Client" /\ kind = "Done" -> "Done"
            [] st = "Server" /\ kind = "ResponseKeepAlive" -> "Client"
            [] OTHER -> "ERR")
    [] proto = "peersharing" ->
         (CASE st \in {"IdleEmpty", "IdleResponse"} /\ kind = "ShareRequest" -> "Busy"
            [] st \in {"IdleEmpty", "IdleResponse"} /\ kind = "Done" -> "Done"
            [] st = "Busy" /\ kind = "SharePeers" -> "IdleResponse"
            [] OTHER -> "ERR")
    [] proto = "blockfetch" ->
         (CASE st = "Idle" /\ kind = "RequestRange" -> "Busy"
            [] st = "Idle" /\ kind = "ClientDone" -> "Done"
            [] st = "Busy" /\ kind = "NoBlocks" -> "Idle"
            [] st = "Busy" /\ kind = "StartBatch" -> "StreamingNone"
            [] st \in {"StreamingNone", "StreamingSome"} /\ kind = "Block" -> "StreamingSome"
            [] st \in {"StreamingNone", "StreamingSome"} /\ kind = "BatchDone" -> "Idle"
            [] OTHER -> "ERR")
    [] proto = "chainsync" ->
         (CASE st \in CsIdle /\ kind = "FindIntersect" -> "Intersect"
            [] st \in CsIdle /\ kind = "RequestNext" -> "CanAwait"
            [] st \in CsIdle /\ kind = "Done" -> "Done"
            [] st = "Intersect" /\ kind = "IntersectFound" -> "IdleIntersection"
            [] st = "Intersect" /\ kind = "IntersectNotFound" -> "IdleNoIntersection"
            [] st \in {"CanAwait", "MustReply"} /\ kind = "RollForward" -> "IdleContent"
            [] st \in {"CanAwait", "MustReply"} /\ kind = "RollBackward" -> "IdleRollback"
            [] st = "CanAwait" /\ kind = "AwaitReply" -> "MustReply"
            [] OTHER -> "ERR")
    [] proto = "txsubmission" ->
         (CASE st = "Init" /\ kind = "Init" -> "Idle"
            [] st = "Idle" /\ kind = "RequestTxIdsBlocking" -> "TxIdsBlocking"
            [] st = "Idle" /\ kind = "RequestTxIdsNonBlocking" -> "TxIdsNonBlocking"
            [] st = "TxIdsBlocking" /\ kind = "Done" -> "Done"
            [] st = "Idle" /\ kind = "RequestTxs" -> "Txs"
            [] st = "TxIdsNonBlocking" /\ kind = "ReplyTxIds" -> "TxIdsNonBlocking"
            [] st = "TxIdsBlocking" /\ kind = "ReplyTxIds" -> "TxIdsBlocking"
            [] st = "Txs" /\ kind = "ReplyTxs" -> "Txs"
            [] OTHER -> "ERR")
    [] proto = "leiosnotify" ->
         (CASE st \in {"IdleNone", "IdleSome"} /\ kind = "RequestNext" -> "Busy"
            [] st \in {"IdleNone", "IdleSome"} /\ kind = "Done" -> "Done"
            [] st = "Busy" /\ kind \in {"BlockAnnouncement", "BlockOffer", "BlockTxsOffer", "Votes"} -> "IdleSome"
            [] OTHER -> "ERR")
    [] proto = "leiosfetch" ->
         (CASE st \in {"IdleNone", "IdleSome"} /\ kind = "BlockRequest" -> "AwaitingBlock"
            [] st \in {"IdleNone", "IdleSome"} /\ kind = "BlockTxsRequest" -> "AwaitingBlockTxs"
            [] st \in {"IdleNone", "IdleSome"} /\ kind = "Done" -> "Done"
            [] st = "AwaitingBlock" /\ kind = "Block" -> "IdleSome"
            [] st = "AwaitingBlockTxs" /\ kind = "BlockTxs" -> "IdleSome"
            [] OTHER -> "ERR")

\* record field of the per-peer snapshot that holds each protocol's state class
LeiosMinVersion == 15

\* helpers
Min(a, b) == IF a < b THEN a ELSE b
SeqToSet(s) == {s[i] : i \in DOMAIN s}
=============================================================================
