--------------------------- MODULE ProtocolMonitor ---------------------------
(* PROPERTY SPEC for C28: "every message the initiator emits to a peer is     *)
(* permitted by that mini-protocol's specification given all messages         *)
(* previously emitted to and received from that peer".                        *)
(*                                                                             *)
(* Per peer and protocol the monitor keeps the view of a specification-        *)
(* conformant responder, view[p][proto].  It is advanced by EVERY message the  *)
(* initiator emits to p (InterfaceCommand::Send, in emission order = wire      *)
(* order) and by every message delivered to the initiator from p.  An emitted  *)
(* message is fine iff the specification has a transition for it from the      *)
(* current view and the client side has agency there (ClientMay).             *)
(*                                                                             *)
(* Environment "consistent with a real connection" (guards of the MC model,    *)
(* checked on implementation traces -- a trace that breaks them is not judged  *)
(* any further: `tainted`):                                                    *)
(*   Connected(p)  only with an outstanding Connect(p);                        *)
(*   Sent(p, m)    only for a message emitted on the current connection and    *)
(*                 not yet confirmed (any order: one future per message);      *)
(*   Recv(p, m)    only for a message the responder view may send;             *)
(*   Disconnected(p), Error(p) at any time.                                    *)
(* Only what the property states is judged: a Send to a peer without a live    *)
(* connection reaches nobody and is ignored; after Error(p) the connection is  *)
(* in an unknown state and nothing is judged until the next Connected(p);      *)
(* after the first violation on (p, proto) that protocol instance is `broken`  *)
(* (the specification gives no meaning to what follows) until reconnection.    *)
EXTENDS P2PProto

VARIABLES mon,    \* monitor state (record, see MonInit)
          bad     \* collected violation classes (set of finding keys, see FindingKey)

MonInit(versions) ==
  [live    |-> [p \in Peers |-> FALSE],
   outst   |-> [p \in Peers |-> 0],
   unconf  |-> [p \in Peers |-> <<>>],
   view    |-> [p \in Peers |-> SpecInit],
   broken  |-> [p \in Peers |-> {}],
   versions |-> versions,          \* versions offered by the initiator's Propose
   fcredit |-> [p \in Peers |-> 0], \* FetchEb / FetchEbTxs commands for p not yet turned into a leios-fetch request
   bcredit |-> 0,                  \* RequestBlocks commands not yet turned into a RequestRange
   tainted |-> FALSE]

MK(m) == <<m.proto, m.kind>>

\* finding key: protocol / message kind / emitting hook - responder view at the time; "-before-sent" marks the
\* case that an earlier message of the same protocol is still unconfirmed (the initiator's own state lags);
\* "-reemitted" that more block-fetch / leios-fetch requests were emitted than the application ever commanded
\* (the same request went out again); "-same-pass" that an earlier message of the same protocol to the same peer
\* was emitted within the very same step (one housekeeping pass / one command), i.e. the duplicate does not even need
\* a second pass before the confirmation.  The qualifiers only make keys specific, they never decide a violation.
FindingKey(pr, kind, visitor, st, lag, re, same) ==
  pr \o "/" \o kind \o "/" \o visitor \o "-in-" \o st \o (IF lag THEN "-before-sent" ELSE "")
     \o (IF re THEN "-reemitted" ELSE "") \o (IF same THEN "-same-pass" ELSE "")

IsFetchRequest(m) == m.proto = "leiosfetch" /\ m.kind \in {"BlockRequest", "BlockTxsRequest"}
IsRangeRequest(m) == m.proto = "blockfetch" /\ m.kind = "RequestRange"

\* which hook of the behaviour emitted (third component of the finding key)
Visitor(evk) == CASE evk = "hk" -> "housekeeping"
                  [] evk \in {"ban", "demote", "contsync"} -> "tagged"
                  [] evk = "connected" -> "connected"
                  [] evk = "recv" -> "inbound"
                  [] evk = "sent" -> "outbound"
                  [] OTHER -> evk

-----------------------------------------------------------------------------
(* environment *)
HasUnconf(M, p, k) == \E i \in DOMAIN M.unconf[p] : M.unconf[p][i] = k
RemoveFirst(s, k) ==
  LET i == CHOOSE i \in DOMAIN s : s[i] = k /\ \A j \in DOMAIN s : s[j] = k => i <= j
  IN [j \in 1..(Len(s) - 1) |-> IF j < i THEN s[j] ELSE s[j + 1]]

EnvOK(M, e) ==
  CASE e.ev = "connected" -> e.p \in Peers /\ M.outst[e.p] > 0
    [] e.ev = "sent"      -> e.p \in Peers /\ M.live[e.p] /\ HasUnconf(M, e.p, MK(e.m))
    [] e.ev = "recv"      -> /\ e.p \in Peers /\ M.live[e.p]
                             /\ e.m.proto \in Protos
                             /\ e.m.proto \notin M.broken[e.p]
                             /\ ServerMay(e.m.proto, M.view[e.p][e.m.proto], e.m.kind)
                             /\ (e.m.kind = "Accept" /\ e.m.proto = "handshake" => e.m.ver \in M.versions)
    [] OTHER -> TRUE

EnvEffect(M, e) ==
  CASE e.ev = "connected" ->
         [M EXCEPT !.outst[e.p] = @ - 1, !.live[e.p] = TRUE, !.view[e.p] = SpecInit,
                   !.unconf[e.p] = <<>>, !.broken[e.p] = {}]
    [] e.ev = "disconnected" /\ e.p \in Peers ->
         [M EXCEPT !.live[e.p] = FALSE, !.unconf[e.p] = <<>>]
    [] e.ev = "error" /\ e.p \in Peers ->
         IF M.live[e.p] THEN [M EXCEPT !.live[e.p] = FALSE, !.unconf[e.p] = <<>>]
         ELSE [M EXCEPT !.outst[e.p] = IF @ > 0 THEN @ - 1 ELSE 0]
    [] e.ev = "sent" -> [M EXCEPT !.unconf[e.p] = RemoveFirst(@, MK(e.m))]
    [] e.ev = "recv" -> [M EXCEPT !.view[e.p][e.m.proto] = SpecNext(e.m.proto, @, e.m.kind)]
    [] e.ev \in {"fetcheb", "fetchebtxs"} /\ e.p \in Peers -> [M EXCEPT !.fcredit[e.p] = @ + 1]
    [] e.ev = "reqblocks" -> [M EXCEPT !.bcredit = @ + 1]
    [] OTHER -> M

-----------------------------------------------------------------------------
(* emissions of one step, in order; accumulator [M |-> monitor, nb |-> new violation classes,     *)
(* step |-> <<peer, protocol>> pairs already emitted to in this step]                           *)
\* bookkeeping of commanded vs emitted requests (independent of the connection state)
Spend(M, o) ==
  IF o.t = "send" /\ o.p \in Peers /\ IsFetchRequest(o.m) THEN [M EXCEPT !.fcredit[o.p] = IF @ > 0 THEN @ - 1 ELSE 0]
  ELSE IF o.t = "send" /\ IsRangeRequest(o.m) THEN [M EXCEPT !.bcredit = IF @ > 0 THEN @ - 1 ELSE 0]
  ELSE M
Uncommanded(M, o) == \/ o.p \in Peers /\ IsFetchRequest(o.m) /\ M.fcredit[o.p] = 0
                     \/ IsRangeRequest(o.m) /\ M.bcredit = 0

EmitOne(R, evk, o) ==
  LET M == Spend(R.M, o) IN
  IF o.t = "connect" /\ o.p \in Peers THEN [R EXCEPT !.M.outst[o.p] = @ + 1]
  ELSE IF o.t = "send" /\ o.p \in Peers /\ M.live[o.p] THEN
    LET pr == o.m.proto
        st == M.view[o.p][pr]
        M1 == [M EXCEPT !.unconf[o.p] = Append(@, MK(o.m))]
    IN IF pr \in M.broken[o.p] THEN [R EXCEPT !.M = M1, !.step = @ \cup {<<o.p, pr>>}]
       ELSE IF ClientMay(pr, st, o.m.kind)
            THEN [R EXCEPT !.M = [M1 EXCEPT !.view[o.p][pr] = SpecNext(pr, st, o.m.kind)], !.step = @ \cup {<<o.p, pr>>}]
            ELSE [M  |-> [M1 EXCEPT !.broken[o.p] = @ \cup {pr}],
                  nb |-> R.nb \cup {FindingKey(pr, o.m.kind, Visitor(evk), st,
                                                \E i \in DOMAIN M.unconf[o.p] : M.unconf[o.p][i][1] = pr,
                                                Uncommanded(R.M, o), <<o.p, pr>> \in R.step)},
                  step |-> R.step \cup {<<o.p, pr>>}]
  ELSE [R EXCEPT !.M = M]

RECURSIVE EmitAll(_, _, _, _)
EmitAll(R, evk, out, i) == IF i > Len(out) THEN R ELSE EmitAll(EmitOne(R, evk, out[i]), evk, out, i + 1)

\* the monitor's reaction to one step of the initiator: event e with outputs out
MonResult(M, e, out) ==
  IF M.tainted THEN [M |-> M, nb |-> {}]
  ELSE IF ~EnvOK(M, e) THEN [M |-> [M EXCEPT !.tainted = TRUE], nb |-> {}]
  ELSE LET R == EmitAll([M |-> EnvEffect(M, e), nb |-> {}, step |-> {}], e.ev, out, 1) IN [M |-> R.M, nb |-> R.nb]

MonStep(e, out) ==
  LET R == MonResult(mon, e, out) IN mon' = R.M /\ bad' = bad \cup R.nb

\* the property: no emitted message is ever outside the specification
EmitsConform == bad = {}
=============================================================================
