--------------------------- MODULE TraceResponder ---------------------------
(* Conformance of the REAL ResponderBehavior with the design model            *)
(* (Responder.tla), step by step; a mismatch prints <<"DRIFT", line, event>>  *)
(* and that run is no longer compared.  A panic of the implementation is      *)
(* always a mismatch: the model is total and never panics.                    *)
EXTENDS Responder, TraceKit

VARIABLES l, drifted
tvars == <<r, rev, l, drifted>>

HostOfDef == [p \in Peers |-> p % 3]

MsgOf(m) == [proto |-> m.proto, kind |-> m.kind, ver |-> m.ver, ps |-> m.ps, peers |-> SeqToSet(m.peers)]
OutOf(o) == [t |-> o.t, p |-> o.p, m |-> MsgOf(o.m), k |-> o.k]

PeerMatches(s, x) ==
  /\ s.conn = x.conn /\ s.viol = x.viol /\ s.errs = Min(x.errs, RMaxErr + 1)
  /\ s.hs = x.hs /\ (s.hs = "Accepted" => s.ver = x.ver)
  /\ s.ka = x.ka /\ s.ps = x.ps /\ s.bf = x.bf /\ s.cs = x.cs /\ s.tx = x.tx /\ s.ln = x.ln /\ s.lf = x.lf

Matches(R, x) ==
  /\ DOMAIN R.peers = SeqToSet(x.tracked)
  /\ Len(R.out) = Len(x.out) /\ \A i \in DOMAIN R.out : R.out[i] = OutOf(x.out[i])
  /\ \A i \in DOMAIN x.peers : PeerMatches(R.peers[x.peers[i].p], x.peers[i])

TInit == l = 1 /\ drifted = FALSE /\ RInit
TReset == /\ l <= NRec /\ Rec[l].ev = "reset" /\ l' = l + 1 /\ drifted' = FALSE /\ r' = R0 /\ rev' = RE("reset", 0, NoMsg)
TSkip == l <= NRec /\ drifted /\ Rec[l].ev # "reset" /\ l' = l + 1 /\ UNCHANGED <<r, rev, drifted>>
TStep == /\ l <= NRec /\ ~drifted /\ Rec[l].ev # "reset" /\ l' = l + 1
         /\ LET x == Rec[l]
                e == [ev |-> x.ev, p |-> x.p, m |-> MsgOf(x.m)]
                C == IF x.ev = "panic" THEN {} ELSE {R2 \in RResults([r EXCEPT !.out = <<>>], e) : Matches(R2, x)}
            IN IF C # {} THEN r' \in C /\ rev' = e /\ drifted' = FALSE
               ELSE /\ PrintT(<<"DRIFT", l, ToJson([ev |-> x.ev, p |-> x.p, m |-> x.m])>>)
                    /\ drifted' = TRUE /\ UNCHANGED <<r, rev>>
TNext == TReset \/ TSkip \/ TStep
=============================================================================
