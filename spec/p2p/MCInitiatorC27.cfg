\* C27 slice: connection / promotion lifecycle with handshake + keep-alive, unconstrained environment
CONSTANTS
  Peers = {1, 2, 3}
  MaxPeers = 2
  MaxWarm = 2
  MaxHot = 1
  MaxErr = 1
  HighWater = 100
  SliceProtos = {"handshake", "keepalive"}
  Cmds = {"include", "hk", "ban", "demote"}
  Evs = {"connected", "disconnected", "error", "sent", "recv"}
  Strict = FALSE
  Versions = {13}
  ShareSets = {}
  MaxDepth = 6
  MaxBfq = 0
  MaxLfq = 0
  MaxInflight = 3
  KnownC27 = {}
  KnownC28 = {}
  KnownC29 = {"initiator/connected-dup/propose_handshake-assert/lifecycle-violating", "initiator/connected/propose_handshake-assert/lifecycle-violating"}
INIT MInit
NEXT MNext
VIEW View
CONSTRAINT Bound
ACTION_CONSTRAINT Report
INVARIANTS TypeOK NoUnderflow PBadWithinKnown PanWithinKnown
CHECK_DEADLOCK FALSE
