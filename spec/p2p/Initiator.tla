------------------------------ MODULE Initiator ------------------------------
(* Design model of pallas-network2's InitiatorBehavior (behavior/initiator/). *)
(* Implementation-shaped: one action per external command / interface event,  *)
(* the housekeeping pass visits the tracked peers in ANY order (HashMap) and   *)
(* runs, per peer, the sub-behaviours in the order of `all_visitors!`:         *)
(*   promotion -> connection -> handshake -> keepalive -> discovery ->         *)
(*   blockfetch -> chainsync -> leiosnotify -> leiosfetch,                     *)
(* then moves discovered peers into promotion.  Per-peer mini-protocol state   *)
(* is advanced when the interface CONFIRMS a message (Sent) or delivers one    *)
(* (Recv), exactly like InitiatorState::apply_msg -- never at emission time.   *)
(*                                                                             *)
(* This is NOT a property spec: it is explored exhaustively (MCInitiator),    *)
(* generates schedules for the real code, and the real code's runs are         *)
(* compared with it (TraceInitiator; a mismatch is DRIFT, never a violation).  *)
(* The model reflects the tree with patches/fix-C27-*.diff applied.            *)
(*                                                                             *)
(* Deliberate abstractions: payloads are dropped except Accept(version,        *)
(* peer_sharing) and SharePeers(addresses); error_count saturates at MaxErr+1  *)
(* (only `> MaxErr` is ever tested); block-fetch requests are a counter.       *)
EXTENDS P2PProto

CONSTANTS MaxPeers, MaxWarm, MaxHot, MaxErr,   \* PromotionConfig of the initial state W0
          HighWater   \* DiscoveryConfig.high_water_mark

VARIABLES w,          \* the behaviour's state + outputs of the last step (record, see W0)
          ev          \* the command / event of the last step (hidden by VIEW in MC configs)

-----------------------------------------------------------------------------
(* per-peer state: InitiatorState *)
FreshPeer == [conn |-> "New", tag |-> "Cold", viol |-> FALSE, errs |-> 0, cont |-> FALSE,
              hs |-> "Propose", ver |-> 0, psh |-> 0, ka |-> "Client", ps |-> "IdleEmpty", psr |-> {},
              bf |-> "Idle", cs |-> "IdleNew", tx |-> "Init", ln |-> "IdleNone", lf |-> "IdleNone"]

\* InitiatorState::reset keeps only error_count (and sets connection = New, promotion = Cold)
ResetPeer(s) == [FreshPeer EXCEPT !.errs = s.errs]

PF == [handshake |-> "hs", keepalive |-> "ka", peersharing |-> "ps", blockfetch |-> "bf", chainsync |-> "cs",
       txsubmission |-> "tx", leiosnotify |-> "ln", leiosfetch |-> "lf"]

\* the behaviour's state; cfg = PromotionConfig (part of the state so that one trace file can hold
\* runs with different configurations)
InitW(cfg) == [cfg |-> cfg, peers |-> [x \in {} |-> FreshPeer], cold |-> {}, warm |-> {}, hot |-> {}, banned |-> {},
               disc |-> {}, bfq |-> 0, isect |-> FALSE, lfq |-> <<>>, out |-> <<>>, panic |-> ""]
W0 == InitW([maxPeers |-> MaxPeers, maxWarm |-> MaxWarm, maxHot |-> MaxHot, maxErr |-> MaxErr])

E(k, p, m) == [ev |-> k, p |-> p, m |-> m]

OConnect(p)    == [t |-> "connect",    p |-> p, m |-> NoMsg, k |-> ""]
ODisconnect(p) == [t |-> "disconnect", p |-> p, m |-> NoMsg, k |-> ""]
OSend(p, m)    == [t |-> "send",       p |-> p, m |-> m,     k |-> ""]
OEvent(p, k)   == [t |-> "event",      p |-> p, m |-> NoMsg, k |-> k]

Tracked(W) == DOMAIN W.peers
Clear(W) == [W EXCEPT !.out = <<>>]
Emit(W, o) == [W EXCEPT !.out = Append(@, o)]
SetPeer(W, p, s) == [W EXCEPT !.peers = [q \in (DOMAIN W.peers) \cup {p} |-> IF q = p THEN s ELSE W.peers[q]]]
Panic(W, why) == [W EXCEPT !.panic = why, !.out = <<[t |-> "panic", p |-> 0, m |-> NoMsg, k |-> why]>>]
Total(W) == Cardinality(W.cold) + Cardinality(W.warm) + Cardinality(W.hot)
Initialized(s) == s.conn = "Initialized"
SupportsLeios(s) == s.hs = "Accepted" /\ s.ver >= LeiosMinVersion
SupportsPeerSharing(s) == s.hs = "Accepted" /\ s.psh > 0

-----------------------------------------------------------------------------
(* InitiatorState::apply_msg : Err(..) => violation = true, state unchanged *)
ApplyMsg(s, m) ==
  LET f == PF[m.proto]
      nx == ImplNext(m.proto, s[f], m.kind)
  IN IF nx = "ERR" THEN [s EXCEPT !.viol = TRUE]
     ELSE LET s1 == [s EXCEPT ![f] = nx]
          IN CASE m.proto = "handshake" /\ m.kind = "Accept" -> [s1 EXCEPT !.ver = m.ver, !.psh = m.ps]
               [] m.proto = "peersharing" -> [s1 EXCEPT !.psr = IF m.kind = "SharePeers" THEN m.peers ELSE {}]
               [] OTHER -> s1

-----------------------------------------------------------------------------
(* promotion.rs *)
BanPeer(W, p) ==
  SetPeer([W EXCEPT !.hot = @ \ {p}, !.warm = @ \ {p}, !.cold = @ \ {p}, !.banned = @ \cup {p}],
          p, [W.peers[p] EXCEPT !.tag = "Banned"])

PromoteCold(W, p) == SetPeer([W EXCEPT !.cold = @ \ {p}, !.warm = @ \cup {p}], p, [W.peers[p] EXCEPT !.tag = "Warm"])
PromoteWarm(W, p) == SetPeer([W EXCEPT !.warm = @ \ {p}, !.hot = @ \cup {p}], p, [W.peers[p] EXCEPT !.tag = "Hot"])

\* categorize_peer; the `usize` subtractions of required_*_peers are modelled as panics
Categorize(W, p) ==
  LET s == W.peers[p] IN
  IF s.viol /\ p \notin W.banned THEN BanPeer(W, p)
  ELSE IF s.errs > W.cfg.maxErr /\ p \notin W.banned THEN BanPeer(W, p)
  ELSE IF Cardinality(W.warm) > W.cfg.maxWarm THEN Panic(W, "required_warm_peers-underflow")
  ELSE IF W.cfg.maxWarm - Cardinality(W.warm) > 0 /\ p \in W.cold THEN PromoteCold(W, p)
  ELSE IF Cardinality(W.hot) > W.cfg.maxHot THEN Panic(W, "required_hot_peers-underflow")
  ELSE IF W.cfg.maxHot - Cardinality(W.hot) > 0 /\ p \in W.warm /\ Initialized(s) THEN PromoteWarm(W, p)
  ELSE W

\* on_discovered: visit_discovered (promotion only) on a fresh state, then peers.insert
OnDiscovered(W, p) ==
  LET W1 == IF p \in W.banned THEN W
            ELSE IF Total(W) > W.cfg.maxPeers THEN Panic(W, "required_cold_peers-underflow")
            ELSE IF W.cfg.maxPeers - Total(W) > 0 THEN [W EXCEPT !.cold = @ \cup {p}]
            ELSE W
  IN IF W1.panic # "" THEN W1 ELSE SetPeer(W1, p, FreshPeer)

-----------------------------------------------------------------------------
(* housekeeping visitors, in all_visitors! order *)
NeedsConnection(s) == s.conn \in {"New", "Disconnected"} /\ s.tag \in {"Warm", "Hot"}
NeedsDisconnect(s) == \/ s.conn = "Errored"
                      \/ s.conn \in {"Connected", "Initialized"} /\ s.tag \in {"Cold", "Banned"}

HkConnection(W, p) ==
  LET W1 == IF NeedsConnection(W.peers[p])
            THEN Emit(SetPeer(W, p, [W.peers[p] EXCEPT !.conn = "Connecting"]), OConnect(p)) ELSE W
  IN IF NeedsDisconnect(W1.peers[p]) THEN Emit(W1, ODisconnect(p)) ELSE W1

HkKeepalive(W, p) ==
  LET s == W.peers[p] IN
  IF Initialized(s) /\ s.ka = "Client" THEN Emit(W, OSend(p, Msg("keepalive", "KeepAlive"))) ELSE W

HkDiscovery(W, p) ==
  LET s == W.peers[p] IN
  IF Cardinality(W.disc) < HighWater /\ Initialized(s) /\ SupportsPeerSharing(s) /\ s.ps = "IdleEmpty"
  THEN Emit(W, OSend(p, Msg("peersharing", "ShareRequest"))) ELSE W

HkBlockFetch(W, p) ==
  LET s == W.peers[p] IN
  IF W.bfq > 0 /\ Initialized(s) /\ s.bf = "Idle"
  THEN Emit([W EXCEPT !.bfq = @ - 1], OSend(p, Msg("blockfetch", "RequestRange"))) ELSE W

HkChainSync(W, p) ==
  LET s == W.peers[p] IN
  IF W.isect /\ Initialized(s) /\ s.tag = "Hot" /\ s.cs = "IdleNew"
  THEN Emit(W, OSend(p, Msg("chainsync", "FindIntersect"))) ELSE W

HkLeiosNotify(W, p) ==
  LET s == W.peers[p] IN
  IF Initialized(s) /\ SupportsLeios(s) /\ s.ln = "IdleNone"
  THEN Emit(W, OSend(p, Msg("leiosnotify", "RequestNext"))) ELSE W

FirstFor(q, p) == CHOOSE i \in DOMAIN q : q[i][1] = p /\ \A j \in DOMAIN q : q[j][1] = p => i <= j
RemoveAt(q, i) == [j \in 1..(Len(q) - 1) |-> IF j < i THEN q[j] ELSE q[j + 1]]
Purge(q, p) == SelectSeq(q, LAMBDA x : x[1] # p)

HkLeiosFetch(W, p) ==
  LET s == W.peers[p] IN
  IF Initialized(s) /\ SupportsLeios(s) /\ s.lf = "IdleNone" /\ \E i \in DOMAIN W.lfq : W.lfq[i][1] = p
  THEN LET i == FirstFor(W.lfq, p) IN
       Emit([W EXCEPT !.lfq = RemoveAt(@, i)], OSend(p, Msg("leiosfetch", W.lfq[i][2])))
  ELSE W

VisitHousekeeping(W, p) ==
  LET W1 == Categorize(W, p) IN
  IF W1.panic # "" THEN W1
  ELSE HkLeiosFetch(HkLeiosNotify(HkChainSync(HkBlockFetch(HkDiscovery(HkKeepalive(HkConnection(W1, p), p), p), p), p), p), p)

RECURSIVE VisitAll(_, _)
VisitAll(W, order) == IF order = <<>> \/ W.panic # "" THEN W ELSE VisitAll(VisitHousekeeping(W, Head(order)), Tail(order))

RECURSIVE Orders(_)
Orders(S) == IF S = {} THEN {<<>>} ELSE UNION {{<<x>> \o o : o \in Orders(S \ {x})} : x \in S}

RECURSIVE DiscoverAll(_, _)
DiscoverAll(W, S) == IF S = {} \/ W.panic # "" THEN W
                     ELSE LET x == CHOOSE y \in S : TRUE IN DiscoverAll(OnDiscovered(W, x), S \ {x})

\* move_discovered_into_promotion: drain_new_peers takes ANY `deficit` discovered peers (HashSet order)
MoveDiscovered(W) ==
  IF W.panic # "" THEN {W}
  ELSE IF Total(W) > W.cfg.maxPeers THEN {Panic(W, "peer_deficit-underflow")}
  ELSE LET deficit == W.cfg.maxPeers - Total(W) IN
       IF deficit = 0 THEN {W}
       ELSE { DiscoverAll([W EXCEPT !.disc = @ \ sel], sel \ Tracked(W)) :
                sel \in {S \in SUBSET W.disc : Cardinality(S) = Min(deficit, Cardinality(W.disc))} }

Housekeeping(W) == UNION { MoveDiscovered(VisitAll(W, o)) : o \in Orders(Tracked(W)) }

-----------------------------------------------------------------------------
(* interface events *)

\* visit_inbound_msg of the sub-behaviours, in all_visitors! order (promotion = Categorize)
InHandshake(W, p) ==      \* check_confirmation
  LET s == W.peers[p] IN
  IF s.conn = "Connected" /\ s.hs = "Accepted"
  THEN Emit(SetPeer(W, p, [s EXCEPT !.conn = "Initialized"]), OEvent(p, "PeerInitialized")) ELSE W

InDiscovery(W, p) ==      \* try_take_peers
  LET s == W.peers[p] IN
  IF Initialized(s) /\ SupportsPeerSharing(s) /\ s.ps = "IdleResponse"
  THEN SetPeer([W EXCEPT !.disc = @ \cup s.psr], p, [s EXCEPT !.ps = "Done", !.psr = {}]) ELSE W

InBlockFetch(W, p) ==     \* dispatch_block
  IF W.peers[p].bf = "StreamingSome" THEN Emit(W, OEvent(p, "BlockBodyReceived")) ELSE W

InChainSync(W, p) ==      \* drain_data unless the state is Idle(New)
  LET s == W.peers[p] IN
  IF s.cs \in CsIdle \ {"IdleNew"}
  THEN LET W1 == SetPeer(W, p, [s EXCEPT !.cs = "IdleDrained",
                                         !.viol = IF s.cs = "IdleNoIntersection" THEN TRUE ELSE @])
       IN CASE s.cs = "IdleContent" -> Emit(W1, OEvent(p, "BlockHeaderReceived"))
            [] s.cs = "IdleRollback" -> Emit(W1, OEvent(p, "RollbackReceived"))
            [] s.cs = "IdleIntersection" -> Emit(W1, OEvent(p, "IntersectionFound"))
            [] OTHER -> W1
  ELSE W

InLeiosNotify(W, p) ==    \* dispatch
  LET s == W.peers[p] IN
  IF s.ln = "IdleSome" THEN Emit(SetPeer(W, p, [s EXCEPT !.ln = "IdleNone"]), OEvent(p, "EbNotification")) ELSE W

InLeiosFetch(W, p) ==     \* dispatch
  LET s == W.peers[p] IN
  IF s.lf = "IdleSome" THEN Emit(SetPeer(W, p, [s EXCEPT !.lf = "IdleNone"]), OEvent(p, "EbFetched")) ELSE W

\* on_inbound_msg: apply_msg, then visit_inbound_msg of every sub-behaviour in order
OnInbound(W, p, m) ==
  LET W1 == Categorize(SetPeer(W, p, ApplyMsg(W.peers[p], m)), p) IN
  IF W1.panic # "" THEN W1
  ELSE InLeiosFetch(InLeiosNotify(InChainSync(InBlockFetch(InDiscovery(InHandshake(W1, p), p), p), p), p), p)

Recv(W, p, m) == IF p \in Tracked(W) THEN OnInbound(W, p, m) ELSE W

\* on_outbound_msg: apply only (no sub-behaviour implements visit_outbound_msg)
Sent(W, p, m) == IF p \in Tracked(W) THEN SetPeer(W, p, ApplyMsg(W.peers[p], m)) ELSE W

\* on_connected: HandshakeBehavior::propose_handshake asserts handshake = Propose
Connected(W, p) ==
  IF p \notin Tracked(W) THEN W
  ELSE LET s == [W.peers[p] EXCEPT !.conn = "Connected"] IN
       IF s.hs # "Propose" THEN Panic(SetPeer(W, p, s), "propose_handshake-assert")
       ELSE Emit(SetPeer(W, p, s), OSend(p, Msg("handshake", "Propose")))

Disconnected(W, p) ==
  IF p \notin Tracked(W) THEN W
  ELSE [SetPeer(W, p, ResetPeer(W.peers[p])) EXCEPT !.lfq = Purge(@, p)]

Errored(W, p) ==
  IF p \notin Tracked(W) THEN W
  ELSE LET s == [W.peers[p] EXCEPT !.conn = "Errored", !.errs = Min(@ + 1, W.cfg.maxErr + 1)] IN
       [Emit(SetPeer(W, p, s), ODisconnect(p)) EXCEPT !.lfq = Purge(@, p)]

-----------------------------------------------------------------------------
(* external commands *)
Include(W, p) == IF p \in Tracked(W) THEN W ELSE OnDiscovered(W, p)

\* on_tagged: tag function, then visit_tagged (promotion: sync sets with a Banned tag; chainsync: request next)
Tagged(W, p, s) ==
  LET W1 == SetPeer(W, p, s)
      W2 == IF s.tag = "Banned" /\ p \notin W1.banned THEN BanPeer(W1, p) ELSE W1
      s2 == W2.peers[p]
  IN IF s2.cs \in CsIdle \ {"IdleNew"} /\ s2.cont THEN Emit(W2, OSend(p, Msg("chainsync", "RequestNext"))) ELSE W2

Ban(W, p)          == IF p \in Tracked(W) THEN Tagged(W, p, [W.peers[p] EXCEPT !.tag = "Banned"]) ELSE W
Demote(W, p)       == IF p \in Tracked(W) THEN Tagged(W, p, [W.peers[p] EXCEPT !.tag = "Cold"]) ELSE W
ContinueSync(W, p) == IF p \in Tracked(W) THEN Tagged(W, p, [W.peers[p] EXCEPT !.cont = TRUE]) ELSE W
StartSync(W)       == [W EXCEPT !.isect = TRUE]
RequestBlocks(W)   == [W EXCEPT !.bfq = @ + 1]
FetchEb(W, p, k)   == [W EXCEPT !.lfq = Append(@, <<p, k>>)]   \* k = "BlockRequest" | "BlockTxsRequest"

-----------------------------------------------------------------------------
(* One step per command / event.  `Results(W, e)` is the set of possible     *)
(* successors (a singleton except for housekeeping).                          *)
Results(W, e) ==
  CASE e.ev = "include"      -> {Include(W, e.p)}
    [] e.ev = "hk"           -> Housekeeping(W)
    [] e.ev = "ban"          -> {Ban(W, e.p)}
    [] e.ev = "demote"       -> {Demote(W, e.p)}
    [] e.ev = "startsync"    -> {StartSync(W)}
    [] e.ev = "contsync"     -> {ContinueSync(W, e.p)}
    [] e.ev = "reqblocks"    -> {RequestBlocks(W)}
    [] e.ev = "fetcheb"      -> {FetchEb(W, e.p, "BlockRequest")}
    [] e.ev = "fetchebtxs"   -> {FetchEb(W, e.p, "BlockTxsRequest")}
    [] e.ev = "connected"    -> {Connected(W, e.p)}
    [] e.ev = "disconnected" -> {Disconnected(W, e.p)}
    [] e.ev = "error"        -> {Errored(W, e.p)}
    [] e.ev = "sent"         -> {Sent(W, e.p, e.m)}
    [] e.ev = "recv"         -> {Recv(W, e.p, e.m)}
    [] e.ev = "sendtx"       -> {W}     \* "SendTx not yet implemented"

Step(e) == w.panic = "" /\ w' \in Results(Clear(w), e) /\ ev' = e

Init == w = W0 /\ ev = E("init", 0, NoMsg)

CmdInclude(p)      == Step(E("include", p, NoMsg))
CmdHousekeeping    == Step(E("hk", 0, NoMsg))
CmdBan(p)          == Step(E("ban", p, NoMsg))
CmdDemote(p)       == Step(E("demote", p, NoMsg))
CmdStartSync       == Step(E("startsync", 0, NoMsg))
CmdContinueSync(p) == Step(E("contsync", p, NoMsg))
CmdRequestBlocks   == Step(E("reqblocks", 0, NoMsg))
CmdFetchEb(p)      == Step(E("fetcheb", p, NoMsg))
CmdFetchEbTxs(p)   == Step(E("fetchebtxs", p, NoMsg))
IoConnected(p)     == Step(E("connected", p, NoMsg))
IoDisconnected(p)  == Step(E("disconnected", p, NoMsg))
IoError(p)         == Step(E("error", p, NoMsg))
IoSent(p, m)       == Step(E("sent", p, m))
IoRecv(p, m)       == Step(E("recv", p, m))

-----------------------------------------------------------------------------
(* sanity invariants of the design model *)
PeerOK(s) ==   \* (uses the state variable w for the error bound)
  /\ s.conn \in {"New", "Connecting", "Connected", "Initialized", "Errored"}
  /\ s.tag \in {"Cold", "Warm", "Hot", "Banned"}
  /\ s.viol \in BOOLEAN /\ s.cont \in BOOLEAN /\ s.errs \in 0..(w.cfg.maxErr + 1)
  /\ s.hs \in {"Propose", "Confirm", "Accepted", "Rejected", "Query"}
  /\ s.ka \in {"Client", "Server", "Done"}
  /\ s.ps \in {"IdleEmpty", "IdleResponse", "Busy", "Done"}
  /\ s.bf \in {"Idle", "Busy", "StreamingNone", "StreamingSome", "Done"}
  /\ s.cs \in CsIdle \cup {"CanAwait", "MustReply", "Intersect", "Done"}
  /\ s.tx \in {"Init", "Idle", "TxIdsBlocking", "TxIdsNonBlocking", "Txs", "Done"}
  /\ s.ln \in {"IdleNone", "IdleSome", "Busy", "Done"}
  /\ s.lf \in {"IdleNone", "IdleSome", "AwaitingBlock", "AwaitingBlockTxs", "Done"}

TypeOK ==
  /\ Tracked(w) \subseteq Peers
  /\ \A p \in Tracked(w) : PeerOK(w.peers[p])
  /\ w.cold \cup w.warm \cup w.hot \cup w.banned \subseteq Tracked(w)
  /\ w.bfq \in Nat /\ w.isect \in BOOLEAN

\* the unsigned subtractions of promotion.rs never underflow through commands / events
NoUnderflow == w.panic \notin {"required_warm_peers-underflow", "required_hot_peers-underflow",
                               "required_cold_peers-underflow", "peer_deficit-underflow"}

\* transient states never survive a step (they are drained within on_inbound_msg)
Drained == \A p \in Tracked(w) : LET s == w.peers[p] IN
             /\ s.ln # "IdleSome" /\ s.lf # "IdleSome"
             /\ s.cs \notin {"IdleIntersection", "IdleNoIntersection", "IdleContent", "IdleRollback"}
=============================================================================
