CONSTANTS
  Peers = {1,2,3,4,5,6,7,8,9,10}
  MaxPeers = 100
  MaxWarm = 50
  MaxHot = 10
  MaxErr = 1
  HighWater = 100
INIT TInit
NEXT TNext
CHECK_DEADLOCK FALSE
POSTCONDITION TraceVerdict
