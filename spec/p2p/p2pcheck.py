"""Helpers shared by checks/C27.py, C28.py, C29.py (P2P initiator / responder).

  mc_slice      : run one slice of spec/p2p/MCInitiator (design model || property observers) with TLC;
                  returns the schedules TLC printed (violating ones + a behaviour cover)
  replay        : run schedules on the real InitiatorBehavior (pv-p2p init-run) -> implementation trace
  validate      : validate an implementation trace with a TLA+ trace spec; returns the BAD / ENVBREAK /
                  DRIFT marks TLC printed (the verdict is TLC's: Python only formats keys)
"""
import json
import os
import random
import re

import vlib

DIR = "p2p"
HERE = os.path.join(vlib.SPEC, DIR)
MARK_RE = re.compile(r'<<\s*"(BAD|ENVBREAK|DRIFT)",\s*(\d+),\s*("(?:[^"\\]|\\.)*")\s*>>', re.S)


def known_keys(ctx, pid):
    return sorted(k for (p, k) in ctx.known if p == pid)


def tla_set(keys):
    return "{" + ", ".join('"%s"' % k for k in keys) + "}"


def patch_cfg(ctx, base, out_name, overrides=None, drop_known_invariants=False):
    """Copy spec/p2p/<base>, fill KnownC2x from known_findings.d, apply constant overrides."""
    src = open(os.path.join(HERE, base)).read()
    for pid in ("C27", "C28", "C29"):
        src = re.sub(r"^(\s*Known%s\s*=).*$" % pid, lambda m: "%s %s" % (m.group(1), tla_set(known_keys(ctx, pid))), src, flags=re.M)
    for k, v in (overrides or {}).items():
        src, n = re.subn(r"^(\s*%s\s*=).*$" % re.escape(k), lambda m: "%s %s" % (m.group(1), v), src, flags=re.M)
        if n != 1:
            raise vlib.ToolError("constant %s not found in %s" % (k, base))
    if drop_known_invariants:
        src = re.sub(r"\b(BadWithinKnown|PBadWithinKnown|PanWithinKnown)\b", "", src)
    path = ctx.path(out_name)
    with open(path, "w") as f:
        f.write(src)
    return path


def cfg_constants(path):
    d = {}
    for line in open(path):
        m = re.match(r"\s*(\w+)\s*=\s*(.+?)\s*$", line)
        if m:
            d[m.group(1)] = m.group(2)
    return d


ALL_ACTIONS = ["MCmdInclude", "MCmdHousekeeping", "MCmdBan", "MCmdDemote", "MCmdStartSync", "MCmdContinueSync",
               "MCmdRequestBlocks", "MCmdFetchEb", "MCmdFetchEbTxs", "MIoConnected", "MIoDisconnected", "MIoError",
               "MIoSent", "MIoRecv"]
CMD_ACTION = {"include": "MCmdInclude", "hk": "MCmdHousekeeping", "ban": "MCmdBan", "demote": "MCmdDemote",
              "startsync": "MCmdStartSync", "contsync": "MCmdContinueSync", "reqblocks": "MCmdRequestBlocks",
              "fetcheb": "MCmdFetchEb", "fetchebtxs": "MCmdFetchEbTxs", "connected": "MIoConnected",
              "disconnected": "MIoDisconnected", "error": "MIoError", "sent": "MIoSent", "recv": "MIoRecv"}


def mc_slice(ctx, base, name, overrides=None, workers=4, timeout=900):
    """Exhaustive TLC run of one slice. Returns (schedules, model_classes) where schedules is a list of
    dicts {"kind": "finding"|"cover", "c27": [...], "c28": [...], "c29": [...], "sched": [...]}.
    If the model itself predicts a class that is not a recorded known finding, that is noted and the slice is
    re-run without the  *WithinKnown  invariants: the real code decides (replay + trace validation)."""
    path = patch_cfg(ctx, base, name + ".cfg", overrides)
    consts = cfg_constants(path)
    offered = set(re.findall(r'"(\w+)"', consts.get("Cmds", "") + consts.get("Evs", "")))
    required = [a for k, a in CMD_ACTION.items() if k in offered]
    allow_zero = [a for a in ALL_ACTIONS if a not in required] + ["MS"]
    try:
        res = ctx.tlc_mc(DIR, "MCInitiator", path, workers=workers, timeout=timeout,
                         required_actions=required, allow_zero=allow_zero)
    except vlib.ToolError:
        tag = "mc_MCInitiator_" + name
        out = open(ctx.path("tlc_%s.out" % tag)).read() if os.path.exists(ctx.path("tlc_%s.out" % tag)) else ""
        m = re.search(r"Invariant (\w*WithinKnown) is violated", out)
        if not m:
            raise
        ctx.notes.append("design model slice %s predicts a violation class outside the recorded known findings "
                         "(%s); schedules are replayed on the real code, which decides" % (name, m.group(1)))
        path = patch_cfg(ctx, base, name + ".cfg", overrides, drop_known_invariants=True)
        res = ctx.tlc_mc(DIR, "MCInitiator", path, workers=workers, timeout=timeout,
                         required_actions=required, allow_zero=allow_zero)
    scheds, seen = [], set()
    for m in ctx.VEC_RE.finditer(res["out"]):
        s = json.loads(m.group(2).replace("\n", ""))
        if s in seen:
            continue
        seen.add(s)
        scheds.append(json.loads(s))
    classes = {"c27": set(), "c28": set(), "c29": set()}
    for s in scheds:
        if s["kind"] == "finding":
            for k in classes:
                classes[k].update(s[k])
    ctx.log("slice %s: %d schedules (%d violating), model classes %s" % (
        name, len(scheds), sum(1 for s in scheds if s["kind"] == "finding"),
        {k: sorted(v) for k, v in classes.items() if v}))
    return scheds, classes, consts


def run_cfg_from_consts(consts, strict, snap=True):
    return {"max_peers": int(consts["MaxPeers"]), "max_warm": int(consts["MaxWarm"]), "max_hot": int(consts["MaxHot"]),
            "max_err": int(consts["MaxErr"]), "leios": "15" in consts.get("Versions", ""), "strict": strict, "snap": snap}


def select(ctx, scheds, max_cover, prefix_free=True):
    """all violating schedules + the cover (optionally prefix-free and sampled: shortest half + seeded sample)"""
    find = [s for s in scheds if s["kind"] == "finding"]
    cover = [s for s in scheds if s["kind"] == "cover"]
    if not prefix_free:
        return find, cover
    # a schedule that is a proper prefix of another one adds nothing: the longer run passes through it
    keys = [tuple(json.dumps(st, sort_keys=True) for st in s["sched"]) for s in cover]
    prefixes = set()
    for k in keys:
        for i in range(1, len(k)):
            prefixes.add(k[:i])
    cover = [s for s, k in zip(cover, keys) if k not in prefixes]
    if max_cover is not None and len(cover) > max_cover:
        cover.sort(key=lambda s: (len(s["sched"]), json.dumps(s["sched"])))
        head = cover[: max_cover // 2]
        rest = cover[max_cover // 2:]
        random.Random(int(ctx.seed)).shuffle(rest)
        cover = head + rest[: max_cover - len(head)]
    return find, cover


def write_schedules(path, rows):
    with open(path, "w") as f:
        for r in rows:
            f.write(json.dumps(r, separators=(",", ":")) + "\n")


def replay(ctx, binary, rows, name, sample=None):
    """rows: [{"id","cfg","sched","exp"?}] -> (trace file of the real InitiatorBehavior, per-schedule results, rows used).

    With `sample=N` the schedules are first all executed without logging (cheap); the runs whose last step's
    outputs differ from what the design model expects (`exp`), every violating schedule (`must`) and a seeded sample
    of N of the others are then executed again with a full trace.  So every transition class of the model is compared
    with the code, and whatever looks different is put before TLC's property specs."""
    inp, out, res = ctx.path(name + ".sched.ndjson"), ctx.path(name + ".trace.ndjson"), ctx.path(name + ".res.ndjson")
    if sample is not None and len(rows) > sample:
        write_schedules(inp, rows)
        ctx.run_bin(binary, ["init-run", "--in", inp, "--out", out, "--res", res, "--log", 0])
        flags = {r["id"]: r for r in vlib.read_ndjson(res)}
        odd = [r for r in rows if r.get("must") or flags[r["id"]]["mismatch"]]
        rest = [r for r in rows if not (r.get("must") or flags[r["id"]]["mismatch"])]
        rest.sort(key=lambda r: (len(r["sched"]), r["id"]))
        head = rest[: sample // 2]
        tail = rest[sample // 2:]
        random.Random(int(ctx.seed)).shuffle(tail)
        ctx.count("schedules_executed_on_impl", len(rows))
        ctx.count("schedules_with_outputs_unlike_model", sum(1 for r in rows if flags[r["id"]]["mismatch"]))
        rows = odd[:4000] + head + tail[: sample - len(head)]
    write_schedules(inp, rows)
    ctx.run_bin(binary, ["init-run", "--in", inp, "--out", out, "--res", res])
    return out, vlib.read_ndjson(res), rows


def validate(ctx, module, trace, count=True):
    """-> (accepted, matched, total, first_unmatched, marks) ; marks = [(tag, line, payload)]"""
    ok, matched, total, first = ctx.tlc_trace(DIR, module, module + ".cfg", trace, count=count)
    tag = "tr_" + module + "_" + os.path.basename(trace).replace(".", "_")
    out = open(ctx.path("tlc_%s.out" % tag)).read()
    marks, seen = [], set()
    for m in MARK_RE.finditer(out):
        key = (m.group(1), int(m.group(2)), m.group(3))
        if key in seen:
            continue
        seen.add(key)
        payload = json.loads(json.loads(m.group(3).replace("\n", "")))
        marks.append((m.group(1), int(m.group(2)), payload))
    marks.sort(key=lambda x: x[1])
    return ok, matched, total, first, marks


def run_of(events, line):
    """(reset event, events of that run up to `line`) for a 1-based trace line"""
    i = line - 1
    j = i
    while j > 0 and events[j].get("ev") != "reset":
        j -= 1
    return events[j], events[j:i + 1]


def save_run(ctx, events, line, name):
    reset, run = run_of(events, line)
    p = ctx.path(name + ".ndjson")
    vlib.write_ndjson(p, run)
    return p, reset


def slim(e):
    """an event without the bulky snapshot, for messages"""
    return {k: v for k, v in e.items() if k not in ("peers", "tracked")}


class Bundle:
    """Several implementation traces (each a list of events whose runs start with a reset event) concatenated into
    one file, so that one TLC start validates all of them; marks are mapped back to their part."""

    def __init__(self):
        self.parts = []      # (label, first_line, n_events)
        self.events = []

    def add(self, label, events):
        if isinstance(events, str):
            events = vlib.read_ndjson(events)
        if events and events[0].get("ev") != "reset":
            raise vlib.ToolError("bundle part %s does not start with a reset event" % label)
        self.parts.append((label, len(self.events) + 1, len(events)))
        self.events.extend(events)
        return self

    def write(self, path):
        vlib.write_ndjson(path, self.events)
        return path

    def part_of(self, line):
        for label, first, n in self.parts:
            if first <= line < first + n:
                return label, line - first + 1
        return None, 0

    def first_line(self, label):
        return next(f for l, f, _ in self.parts if l == label)


def run_containing(events, idx, upto):
    """events of the run that contains index idx (0-based), from its reset up to index `upto` (inclusive)"""
    j = idx
    while j > 0 and events[j].get("ev") != "reset":
        j -= 1
    return [json.loads(json.dumps(e)) for e in events[j:upto + 1]], idx - j


def cut_at_reset(events, limit):
    if len(events) <= limit:
        return events
    cut = limit
    while cut < len(events) and events[cut].get("ev") != "reset":
        cut += 1
    return events[:cut]
