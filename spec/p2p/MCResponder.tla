----------------------------- MODULE MCResponder -----------------------------
(* Totality of the responder design model (C29): every interface event with   *)
(* every message kind of every protocol, and every command, is offered in     *)
(* every reachable state (depth-bounded); TLC must find a successor for each  *)
(* (no evaluation error) and the type invariant must hold.                    *)
EXTENDS Responder, Json
CONSTANTS RMaxDepth,
          RProtos,      \* protocols whose messages are offered
          RCmds         \* commands offered ("hk", "ban", "disconnect-peer", "provide")
VARIABLE rhist     \* schedule that led here (hidden by VIEW); printed once per cover class, replayed on the real code
HostOfDef == [p \in Peers |-> 0]      \* all peers behind one IP: the per-IP limit binds

AllMsgs == UNION {{Msg(pr, k) : k \in Kinds[pr] \ {"Propose", "Accept"}} : pr \in RProtos}
           \cup (IF "handshake" \in RProtos
                 THEN {[Msg("handshake", "Propose") EXCEPT !.peers = V] : V \in {{13, 15}, {15}}} \cup {MsgAccept(13, 1)}
                 ELSE {})
Open == TLCGet("level") <= RMaxDepth
RS(e) == RStep(e) /\ rhist' = Append(rhist, e)
MRInit == RInit /\ rhist = <<>>

RIoConnected    == Open /\ \E p \in Peers : RS(RE("connected", p, NoMsg))
RIoDisconnected == Open /\ \E p \in Peers : RS(RE("disconnected", p, NoMsg))
RIoError        == Open /\ \E p \in Peers : RS(RE("error", p, NoMsg))
RIoRecv         == Open /\ \E p \in Peers, m \in AllMsgs : RS(RE("recv", p, m))
RIoSent         == Open /\ \E p \in Peers, m \in AllMsgs : RS(RE("sent", p, m))
RCmdHousekeeping == Open /\ "hk" \in RCmds /\ RS(RE("hk", 0, NoMsg))
RCmdBan         == Open /\ "ban" \in RCmds /\ \E p \in Peers : RS(RE("ban", p, NoMsg))
RCmdDisconnect  == Open /\ "disconnect-peer" \in RCmds /\ \E p \in Peers : RS(RE("disconnect-peer", p, NoMsg))
RCmdProvide     == Open /\ "provide" \in RCmds /\ \E p \in Peers, k \in ProvideCmds : RS(RE(k, p, NoMsg))

RNext == RIoConnected \/ RIoDisconnected \/ RIoError \/ RIoRecv \/ RIoSent \/ RCmdHousekeeping \/ RCmdBan
         \/ RCmdDisconnect \/ RCmdProvide
RView == r

\* cover class of a step: event, message kind, outputs, and the situation of the peer before the step
ROutSig(out) == [i \in DOMAIN out |-> <<out[i].t, out[i].m.proto, out[i].m.kind, out[i].k>>]
RPeerSig(R, p, pr) == IF p \in DOMAIN R.peers
                      THEN <<R.peers[p].conn, R.peers[p].viol, p \in R.banned, Count(R, HostOf[p]), p \in R.accepted,
                             IF pr \in Protos THEN R.peers[p][RF[pr]] ELSE "-">>
                      ELSE <<"-", p \in R.banned, IF p \in Peers THEN Count(R, HostOf[p]) ELSE 0>>
RCoverClass == <<rev'.ev, rev'.m.proto, rev'.m.kind, ROutSig(r'.out), RPeerSig(r, rev'.p, rev'.m.proto)>>
ASSUME TLCSet(1, {})
RReport == (RCoverClass \notin TLCGet(1)) =>
              /\ TLCSet(1, TLCGet(1) \cup {RCoverClass})
              /\ PrintT(<<"VEC", ToJson([kind |-> "cover", sched |-> rhist'])>>)

\* the per-IP count never drops below the number of accepted peers of that IP (saturating bookkeeping)
CountCoversAccepted == \A h \in {HostOf[p] : p \in r.accepted} :
                          Count(r, h) >= Cardinality({p \in r.accepted : HostOf[p] = h})
=============================================================================
