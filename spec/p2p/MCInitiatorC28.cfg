\* C28 slices: environment consistent with a real connection (Strict), confirmations arbitrarily delayed.
\* checks/C28.py overrides SliceProtos / Cmds / Peers / MaxDepth per emitting sub-behaviour.
CONSTANTS
  Peers = {1, 2}
  MaxPeers = 2
  MaxWarm = 2
  MaxHot = 2
  MaxErr = 1
  HighWater = 100
  SliceProtos = {"handshake", "keepalive"}
  Cmds = {"include", "hk"}
  Evs = {"connected", "disconnected", "error", "sent", "recv"}
  Strict = TRUE
  Versions = {13}
  ShareSets = {{}, {2}}
  MaxDepth = 8
  MaxBfq = 2
  MaxLfq = 2
  MaxInflight = 3
  KnownC27 = {}
  KnownC28 = {"keepalive/KeepAlive/housekeeping-in-Server-before-sent"}
  KnownC29 = {}
INIT MInit
NEXT MNext
VIEW View
CONSTRAINT Bound
ACTION_CONSTRAINT Report
INVARIANTS TypeOK NoUnderflow BadWithinKnown PBadWithinKnown PanWithinKnown
CHECK_DEADLOCK FALSE
