CONSTANTS
  Peers = {1, 2}
  HostOf <- HostOfDef
  MaxPerIp = 1
  RMaxErr = 1
  Supported = {13}
  RMaxDepth = 4
INIT MRInit
NEXT RNext
VIEW RView
ACTION_CONSTRAINT RReport
INVARIANTS RTypeOK
CHECK_DEADLOCK FALSE
