CONSTANTS
  Peers = {1, 2}
  HostOf <- HostOfDef
  MaxPerIp = 1
  RMaxErr = 1
  Supported = {13}
  RMaxDepth = 4
  RProtos = {"handshake", "keepalive", "peersharing", "blockfetch", "chainsync", "txsubmission", "leiosnotify", "leiosfetch"}
  RCmds = {"hk", "ban", "disconnect-peer", "provide"}
INIT MRInit
NEXT RNext
VIEW RView
ACTION_CONSTRAINT RReport
INVARIANTS RTypeOK
CHECK_DEADLOCK FALSE
