------------------------ MODULE TracePromotionProps ------------------------
(* Trace validation for C27 (impl -> property spec).  One event per command  *)
(* / interface event of the real InitiatorBehavior (pv-p2p), carrying the    *)
(* emitted outputs and the four promotion sets AFTER the step:               *)
(*   {"ev":"reset","cfg":{"max_peers":..,"max_warm":..,"max_hot":..,..}}     *)
(*   {"ev":E,"p":P,"m":{..},"out":[{"t":"connect"|..,"p":Q,..}],             *)
(*    "cold":[..],"warm":[..],"hot":[..],"banned":[..],"tracked":[..],..}    *)
(*   {"ev":"skip",..} no effect; {"ev":"panic","a":E,..sets..}: C29 judges    *)
(*   the panic itself, the sets it left behind are judged here                *)
(* Every event is consumed; a step that breaks the property prints           *)
(*   <<"BAD", line, keys>>  and the run goes on (violations are collected).  *)
EXTENDS PromotionProps, TraceKit

VARIABLE l
tvars == <<pp, pbad, l>>

TInit == l = 1 /\ pp = PPInit(100, 50, 10) /\ pbad = {}

TReset == /\ l <= NRec /\ Rec[l].ev = "reset" /\ l' = l + 1
          /\ pp' = IF Has(Rec[l].cfg, "max_peers")
                   THEN PPInit(Rec[l].cfg.max_peers, Rec[l].cfg.max_warm, Rec[l].cfg.max_hot)
                   ELSE PPInit(100, 50, 10)
          /\ pbad' = {}

TIgnore == l <= NRec /\ Rec[l].ev = "skip" /\ l' = l + 1 /\ UNCHANGED <<pp, pbad>>

\* a step that panicked still leaves the sets behind (logged after the unwind): they are judged like any other
TStep == /\ l <= NRec /\ Rec[l].ev \notin {"reset", "skip"} /\ l' = l + 1
         /\ LET r == Rec[l]
                R == PPResult(pp, [ev |-> IF r.ev = "panic" THEN r.a ELSE r.ev, p |-> r.p, m |-> NoMsg], r.out,
                              SeqToSet(r.cold), SeqToSet(r.warm), SeqToSet(r.hot), SeqToSet(r.banned),
                              SeqToSet(r.tracked))
            IN /\ pp' = R.P /\ pbad' = R.nb
               /\ (R.nb # {} => PrintT(<<"BAD", l, ToJson(R.nb)>>))

TNext == TReset \/ TIgnore \/ TStep
=============================================================================
