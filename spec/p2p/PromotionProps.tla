---------------------------- MODULE PromotionProps ----------------------------
(* PROPERTY SPEC for C27.  It observes, after every command / interface event *)
(* of the initiator, the four promotion sets and the emitted commands, and     *)
(* states exactly what the property says:                                      *)
(*   Disjoint4   cold, warm, hot, banned are pairwise disjoint;                *)
(*   Limits      |warm| <= MaxWarm, |hot| <= MaxHot, |cold|+|warm|+|hot| <=    *)
(*               MaxPeers;                                                     *)
(*   BannedNeverConnected   (history variable everBanned) once a peer has been *)
(*               banned -- it appeared in the banned set (violation or error   *)
(*               threshold) or a BanPeer command named it while it was tracked *)
(*               -- no later step emits Connect for it.                        *)
(* Where the property is silent the spec is permissive: a BanPeer for a peer   *)
(* the behaviour does not track establishes nothing; a Connect emitted in the  *)
(* same step in which the peer first shows up as banned is not judged (the     *)
(* order inside the step is not observable).                                   *)
(* Violations are collected (pbad) instead of stopping at the first one.       *)
EXTENDS P2PProto

VARIABLES pp,     \* observer state (record, see PPInit)
          pbad    \* collected violation classes (keys class/what/event, e.g. disjoint/cold-warm/include)

PPInit(maxPeers, maxWarm, maxHot) ==
  [everBanned |-> {}, byCmd |-> {}, tracked |-> {}, dis |-> {}, lim |-> {},
   maxPeers |-> maxPeers, maxWarm |-> maxWarm, maxHot |-> maxHot]

Overlaps(cold, warm, hot, banned) ==
  {x \in {"cold-warm", "cold-hot", "cold-banned", "warm-hot", "warm-banned", "hot-banned"} :
     CASE x = "cold-warm"   -> cold \cap warm # {}
       [] x = "cold-hot"    -> cold \cap hot # {}
       [] x = "cold-banned" -> cold \cap banned # {}
       [] x = "warm-hot"    -> warm \cap hot # {}
       [] x = "warm-banned" -> warm \cap banned # {}
       [] x = "hot-banned"  -> hot \cap banned # {}}

OverLimits(P, cold, warm, hot) ==
  {x \in {"warm", "hot", "total"} :
     CASE x = "warm"  -> Cardinality(warm) > P.maxWarm
       [] x = "hot"   -> Cardinality(hot) > P.maxHot
       [] x = "total" -> Cardinality(cold) + Cardinality(warm) + Cardinality(hot) > P.maxPeers}

ConnectsIn(out) == {out[i].p : i \in {j \in DOMAIN out : out[j].t = "connect"}}

\* e: the event; out: emitted commands; sets / tracked: observed AFTER the step
PPResult(P, e, out, cold, warm, hot, banned, tracked) ==
  LET dis  == Overlaps(cold, warm, hot, banned)
      lim  == OverLimits(P, cold, warm, hot)
      conn == ConnectsIn(out) \cap P.everBanned
      cmd  == IF e.ev = "ban" /\ e.p \in P.tracked THEN {e.p} ELSE {}
      nb   == {"disjoint/" \o x \o "/" \o e.ev : x \in dis \ P.dis}
              \cup {"limit/" \o x \o "/" \o e.ev : x \in lim \ P.lim}
              \cup {"banned-connect/" \o (IF q \in P.byCmd THEN "by-command" ELSE "by-set") \o "/" \o e.ev : q \in conn}
  IN [P  |-> [P EXCEPT !.everBanned = @ \cup banned \cup cmd,
                       !.byCmd = @ \cup (cmd \ P.everBanned),
                       !.tracked = tracked, !.dis = dis, !.lim = lim],
      nb |-> nb]

PPStep(e, out, cold, warm, hot, banned, tracked) ==
  LET R == PPResult(pp, e, out, cold, warm, hot, banned, tracked) IN pp' = R.P /\ pbad' = pbad \cup R.nb

\* the property
PromotionHolds == pbad = {}
=============================================================================
