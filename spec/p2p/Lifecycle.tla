------------------------------ MODULE Lifecycle ------------------------------
(* The connection lifecycle the bundled TcpInterface guarantees to a behaviour, *)
(* as a small observer over the event stream (used to make C29 finding keys     *)
(* say whether a panic was reached by a peer-drivable sequence):                *)
(*   initiator: Connected(p) only in answer to an outstanding Connect(p) and    *)
(*              not while p's connection is up;                                 *)
(*   responder: Connected(p) (an accepted connection) not while p is up;        *)
(*   Sent(p,_) / Recv(p,_) only while p's connection is up;                     *)
(*   Disconnected(p), Error(p) at any time (a failed connect is an Error).      *)
(* `ok` turns FALSE at the first event that breaks these rules and stays so for *)
(* the rest of the run.  Message contents are NOT constrained: arbitrary and    *)
(* protocol-violating messages on a live connection respect the lifecycle.      *)
EXTENDS Naturals, Sequences

LcInit(responder) == [up |-> {}, outst |-> [x \in {} |-> 0], ok |-> TRUE, responder |-> responder]

LcOutst(L, p) == IF p \in DOMAIN L.outst THEN L.outst[p] ELSE 0
LcSetOutst(L, p, n) == [L EXCEPT !.outst = [q \in (DOMAIN L.outst) \cup {p} |-> IF q = p THEN n ELSE L.outst[q]]]

RECURSIVE LcOutputs(_, _, _)
LcOutputs(L, out, i) ==
  IF i > Len(out) THEN L
  ELSE LcOutputs(IF out[i].t = "connect" THEN LcSetOutst(L, out[i].p, LcOutst(L, out[i].p) + 1) ELSE L, out, i + 1)

\* evk: event kind, p: peer, out: outputs of the step (sequence of records with fields t, p)
LcNext(L, evk, p, out) ==
  LET L1 ==
        CASE evk = "connected" ->
               LET fine == p \notin L.up /\ (L.responder \/ LcOutst(L, p) > 0)
                   n == LcOutst(L, p)
               IN [LcSetOutst(L, p, IF n > 0 THEN n - 1 ELSE 0) EXCEPT !.up = @ \cup {p}, !.ok = @ /\ fine]
          [] evk = "disconnected" -> [L EXCEPT !.up = @ \ {p}]
          [] evk = "error" -> IF p \in L.up THEN L
                              ELSE LcSetOutst(L, p, IF LcOutst(L, p) > 0 THEN LcOutst(L, p) - 1 ELSE 0)
          [] evk \in {"sent", "recv"} -> [L EXCEPT !.ok = @ /\ p \in L.up]
          [] OTHER -> L
  IN LcOutputs(L1, out, 1)
=============================================================================
