----------------------------- MODULE MCInitiator -----------------------------
(* Exhaustive exploration of the initiator design model composed with the     *)
(* three property observers (C27 PromotionProps, C28 ProtocolMonitor, C29 no  *)
(* panic), in SLICES selected by the constants of the .cfg files:             *)
(*   SliceProtos : protocols whose messages the environment offers            *)
(*   Cmds, Evs   : external commands / interface events offered               *)
(*   Strict      : TRUE  = environment "consistent with a real connection"    *)
(*                         (C28: guards EnvOK of ProtocolMonitor);            *)
(*                 FALSE = any interface event in any state (C27, C29).       *)
(* `bad`, `pbad`, `pan` hold the violation classes detected by the LAST step;  *)
(* the checked invariants are  bad \subseteq KnownC28 ,  pbad \subseteq        *)
(* KnownC27 ,  pan \subseteq KnownC29  (filled in from known_findings.d by     *)
(* checks/C2x.py), so one run reports every class and a new class fails.      *)
(* `hist` (hidden by VIEW, so it does not split states) carries one shortest   *)
(* schedule to every state; the action constraint Report prints it the first   *)
(* time a violation class / a cover class is seen -- these schedules are       *)
(* replayed into the real InitiatorBehavior by pv-p2p.                         *)
EXTENDS Initiator, ProtocolMonitor, PromotionProps, Lifecycle, Json

CONSTANTS SliceProtos, Cmds, Evs, Strict, Versions, ShareSets,
          MaxDepth, MaxBfq, MaxLfq, MaxInflight,
          KnownC27, KnownC28, KnownC29

VARIABLES hist, pan,
          lc       \* connection-lifecycle observer (Lifecycle.tla): qualifies the C29 finding keys

mcvars == <<w, ev, mon, bad, pp, pbad, pan, lc, hist>>
View == <<w, mon, bad, pp, pbad, pan, lc>>

\* messages the environment may deliver / confirm
Alphabet ==
  UNION { {Msg(pr, k) : k \in Kinds[pr] \ {"Accept", "SharePeers"}} : pr \in SliceProtos }
  \cup (IF "handshake" \in SliceProtos THEN {MsgAccept(v, s) : v \in Versions, s \in {0, 1}} ELSE {})
  \cup (IF "peersharing" \in SliceProtos THEN {MsgSharePeers(S) : S \in ShareSets} ELSE {})

MInit == /\ Init
         /\ mon = MonInit(Versions) /\ bad = {}
         /\ pp = PPInit(MaxPeers, MaxWarm, MaxHot) /\ pbad = {}
         /\ pan = {} /\ hist = <<>> /\ lc = LcInit(FALSE)

\* C29 finding key: a duplicate Connected (no Disconnected in between) is kept apart, and so is a panic reached by
\* an event sequence that breaks the connection lifecycle a TcpInterface guarantees
PanicKey(e) ==
  LET dup == e.ev = "connected" /\ e.p \in DOMAIN w.peers /\ w.peers[e.p].conn \in {"Connected", "Initialized"}
  IN "initiator/" \o (IF dup THEN "connected-dup" ELSE e.ev) \o "/" \o w'.panic
        \o (IF lc'.ok THEN "" ELSE "/lifecycle-violating")

\* ProtocolMonitor / PromotionProps accumulate; here only the last step's classes are kept
MS(e, A) == /\ (Strict => EnvOK(mon, e))
            /\ A
            /\ LET R == MonResult(mon, e, w'.out) IN mon' = R.M /\ bad' = R.nb
            /\ LET R == PPResult(pp, e, w'.out, w'.cold, w'.warm, w'.hot, w'.banned, DOMAIN w'.peers)
               IN pp' = R.P /\ pbad' = R.nb
            /\ lc' = LcNext(lc, e.ev, e.p, w'.out)
            /\ pan' = IF w'.panic # "" THEN {PanicKey(e)} ELSE {}
            /\ hist' = Append(hist, e)

\* schedules have at most MaxDepth events: states at that depth get no successors (TLC level = events + 1)
Open == TLCGet("level") <= MaxDepth

MCmdInclude      == Open /\ "include" \in Cmds /\ \E p \in Peers : MS(E("include", p, NoMsg), CmdInclude(p))
MCmdHousekeeping == Open /\ "hk" \in Cmds /\ MS(E("hk", 0, NoMsg), CmdHousekeeping)
MCmdBan          == Open /\ "ban" \in Cmds /\ \E p \in Peers : MS(E("ban", p, NoMsg), CmdBan(p))
MCmdDemote       == Open /\ "demote" \in Cmds /\ \E p \in Peers : MS(E("demote", p, NoMsg), CmdDemote(p))
MCmdStartSync    == Open /\ "startsync" \in Cmds /\ ~w.isect /\ MS(E("startsync", 0, NoMsg), CmdStartSync)
MCmdContinueSync == Open /\ "contsync" \in Cmds /\ \E p \in Peers : MS(E("contsync", p, NoMsg), CmdContinueSync(p))
MCmdRequestBlocks == Open /\ "reqblocks" \in Cmds /\ w.bfq < MaxBfq /\ MS(E("reqblocks", 0, NoMsg), CmdRequestBlocks)
MCmdFetchEb      == Open /\ "fetcheb" \in Cmds /\ Len(w.lfq) < MaxLfq /\ \E p \in Peers : MS(E("fetcheb", p, NoMsg), CmdFetchEb(p))
MCmdFetchEbTxs   == Open /\ "fetchebtxs" \in Cmds /\ Len(w.lfq) < MaxLfq /\ \E p \in Peers : MS(E("fetchebtxs", p, NoMsg), CmdFetchEbTxs(p))
MIoConnected     == Open /\ "connected" \in Evs /\ \E p \in Peers : MS(E("connected", p, NoMsg), IoConnected(p))
MIoDisconnected  == Open /\ "disconnected" \in Evs /\ \E p \in Peers : MS(E("disconnected", p, NoMsg), IoDisconnected(p))
MIoError         == Open /\ "error" \in Evs /\ \E p \in Peers : MS(E("error", p, NoMsg), IoError(p))
MIoSent          == Open /\ "sent" \in Evs /\ \E p \in Peers, m \in Alphabet : MS(E("sent", p, m), IoSent(p, m))
MIoRecv          == Open /\ "recv" \in Evs /\ \E p \in Peers, m \in Alphabet : MS(E("recv", p, m), IoRecv(p, m))

MNext == \/ MCmdInclude \/ MCmdHousekeeping \/ MCmdBan \/ MCmdDemote \/ MCmdStartSync \/ MCmdContinueSync
         \/ MCmdRequestBlocks \/ MCmdFetchEb \/ MCmdFetchEbTxs
         \/ MIoConnected \/ MIoDisconnected \/ MIoError \/ MIoSent \/ MIoRecv

Bound == /\ \A p \in Peers : Len(mon.unconf[p]) <= MaxInflight /\ mon.outst[p] <= 2

-----------------------------------------------------------------------------
(* invariants *)
BadWithinKnown  == bad \subseteq KnownC28
PBadWithinKnown == pbad \subseteq KnownC27
PanWithinKnown  == pan \subseteq KnownC29

\* under a consistent environment the monitor's view and the initiator's own state agree whenever
\* nothing is in flight for that protocol: the initiator lags, it never runs ahead
ViewClass(pr, st) ==
  CASE pr = "peersharing" /\ st \in {"IdleEmpty", "IdleResponse", "Done"} -> "Idle"
    [] pr = "chainsync" /\ st \in CsIdle -> "Idle"
    [] pr = "blockfetch" /\ st \in {"StreamingNone", "StreamingSome"} -> "Streaming"
    [] pr \in {"leiosnotify", "leiosfetch"} /\ st \in {"IdleNone", "IdleSome"} -> "Idle"
    [] pr = "handshake" /\ st \in {"Accepted", "Rejected", "Query"} -> "Done"
    [] OTHER -> st
LagOnly ==
  Strict => \A p \in DOMAIN w.peers : \A pr \in SliceProtos :
     (mon.live[p] /\ pr \notin mon.broken[p] /\ ~w.peers[p].viol
        /\ ~\E i \in DOMAIN mon.unconf[p] : mon.unconf[p][i][1] = pr)
     => ViewClass(pr, w.peers[p][PF[pr]]) = mon.view[p][pr]

-----------------------------------------------------------------------------
(* schedule printing (ACTION_CONSTRAINT; always TRUE), with the outputs the    *)
(* model expects from the last step (`exp`).  Registers: 1 = cover            *)
(* classes seen, 2 = violation classes seen (per TLC worker).                 *)
OutSig(out) == [i \in DOMAIN out |-> <<out[i].t, out[i].m.proto, out[i].m.kind, out[i].k>>]
\* cover class of a step: event kind, outputs, and the situation of the peer it names (connection, tag,
\* violation flag, set membership, ever banned) before and after; for housekeeping the situations of all peers
PeerSig(W, p) == IF p \in DOMAIN W.peers
                 THEN <<W.peers[p].conn, W.peers[p].tag, W.peers[p].viol, p \in W.cold, p \in W.warm, p \in W.hot,
                        p \in W.banned, p \in pp.everBanned>>
                 ELSE <<"-">>
HkSig(W) == {PeerSig(W, p) : p \in DOMAIN W.peers}
\* in the Strict (C28) slices, which are small, the class also carries the peer's protocol states: this is a
\* transition cover of the slice up to peer identity (housekeeping: all peers' states and the request queues)
Detail(W, p) == IF Strict /\ p \in DOMAIN W.peers THEN W.peers[p] ELSE <<>>
CoverClass == <<ev'.ev, ev'.m.proto, ev'.m.kind, OutSig(w'.out), PeerSig(w, ev'.p), PeerSig(w', ev'.p),
                IF ev'.ev = "hk" THEN HkSig(w) ELSE {}, Detail(w, ev'.p),
                IF Strict /\ ev'.ev = "hk" THEN <<{w.peers[p] : p \in DOMAIN w.peers}, w.bfq, w.isect, w.lfq>> ELSE <<>>>>
Findings == <<bad', pbad', pan'>>

ASSUME TLCSet(1, {}) /\ TLCSet(2, {})

Report ==
  /\ (Findings # <<{}, {}, {}>> /\ Findings \notin TLCGet(2)) =>
        /\ TLCSet(2, TLCGet(2) \cup {Findings})
        /\ PrintT(<<"VEC", ToJson([kind |-> "finding", c28 |-> bad', c27 |-> pbad', c29 |-> pan', sched |-> hist',
                                       exp |-> OutSig(w'.out)])>>)
  /\ (CoverClass \notin TLCGet(1)) =>
        /\ TLCSet(1, TLCGet(1) \cup {CoverClass})
        /\ PrintT(<<"VEC", ToJson([kind |-> "cover", sched |-> hist', exp |-> OutSig(w'.out)])>>)
=============================================================================
