--------------------------- MODULE TraceInitiator ---------------------------
(* Conformance of the REAL InitiatorBehavior with the design model            *)
(* (Initiator.tla), step by step: for every logged command / event the model  *)
(* must have a successor (for housekeeping: for SOME visiting order and SOME  *)
(* choice of drained peers) whose outputs, promotion sets and per-peer        *)
(* snapshots equal what the implementation logged.                            *)
(* A mismatch is DRIFT (printed, that run is then no longer compared): it     *)
(* says the model is not faithful there -- it is never a property violation.  *)
(* The comparison is what makes the exhaustive results on the model (MC       *)
(* slices, totality) transferable to the code.                                *)
(*   <<"DRIFT", line, event>>                                                 *)
EXTENDS Initiator, TraceKit

VARIABLES l, drifted
tvars == <<w, ev, l, drifted>>

MsgOf(m) == [proto |-> m.proto, kind |-> m.kind, ver |-> m.ver, ps |-> m.ps, peers |-> SeqToSet(m.peers)]
OutOf(o) == [t |-> o.t, p |-> o.p, m |-> MsgOf(o.m), k |-> o.k]

CfgOf(c) == [maxPeers |-> c.max_peers, maxWarm |-> c.max_warm, maxHot |-> c.max_hot, maxErr |-> c.max_err]

PeerMatches(W, s, r) ==
  /\ s.conn = r.conn /\ s.tag = r.tag /\ s.viol = r.viol /\ s.cont = r.cont
  /\ s.errs = Min(r.errs, W.cfg.maxErr + 1)
  /\ s.hs = r.hs /\ (s.hs = "Accepted" => s.ver = r.ver /\ s.psh = r.psh)
  /\ s.ka = r.ka /\ s.ps = r.ps /\ (s.ps = "IdleResponse" => Cardinality(s.psr) = r.psn)
  /\ s.bf = r.bf /\ s.cs = r.cs /\ s.tx = r.tx /\ s.ln = r.ln /\ s.lf = r.lf

Matches(W, r) ==
  /\ W.panic = ""
  /\ W.cold = SeqToSet(r.cold) /\ W.warm = SeqToSet(r.warm) /\ W.hot = SeqToSet(r.hot)
  /\ W.banned = SeqToSet(r.banned)
  /\ DOMAIN W.peers = SeqToSet(r.tracked)
  /\ Len(W.out) = Len(r.out) /\ \A i \in DOMAIN W.out : W.out[i] = OutOf(r.out[i])
  /\ \A i \in DOMAIN r.peers : PeerMatches(W, W.peers[r.peers[i].p], r.peers[i])

EvOf(r) == [ev |-> r.ev, p |-> r.p, m |-> MsgOf(r.m)]

TInit == l = 1 /\ drifted = FALSE /\ Init

TReset == /\ l <= NRec /\ Rec[l].ev = "reset" /\ l' = l + 1 /\ drifted' = FALSE
          /\ w' = InitW(CfgOf(Rec[l].cfg)) /\ ev' = E("reset", 0, NoMsg)

TSkip == /\ l <= NRec /\ (Rec[l].ev = "skip" \/ (drifted /\ Rec[l].ev # "reset")) /\ l' = l + 1
         /\ UNCHANGED <<w, ev, drifted>>

Candidates(r) == {W2 \in Results(Clear(w), EvOf(r)) : Matches(W2, r)}

TStep == /\ l <= NRec /\ ~drifted /\ Rec[l].ev \notin {"reset", "skip", "panic"} /\ l' = l + 1
         /\ LET C == Candidates(Rec[l]) IN
            IF C # {} THEN w' \in C /\ ev' = EvOf(Rec[l]) /\ drifted' = FALSE
            ELSE /\ PrintT(<<"DRIFT", l, ToJson([ev |-> Rec[l].ev, p |-> Rec[l].p, m |-> Rec[l].m])>>)
                 /\ drifted' = TRUE /\ UNCHANGED <<w, ev>>

\* the implementation panicked: the model must panic on the same step
TPanic == /\ l <= NRec /\ ~drifted /\ Rec[l].ev = "panic" /\ l' = l + 1
          /\ LET r == Rec[l]
                 e == [ev |-> r.a, p |-> r.p, m |-> MsgOf(r.m)]
             IN IF \E W2 \in Results(Clear(w), e) : W2.panic # ""
                THEN drifted' = TRUE /\ UNCHANGED <<w, ev>>     \* run ends here (agreed)
                ELSE /\ PrintT(<<"DRIFT", l, ToJson([ev |-> "panic", p |-> r.p, m |-> r.m])>>)
                     /\ drifted' = TRUE /\ UNCHANGED <<w, ev>>

TNext == TReset \/ TSkip \/ TStep \/ TPanic
=============================================================================
