\* C29 slice (totality / no panic): every interface event incl. arbitrary inbound and "confirmed" messages of
\* the slice protocols offered in every reachable state, unconstrained environment.
CONSTANTS
  Peers = {1, 2}
  MaxPeers = 2
  MaxWarm = 2
  MaxHot = 1
  MaxErr = 1
  HighWater = 100
  SliceProtos = {"handshake", "keepalive", "peersharing"}
  Cmds = {"include", "hk", "ban", "demote"}
  Evs = {"connected", "disconnected", "error", "sent", "recv"}
  Strict = FALSE
  Versions = {13}
  ShareSets = {{}, {2}}
  MaxDepth = 6
  MaxBfq = 1
  MaxLfq = 1
  MaxInflight = 3
  KnownC27 = {}
  KnownC28 = {}
  KnownC29 = {"initiator/connected-dup/propose_handshake-assert/lifecycle-violating", "initiator/connected/propose_handshake-assert/lifecycle-violating"}
INIT MInit
NEXT MNext
VIEW View
CONSTRAINT Bound
ACTION_CONSTRAINT Report
INVARIANTS TypeOK NoUnderflow PanWithinKnown
CHECK_DEADLOCK FALSE
