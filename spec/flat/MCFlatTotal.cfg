CONSTANTS
  MaxOps = 0
  MaxCalls = 2
  Follow = FALSE
  Alphabet <- Core
  Calls <- TotalCalls
  Inputs <- TotalInputs
  Allowed <- MCAllowed
  MoreCalls <- MCMoreCalls
INIT InitDec
NEXT DecNext
INVARIANTS Total
CHECK_DEADLOCK FALSE
