------------------------------ MODULE GenFlat ------------------------------
(* Behaviour / vector generators (spec -> impl replay).                     *)
(*  GenFlat.cfg      (C01, M2) every finished behaviour of MCFlat's machine *)
(*     is printed once: the encoder calls, the packed byte buffer the format *)
(*     definition yields, the decoder cursor after each mirrored call, the   *)
(*     bit offset each call started at, and TLC's verdict that the spec      *)
(*     decoder returned exactly the written values on this behaviour.        *)
(*  GenFlatTotal.cfg (C02, M1) every input x call sequence with the outcome *)
(*     of every call.                                                        *)
EXTENDS MCFlat, Json

RtDone == mode # "enc" /\ Follow /\ Len(outs) = Len(ops)
EmitRt ==
    RtDone => PrintT(<<"VEC", ToJson(
        [ ops   |-> ops,
          bytes |-> PackBytes(bits),
          dec   |-> [i \in 1..Len(outs) |-> [pos |-> outs[i].p \div 8, used |-> outs[i].p % 8]],
          offs  |-> [i \in 1..Len(outs) |-> IF i = 1 THEN 0 ELSE outs[i - 1].p % 8],
          rt    |-> (\A i \in 1..Len(outs) : outs[i].out = "ok" /\ outs[i].val = ops[i].v) /\ pos = Len(bits) ])>>)

TotalDone == mode # "enc" /\ ~Follow /\ outs # <<>> /\ ~MCMoreCalls(outs)
EmitTotal ==
    TotalDone => PrintT(<<"VEC", ToJson(
        [ buf   |-> PackBytes(bits),
          calls |-> [i \in 1..Len(outs) |-> outs[i].c],
          exp   |-> [i \in 1..Len(outs) |-> [out |-> outs[i].out, val |-> outs[i].val, p |-> outs[i].p, class |-> outs[i].class]] ])>>)
=============================================================================
