----------------------------- MODULE TraceFlat -----------------------------
(* Trace validation (impl -> spec) for the flat codec.                      *)
(*                                                                          *)
(* C01 runs (real Encoder, then real Decoder over the buffer it produced):  *)
(*   {"ev":"reset"}                                                         *)
(*   {"ev":"enc","o":OP,"buflen":N}       Encoder call, buffer.len() after  *)
(*   {"ev":"finish","buf":[..]}           terminating filler + final buffer *)
(*   {"ev":"dec","o":CALL,"out":"ok","v":V,"pos":P,"used":U}                *)
(*   {"ev":"end","pos":P,"used":U}                                          *)
(* The decoder events are validated against the specified decoder on the    *)
(* bytes the real encoder produced: each call must return the value that    *)
(* was written and the last one must end at the end of the buffer (C01).    *)
(* With CheckFormat the encoder events must in addition produce exactly the *)
(* bit stream of the format definition (a mismatch there alone is drift).   *)
(*                                                                          *)
(* C02 runs (real Decoder over arbitrary bytes):                            *)
(*   {"ev":"load","buf":[..]}                                               *)
(*   {"ev":"call","c":CALL,"out":"ok"|"err"|"panic","v":V,"pos":P,"used":U} *)
(* Every call must have an outcome ok/err and leave the cursor inside the   *)
(* buffer (C02).  A call that panicked or left the cursor outside is        *)
(* consumed by TCallBad, which prints a finding classified by the outcome   *)
(* the specified decoder has for that call (the input class): bin/check     *)
(* turns every finding into a property failure, and one pass over a trace   *)
(* collects all of them.  With Strict the outcome, value and cursor of all  *)
(* other calls must in addition be those of the specified decoder, except   *)
(* where it says "any" (a mismatch there alone is drift).                   *)
EXTENDS FlatCodec, TraceKit

CONSTANTS CheckFormat, Strict

VARIABLE l
tvars == <<bits, ops, mode, pos, outs, l>>

IsEvent(e) == l <= NRec /\ Rec[l].ev = e /\ l' = l + 1
Cursor(r) == 8 * r.pos + r.used
Last(s) == s[Len(s)]

TAllowed(h, o) == TRUE
TMoreCalls(h) == TRUE

TInit == InitEnc /\ l = 1

TReset == IsEvent("reset") /\ bits' = <<>> /\ ops' = <<>> /\ mode' = "enc" /\ pos' = 0 /\ outs' = <<>>

TEnc == /\ IsEvent("enc")
        /\ Write(Rec[l].o)
        /\ CheckFormat => Rec[l].buflen = Len(bits') \div 8

TFinish ==
    /\ IsEvent("finish")
    /\ IF CheckFormat
       THEN Finish /\ PackBytes(bits') = Rec[l].buf
       ELSE /\ mode = "enc" /\ mode' = "dec" /\ pos' = 0 /\ outs' = <<>>
            /\ ops' = Append(ops, [op |-> "filler", v |-> 0])
            /\ bits' = UnpackBytes(Rec[l].buf)

\* the decoder repeats the encoder's calls and must read back what was written
TDec ==
    /\ IsEvent("dec")
    /\ Len(outs) < Len(ops)
    /\ LET o == ops[Len(outs) + 1] IN
         /\ Rec[l].o.op = o.op
         /\ Read(o)
         /\ Rec[l].out = "ok"
         /\ Last(outs').out = "ok"
         /\ Last(outs').val = o.v
         /\ Rec[l].v = o.v
         /\ pos' = Cursor(Rec[l])

TEnd == /\ IsEvent("end")
        /\ mode = "dec" /\ Len(outs) = Len(ops)
        /\ pos = Len(bits) /\ Cursor(Rec[l]) = pos
        /\ UNCHANGED vars

TLoad == IsEvent("load") /\ bits' = UnpackBytes(Rec[l].buf) /\ ops' = <<>> /\ mode' = "dec" /\ pos' = 0 /\ outs' = <<>>

OpName(c) == IF c.op = "list" THEN "list-of-" \o c.of
             ELSE IF c.op = "top" THEN "top-" \o c.of
             ELSE IF c.op = "bits" THEN "bits8-" \o ToString(c.n) ELSE c.op
Bad(r) == r.out = "panic" \/ Cursor(r) > Len(bits) \/ r.used > 7

TCallStrict ==
    /\ IsEvent("call") /\ Strict /\ ~Bad(Rec[l])
    /\ Rec[l].out \in {"ok", "err"}
    /\ Read(Rec[l].c)
    /\ Last(outs').out # "any" =>
          /\ pos' = Cursor(Rec[l])
          /\ Rec[l].out = Last(outs').out
          /\ Last(outs').out = "ok" => Rec[l].v = Last(outs').val

TCallBad ==
    /\ IsEvent("call") /\ mode \in {"dec", "free"} /\ Bad(Rec[l])
    /\ PrintT(<<"VEC", ToJson([ finding |-> IF Rec[l].out = "panic" THEN "panic" ELSE "cursor-out-of-bounds",
                                op |-> OpName(Rec[l].c),
                                class |-> IF mode = "free" THEN "after-overlong-word" ELSE DecAt(bits, pos, Rec[l].c).class,
                                event |-> l ])>>)
    /\ pos' = Len(bits) /\ mode' = "free"
    /\ UNCHANGED <<bits, ops, outs>>

\* after an "any" outcome only the property itself is left to check
TCallFree ==
    /\ IsEvent("call") /\ mode = "free" /\ ~Bad(Rec[l])
    /\ Rec[l].out \in {"ok", "err"}
    /\ UNCHANGED vars

TCallLoose ==
    /\ IsEvent("call") /\ ~Strict /\ ~Bad(Rec[l])
    /\ Rec[l].out \in {"ok", "err"}
    /\ mode = "dec"
    /\ pos' = Cursor(Rec[l]) /\ pos' <= Len(bits) /\ Rec[l].used \in 0..7
    /\ outs' = Append(outs, [c |-> Rec[l].c, out |-> Rec[l].out, val |-> 0, p |-> pos', class |-> "observed"])
    /\ UNCHANGED <<bits, ops, mode>>

TNext == TReset \/ TEnc \/ TFinish \/ TDec \/ TEnd \/ TLoad \/ TCallStrict \/ TCallLoose \/ TCallBad \/ TCallFree
=============================================================================
