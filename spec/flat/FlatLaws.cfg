CONSTANTS
  MaxOps = 2
  MaxCalls = 0
  Follow = TRUE
  Alphabet <- AlphaQuick
  Calls <- TotalCalls
  Inputs <- Short
  Allowed <- MCAllowed
  MoreCalls <- MCMoreCalls
INIT InitEnc
NEXT Finish

CHECK_DEADLOCK FALSE
