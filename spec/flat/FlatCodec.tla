----------------------------- MODULE FlatCodec -----------------------------
(* C01 / C02 - the "flat" bit-level codec of pallas-codec/src/flat, as an  *)
(* independent executable definition of the format over a logical bit      *)
(* stream.                                                                 *)
(*                                                                         *)
(* The first half defines the format as pure operators:                    *)
(*   EncAt(off, op)  - the bits an encoder call appends when the stream    *)
(*                     currently holds off (mod 8) bits;                   *)
(*   DecAt(b, p, c)  - the outcome of decoder call c on stream b at cursor *)
(*                     p (bits consumed so far): a TOTAL function with     *)
(*                     outcomes ok(value) / err(class) / any (the property *)
(*                     is silent on the value: over-long words).           *)
(* The second half is the state machine: one action per public method of   *)
(* Encoder (W..) and of Decoder (R..), Finish for the terminating filler.*)
(*                                                                         *)
(* Values.  Words are sequences of 7-bit groups, least significant group   *)
(* first, canonical (no high zero group) - TLC ints are 32-bit, words are  *)
(* 64-bit.  Signed integers are [neg, g] (sign and magnitude groups).      *)
(* Chars are code points, strings are code point sequences, byte strings   *)
(* are sequences of 0..255.  An op is a record [op |-> kind, v |-> value]  *)
(* (+ n for "bits", + of for "list"); a decoder call is the same record,   *)
(* its v is ignored.                                                       *)
EXTENDS Naturals, Sequences, Bits

CONSTANTS Alphabet,   \* sequence of ops offered to the encoder actions
          Calls,      \* sequence of calls offered to the decoder actions when ~Follow
          Inputs,     \* sequence of byte strings offered to InitDec
          Follow,     \* TRUE: the decoder repeats the encoder's call sequence
          Allowed(_, _),  \* Allowed(ops, o): the environment may issue encoder call o after history ops
          MoreCalls(_)    \* MoreCalls(outs): the environment may issue another decoder call (when ~Follow)

VARIABLES bits,       \* the logical bit stream
          ops,        \* encoder calls made so far (history)
          mode,       \* "enc" | "dec" | "free" (decoder state unspecified after an "any" outcome)
          pos,        \* decoder cursor: number of bits consumed
          outs        \* decoder outcomes so far (history)

vars == <<bits, ops, mode, pos, outs>>

---------------------------------------------------------------------------
(* Numbers                                                                 *)

GroupsToLsb(g) == [j \in 1..(7 * Len(g)) |-> (g[((j - 1) \div 7) + 1] \div 2^((j - 1) % 7)) % 2]
\* (helper operators take already-computed values as parameters instead of LET:
\*  TLC evaluates a parameter once, and its -coverage cost model stays linear)
GroupsOfPadded(u, n) == [i \in 1..n |-> LsbToNat(SubSeq(u, 7 * (i - 1) + 1, 7 * i))]
GroupsOfTrimmed(t, n) == GroupsOfPadded(LsbLow(t, 7 * n), n)
NGroups(t) == IF t = <<>> THEN 1 ELSE (Len(t) + 6) \div 7
LsbToGroupsT(t) == GroupsOfTrimmed(t, NGroups(t))
LsbToGroups(s) == LsbToGroupsT(LsbTrim(s))
Canon(g) == LsbToGroups(GroupsToLsb(g))
NatToGroups(n) == LsbToGroups(NatToLsb(n))

\* zigzag: i >= 0 -> 2i ; i < 0 -> -2i - 1   (on sign/magnitude, any size)
ZigZag(v) == LsbToGroups(IF v.neg THEN <<1>> \o LsbDec(GroupsToLsb(v.g))
                                  ELSE <<0>> \o GroupsToLsb(v.g))
UnZigZagW(w) ==
    IF w[1] = 1 THEN [neg |-> TRUE,  g |-> LsbToGroups(LsbInc(Tail(w)))]
                ELSE [neg |-> FALSE, g |-> LsbToGroups(Tail(w))]
UnZigZag(g) == UnZigZagW(GroupsToLsb(g))
\* the same on small TLC integers (used to cross-check the limb version)
ZigZagSmall(i) == IF i >= 0 THEN 2 * i ELSE (0 - 2 * i) - 1

\* a word fits the decoder's 64-bit usize iff <= 10 groups and the 10th <= 1
Overlong(g) == Len(g) > 10 \/ (Len(g) = 10 /\ g[10] > 1)

IsScalar(c) == c <= 1114111 /\ ~(c >= 55296 /\ c <= 57343)

---------------------------------------------------------------------------
(* UTF-8 (Unicode table 3-7)                                               *)

Utf8Enc(c) ==
    IF c < 128 THEN <<c>>
    ELSE IF c < 2048 THEN <<192 + c \div 64, 128 + (c % 64)>>
    ELSE IF c < 65536 THEN <<224 + c \div 4096, 128 + ((c \div 64) % 64), 128 + (c % 64)>>
    ELSE <<240 + c \div 262144, 128 + ((c \div 4096) % 64), 128 + ((c \div 64) % 64), 128 + (c % 64)>>
Utf8(cps) == Flat([i \in 1..Len(cps) |-> Utf8Enc(cps[i])])

Cont(x) == x >= 128 /\ x <= 191
\* [ok, v]: the code points of a well-formed UTF-8 byte string
Utf8Bad == [ok |-> FALSE, v |-> <<>>]
RECURSIVE Utf8DecFrom(_, _, _), Utf8Step(_, _, _, _, _)
Utf8DecFrom(s, i, acc) ==
    IF i > Len(s) THEN [ok |-> TRUE, v |-> acc] ELSE Utf8Step(s, i, acc, s[i], Len(s))
Utf8Step(s, i, acc, a, n) ==
    IF a < 128 THEN Utf8DecFrom(s, i + 1, Append(acc, a))
    ELSE IF a >= 194 /\ a <= 223
         THEN IF i + 1 <= n /\ Cont(s[i + 1])
              THEN Utf8DecFrom(s, i + 2, Append(acc, (a - 192) * 64 + (s[i + 1] - 128))) ELSE Utf8Bad
    ELSE IF a >= 224 /\ a <= 239
         THEN IF /\ i + 2 <= n /\ Cont(s[i + 1]) /\ Cont(s[i + 2])
                 /\ (a = 224 => s[i + 1] >= 160)
                 /\ (a = 237 => s[i + 1] <= 159)
              THEN Utf8DecFrom(s, i + 3, Append(acc, (a - 224) * 4096 + (s[i + 1] - 128) * 64 + (s[i + 2] - 128)))
              ELSE Utf8Bad
    ELSE IF a >= 240 /\ a <= 244
         THEN IF /\ i + 3 <= n /\ Cont(s[i + 1]) /\ Cont(s[i + 2]) /\ Cont(s[i + 3])
                 /\ (a = 240 => s[i + 1] >= 144)
                 /\ (a = 244 => s[i + 1] <= 143)
              THEN Utf8DecFrom(s, i + 4, Append(acc, (a - 240) * 262144 + (s[i + 1] - 128) * 4096
                                                       + (s[i + 2] - 128) * 64 + (s[i + 3] - 128)))
              ELSE Utf8Bad
    ELSE Utf8Bad
Utf8Dec(s) == Utf8DecFrom(s, 1, <<>>)

---------------------------------------------------------------------------
(* The format, encoder side                                                *)

Kinds == {"bool", "bits", "u8", "word", "int", "char", "bytes", "utf8", "string", "list", "filler"}

EncGroups(g) == Flat([i \in 1..Len(g) |-> <<IF i < Len(g) THEN 1 ELSE 0>> \o ToBits(g[i], 7)])

\* zeros up to the last bit of the current byte, which is 1 (a whole byte when aligned)
FillerAt(off) == LET n == 8 - (off % 8) IN [i \in 1..n |-> IF i = n THEN 1 ELSE 0]

\* blocks of at most 255 bytes, each preceded by its length; a 0 byte ends the string
RECURSIVE Blocks(_)
RECURSIVE Block(_, _)
Blocks(bs) == IF bs = <<>> THEN <<0>> ELSE Block(bs, MinN(255, Len(bs)))
Block(bs, n) == <<n>> \o SubSeq(bs, 1, n) \o Blocks(SubSeq(bs, n + 1, Len(bs)))
EncBytesAt(off, bs) == FillerAt(off) \o UnpackBytes(Blocks(bs))

RECURSIVE EncAt(_, _), EncItems(_, _, _), EncCons(_, _, _, _)
\* list: 1 bit before every element, 0 bit at the end
EncItems(off, of, items) ==
    IF items = <<>> THEN <<0>> ELSE EncCons(off, of, items, EncAt(off + 1, [op |-> of, v |-> Head(items)]))
EncCons(off, of, items, e) == <<1>> \o e \o EncItems(off + 1 + Len(e), of, Tail(items))
EncAt(off, o) ==
    CASE o.op = "bool"   -> <<IF o.v THEN 1 ELSE 0>>
      [] o.op = "bits"   -> ToBits(o.v, o.n)
      [] o.op = "u8"     -> ToBits(o.v, 8)
      [] o.op = "word"   -> EncGroups(o.v)
      [] o.op = "int"    -> EncGroups(ZigZag(o.v))
      [] o.op = "char"   -> EncGroups(NatToGroups(o.v))
      [] o.op = "bytes"  -> EncBytesAt(off, o.v)
      [] o.op = "utf8"   -> EncBytesAt(off, Utf8(o.v))
      [] o.op = "string" -> EncItems(off, "char", o.v)
      [] o.op = "list"   -> EncItems(off, o.of, o.v)
      [] o.op = "filler" -> FillerAt(off)

---------------------------------------------------------------------------
(* The format, decoder side: total, with the cursor after the call.  After *)
(* an error the cursor is where the failing primitive read started (the    *)
(* design of the decoder: every primitive read checks before it consumes). *)

Ok(v, p)  == [out |-> "ok",  val |-> v, p |-> p, class |-> "ok"]
Err(c, p) == [out |-> "err", val |-> 0, p |-> p, class |-> c]
AnyOut(c, p) == [out |-> "any", val |-> 0, p |-> p, class |-> c]

DBit(b, p) == IF p >= Len(b) THEN Err("end-of-buffer", p) ELSE Ok(b[p + 1], p + 1)

DBits(b, p, n) ==
    IF n > 8 THEN Err("num-bits", p)
    ELSE IF p + n > Len(b) THEN Err("end-of-buffer", p)
    ELSE Ok(FromBits(SubSeq(b, p + 1, p + n)), p + n)

\* raw 7-bit groups up to and including the first one without continuation bit
RECURSIVE DGroupsAcc(_, _, _)
DGroupsAcc(b, p, acc) ==
    IF p + 8 > Len(b)
    THEN (IF Len(acc) >= 10 THEN AnyOut("overlong-word", p)     \* an 11th group is due: over-long whatever follows
                            ELSE Err("end-of-buffer", p))
    ELSE IF b[p + 1] = 0 THEN Ok(Append(acc, FromBits(SubSeq(b, p + 2, p + 8))), p + 8)
    ELSE DGroupsAcc(b, p + 8, Append(acc, FromBits(SubSeq(b, p + 2, p + 8))))
DGroups(b, p) == DGroupsAcc(b, p, <<>>)

WordOf(r) == IF r.out # "ok" THEN r
             ELSE IF Overlong(r.val) THEN AnyOut("overlong-word", r.p)
             ELSE Ok(Canon(r.val), r.p)
DWord(b, p) == WordOf(DGroups(b, p))

IntOf(r) == IF r.out # "ok" THEN r ELSE Ok(UnZigZag(r.val), r.p)
DInt(b, p) == IntOf(DWord(b, p))

\* the decoder keeps the low 32 bits of the word and accepts Unicode scalar values
CharOfCp(c, p) == IF IsScalar(c) THEN Ok(c, p) ELSE Err("bad-char", p)
CharOfLow(w, p) == IF ~LsbIsZero(SubSeq(w, 22, 32)) THEN Err("bad-char", p)
                   ELSE CharOfCp(LsbToNat(SubSeq(w, 1, 21)), p)
CharOf(r) == IF r.out # "ok" THEN r ELSE CharOfLow(LsbLow(GroupsToLsb(r.val), 32), r.p)
DChar(b, p) == CharOf(DWord(b, p))

\* zero bits up to and including the first 1 bit
RECURSIVE DFiller(_, _)
DFiller(b, p) ==
    IF p >= Len(b) THEN Err("end-of-buffer", p)
    ELSE IF b[p + 1] = 1 THEN Ok(0, p + 1) ELSE DFiller(b, p + 1)

\* p is a multiple of 8, just after the length byte n; acc = bytes of the earlier blocks
RECURSIVE DBlk(_, _, _, _)
DBlk(b, p, n, acc) ==
    IF n = 0 THEN Ok(acc, p)
    ELSE IF p + 8 * (n + 1) > Len(b) THEN Err("end-of-buffer", p)
    ELSE DBlk(b, p + 8 * (n + 1), ByteAt(b, (p \div 8) + n + 1),
              acc \o [i \in 1..n |-> ByteAt(b, (p \div 8) + i)])

BytesAfter(b, f) ==
    IF f.out # "ok" THEN f
    ELSE IF f.p % 8 # 0 THEN Err("not-aligned", f.p)
    ELSE IF f.p + 8 > Len(b) THEN Err("end-of-buffer", f.p)
    ELSE DBlk(b, f.p + 8, ByteAt(b, (f.p \div 8) + 1), <<>>)
DBytes(b, p) == BytesAfter(b, DFiller(b, p))

Utf8Res(u, p) == IF u.ok THEN Ok(u.v, p) ELSE Err("bad-utf8", p)
Utf8Of(r) == IF r.out # "ok" THEN r ELSE Utf8Res(Utf8Dec(r.val), r.p)
DUtf8(b, p) == Utf8Of(DBytes(b, p))

BoolOf(r) == IF r.out # "ok" THEN r ELSE Ok(r.val = 1, r.p)
TopFill(r, f) == IF f.out # "ok" THEN f ELSE Ok(r.val, f.p)
TopThen(b, r) == IF r.out # "ok" THEN r ELSE TopFill(r, DFiller(b, r.p))

RECURSIVE DecAt(_, _, _), DItems(_, _, _, _), ItemThen(_, _, _, _)
\* 1 bit before every element, 0 bit ends the list; acc = elements read so far
DItems(b, p, of, acc) ==
    IF p >= Len(b) THEN Err("end-of-buffer", p)
    ELSE IF b[p + 1] = 0 THEN Ok(acc, p + 1)
    ELSE ItemThen(b, of, acc, DecAt(b, p + 1, [op |-> of]))
ItemThen(b, of, acc, x) == IF x.out # "ok" THEN x ELSE DItems(b, x.p, of, Append(acc, x.val))
DecAt(b, p, c) ==
    CASE c.op = "bool"   -> BoolOf(DBit(b, p))
      [] c.op = "bits"   -> DBits(b, p, c.n)
      [] c.op = "u8"     -> DBits(b, p, 8)
      [] c.op = "word"   -> DWord(b, p)
      [] c.op = "int"    -> DInt(b, p)
      [] c.op = "char"   -> DChar(b, p)
      [] c.op = "bytes"  -> DBytes(b, p)
      [] c.op = "utf8"   -> DUtf8(b, p)
      [] c.op = "string" -> DItems(b, p, "char", <<>>)
      [] c.op = "list"   -> DItems(b, p, c.of, <<>>)
      [] c.op = "filler" -> DFiller(b, p)
      \* flat::decode::<T>: a value followed by the filler
      [] c.op = "top"    -> TopThen(b, DecAt(b, p, [op |-> c.of]))

---------------------------------------------------------------------------
(* State machine                                                           *)

InitEnc == bits = <<>> /\ ops = <<>> /\ mode = "enc" /\ pos = 0 /\ outs = <<>>
\* decoding an arbitrary byte string (C02)
InitDec == \E i \in DOMAIN Inputs :
             bits = UnpackBytes(Inputs[i]) /\ ops = <<>> /\ mode = "dec" /\ pos = 0 /\ outs = <<>>

Write(o) ==
    /\ mode = "enc"
    /\ Allowed(ops, o)
    /\ bits' = bits \o EncAt(Len(bits) % 8, o)
    /\ ops' = Append(ops, o)
    /\ UNCHANGED <<mode, pos, outs>>

Offered(k) == { i \in DOMAIN Alphabet : Alphabet[i].op = k }

\* Encoder::bool / bits / u8 / word / integer / char / bytes / utf8 / string / encode_list_with / filler
WBool   == mode = "enc" /\ \E i \in Offered("bool")   : Write(Alphabet[i])
WBits   == mode = "enc" /\ \E i \in Offered("bits")   : Write(Alphabet[i])
WU8     == mode = "enc" /\ \E i \in Offered("u8")     : Write(Alphabet[i])
WWord   == mode = "enc" /\ \E i \in Offered("word")   : Write(Alphabet[i])
WInt    == mode = "enc" /\ \E i \in Offered("int")    : Write(Alphabet[i])
WChar   == mode = "enc" /\ \E i \in Offered("char")   : Write(Alphabet[i])
WBytes  == mode = "enc" /\ \E i \in Offered("bytes")  : Write(Alphabet[i])
WUtf8   == mode = "enc" /\ \E i \in Offered("utf8")   : Write(Alphabet[i])
WString == mode = "enc" /\ \E i \in Offered("string") : Write(Alphabet[i])
WList   == mode = "enc" /\ \E i \in Offered("list")   : Write(Alphabet[i])
WFiller == mode = "enc" /\ \E i \in Offered("filler") : Write(Alphabet[i])

\* the terminating filler (flat::encode); the buffer is complete, decoding starts
Finish ==
    /\ mode = "enc"
    /\ bits' = bits \o FillerAt(Len(bits) % 8)
    /\ ops' = Append(ops, [op |-> "filler", v |-> 0])
    /\ mode' = "dec" /\ pos' = 0 /\ outs' = <<>>

\* decoder calls on offer in the current state
Offer == IF Follow
         THEN (IF Len(outs) < Len(ops) THEN <<ops[Len(outs) + 1]>> ELSE <<>>)
         ELSE (IF MoreCalls(outs) THEN Calls ELSE <<>>)

\* After an outcome on which the property is silent ("any") nothing more is specified about this decoder:
\* mode "free" (no action constrains it any further; its cursor is unspecified).
ReadWith(c, r) ==
    /\ outs' = Append(outs, [c |-> c, out |-> r.out, val |-> r.val, p |-> r.p, class |-> r.class])
    /\ IF r.out = "any" THEN mode' = "free" /\ pos' = pos ELSE mode' = mode /\ pos' = r.p
    /\ UNCHANGED <<bits, ops>>
Read(c) == mode = "dec" /\ ReadWith(c, DecAt(bits, pos, c))

OfferedCall(k) == { i \in DOMAIN Offer : Offer[i].op = k }

\* Decoder::bool / bits8 / u8 / word / integer / char / bytes / utf8 / string / decode_list_with / filler, flat::decode
RBool   == \E i \in OfferedCall("bool")   : Read(Offer[i])
RBits   == \E i \in OfferedCall("bits")   : Read(Offer[i])
RU8     == \E i \in OfferedCall("u8")     : Read(Offer[i])
RWord   == \E i \in OfferedCall("word")   : Read(Offer[i])
RInt    == \E i \in OfferedCall("int")    : Read(Offer[i])
RChar   == \E i \in OfferedCall("char")   : Read(Offer[i])
RBytes  == \E i \in OfferedCall("bytes")  : Read(Offer[i])
RUtf8   == \E i \in OfferedCall("utf8")   : Read(Offer[i])
RString == \E i \in OfferedCall("string") : Read(Offer[i])
RList   == \E i \in OfferedCall("list")   : Read(Offer[i])
RFiller == \E i \in OfferedCall("filler") : Read(Offer[i])
RTop    == pos = 0 /\ outs = <<>> /\ \E i \in OfferedCall("top") : Read(Offer[i])

EncNext == WBool \/ WBits \/ WU8 \/ WWord \/ WInt \/ WChar \/ WBytes \/ WUtf8 \/ WString \/ WList \/ WFiller \/ Finish
DecNext == RBool \/ RBits \/ RU8 \/ RWord \/ RInt \/ RChar \/ RBytes \/ RUtf8 \/ RString \/ RList \/ RFiller \/ RTop
Next == EncNext \/ DecNext

---------------------------------------------------------------------------
(* Properties                                                              *)

\* C01: the same call sequence reads back exactly the values written ...
RoundTrip ==
    (mode # "enc" /\ Follow) =>
        \A i \in 1..Len(outs) : outs[i].out = "ok" /\ outs[i].val = ops[i].v
\* ... and consumes the whole buffer
ConsumesAll ==
    (mode # "enc" /\ Follow /\ Len(outs) = Len(ops)) => pos = Len(bits)

\* C02: every call has an outcome and the cursor stays inside the buffer.
\* (TLC evaluating DecAt without an out-of-range index *is* the proof that
\* the specified decoder never reads outside the stream.)
Total ==
    /\ pos <= Len(bits)
    /\ \A i \in 1..Len(outs) : outs[i].out \in {"ok", "err", "any"} /\ outs[i].p <= Len(bits)

\* laws of the format itself
WholeBytes == mode # "enc" => Len(bits) % 8 = 0
ByteStringsAligned ==
    \* a byte string's length byte always sits on a byte boundary
    \A off \in 0..7 : Len(EncBytesAt(off, <<>>)) = (8 - off) + 8
=============================================================================
