----------------------------- MODULE FlatCodec -----------------------------
(* C01 / C02 - the "flat" bit-level codec of pallas-codec/src/flat, as an  *)
(* independent executable definition of the format over a logical bit      *)
(* stream.                                                                 *)
(*                                                                         *)
(* The first half defines the format as pure operators:                    *)
(*   EncAt(off, op)  - the bits an encoder call appends when the stream    *)
(*                     currently holds off (mod 8) bits;                   *)
(*   DecAt(b, p, c)  - the outcome of decoder call c on stream b at cursor *)
(*                     p (bits consumed so far): a TOTAL function with     *)
(*                     outcomes ok(value) / err(class) / any (the property *)
(*                     is silent on the value: over-long words).           *)
(* The second half is the state machine: one action per public method of   *)
(* Encoder (W..) and of Decoder (R..), Finish for the terminating filler.*)
(*                                                                         *)
(* Values.  Words are sequences of 7-bit groups, least significant group   *)
(* first, canonical (no high zero group) - TLC ints are 32-bit, words are  *)
(* 64-bit.  Signed integers are [neg, g] (sign and magnitude groups).      *)
(* Chars are code points, strings are code point sequences, byte strings   *)
(* are sequences of 0..255.  An op is a record [op |-> kind, v |-> value]  *)
(* (+ n for "bits", + of for "list"); a decoder call is the same record,   *)
(* its v is ignored.                                                       *)
EXTENDS Naturals, Sequences, Bits

CONSTANTS Alphabet,   \* sequence of ops offered to the encoder actions
          Calls,      \* sequence of calls offered to the decoder actions when ~Follow
          Inputs,     \* sequence of byte strings offered to InitDec
          Follow,     \* TRUE: the decoder repeats the encoder's call sequence
          Allowed(_, _),  \* Allowed(ops, o): the environment may issue encoder call o after history ops
          MoreCalls(_)    \* MoreCalls(outs): the environment may issue another decoder call (when ~Follow)

VARIABLES bits,       \* the logical bit stream
          ops,        \* encoder calls made so far (history)
          mode,       \* "enc" | "dec"
          pos,        \* decoder cursor: number of bits consumed
          outs        \* decoder outcomes so far (history)

vars == <<bits, ops, mode, pos, outs>>

---------------------------------------------------------------------------
(* Numbers                                                                 *)

GroupsToLsb(g) == [j \in 1..(7 * Len(g)) |-> (g[((j - 1) \div 7) + 1] \div 2^((j - 1) % 7)) % 2]
LsbToGroups(s) ==
    LET t == LsbTrim(s)
        n == IF t = <<>> THEN 1 ELSE (Len(t) + 6) \div 7
        u == LsbLow(t, 7 * n)
    IN  [i \in 1..n |-> LsbToNat(SubSeq(u, 7 * (i - 1) + 1, 7 * i))]
Canon(g) == LsbToGroups(GroupsToLsb(g))
NatToGroups(n) == LsbToGroups(NatToLsb(n))

\* zigzag: i >= 0 -> 2i ; i < 0 -> -2i - 1   (on sign/magnitude, any size)
ZigZag(v) == LsbToGroups(IF v.neg THEN <<1>> \o LsbDec(GroupsToLsb(v.g))
                                  ELSE <<0>> \o GroupsToLsb(v.g))
UnZigZag(g) ==
    LET w == GroupsToLsb(g) IN
    IF w[1] = 1 THEN [neg |-> TRUE,  g |-> LsbToGroups(LsbInc(Tail(w)))]
                ELSE [neg |-> FALSE, g |-> LsbToGroups(Tail(w))]
\* the same on small TLC integers (used to cross-check the limb version)
ZigZagSmall(i) == IF i >= 0 THEN 2 * i ELSE (0 - 2 * i) - 1

\* a word fits the decoder's 64-bit usize iff <= 10 groups and the 10th <= 1
Overlong(g) == Len(g) > 10 \/ (Len(g) = 10 /\ g[10] > 1)

IsScalar(c) == c <= 1114111 /\ ~(c >= 55296 /\ c <= 57343)

---------------------------------------------------------------------------
(* UTF-8 (Unicode table 3-7)                                               *)

Utf8Enc(c) ==
    IF c < 128 THEN <<c>>
    ELSE IF c < 2048 THEN <<192 + c \div 64, 128 + (c % 64)>>
    ELSE IF c < 65536 THEN <<224 + c \div 4096, 128 + ((c \div 64) % 64), 128 + (c % 64)>>
    ELSE <<240 + c \div 262144, 128 + ((c \div 4096) % 64), 128 + ((c \div 64) % 64), 128 + (c % 64)>>
Utf8(cps) == Flat([i \in 1..Len(cps) |-> Utf8Enc(cps[i])])

Cont(x) == x >= 128 /\ x <= 191
\* [ok, v]: the code points of a well-formed UTF-8 byte string
RECURSIVE Utf8DecFrom(_, _)
Utf8DecFrom(s, i) ==
    LET n == Len(s)
        bad == [ok |-> FALSE, v |-> <<>>]
        more(k, c) == LET t == Utf8DecFrom(s, i + k) IN
                      IF t.ok THEN [ok |-> TRUE, v |-> <<c>> \o t.v] ELSE bad
        a == s[i]
    IN  IF i > n THEN [ok |-> TRUE, v |-> <<>>]
        ELSE IF a < 128 THEN more(1, a)
        ELSE IF a >= 194 /\ a <= 223
             THEN IF i + 1 <= n /\ Cont(s[i + 1]) THEN more(2, (a - 192) * 64 + (s[i + 1] - 128)) ELSE bad
        ELSE IF a >= 224 /\ a <= 239
             THEN IF /\ i + 2 <= n /\ Cont(s[i + 1]) /\ Cont(s[i + 2])
                     /\ (a = 224 => s[i + 1] >= 160)
                     /\ (a = 237 => s[i + 1] <= 159)
                  THEN more(3, (a - 224) * 4096 + (s[i + 1] - 128) * 64 + (s[i + 2] - 128)) ELSE bad
        ELSE IF a >= 240 /\ a <= 244
             THEN IF /\ i + 3 <= n /\ Cont(s[i + 1]) /\ Cont(s[i + 2]) /\ Cont(s[i + 3])
                     /\ (a = 240 => s[i + 1] >= 144)
                     /\ (a = 244 => s[i + 1] <= 143)
                  THEN more(4, (a - 240) * 262144 + (s[i + 1] - 128) * 4096
                                 + (s[i + 2] - 128) * 64 + (s[i + 3] - 128)) ELSE bad
        ELSE bad
Utf8Dec(s) == Utf8DecFrom(s, 1)

---------------------------------------------------------------------------
(* The format, encoder side                                                *)

Kinds == {"bool", "bits", "u8", "word", "int", "char", "bytes", "utf8", "string", "list", "filler"}

EncGroups(g) == Flat([i \in 1..Len(g) |-> <<IF i < Len(g) THEN 1 ELSE 0>> \o ToBits(g[i], 7)])

\* zeros up to the last bit of the current byte, which is 1 (a whole byte when aligned)
FillerAt(off) == LET n == 8 - (off % 8) IN [i \in 1..n |-> IF i = n THEN 1 ELSE 0]

\* blocks of at most 255 bytes, each preceded by its length; a 0 byte ends the string
RECURSIVE Blocks(_)
Blocks(bs) == IF bs = <<>> THEN <<0>>
              ELSE LET n == MinN(255, Len(bs)) IN
                   <<n>> \o SubSeq(bs, 1, n) \o Blocks(SubSeq(bs, n + 1, Len(bs)))
EncBytesAt(off, bs) == FillerAt(off) \o UnpackBytes(Blocks(bs))

RECURSIVE EncAt(_, _), EncItems(_, _, _)
\* list: 1 bit before every element, 0 bit at the end
EncItems(off, of, items) ==
    IF items = <<>> THEN <<0>>
    ELSE LET e == EncAt(off + 1, [op |-> of, v |-> Head(items)]) IN
         <<1>> \o e \o EncItems(off + 1 + Len(e), of, Tail(items))
EncAt(off, o) ==
    CASE o.op = "bool"   -> <<IF o.v THEN 1 ELSE 0>>
      [] o.op = "bits"   -> ToBits(o.v, o.n)
      [] o.op = "u8"     -> ToBits(o.v, 8)
      [] o.op = "word"   -> EncGroups(o.v)
      [] o.op = "int"    -> EncGroups(ZigZag(o.v))
      [] o.op = "char"   -> EncGroups(NatToGroups(o.v))
      [] o.op = "bytes"  -> EncBytesAt(off, o.v)
      [] o.op = "utf8"   -> EncBytesAt(off, Utf8(o.v))
      [] o.op = "string" -> EncItems(off, "char", o.v)
      [] o.op = "list"   -> EncItems(off, o.of, o.v)
      [] o.op = "filler" -> FillerAt(off)

---------------------------------------------------------------------------
(* The format, decoder side: total, with the cursor after the call.  After *)
(* an error the cursor is where the failing primitive read started (the    *)
(* design of the decoder: every primitive read checks before it consumes). *)

Ok(v, p)  == [out |-> "ok",  val |-> v, p |-> p, class |-> "ok"]
Err(c, p) == [out |-> "err", val |-> 0, p |-> p, class |-> c]
AnyOut(c, p) == [out |-> "any", val |-> 0, p |-> p, class |-> c]

DBit(b, p) == IF p >= Len(b) THEN Err("end-of-buffer", p) ELSE Ok(b[p + 1], p + 1)

DBits(b, p, n) ==
    IF n > 8 THEN Err("num-bits", p)
    ELSE IF p + n > Len(b) THEN Err("end-of-buffer", p)
    ELSE Ok(FromBits(SubSeq(b, p + 1, p + n)), p + n)

\* raw 7-bit groups up to and including the first one without continuation bit
RECURSIVE DGroups(_, _)
DGroups(b, p) ==
    LET r == DBits(b, p, 8) IN
    IF r.out # "ok" THEN r
    ELSE IF r.val < 128 THEN Ok(<<r.val>>, r.p)
    ELSE LET t == DGroups(b, r.p) IN
         IF t.out # "ok" THEN t ELSE Ok(<<r.val - 128>> \o t.val, t.p)

DWord(b, p) ==
    LET r == DGroups(b, p) IN
    IF r.out # "ok" THEN r
    ELSE IF Overlong(r.val) THEN AnyOut("overlong-word", r.p)
    ELSE Ok(Canon(r.val), r.p)

DInt(b, p) == LET r == DWord(b, p) IN IF r.out # "ok" THEN r ELSE Ok(UnZigZag(r.val), r.p)

\* the decoder keeps the low 32 bits of the word and accepts Unicode scalar values
DChar(b, p) ==
    LET r == DWord(b, p) IN
    IF r.out # "ok" THEN r
    ELSE LET w == LsbLow(GroupsToLsb(r.val), 32) IN
         IF ~LsbIsZero(SubSeq(w, 22, 32)) THEN Err("bad-char", r.p)
         ELSE LET c == LsbToNat(SubSeq(w, 1, 21)) IN
              IF IsScalar(c) THEN Ok(c, r.p) ELSE Err("bad-char", r.p)

\* zero bits up to and including the first 1 bit
RECURSIVE DFiller(_, _)
DFiller(b, p) ==
    LET r == DBit(b, p) IN
    IF r.out # "ok" THEN r ELSE IF r.val = 1 THEN Ok(0, r.p) ELSE DFiller(b, r.p)

\* p is a multiple of 8; n is the length byte just read
RECURSIVE DBlk(_, _, _)
DBlk(b, p, n) ==
    IF n = 0 THEN Ok(<<>>, p)
    ELSE IF p + 8 * (n + 1) > Len(b) THEN Err("end-of-buffer", p)
    ELSE LET k == p \div 8
             t == DBlk(b, p + 8 * (n + 1), ByteAt(b, k + n + 1))
         IN  IF t.out # "ok" THEN t ELSE Ok([i \in 1..n |-> ByteAt(b, k + i)] \o t.val, t.p)

DBytes(b, p) ==
    LET f == DFiller(b, p) IN
    IF f.out # "ok" THEN f
    ELSE IF f.p % 8 # 0 THEN Err("not-aligned", f.p)
    ELSE IF f.p + 8 > Len(b) THEN Err("end-of-buffer", f.p)
    ELSE DBlk(b, f.p + 8, ByteAt(b, (f.p \div 8) + 1))

DUtf8(b, p) ==
    LET r == DBytes(b, p) IN
    IF r.out # "ok" THEN r
    ELSE LET u == Utf8Dec(r.val) IN IF u.ok THEN Ok(u.v, r.p) ELSE Err("bad-utf8", r.p)

RECURSIVE DecAt(_, _, _), DItems(_, _, _)
DItems(b, p, of) ==
    LET c == DBit(b, p) IN
    IF c.out # "ok" THEN c
    ELSE IF c.val = 0 THEN Ok(<<>>, c.p)
    ELSE LET x == DecAt(b, c.p, [op |-> of]) IN
         IF x.out # "ok" THEN x
         ELSE LET t == DItems(b, x.p, of) IN
              IF t.out # "ok" THEN t ELSE Ok(<<x.val>> \o t.val, t.p)
DecAt(b, p, c) ==
    CASE c.op = "bool"   -> (LET r == DBit(b, p) IN IF r.out # "ok" THEN r ELSE Ok(r.val = 1, r.p))
      [] c.op = "bits"   -> DBits(b, p, c.n)
      [] c.op = "u8"     -> DBits(b, p, 8)
      [] c.op = "word"   -> DWord(b, p)
      [] c.op = "int"    -> DInt(b, p)
      [] c.op = "char"   -> DChar(b, p)
      [] c.op = "bytes"  -> DBytes(b, p)
      [] c.op = "utf8"   -> DUtf8(b, p)
      [] c.op = "string" -> DItems(b, p, "char")
      [] c.op = "list"   -> DItems(b, p, c.of)
      [] c.op = "filler" -> DFiller(b, p)
      \* flat::decode::<T>: a value followed by the filler
      [] c.op = "top"    -> (LET r == DecAt(b, p, [op |-> c.of]) IN
                             IF r.out # "ok" THEN r
                             ELSE LET f == DFiller(b, r.p) IN
                                  IF f.out # "ok" THEN f ELSE Ok(r.val, f.p))

---------------------------------------------------------------------------
(* State machine                                                           *)

InitEnc == bits = <<>> /\ ops = <<>> /\ mode = "enc" /\ pos = 0 /\ outs = <<>>
\* decoding an arbitrary byte string (C02)
InitDec == \E i \in DOMAIN Inputs :
             bits = UnpackBytes(Inputs[i]) /\ ops = <<>> /\ mode = "dec" /\ pos = 0 /\ outs = <<>>

Write(o) ==
    /\ mode = "enc"
    /\ Allowed(ops, o)
    /\ bits' = bits \o EncAt(Len(bits) % 8, o)
    /\ ops' = Append(ops, o)
    /\ UNCHANGED <<mode, pos, outs>>

Offered(k) == { i \in DOMAIN Alphabet : Alphabet[i].op = k }

\* Encoder::bool / bits / u8 / word / integer / char / bytes / utf8 / string / encode_list_with / filler
WBool   == \E i \in Offered("bool")   : Write(Alphabet[i])
WBits   == \E i \in Offered("bits")   : Write(Alphabet[i])
WU8     == \E i \in Offered("u8")     : Write(Alphabet[i])
WWord   == \E i \in Offered("word")   : Write(Alphabet[i])
WInt    == \E i \in Offered("int")    : Write(Alphabet[i])
WChar   == \E i \in Offered("char")   : Write(Alphabet[i])
WBytes  == \E i \in Offered("bytes")  : Write(Alphabet[i])
WUtf8   == \E i \in Offered("utf8")   : Write(Alphabet[i])
WString == \E i \in Offered("string") : Write(Alphabet[i])
WList   == \E i \in Offered("list")   : Write(Alphabet[i])
WFiller == \E i \in Offered("filler") : Write(Alphabet[i])

\* the terminating filler (flat::encode); the buffer is complete, decoding starts
Finish ==
    /\ mode = "enc"
    /\ bits' = bits \o FillerAt(Len(bits) % 8)
    /\ ops' = Append(ops, [op |-> "filler", v |-> 0])
    /\ mode' = "dec" /\ pos' = 0 /\ outs' = <<>>

\* decoder calls on offer in the current state
Offer == IF Follow
         THEN (IF Len(outs) < Len(ops) THEN <<ops[Len(outs) + 1]>> ELSE <<>>)
         ELSE (IF MoreCalls(outs) THEN Calls ELSE <<>>)

Read(c) ==
    /\ mode = "dec"
    /\ LET r == DecAt(bits, pos, c) IN
         /\ outs' = Append(outs, [c |-> c, out |-> r.out, val |-> r.val, p |-> r.p, class |-> r.class])
         /\ IF r.out = "any" THEN pos' \in pos..r.p ELSE pos' = r.p
    /\ UNCHANGED <<bits, ops, mode>>

OfferedCall(k) == { i \in DOMAIN Offer : Offer[i].op = k }

\* Decoder::bool / bits8 / u8 / word / integer / char / bytes / utf8 / string / decode_list_with / filler, flat::decode
RBool   == \E i \in OfferedCall("bool")   : Read(Offer[i])
RBits   == \E i \in OfferedCall("bits")   : Read(Offer[i])
RU8     == \E i \in OfferedCall("u8")     : Read(Offer[i])
RWord   == \E i \in OfferedCall("word")   : Read(Offer[i])
RInt    == \E i \in OfferedCall("int")    : Read(Offer[i])
RChar   == \E i \in OfferedCall("char")   : Read(Offer[i])
RBytes  == \E i \in OfferedCall("bytes")  : Read(Offer[i])
RUtf8   == \E i \in OfferedCall("utf8")   : Read(Offer[i])
RString == \E i \in OfferedCall("string") : Read(Offer[i])
RList   == \E i \in OfferedCall("list")   : Read(Offer[i])
RFiller == \E i \in OfferedCall("filler") : Read(Offer[i])
RTop    == pos = 0 /\ outs = <<>> /\ \E i \in OfferedCall("top") : Read(Offer[i])

EncNext == WBool \/ WBits \/ WU8 \/ WWord \/ WInt \/ WChar \/ WBytes \/ WUtf8 \/ WString \/ WList \/ WFiller \/ Finish
DecNext == RBool \/ RBits \/ RU8 \/ RWord \/ RInt \/ RChar \/ RBytes \/ RUtf8 \/ RString \/ RList \/ RFiller \/ RTop
Next == EncNext \/ DecNext

---------------------------------------------------------------------------
(* Properties                                                              *)

\* C01: the same call sequence reads back exactly the values written ...
RoundTrip ==
    (mode = "dec" /\ Follow) =>
        \A i \in 1..Len(outs) : outs[i].out = "ok" /\ outs[i].val = ops[i].v
\* ... and consumes the whole buffer
ConsumesAll ==
    (mode = "dec" /\ Follow /\ Len(outs) = Len(ops)) => pos = Len(bits)

\* C02: every call has an outcome and the cursor stays inside the buffer.
\* (TLC evaluating DecAt without an out-of-range index *is* the proof that
\* the specified decoder never reads outside the stream.)
Total ==
    /\ pos <= Len(bits)
    /\ \A i \in 1..Len(outs) : outs[i].out \in {"ok", "err", "any"} /\ outs[i].p <= Len(bits)

\* laws of the format itself
WholeBytes == mode = "dec" => Len(bits) % 8 = 0
ByteStringsAligned ==
    \* a byte string's length byte always sits on a byte boundary
    \A off \in 0..7 : Len(EncBytesAt(off, <<>>)) = (8 - off) + 8
=============================================================================
