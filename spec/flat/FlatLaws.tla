------------------------------ MODULE FlatLaws ------------------------------
(* Constant-level self-checks of the specification's number and UTF-8 layer *)
(* against TLC's own arithmetic, and of the alignment law of byte strings.  *)
(* Run once per check (no behaviour is explored).                           *)
EXTENDS MCFlat, Json

ASSUME NumbersAgree
ASSUME ByteStringsAligned
\* a few known encodings (from the flat specification's examples)
ASSUME PackBytes(EncAt(0, O("bool", TRUE)) \o FillerAt(1)) = <<129>>
ASSUME PackBytes(EncAt(0, O("word", W(32768))) \o FillerAt(0)) = <<128, 128, 2, 1>>
ASSUME PackBytes(EncAt(0, O("int", I(-1))) \o FillerAt(0)) = <<1, 1>>
ASSUME PackBytes(EncAt(0, O("bytes", <<11, 22, 33>>))) = <<1, 3, 11, 22, 33, 0>>
ASSUME PrintT(<<"VEC", ToJson([laws |-> "hold"])>>)
=============================================================================
