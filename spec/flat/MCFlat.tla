------------------------------- MODULE MCFlat -------------------------------
(* Exhaustive configurations of FlatCodec.                                  *)
(*  MCFlat.cfg      (C01) every encoder call sequence  [pad] op^(<=MaxOps)  *)
(*                  Finish, decoded again by the same calls: RoundTrip,     *)
(*                  ConsumesAll.  The optional pad is a bits call of 1..7 *)
(*                  bits, so that every op starts at every bit offset.      *)
(*  MCFlatTotal.cfg (C02) every listed byte string x every decoder call     *)
(*                  sequence of length <= MaxCalls: Total.                  *)
EXTENDS FlatCodec, TLC, Integers, FiniteSets

CONSTANTS MaxOps, MaxCalls

\* ---- value helpers
Pat(n, a, s) == [i \in 1..n |-> (a + s * (i - 1)) % 256]
W(n) == NatToGroups(n)
I(i) == IF i < 0 THEN [neg |-> TRUE, g |-> NatToGroups(0 - i)] ELSE [neg |-> FALSE, g |-> NatToGroups(i)]
WordMax == <<127, 127, 127, 127, 127, 127, 127, 127, 127, 1>>          \* 2^64 - 1
IntMax  == [neg |-> FALSE, g |-> <<127, 127, 127, 127, 127, 127, 127, 127, 127>>]   \*  2^63 - 1
IntMin  == [neg |-> TRUE,  g |-> <<0, 0, 0, 0, 0, 0, 0, 0, 0, 1>>]                  \* -2^63

O(k, v) == [op |-> k, v |-> v]
L(of, v) == [op |-> "list", of |-> of, v |-> v]
Pad(n, v) == [op |-> "bits", n |-> n, v |-> v]

Pads == << Pad(1, 1), Pad(2, 2), Pad(3, 5), Pad(4, 10), Pad(5, 21), Pad(6, 42), Pad(7, 85) >>

\* ---- op alphabets (sequences of ops)
CoreA == <<
    O("bool", TRUE), O("bool", FALSE),
    O("u8", 0), O("u8", 128), O("u8", 255),
    O("word", W(0)), O("word", W(128)), O("word", W(16384)), O("word", WordMax),
    O("int", I(0)), O("int", I(1)), O("int", I(-1)), O("int", I(-65)), O("int", IntMax), O("int", IntMin),
    O("char", 0), O("char", 97), O("char", 955), O("char", 55295), O("char", 57344), O("char", 1114111),
    O("bytes", <<>>), O("bytes", <<171>>), O("bytes", Pat(3, 254, 1)),
    O("utf8", <<>>), O("utf8", <<955, 8594, 119070>>),
    O("string", <<97, 955>>),
    L("bool", <<TRUE, FALSE>>), L("bytes", <<<<1>>, <<>>>>),
    O("filler", 0) >>
CoreB == <<
    O("word", W(127)), O("word", W(16383)), O("int", I(64)), O("int", I(-64)), O("char", 233),
    O("utf8", <<104, 233>>), O("string", <<>>),
    L("bool", <<>>), L("u8", <<255, 0>>), L("word", <<W(128)>>), L("int", <<I(-1), I(1)>>) >>
Core == CoreA \o CoreB

LongA == << O("bytes", Pat(255, 7, 3)), O("bytes", Pat(256, 0, 1)),
            O("utf8", <<97>> \o [i \in 1..86 |-> 8364]) >> \* 259 bytes of UTF-8; the 85th euro sign straddles the 255-byte block boundary
LongB == << O("bytes", Pat(254, 1, 1)), O("bytes", Pat(511, 250, 7)), L("bytes", <<Pat(255, 9, 1), <<7>>>>) >>
VeryLong == << O("bytes", Pat(510, 3, 5)), O("bytes", Pat(765, 1, 1)), O("bytes", Pat(1000, 5, 11)),
               O("utf8", [i \in 1..255 |-> 233]) >>
Deep == <<
    O("bool", TRUE), O("bool", FALSE), O("u8", 255), O("word", W(128)), O("word", WordMax),
    O("int", I(-1)), O("int", IntMin), O("char", 955),
    O("bytes", <<>>), O("bytes", Pat(3, 254, 1)), O("bytes", Pat(255, 7, 3)),
    O("utf8", <<955, 8594, 119070>>), O("string", <<97, 955>>),
    L("bool", <<TRUE, FALSE>>), L("bytes", <<<<1>>, <<>>>>), O("filler", 0) >>

AlphaQuick == Pads \o CoreA \o LongA                          \* quick tier, MaxOps = 2
AlphaThorough == Pads \o Core \o LongA \o LongB \o VeryLong     \* thorough tier, MaxOps = 2
AlphaDeep == Pads \o Deep                                     \* thorough tier, MaxOps = 3

IsLong(o) == o.op \in {"bytes", "utf8", "list"} /\ Len(o.v) > 0 /\
             (IF o.op = "list" THEN o.of = "bytes" /\ Len(o.v[1]) > 64 ELSE Len(o.v) > 64)
NLong(h) == Cardinality({ i \in DOMAIN h : IsLong(h[i]) })

\* [pad] then at most MaxOps ops; pads only in first position; at most one long byte string
\* per behaviour beyond length 2 (keeps vectors small, loses nothing about alignment)
PadFirst(h) == h # <<>> /\ h[1].op = "bits"
MCAllowed(h, o) ==
    /\ Len(h) < MaxOps + (IF PadFirst(h) THEN 1 ELSE 0)
    /\ o.op = "bits" => h = <<>>
    /\ (IsLong(o) /\ MaxOps > 2) => NLong(h) = 0

\* ---- C02: inputs and calls
FF(n) == [i \in 1..n |-> 255]
Small == <<0, 1, 127, 128, 255>>
Short == <<<<>>>> \o [i \in 1..5 |-> <<Small[i]>>] \o [i \in 1..25 |-> <<Small[((i - 1) \div 5) + 1], Small[((i - 1) % 5) + 1]>>]
Structured == <<
    FF(9), FF(10), FF(11), FF(12),
    FF(9) \o <<1>>, FF(9) \o <<2>>, FF(9) \o <<127>>, FF(10) \o <<0>>, FF(10) \o <<1>>,
    [i \in 1..10 |-> 128] \o <<0>>, [i \in 1..9 |-> 128] \o <<1, 1>>,
    <<1, 3, 170, 187>>, <<1, 2, 170, 187>>, <<1, 2, 170, 187, 0>>, <<1, 2, 170, 187, 1>>, <<1, 2, 170, 187, 0, 1>>,
    <<1, 255>> \o Pat(10, 1, 1), <<1, 0>>, <<1, 0, 1>>, <<0, 1, 0>>, <<2, 0>>, <<64, 1, 65, 0, 1>>,
    <<128, 176, 3>>, <<128, 128, 68>>, <<225, 128, 128, 128, 16>>, <<97, 1>>, <<255, 255, 255, 255, 15, 1>>,
    <<1, 2, 195, 40, 0, 1>>, <<1, 1, 255, 0>>, <<1, 2, 195, 169, 0, 1>>, <<1, 3, 237, 160, 128, 0>>,
    <<1, 4, 240, 159, 146, 150, 0, 1>>,
    <<176, 216, 64>>, <<255, 127, 1>>, <<170, 170, 170>>, <<85, 85, 85, 85>> >>

TotalInputs == Short \o Structured
\* thorough tier: every string of length 3 over the same five bytes as well
Short3 == [i \in 1..125 |-> <<Small[((i - 1) \div 25) + 1], Small[(((i - 1) \div 5) % 5) + 1], Small[((i - 1) % 5) + 1]>>]
TotalInputsWide == Short \o Short3 \o Structured

C(k) == [op |-> k]
TotalCalls == <<
    C("bool"), [op |-> "bits", n |-> 0], [op |-> "bits", n |-> 1], [op |-> "bits", n |-> 3], [op |-> "bits", n |-> 7],
    [op |-> "bits", n |-> 8], [op |-> "bits", n |-> 9],
    C("u8"), C("word"), C("int"), C("char"), C("bytes"), C("utf8"), C("string"), C("filler"),
    [op |-> "list", of |-> "bool"], [op |-> "list", of |-> "u8"], [op |-> "list", of |-> "word"],
    [op |-> "list", of |-> "bytes"],
    [op |-> "top", of |-> "bool"], [op |-> "top", of |-> "u8"], [op |-> "top", of |-> "word"], [op |-> "top", of |-> "int"],
    [op |-> "top", of |-> "char"], [op |-> "top", of |-> "bytes"], [op |-> "top", of |-> "utf8"] >>

\* thorough tier, sequences of three calls
CallsCore == <<
    C("bool"), [op |-> "bits", n |-> 3], C("u8"), C("word"), C("int"), C("char"), C("bytes"), C("utf8"), C("string"),
    C("filler"), [op |-> "list", of |-> "bool"], [op |-> "list", of |-> "word"] >>

\* a top call ends the sequence (it runs on its own decoder); so does an "any" outcome (mode "free")
MCMoreCalls(h) ==
    /\ Len(h) < MaxCalls
    /\ h # <<>> => h[Len(h)].c.op # "top"

\* ---- self-checks of the number layer against TLC arithmetic (asserted by FlatLaws.tla; evaluating them in an
\* ASSUME of this module makes TLC -coverage runs crawl)
NumbersAgree ==
    /\ \A i \in -70..70 : ZigZag(I(i)) = W(ZigZagSmall(i)) /\ UnZigZag(W(ZigZagSmall(i))) = I(i)
    /\ \A n \in {0, 1, 127, 128, 16383, 16384, 2097151, 2097152, 1073741823} :
          LsbToNat(GroupsToLsb(W(n))) = n /\ Canon(W(n) \o <<0, 0>>) = W(n)
    /\ ZigZag(IntMin) = WordMax /\ UnZigZag(WordMax) = IntMin
    /\ ZigZag(IntMax) = <<126, 127, 127, 127, 127, 127, 127, 127, 127, 1>>
    /\ \A c \in {0, 127, 128, 2047, 2048, 65535, 65536, 1114111} : Utf8Dec(Utf8Enc(c)) = [ok |-> TRUE, v |-> <<c>>]
    /\ ~Utf8Dec(<<237, 160, 128>>).ok /\ ~Utf8Dec(<<192, 128>>).ok /\ ~Utf8Dec(<<244, 144, 128, 128>>).ok
    /\ ~Utf8Dec(<<224, 159, 191>>).ok /\ ~Utf8Dec(<<240, 143, 191, 191>>).ok /\ ~Utf8Dec(<<128>>).ok
=============================================================================
