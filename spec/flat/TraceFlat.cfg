CONSTANTS
  CheckFormat = TRUE
  Strict = TRUE
  Follow = TRUE
  Alphabet = 0
  Calls = 0
  Inputs = 0
  Allowed <- TAllowed
  MoreCalls <- TMoreCalls
INIT TInit
NEXT TNext
CHECK_DEADLOCK FALSE
POSTCONDITION TraceVerdict
