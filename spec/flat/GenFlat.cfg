CONSTANTS
  MaxOps = 2
  MaxCalls = 0
  Follow = TRUE
  Alphabet <- AlphaQuick
  Calls <- TotalCalls
  Inputs <- Short
  Allowed <- MCAllowed
  MoreCalls <- MCMoreCalls
INIT InitEnc
NEXT Next
INVARIANTS EmitRt RoundTrip ConsumesAll
CHECK_DEADLOCK FALSE
