------------------------------- MODULE Apply -------------------------------
(* C24 - State::apply of the P2P stack (pallas-network2/src/protocol).     *)
(*                                                                         *)
(* The transition tables of MiniProtocols lifted to the data-carrying      *)
(* states of pallas-network2.  A state is [cls, sub, data]:                *)
(*   cls  - the state class (= table state),                               *)
(*   sub  - the variant of the payload slot the Rust enum has for that     *)
(*          class ("" when the class has a single shape),                  *)
(*   data - the carried payload: a tuple of abstract tokens (Nat).         *)
(* A message is [tag, data].  Tokens stand for arbitrary payload values    *)
(* (cookie, point, tip, header, version table, ...); the harness maps a    *)
(* token to a concrete value injectively, per slot type.  Tokens also      *)
(* stand for payload SIZES: every list-carrying payload (peers, tx ids,    *)
(* tx bodies, points, version table, votes, tx list, bitmaps, block body)  *)
(* is empty for token 1 and has 2, 3 elements for tokens 2, 3, requested   *)
(* amounts / counts are 0, 2, 5 - the tables do not relate a reply to the  *)
(* amount asked for: the next state carries the WHOLE received payload,    *)
(* whether it is shorter than, as long as or longer than what was asked.   *)
(*                                                                         *)
(* Apply(p, s, m) succeeds exactly when the table has (s.cls, m.tag) and   *)
(* yields the table's next class carrying the message payload; the slot    *)
(* that receives the payload is the one the Rust state enum has:           *)
(*   handshake   Confirm(table) Done(Accepted(v,d)|Rejected(r)|QueryReply(t))*)
(*   keepalive   Client(Empty|Response(c)) Server(c)                        *)
(*   chainsync   Idle(New|Intersection(p,t)|NoIntersection(t)|Content(c,t)  *)
(*               |Rollback(p,t)|Drained) Intersect(points)                  *)
(*   blockfetch  Busy(range) Streaming(None|Some(body))                     *)
(*   peersharing Idle(Empty|Response(peers)) Busy(amount)                   *)
(*   txsubmission Txs(bodies) - the only slot; the table sends ReplyTxs to  *)
(*               Idle, which has none, so nothing is demanded there         *)
(*   leiosnotify Idle(None|BlockAnnouncement(h)|BlockOffer(p,s)             *)
(*               |BlockTxsOffer(p)|Votes(v))                                *)
(*   leiosfetch  Idle(None|Block(eb,b)|BlockTxs(eb,txs)) AwaitingBlock(eb)  *)
(*               AwaitingBlockTxs(eb,bitmaps); the response is paired with  *)
(*               the EB of the request state (module docs)                  *)
(* Free (= -1) in an expected tuple means "the property does not fix it".  *)
EXTENDS MiniProtocols, Integers

Free == -1

St(c, s, d)  == [cls |-> c, sub |-> s, data |-> d]
Msg(t, d)    == [tag |-> t, data |-> d]

\* number of payload tokens of each message variant
MsgArity(p, t) ==
    CASE p = "handshake"    -> (CASE t = "Accept" -> 2 [] OTHER -> 1)
      [] p = "keepalive"    -> (CASE t = "Done" -> 0 [] OTHER -> 1)
      [] p = "chainsync"    -> (CASE t \in {"RollForward", "RollBackward", "IntersectFound"} -> 2
                                  [] t \in {"FindIntersect", "IntersectNotFound"} -> 1
                                  [] OTHER -> 0)
      [] p = "blockfetch"   -> (CASE t = "RequestRange" -> 2 [] t = "Block" -> 1 [] OTHER -> 0)
      [] p = "peersharing"  -> (CASE t = "Done" -> 0 [] OTHER -> 1)
      [] p = "txsubmission" -> (CASE t \in {"RequestTxIdsBlocking", "RequestTxIdsNonBlocking"} -> 2
                                  [] t \in {"ReplyTxIds", "RequestTxs", "ReplyTxs"} -> 1
                                  [] OTHER -> 0)
      [] p = "leiosnotify"  -> (CASE t = "BlockOffer" -> 2
                                  [] t \in {"BlockAnnouncement", "BlockTxsOffer", "Votes"} -> 1
                                  [] OTHER -> 0)
      [] p = "leiosfetch"   -> (CASE t = "BlockTxs" -> 3 [] t = "BlockTxsRequest" -> 2
                                  [] t \in {"BlockRequest", "Block"} -> 1
                                  [] OTHER -> 0)

\* the shapes <<sub, arity>> of the payload slot of each state class
Shapes(p, c) ==
    CASE p = "handshake" /\ c = "Confirm"  -> { <<"", 1>> }
      [] p = "handshake" /\ c = "Done"     -> { <<"Accepted", 2>>, <<"Rejected", 1>>, <<"QueryReply", 1>> }
      [] p = "keepalive" /\ c = "Client"   -> { <<"Empty", 0>>, <<"Response", 1>> }
      [] p = "keepalive" /\ c = "Server"   -> { <<"", 1>> }
      [] p = "chainsync" /\ c = "Idle"     -> { <<"New", 0>>, <<"Intersection", 2>>, <<"NoIntersection", 1>>,
                                                <<"Content", 2>>, <<"Rollback", 2>>, <<"Drained", 0>> }
      [] p = "chainsync" /\ c = "Intersect" -> { <<"", 1>> }
      [] p = "blockfetch" /\ c = "Busy"    -> { <<"", 2>> }
      [] p = "blockfetch" /\ c = "Streaming" -> { <<"None", 0>>, <<"Some", 1>> }
      [] p = "peersharing" /\ c = "Idle"   -> { <<"Empty", 0>>, <<"Response", 1>> }
      [] p = "peersharing" /\ c = "Busy"   -> { <<"", 1>> }
      [] p = "txsubmission" /\ c = "Txs"   -> { <<"", 1>> }
      [] p = "leiosnotify" /\ c = "Idle"   -> { <<"None", 0>>, <<"BlockAnnouncement", 1>>, <<"BlockOffer", 2>>,
                                                <<"BlockTxsOffer", 1>>, <<"Votes", 1>> }
      [] p = "leiosfetch" /\ c = "Idle"    -> { <<"None", 0>>, <<"Block", 2>>, <<"BlockTxs", 2>> }
      [] p = "leiosfetch" /\ c = "AwaitingBlock" -> { <<"", 1>> }
      [] p = "leiosfetch" /\ c = "AwaitingBlockTxs" -> { <<"", 2>> }
      [] OTHER -> { <<"", 0>> }

\* the initial state (State::default())
InitSub(p) ==
    CASE p = "keepalive" -> "Empty" [] p = "chainsync" -> "New" [] p = "peersharing" -> "Empty"
      [] p \in {"leiosnotify", "leiosfetch"} -> "None" [] OTHER -> ""
InitState(p) == St(ByName(p).init, InitSub(p), <<>>)

\* what the next state carries: <<sub, data>>
Carry(p, s, m) ==
    LET t == m.tag  d == m.data IN
    CASE p = "handshake" ->
           (CASE t = "Propose" -> <<"", d>> [] t = "Accept" -> <<"Accepted", d>>
              [] t = "Refuse" -> <<"Rejected", d>> [] t = "QueryReply" -> <<"QueryReply", d>>)
      [] p = "keepalive" ->
           (CASE t = "KeepAlive" -> <<"", d>> [] t = "ResponseKeepAlive" -> <<"Response", d>>
              [] OTHER -> <<"", <<>> >>)
      [] p = "chainsync" ->
           (CASE t = "FindIntersect" -> <<"", d>>
              [] t = "IntersectFound" -> <<"Intersection", d>>
              [] t = "IntersectNotFound" -> <<"NoIntersection", d>>
              [] t = "RollForward" -> <<"Content", d>>
              [] t = "RollBackward" -> <<"Rollback", d>>
              [] OTHER -> <<"", <<>> >>)
      [] p = "blockfetch" ->
           (CASE t = "RequestRange" -> <<"", d>> [] t = "StartBatch" -> <<"None", <<>> >>
              [] t = "Block" -> <<"Some", d>> [] OTHER -> <<"", <<>> >>)
      [] p = "peersharing" ->
           (CASE t = "ShareRequest" -> <<"", d>> [] t = "SharePeers" -> <<"Response", d>>
              [] OTHER -> <<"", <<>> >>)
      [] p = "txsubmission" ->
           \* Txs(bodies): nothing has been received yet when the request goes out
           (CASE t = "RequestTxs" -> <<"", <<Free>> >> [] OTHER -> <<"", <<>> >>)
      [] p = "leiosnotify" ->
           (CASE t \in {"BlockAnnouncement", "BlockOffer", "BlockTxsOffer", "Votes"} -> <<t, d>>
              [] OTHER -> <<"", <<>> >>)
      [] p = "leiosfetch" ->
           (CASE t \in {"BlockRequest", "BlockTxsRequest"} -> <<"", d>>
              [] t = "Block" -> <<"Block", <<s.data[1], d[1]>> >>
              \* the echoed point is dropped; where it disagrees with the request
              \* the property does not say which of the two is kept
              [] t = "BlockTxs" -> <<"BlockTxs", <<IF d[1] = s.data[1] THEN d[1] ELSE Free, d[3]>> >>
              [] OTHER -> <<"", <<>> >>)

Allowed(p, s, m) == Has(ByName(p), s.cls, m.tag)

Apply(p, s, m) ==
    IF Allowed(p, s, m)
    THEN LET c == Carry(p, s, m) IN
         [ok |-> TRUE, cls |-> Next(ByName(p), s.cls, m.tag), sub |-> c[1], data |-> c[2]]
    ELSE [ok |-> FALSE]

(* ------------------------ bounded domains (tokens) ---------------------- *)
RECURSIVE Tuples(_, _)
Tuples(T, n) == IF n = 0 THEN { <<>> } ELSE { Append(x, t) : x \in Tuples(T, n - 1), t \in T }

AllMsgs(p, T)  == UNION { { Msg(t, d) : d \in Tuples(T, MsgArity(p, t)) } : t \in Msgs(ByName(p)) }
StatesOf(p, T) == UNION { UNION { { St(c, sh[1], d) : d \in Tuples(T, sh[2]) } : sh \in Shapes(p, c) }
                          : c \in States(ByName(p)) }

\* a result is well-shaped when its payload fits a slot of the target class
WellShaped(p, r) == r.ok => \E sh \in Shapes(p, r.cls) : sh[1] = r.sub /\ sh[2] = Len(r.data)
=============================================================================
