----------------------------- MODULE TraceAgent -----------------------------
(* Trace validation for C23 (impl -> spec).  Events logged by              *)
(* harness/pv-proto/src/agents.rs from real pallas-network agents:         *)
(*  {"ev":"call","proto":p,"role":r,"path":[m..],"state":s,"peer":s|"",    *)
(*   "via":entry point,"commit":bool,"cond":bool,                          *)
(*   "steps":[{"dir":"send"|"recv","msg":m}..],"res":"ok"|"app"|"reject",  *)
(*   "err":text,"after":s',"bad":k,"badkind":text}                         *)
(*     a fresh client/server pair was driven along `path` (state() of the  *)
(*     agent under test = state, of the real peer agent = peer), then the  *)
(*     entry point was called (recv steps: the message was put on the wire *)
(*     by a raw peer channel first; bad = k > 0: step k was delivered with *)
(*     an unacceptable payload, res "refuse" = refused for that reason);   *)
(*  {"ev":"walk","proto":p,"path":[m..],"cstates":[s..],"sstates":[s..]}   *)
(*     a real pair driven along a TLC behaviour, states after each message *)
(*     ("" once the agent could not follow, see WalkBlind);                *)
(*  {"ev":"reach","proto":p,"role":r,"path":[m..],"state":s,"err":text}    *)
(*     logged only when a probe could not set its state up: driving the    *)
(*     pair along the valid path failed (err) or ended elsewhere (state);  *)
(*  {"ev":"end"}  - every required (protocol, role, state, dir, message)   *)
(*     probe must have been logged by then (so a dropped event is noticed).*)
EXTENDS MiniProtocols, TraceKit

VARIABLES l, seen
tvars == <<l, seen>>

IsEvent(e) == l <= NRec /\ Rec[l].ev = e /\ l' = l + 1

TInit == l = 1 /\ seen = {}

TCall ==
    /\ IsEvent("call")
    /\ LET e == Rec[l]
           Q == ByName(e.proto)
           s == Run(Q, Q.init, e.path)
       IN  /\ e.proto \in Names(ClassicProtocols) /\ <<e.proto, e.role>> \in Agents
           /\ e.state = s
           /\ e.peer \in {"", s}
           /\ \A i \in 1..Len(e.steps) : e.steps[i].dir \in {"send", "recv"}
           /\ IF ("bad" \in DOMAIN e) /\ e.bad > 0
              THEN AgentOKBad(Q, e.role, s, e.steps, e.commit, e.cond, e.res, e.after, e.bad)
              ELSE AgentOK(Q, e.role, s, e.steps, e.commit, e.cond, e.res, e.after)
           /\ seen' = IF Len(e.steps) = 1 /\ ~(("bad" \in DOMAIN e) /\ e.bad > 0)
                      THEN seen \cup { <<e.proto, e.role, s, e.steps[1].dir, e.steps[1].msg>> }
                      ELSE seen

WalkOK(Q, role, path, states) ==
    \/ states = <<>>
    \/ /\ Len(states) = Len(path)
       /\ \A i \in 1..Len(path) :
            LET want == Run(Q, Q.init, SubSeq(path, 1, i)) IN
            \/ states[i] = want
            \/ states[i] = "" /\ \E j \in 1..i : <<Q.name, role, path[j]>> \in WalkBlind

TWalk ==
    /\ IsEvent("walk")
    /\ LET e == Rec[l]  Q == ByName(e.proto) IN
           /\ e.proto \in Names(ClassicProtocols)
           /\ Run(Q, Q.init, e.path) # Bottom
           /\ e.cstates # <<>> /\ WalkOK(Q, "client", e.path, e.cstates)
           /\ WalkOK(Q, "server", e.path, e.sstates)
    /\ UNCHANGED seen

\* driving a real pair along a valid path with the state-tracking methods must work
TReach ==
    /\ IsEvent("reach")
    /\ LET e == Rec[l]  Q == ByName(e.proto) IN e.err = "" /\ e.state = Run(Q, Q.init, e.path)
    /\ UNCHANGED seen

TEnd == IsEvent("end") /\ Required \subseteq seen /\ UNCHANGED seen

TNext == TCall \/ TWalk \/ TReach \/ TEnd
=============================================================================
