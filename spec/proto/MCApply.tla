------------------------------ MODULE MCApply ------------------------------
(* Exhaustive exploration of Apply over the eight P2P-stack protocols with *)
(* payload tokens Tok: every reachable data-carrying state, every message. *)
(* Checks that Apply is total on the bounded domain, that accepted results *)
(* fit a payload slot of the target class, and that rejected messages are  *)
(* exactly the ones the table does not have.                               *)
EXTENDS Apply
CONSTANT Tok
VARIABLES ap, ast

\* constant-level: every (state, message) pair of the bounded domain
ASSUME \A p \in Names(P2PProtocols) : \A s \in StatesOf(p, Tok) : \A m \in AllMsgs(p, Tok) :
          /\ WellShaped(p, Apply(p, s, m))
          /\ Apply(p, s, m).ok <=> Has(ByName(p), s.cls, m.tag)

MCInit == ap \in Names(P2PProtocols) /\ ast = InitState(ap)

Deliver(m) ==
    /\ Allowed(ap, ast, m)
    /\ LET r == Apply(ap, ast, m) IN ast' = St(r.cls, r.sub, r.data)
    /\ UNCHANGED ap
ClientMsg == HasAgency(ByName(ap), "client", ast.cls) /\ \E m \in AllMsgs(ap, Tok) : Deliver(m)
ServerMsg == HasAgency(ByName(ap), "server", ast.cls) /\ \E m \in AllMsgs(ap, Tok) : Deliver(m)
MCNext == ClientMsg \/ ServerMsg

TypeOK == ast \in StatesOf(ap, Tok \cup {Free})
\* a terminal class accepts nothing; a non-terminal one accepts something
Progress == (ByName(ap).agency[ast.cls] = "nobody") <=> (\A m \in AllMsgs(ap, Tok) : ~Allowed(ap, ast, m))
=============================================================================
