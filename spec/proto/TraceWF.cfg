INIT TInit
NEXT TNext
CHECK_DEADLOCK FALSE
INVARIANT Note
PROPERTY RejMonotone
POSTCONDITION WFVerdict
