-------------------------- MODULE ChainSyncSession --------------------------
(* Design model (beyond the listed properties): one chain-sync session.    *)
(*                                                                         *)
(* Server: a chain of blocks that grows and switches forks, and a follower *)
(* record for its one client (read pointer ptr, pending roll-back pend) -   *)
(* the behaviour of the reference node's chain producer: after an          *)
(* intersection and after a fork switch below the pointer the next answer  *)
(* is RollBackward to the pointer, otherwise the next block, otherwise     *)
(* AwaitReply and then whatever happens first.                             *)
(* Client: the methods of pallas-network chainsync::Client (find_intersect,*)
(* request_next, recv_while_must_reply, send_done) feeding every           *)
(* RollForward / RollBackward into the chainsync RollbackBuffer            *)
(* (spec/net/RollbackBuffer.tla, INSTANCEd) and popping settled blocks.    *)
(* Messages follow the ChainSync table of MiniProtocols.                   *)
(*                                                                         *)
(* Blocks: Blk(h, f) = 10 h + f (height h, fork f); 0 is Origin.           *)
EXTENDS MiniProtocols, Integers

CONSTANTS MaxBlocks,   \* longest chain
          Forks,       \* fork labels, e.g. {1, 2}
          MaxSwitch,   \* fork switches per session
          Depths,      \* depths offered to pop_with_depth
          Announce     \* TRUE: the server rolls back to the intersection first

VARIABLES chain, ptr, pend, req, sst,        \* server
          cst, isect, buf, rbl, popped, lost, \* client (buf, rbl = the RollbackBuffer)
          wire, nsw, last                     \* bearer, switch count, last step (observable)

vars == <<chain, ptr, pend, req, sst, cst, isect, buf, rbl, popped, lost, wire, nsw, last>>
svars == <<chain, ptr, pend, req, sst>>
cvars == <<cst, isect, buf, rbl, popped, lost>>

Blk(h, f) == 10 * h + f
Height(b) == b \div 10
ForkOf(b) == b % 10
AllBlocks == { Blk(h, f) : h \in 1..MaxBlocks, f \in Forks }

RB == INSTANCE RollbackBuffer WITH Points <- AllBlocks \cup {0}, MaxDepth <- 0, last <- rbl

CS == ChainSync
Range(s) == { s[i] : i \in DOMAIN s }
OnChain(p) == p = 0 \/ p \in Range(chain)
Pos(p) == IF p = 0 THEN 0 ELSE CHOOSE i \in DOMAIN chain : chain[i] = p
PointAt(i) == IF i = 0 THEN 0 ELSE chain[i]
TipOf(c) == [p |-> IF c = <<>> THEN 0 ELSE c[Len(c)], h |-> Len(c)]
Base == IF popped = <<>> THEN isect ELSE popped[Len(popped)]
View == popped \o buf

M(to, msg, p, pts, tip) == [to |-> to, msg |-> msg, p |-> p, pts |-> pts, tip |-> tip]
NoTip == [p |-> 0, h |-> 0]

SessInit ==
    /\ chain = <<>> /\ ptr = 0 /\ pend = FALSE /\ req = <<>> /\ sst = CS.init
    /\ cst = CS.init /\ isect = 0 /\ buf = <<>> /\ rbl = [op |-> "new"] /\ popped = <<>> /\ lost = FALSE
    /\ wire = <<>> /\ nsw = 0 /\ last = [a |-> "init"]

(* ------------------------------- server -------------------------------- *)
Grow(f) ==
    /\ Len(chain) < MaxBlocks
    /\ IF chain = <<>> THEN TRUE ELSE f >= ForkOf(chain[Len(chain)])
    /\ chain' = Append(chain, Blk(Len(chain) + 1, f))
    /\ last' = [a |-> "grow", b |-> Blk(Len(chain) + 1, f)]
    /\ UNCHANGED <<ptr, pend, req, sst, wire, nsw>> /\ UNCHANGED cvars

\* keep the first k blocks, continue on another fork
Switch(k, f) ==
    /\ nsw < MaxSwitch /\ k \in 0..(Len(chain) - 1)
    /\ f # ForkOf(chain[k + 1])
    /\ chain' = Append(SubSeq(chain, 1, k), Blk(k + 1, f))
    /\ IF ptr > k THEN ptr' = k /\ pend' = TRUE ELSE UNCHANGED <<ptr, pend>>
    /\ nsw' = nsw + 1
    /\ last' = [a |-> "switch", k |-> k, b |-> Blk(k + 1, f)]
    /\ UNCHANGED <<req, sst, wire>> /\ UNCHANGED cvars

ServerRecv ==
    /\ wire # <<>> /\ Head(wire).to = "server"
    /\ MayRecv(CS, "server", sst, Head(wire).msg)
    /\ sst' = Next(CS, sst, Head(wire).msg)
    /\ req' = Head(wire).pts
    /\ wire' = Tail(wire)
    /\ last' = [a |-> "s_recv", msg |-> Head(wire).msg, sst |-> sst']
    /\ UNCHANGED <<chain, ptr, pend, nsw>> /\ UNCHANGED cvars

Reply(msg, p) ==
    /\ MaySend(CS, "server", sst, msg)
    /\ sst' = Next(CS, sst, msg)
    /\ wire' = Append(wire, M("client", msg, p, <<>>, TipOf(chain)))
    /\ last' = [a |-> "s_send", msg |-> msg, p |-> p, tip |-> TipOf(chain), sst |-> sst']

OnChainIdx == { i \in DOMAIN req : OnChain(req[i]) }
ServerReply ==
    /\ wire = <<>>
    /\ CASE sst = "Intersect" ->
              IF OnChainIdx # {}
              THEN LET best == req[CHOOSE i \in OnChainIdx : \A j \in OnChainIdx : i <= j] IN
                   /\ Reply("IntersectFound", best)
                   /\ ptr' = Pos(best) /\ pend' = Announce
              ELSE Reply("IntersectNotFound", 0) /\ UNCHANGED <<ptr, pend>>
         [] sst \in {"CanAwait", "MustReply"} ->
              IF pend THEN Reply("RollBackward", PointAt(ptr)) /\ pend' = FALSE /\ UNCHANGED ptr
              ELSE IF ptr < Len(chain)
                   THEN Reply("RollForward", chain[ptr + 1]) /\ ptr' = ptr + 1 /\ UNCHANGED pend
                   ELSE sst = "CanAwait" /\ Reply("AwaitReply", 0) /\ UNCHANGED <<ptr, pend>>
         [] OTHER -> FALSE
    /\ UNCHANGED <<chain, req, nsw>> /\ UNCHANGED cvars

(* ------------------------------- client -------------------------------- *)
CSend(msg, pts) ==
    /\ wire = <<>> /\ MaySend(CS, "client", cst, msg)
    /\ cst' = Next(CS, cst, msg)
    /\ wire' = Append(wire, M("server", msg, 0, pts, NoTip))
    /\ last' = [a |-> "c_send", msg |-> msg, pts |-> pts, cst |-> cst']
    /\ UNCHANGED <<isect, buf, rbl, popped, lost, nsw>> /\ UNCHANGED svars

Rev(s) == [ i \in 1..Len(s) |-> s[Len(s) + 1 - i] ]
Known == Rev(<<isect>> \o View)                  \* newest first
\* the candidate lists a client offers: everything it knows and the origin, or its newest point only
ClientFindIntersect == \E pts \in { Known \o <<0>>, <<Known[1]>> } : CSend("FindIntersect", pts)
\* after an out-of-scope roll-back the client re-intersects before anything else
ClientRequestNext == ~lost /\ CSend("RequestNext", <<>>)
ClientDone == CSend("Done", <<>>)

ClientRecv ==
    /\ wire # <<>> /\ Head(wire).to = "client"
    /\ LET m == Head(wire) IN
       /\ MayRecv(CS, "client", cst, m.msg)
       /\ cst' = Next(CS, cst, m.msg)
       /\ wire' = Tail(wire)
       /\ CASE m.msg = "IntersectFound" ->
                 \* a fresh buffer sitting on the intersection
                 /\ isect' = m.p /\ buf' = <<>> /\ rbl' = [op |-> "new"] /\ popped' = <<>> /\ lost' = FALSE
                 /\ last' = [a |-> "c_recv", msg |-> m.msg, p |-> m.p, cst |-> cst', buf |-> buf']
            [] m.msg = "RollForward" ->
                 /\ RB!RollForward(m.p)
                 /\ last' = [a |-> "c_recv", msg |-> m.msg, p |-> m.p, cst |-> cst', buf |-> buf']
                 /\ UNCHANGED <<isect, popped, lost>>
            [] m.msg = "RollBackward" ->
                 /\ RB!RollBack(m.p)
                 /\ lost' = (lost \/ (m.p \notin Range(buf) /\ m.p # Base))
                 /\ last' = [a |-> "c_recv", msg |-> m.msg, p |-> m.p, cst |-> cst', buf |-> buf',
                             res |-> rbl'.res, tobase |-> (m.p = Base), base |-> Base]
                 /\ UNCHANGED <<isect, popped>>
            [] OTHER ->   \* AwaitReply, IntersectNotFound
                 /\ last' = [a |-> "c_recv", msg |-> m.msg, p |-> 0, cst |-> cst', buf |-> buf]
                 /\ UNCHANGED <<isect, buf, rbl, popped, lost>>
    /\ UNCHANGED nsw /\ UNCHANGED svars

ClientPop(d) ==
    /\ wire = <<>> /\ cst = "Idle" /\ ~lost /\ Len(buf) > d
    /\ RB!PopWithDepth(d)
    /\ popped' = popped \o rbl'.popped
    /\ last' = [a |-> "pop", d |-> d, popped |-> rbl'.popped, buf |-> buf']
    /\ UNCHANGED <<cst, isect, lost, wire, nsw>> /\ UNCHANGED svars

ServerGrow == \E f \in Forks : Grow(f)
ServerSwitch == \E k \in 0..MaxBlocks, f \in Forks : Switch(k, f)
ClientPopAny == \E d \in Depths : ClientPop(d)
SessNext == \/ ServerGrow \/ ServerSwitch \/ ServerRecv \/ ServerReply
        \/ ClientFindIntersect \/ ClientRequestNext \/ ClientDone \/ ClientRecv \/ ClientPopAny

(* ------------------------------ properties ----------------------------- *)
\* agency alternates per the table: one message at most, expected by its receiver, views agree when quiet
AgencyOK ==
    /\ Len(wire) <= 1
    /\ wire = <<>> => cst = sst
    /\ wire # <<>> => MayRecv(CS, Head(wire).to, IF Head(wire).to = "client" THEN cst ELSE sst, Head(wire).msg)
    /\ ~(HasAgency(CS, "client", cst) /\ HasAgency(CS, "server", sst))

\* the client's view is a copy of the server chain from the intersection to the read pointer
ViewConsistent ==
    (wire = <<>> /\ ~pend /\ ~lost) =>
        /\ OnChain(isect) /\ Pos(isect) <= ptr
        /\ View = SubSeq(chain, Pos(isect) + 1, ptr)

\* OutOfScope is reported only for a roll-back to the buffer's base (nothing buffered to undo)
\* or when the server rolled back beyond what the client still buffered
OutOfScopeJustified ==
    (last.a = "c_recv" /\ last.msg = "RollBackward") =>
        IF last.res = "Handled" THEN last.buf # <<>> /\ last.buf[Len(last.buf)] = last.p
        ELSE last.buf = <<>> /\ (last.tobase \/ Height(last.p) < Height(last.base))

\* blocks are buffered in chain order; so is everything handed on, unless a roll-back went below it
Consecutive(s) == \A i \in 2..Len(s) : Height(s[i]) = Height(s[i - 1]) + 1
BufferOrdered == Consecutive(buf) /\ (~lost => Consecutive(View))

\* MC: `last` and `rbl` only report what the last step did; they are hidden from the
\* fingerprint (VIEW) and the properties about them are checked on every transition
MCView == <<chain, ptr, pend, req, sst, cst, isect, buf, popped, lost, wire, nsw>>
OutOfScopeJustifiedStep == [][OutOfScopeJustified']_vars
=============================================================================
