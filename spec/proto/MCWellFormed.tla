---------------------------- MODULE MCWellFormed ----------------------------
(* Exhaustive configuration of the C22 pushdown machine: every token string *)
(* of length <= MaxLen over a token alphabet that has every head class      *)
(* (leaf ints, definite / chunked strings, arrays and maps of declared      *)
(* length 0, 1, 2 and indefinite, tag, simple, break, unreadable head).     *)
(* `hist` (the string read so far) is the state that is being enumerated;   *)
(* the machine state st is a function of it.                                *)
EXTENDS WellFormed, TLC
CONSTANTS MaxLen, Alphabet
VARIABLE hist

Core == { <<0, 5, 0>>, <<2, 3, 0>>, <<2, 31, 1>>, <<3, 2, 0>>,
          <<4, 1, 0>>, <<4, 2, 0>>, <<4, 31, 1>>, <<5, 1, 0>>, <<5, 31, 1>>,
          <<6, 24, 0>>, <<7, 31, 1>> }
Full == Core \cup { <<3, 31, 1>>, <<4, 0, 0>>, <<5, 0, 0>>, <<7, 22, 0>>, <<0, 31, 1>> }
Tokens == IF Alphabet = "full" THEN Full ELSE Core

MCInit == Init /\ hist = <<>>
Rd(t)  == Len(hist) < MaxLen /\ hist' = Append(hist, t)
NLeaf      == \E t \in Tokens : Leaf(t) /\ Rd(t)
NOpenDef   == \E t \in Tokens : OpenDef(t) /\ Rd(t)
NOpenIndef == \E t \in Tokens : OpenIndef(t) /\ Rd(t)
NChunk     == \E t \in Tokens : Chunk(t) /\ Rd(t)
NBreak     == \E t \in Tokens : Break(t) /\ Rd(t)
NReject    == \E t \in Tokens : Reject(t) /\ Rd(t)
MCNext == NLeaf \/ NOpenDef \/ NOpenIndef \/ NChunk \/ NBreak \/ NReject

\* the machine accepts exactly the well-formed single items
Agree      == (st.phase = "done") <=> WellFormedItem(hist)
\* the fold form used by the trace spec is the same machine
FoldAgrees == Run(hist) = st
\* nothing is accepted before the stack is empty, nothing is open after it is
Shape      == /\ (st.phase = "open") <=> (st.stack # <<>>)
              /\ Len(st.stack) <= Len(hist)
              /\ \A k \in 1..Len(st.stack) : st.stack[k][1] = "n" => st.stack[k][2] >= 1
\* "exactly one": once accepted or rejected, every further token is rejected
Sticky     == [][st.phase \in {"done", "err"} => st'.phase = "err"]_<<st, hist>>
=============================================================================
