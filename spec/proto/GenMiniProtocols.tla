-------------------------- MODULE GenMiniProtocols --------------------------
(* Probe plan and behaviours for C23 (spec -> impl).                       *)
(*  triple: every (protocol, role, state, direction, message) of the       *)
(*    original stack with a shortest message path to the state and the     *)
(*    table's verdict (M1) - the harness reaches the state with real       *)
(*    agents and tries the message through every entry point;              *)
(*  walk: every maximal valid message sequence of at most MaxWalk messages *)
(*    (ends in a terminal state or has MaxWalk messages) with the state    *)
(*    after each message (M2) - replayed through a real client and a real  *)
(*    server agent with the high-level methods.                            *)
EXTENDS MiniProtocols, Json
CONSTANTS MaxWalk
VARIABLES wp, wst, wpath, wstates

TripleVec(t) ==
    LET Q == ByName(t[1]) IN
    [kind |-> "triple", proto |-> t[1], role |-> t[2], state |-> t[3], path |-> PathFor(Q, t[2], t[3]),
     dir |-> t[4], msg |-> t[5],
     allowed |-> StepOK(Q, t[2], t[3], Step(t[4], t[5])),
     next |-> IF Has(Q, t[3], t[5]) THEN Next(Q, t[3], t[5]) ELSE ""]
ASSUME \A t \in Required : PrintT(<<"VEC", ToJson(TripleVec(t))>>)

\* protocols whose two agents both exist (walks drive a real pair)
Walkable == { Q \in ClassicProtocols : <<Q.name, "client">> \in Agents /\ <<Q.name, "server">> \in Agents }

WInit == wp \in Names(Walkable) /\ wst = ByName(wp).init /\ wpath = <<>> /\ wstates = <<>>
WStep(m) ==
    /\ Has(ByName(wp), wst, m)
    /\ wst' = Next(ByName(wp), wst, m)
    /\ wpath' = Append(wpath, m) /\ wstates' = Append(wstates, wst')
    /\ UNCHANGED wp
WNext == Len(wpath) < MaxWalk /\ \E m \in Msgs(ByName(wp)) : WStep(m)
Emit == (Len(wpath) = MaxWalk \/ (wpath # <<>> /\ MsgsFrom(ByName(wp), wst) = {})) =>
           PrintT(<<"VEC", ToJson([kind |-> "walk", proto |-> wp, path |-> wpath, states |-> wstates])>>)
=============================================================================
