CONSTANT Tok = {1, 2}
INIT MCInit
NEXT MCNext
INVARIANTS TypeOK Progress
CHECK_DEADLOCK FALSE
