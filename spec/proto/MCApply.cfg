CONSTANT Tok = {1, 2, 3}
INIT MCInit
NEXT MCNext
INVARIANTS TypeOK Progress
CHECK_DEADLOCK FALSE
