CONSTANTS
  MaxBlocks = 3
  Forks = {1, 2}
  MaxSwitch = 1
  Depths = {1}
  Announce = TRUE
INIT SessInit
NEXT SessNext
VIEW MCView
INVARIANTS AgencyOK ViewConsistent BufferOrdered
PROPERTY OutOfScopeJustifiedStep
CHECK_DEADLOCK FALSE
