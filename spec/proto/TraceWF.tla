------------------------------- MODULE TraceWF -------------------------------
(* Trace validation for C22 (impl -> spec).  One event per message value    *)
(* that the harness generated and pushed through the real codec:            *)
(*   {"ev":"msg","stack":..,"proto":..,"variant":..,"class":..,             *)
(*    "enc":"ok"|"error"|"panic",       outcome of minicbor::to_vec(msg)    *)
(*    "toks":[[major,arg,indef],..],    head tokens of the encoded bytes    *)
(*    "rt":true|false, ...}             decode(encode(msg)) is an equal msg *)
(* The property demands of every message: it encodes, the bytes are exactly *)
(* one well-formed CBOR item (the pushdown machine of WellFormed accepts    *)
(* the head tokens), and it decodes back to an equal message.               *)
(*                                                                          *)
(* Messages are independent of each other, so instead of stopping at the    *)
(* first event the property does not allow (which would hide every later    *)
(* one and cost one TLC run per distinct defect) the trace spec consumes    *)
(* the whole trace and collects the events it rejects in `rej`.  The trace  *)
(* is accepted iff every event was consumed and rej is empty; WFVerdict     *)
(* prints one <<"REJ", index, encoded, one_item, round_trips, phase>> line  *)
(* per rejected event (read by checks/C22.py).                              *)
EXTENDS WellFormed, TraceKit

VARIABLES l, rej
tvars == <<st, l, rej>>

IsEvent(e) == l <= NRec /\ Rec[l].ev = e /\ l' = l + 1

Encoded(r)    == r.enc = "ok"
RoundTrips(r) == r.rt = TRUE
\* machine state after the last token of the message (nothing to run if it did not encode)
Final(r)      == IF Encoded(r) THEN Run(r.toks) ELSE Init0
Holds(r)      == Encoded(r) /\ Final(r).phase = "done" /\ RoundTrips(r)

TInit == Init /\ l = 1 /\ rej = <<>>

TMsgOk  == /\ IsEvent("msg")
           /\ Holds(Rec[l])
           /\ st' = Final(Rec[l])
           /\ UNCHANGED rej
TMsgBad == /\ IsEvent("msg")
           /\ ~Holds(Rec[l])
           /\ st' = Final(Rec[l])
           /\ rej' = Append(rej, <<l, Encoded(Rec[l]), st'.phase = "done", RoundTrips(Rec[l]), st'.phase>>)
TReset  == IsEvent("reset") /\ st' = Init0 /\ UNCHANGED rej

TNext == TMsgOk \/ TMsgBad \/ TReset

\* rej only grows, one entry per rejected event, in trace order
RejMonotone == [][Len(rej') >= Len(rej)]_tvars

RECURSIVE PrintAll(_, _)
PrintAll(s, k) == IF k > Len(s) THEN TRUE ELSE PrintT(<<"REJ">> \o s[k]) /\ PrintAll(s, k + 1)

\* the final state is the (only) state with l = NRec + 1; its rej is read through a TLCSet register
Note == IF l = NRec + 1 THEN TLCSet(7, rej) ELSE TRUE
WFVerdict == /\ TraceVerdict
             /\ LET r == TLCGet(7) IN PrintT(<<"REJECTED", Len(r)>>) /\ PrintAll(r, 1)
=============================================================================
