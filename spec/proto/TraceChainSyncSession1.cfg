CONSTANTS
  MaxBlocks = 5
  Forks = {1, 2}
  MaxSwitch = 1000000
  Depths = {0, 1, 2, 3}
  Announce = TRUE
  Level = 1
INIT TInit
NEXT TNext
CHECK_DEADLOCK FALSE
POSTCONDITION TraceVerdict
