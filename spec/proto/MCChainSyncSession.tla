------------------------- MODULE MCChainSyncSession -------------------------
(* Exhaustive exploration of the chain-sync session model on small         *)
(* constants: every interleaving of chain growth, fork switches, client    *)
(* requests, server answers, and buffer pops.                              *)
EXTENDS ChainSyncSession
=============================================================================
