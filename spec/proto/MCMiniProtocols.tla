-------------------------- MODULE MCMiniProtocols --------------------------
(* Exhaustive check of the mini-protocol tables (C23, C24):                *)
(*  - every table is well-formed (closed, deterministic, terminal states   *)
(*    are exactly the states without exits / without agency, every state   *)
(*    reachable) - ASSUME, evaluated once;                                 *)
(*  - the two-party session model over every protocol keeps agency         *)
(*    exclusive, never sends a message its receiver does not expect, and   *)
(*    deadlocks only in terminal states.                                   *)
EXTENDS MiniProtocolsSession

ASSUME \A Q \in AllProtocols : WellFormed(Q)
\* names are unique
ASSUME \A Q1, Q2 \in AllProtocols : Q1.name = Q2.name => Q1 = Q2
\* the shortest path to a state really leads there
ASSUME \A Q \in AllProtocols : \A s \in States(Q) : Run(Q, Q.init, PathTo(Q, s)) = s

MCInit == SInit(AllProtocols)
MCNext == SNext
Bound == WireBound(3)
=============================================================================
