-------------------------- MODULE MCMiniProtocols --------------------------
(* Exhaustive check of the mini-protocol tables (C23, C24):                *)
(*  - every table is well-formed (closed, deterministic, terminal states   *)
(*    are exactly the states without exits / without agency, every state   *)
(*    reachable) - ASSUME, evaluated once;                                 *)
(*  - the two-party session model over every protocol keeps agency         *)
(*    exclusive, never sends a message its receiver does not expect, and   *)
(*    deadlocks only in terminal states.                                   *)
EXTENDS MiniProtocolsSession

ASSUME \A Q \in AllProtocols : WellFormed(Q)
\* names are unique
ASSUME \A Q1, Q2 \in AllProtocols : Q1.name = Q2.name => Q1 = Q2
\* the shortest path to a state really leads there
ASSUME \A Q \in AllProtocols : \A s \in States(Q) : Run(Q, Q.init, PathTo(Q, s)) = s

\* Done paths: every protocol has exactly one terminal state, and (handshake aside, which ends
\* with the server's answer) a client-agency state from which one client message reaches it
ASSUME \A Q \in AllProtocols : Cardinality({ s \in States(Q) : Q.agency[s] = "nobody" }) = 1
ASSUME \A Q \in AllProtocols : Q.name \in {"handshake", "handshake_n2c"} \/
          \E t \in Q.trans : Q.agency[t.from] = "client" /\ Q.agency[t.to] = "nobody"

MCInit == SInit(AllProtocols)
MCNext == SNext
Bound == WireBound(3)
=============================================================================
