CONSTANTS
  MaxLen = 4
  Alphabet = "full"
INIT MCInit
NEXT MCNext
INVARIANTS Agree FoldAgrees Shape
PROPERTY Sticky
CHECK_DEADLOCK FALSE
