--------------------------- MODULE MiniProtocols ---------------------------
(* C23 / C24 - the Ouroboros mini-protocol state machines.                 *)
(*                                                                         *)
(* Tables transcribed from "The Shelley Networking Protocol" (network-spec *)
(* ch. 3; list in DESIGN.md 3.5), cross-checked against the mermaid        *)
(* diagrams in pallas-network/src/miniprotocols/{txsubmission,handshake}/  *)
(* README.md.  leios-notify / leios-fetch: module docs of                  *)
(* pallas-network2/src/protocol/leios*.rs (only reference available).      *)
(* Granularity: spec states = the states the implementations' public State *)
(* enums expose (tx-monitor Busy is one state accepting the three replies; *)
(* tx-submission RequestTxIds is two message classes, by blocking flag).   *)
(*                                                                         *)
(* Constant-level module (no variables): the two-party session model over  *)
(* these tables is MiniProtocolsSession.tla.                               *)
EXTENDS ProtocolFSM, TLC

Handshake == [ name |-> "handshake", init |-> "Propose",
  agency |-> [ Propose |-> "client", Confirm |-> "server", Done |-> "nobody" ],
  trans |-> { Tr("Propose", "Propose", "Confirm"),
              Tr("Confirm", "Accept", "Done"),
              Tr("Confirm", "Refuse", "Done"),
              Tr("Confirm", "QueryReply", "Done") } ]

\* node-to-client handshake: same machine, other version numbers and version data
\* (handshake::N2CClient / N2CServer are the same generic agents over n2c::VersionData)
HandshakeN2C == [ Handshake EXCEPT !.name = "handshake_n2c" ]

ChainSync == [ name |-> "chainsync", init |-> "Idle",
  agency |-> [ Idle |-> "client", CanAwait |-> "server", MustReply |-> "server",
               Intersect |-> "server", Done |-> "nobody" ],
  trans |-> { Tr("Idle", "RequestNext", "CanAwait"),
              Tr("Idle", "FindIntersect", "Intersect"),
              Tr("Idle", "Done", "Done"),
              Tr("CanAwait", "AwaitReply", "MustReply"),
              Tr("CanAwait", "RollForward", "Idle"),
              Tr("CanAwait", "RollBackward", "Idle"),
              Tr("MustReply", "RollForward", "Idle"),
              Tr("MustReply", "RollBackward", "Idle"),
              Tr("Intersect", "IntersectFound", "Idle"),
              Tr("Intersect", "IntersectNotFound", "Idle") } ]

BlockFetch == [ name |-> "blockfetch", init |-> "Idle",
  agency |-> [ Idle |-> "client", Busy |-> "server", Streaming |-> "server", Done |-> "nobody" ],
  trans |-> { Tr("Idle", "RequestRange", "Busy"),
              Tr("Idle", "ClientDone", "Done"),
              Tr("Busy", "StartBatch", "Streaming"),
              Tr("Busy", "NoBlocks", "Idle"),
              Tr("Streaming", "Block", "Streaming"),
              Tr("Streaming", "BatchDone", "Idle") } ]

\* the "client" (initiator) is the side that owns the transactions
TxSubmission == [ name |-> "txsubmission", init |-> "Init",
  agency |-> [ Init |-> "client", Idle |-> "server", TxIdsBlocking |-> "client",
               TxIdsNonBlocking |-> "client", Txs |-> "client", Done |-> "nobody" ],
  trans |-> { Tr("Init", "Init", "Idle"),
              Tr("Idle", "RequestTxIdsBlocking", "TxIdsBlocking"),
              Tr("Idle", "RequestTxIdsNonBlocking", "TxIdsNonBlocking"),
              Tr("Idle", "RequestTxs", "Txs"),
              Tr("TxIdsBlocking", "ReplyTxIds", "Idle"),
              Tr("TxIdsBlocking", "Done", "Done"),
              Tr("TxIdsNonBlocking", "ReplyTxIds", "Idle"),
              Tr("Txs", "ReplyTxs", "Idle") } ]

KeepAlive == [ name |-> "keepalive", init |-> "Client",
  agency |-> [ Client |-> "client", Server |-> "server", Done |-> "nobody" ],
  trans |-> { Tr("Client", "KeepAlive", "Server"),
              Tr("Client", "Done", "Done"),
              Tr("Server", "ResponseKeepAlive", "Client") } ]

PeerSharing == [ name |-> "peersharing", init |-> "Idle",
  agency |-> [ Idle |-> "client", Busy |-> "server", Done |-> "nobody" ],
  trans |-> { Tr("Idle", "ShareRequest", "Busy"),
              Tr("Idle", "Done", "Done"),
              Tr("Busy", "SharePeers", "Idle") } ]

LocalState == [ name |-> "localstate", init |-> "Idle",
  agency |-> [ Idle |-> "client", Acquiring |-> "server", Acquired |-> "client",
               Querying |-> "server", Done |-> "nobody" ],
  trans |-> { Tr("Idle", "Acquire", "Acquiring"),
              Tr("Idle", "Done", "Done"),
              Tr("Acquiring", "Acquired", "Acquired"),
              Tr("Acquiring", "Failure", "Idle"),
              Tr("Acquired", "Query", "Querying"),
              Tr("Acquired", "ReAcquire", "Acquiring"),
              Tr("Acquired", "Release", "Idle"),
              Tr("Querying", "Result", "Acquired") } ]

LocalTxSubmission == [ name |-> "localtxsubmission", init |-> "Idle",
  agency |-> [ Idle |-> "client", Busy |-> "server", Done |-> "nobody" ],
  trans |-> { Tr("Idle", "SubmitTx", "Busy"),
              Tr("Idle", "Done", "Done"),
              Tr("Busy", "AcceptTx", "Idle"),
              Tr("Busy", "RejectTx", "Idle") } ]

\* pallas has both Message::Acquire and Message::AwaitAcquire; the network
\* spec's MsgAwaitAcquire shares MsgAcquire's wire form, so both are allowed
\* from Acquired (permissive where the sources do not separate them).
TxMonitor == [ name |-> "txmonitor", init |-> "Idle",
  agency |-> [ Idle |-> "client", Acquiring |-> "server", Acquired |-> "client",
               Busy |-> "server", Done |-> "nobody" ],
  trans |-> { Tr("Idle", "Acquire", "Acquiring"),
              Tr("Idle", "Done", "Done"),
              Tr("Acquiring", "Acquired", "Acquired"),
              Tr("Acquired", "Acquire", "Acquiring"),
              Tr("Acquired", "AwaitAcquire", "Acquiring"),
              Tr("Acquired", "Release", "Idle"),
              Tr("Acquired", "RequestHasTx", "Busy"),
              Tr("Acquired", "RequestNextTx", "Busy"),
              Tr("Acquired", "RequestSizeAndCapacity", "Busy"),
              Tr("Busy", "ResponseHasTx", "Acquired"),
              Tr("Busy", "ResponseNextTx", "Acquired"),
              Tr("Busy", "ResponseSizeAndCapacity", "Acquired") } ]

LeiosNotify == [ name |-> "leiosnotify", init |-> "Idle",
  agency |-> [ Idle |-> "client", Busy |-> "server", Done |-> "nobody" ],
  trans |-> { Tr("Idle", "RequestNext", "Busy"),
              Tr("Idle", "Done", "Done"),
              Tr("Busy", "BlockAnnouncement", "Idle"),
              Tr("Busy", "BlockOffer", "Idle"),
              Tr("Busy", "BlockTxsOffer", "Idle"),
              Tr("Busy", "Votes", "Idle") } ]

LeiosFetch == [ name |-> "leiosfetch", init |-> "Idle",
  agency |-> [ Idle |-> "client", AwaitingBlock |-> "server", AwaitingBlockTxs |-> "server",
               Done |-> "nobody" ],
  trans |-> { Tr("Idle", "BlockRequest", "AwaitingBlock"),
              Tr("Idle", "BlockTxsRequest", "AwaitingBlockTxs"),
              Tr("Idle", "Done", "Done"),
              Tr("AwaitingBlock", "Block", "Idle"),
              Tr("AwaitingBlockTxs", "BlockTxs", "Idle") } ]

\* original stack (pallas-network), property C23
ClassicProtocols == { Handshake, HandshakeN2C, ChainSync, BlockFetch, TxSubmission, KeepAlive, PeerSharing,
                      LocalState, LocalTxSubmission, TxMonitor }
\* P2P stack (pallas-network2), property C24
P2PProtocols == { Handshake, KeepAlive, ChainSync, BlockFetch, PeerSharing, TxSubmission,
                  LeiosNotify, LeiosFetch }
AllProtocols == ClassicProtocols \cup P2PProtocols
Names(PS) == { Q.name : Q \in PS }
ByName(n) == CHOOSE Q \in AllProtocols : Q.name = n

(* ------------------------- agent semantics (C23) ----------------------- *)
(* An agent (pallas-network Client / Server of a protocol) in state s is   *)
(* asked to perform an exchange: a sequence of steps [dir, msg], dir =     *)
(* "send" (the agent emits msg) or "recv" (the peer's msg is delivered).   *)
(* A step is allowed iff the table has it and the right side has agency.   *)
Step(d, m) == [dir |-> d, msg |-> m]
StepOK(Q, r, s, st) ==
    IF st.dir = "send" THEN MaySend(Q, r, s, st.msg) ELSE MayRecv(Q, r, s, st.msg)

\* the longest allowed prefix of an exchange: state reached and its length
RECURSIVE Exchange(_, _, _, _)
Exchange(Q, r, s, steps) ==
    IF steps = <<>> \/ ~StepOK(Q, r, s, Head(steps)) THEN [state |-> s, n |-> 0]
    ELSE LET x == Exchange(Q, r, Next(Q, s, Head(steps).msg), Tail(steps))
         IN  [state |-> x.state, n |-> x.n + 1]

(* What the property demands of one call on an agent:                      *)
(*  - every step allowed  => the call is accepted ("ok", or "app" when the *)
(*    method reports an application-level outcome such as AcquireFailure   *)
(*    as Err) and a committing entry point ends in the table's next state; *)
(*    the low-level send_message / recv_message do not track the state in  *)
(*    this code base (the high-level methods do), so either the old or the *)
(*    next state is accepted there (the property is silent on the layer);  *)
(*  - some step not allowed => rejected with an error, state = the state   *)
(*    after the allowed prefix (= unchanged for single-step calls).        *)
(*  - cond: an entry point documented as "respond if a request is pending" *)
(*    may also do nothing at all and return Ok (nothing sent, no change).  *)
AgentOK(Q, r, s, steps, commit, cond, res, after) ==
    LET x == Exchange(Q, r, s, steps) IN
    IF x.n = Len(steps)
    THEN /\ res \in {"ok", "app"}
         /\ IF commit THEN after = x.state ELSE after \in {s, x.state}
    ELSE \/ res = "reject" /\ after = x.state
         \/ cond /\ res = "ok" /\ x.n = 0 /\ after = s

(* The same call when step `bad` (a recv) carries a message of the right   *)
(* kind with a payload its receiver cannot accept (a cookie that was not   *)
(* asked for, an undecodable body).  The tables do not say whether an      *)
(* agent looks at the payload, so it may treat the message as any other of *)
(* its kind (AgentOK); but if it refuses it - whatever the reason for the  *)
(* error, payload or table - "rejects with an error rather than a state    *)
(* change" applies: the state is the one before that step.                 *)
AgentOKBad(Q, r, s, steps, commit, cond, res, after, bad) ==
    LET pre == Exchange(Q, r, s, SubSeq(steps, 1, bad - 1)) IN
    IF bad \in 1..Len(steps) /\ pre.n = bad - 1
    THEN \/ AgentOK(Q, r, s, steps, commit, cond, res, after)
         \/ res \in {"refuse", "reject", "app"} /\ after = pre.state
    ELSE AgentOK(Q, r, s, steps, commit, cond, res, after)

(* What of this can be exercised through the public API of pallas-network: *)
(*  - there is no tx-monitor server agent;                                 *)
(*  - NoCommitMsg: the agent has no state-tracking method that sends the   *)
(*    message (keep-alive and tx-monitor clients can send Done only with   *)
(*    send_message; the handshake server has no method for QueryReply), so *)
(*    states behind it cannot be set up for that agent;                    *)
(*  - Inexpressible: send_message is private in the local-tx-submission    *)
(*    agents, so messages of the other role cannot even be attempted.      *)
Agents == { <<Q.name, r>> : Q \in ClassicProtocols, r \in Roles } \ { <<"txmonitor", "server">> }
NoCommitMsg == { <<"keepalive", "client", "Done">>, <<"txmonitor", "client", "Done">>,
                 <<"handshake", "server", "QueryReply">>, <<"handshake_n2c", "server", "QueryReply">> }
\* in walks the pallas server's RejectTx is replaced by a decodable one from a raw
\* channel (its own encoding is not accepted by the pallas client decoder - a codec
\* matter outside this property), so the server's state is not observed after it
WalkBlind == NoCommitMsg \cup { <<"localtxsubmission", "server", "RejectTx">> }
Inexpressible == { <<"localtxsubmission", "client", "send", "AcceptTx">>,
                   <<"localtxsubmission", "client", "send", "RejectTx">>,
                   <<"localtxsubmission", "server", "send", "SubmitTx">>,
                   <<"localtxsubmission", "server", "send", "Done">> }

Restrict(Q, r) == [Q EXCEPT !.trans = { t \in Q.trans : <<Q.name, r, t.msg>> \notin NoCommitMsg }]
ReachableBy(Q, r) == Reachable(Restrict(Q, r))
PathFor(Q, r, s) == PathTo(Restrict(Q, r), s)

\* all (protocol, role, state, direction, message) probes the property quantifies over
Triples == UNION { { <<Q.name, r, s, d, m>> : r \in Roles, s \in States(Q), d \in {"send", "recv"}, m \in Msgs(Q) }
                   : Q \in ClassicProtocols }
Required == { t \in Triples : /\ <<t[1], t[2]>> \in Agents
                              /\ t[3] \in ReachableBy(ByName(t[1]), t[2])
                              /\ <<t[1], t[2], t[4], t[5]>> \notin Inexpressible }
=============================================================================
