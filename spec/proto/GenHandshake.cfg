CONSTANTS
  Versions = {1, 2, 3}
  Magics = {1, 2}
  Rests = {0}
INIT Init
NEXT GNext
INVARIANT Emit
CHECK_DEADLOCK FALSE
