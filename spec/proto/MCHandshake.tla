----------------------------- MODULE MCHandshake -----------------------------
(* Exhaustive configuration of Handshake (C25): every pair of tables over   *)
(* 3 versions x 2 magics x 2 data variants (125 x 125 pairs), every reply   *)
(* of the design model checked against the property predicate.              *)
EXTENDS Handshake, TLC

\* The property predicate is not vacuous: it rejects the classic wrong negotiators.
c0 == { <<1, 1, 0>>, <<2, 1, 0>>, <<3, 1, 0>> }
s0 == { <<1, 1, 0>>, <<2, 1, 0>> }
s1 == { <<2, 2, 0>>, <<1, 1, 0>> }
s3 == { <<3, 1, 0>> }
d0 == { <<2, 1, 0>> }
Acc(v, m) == <<[t |-> "accept", v |-> v, m |-> m, x |-> 0]>>
ASSUME RepliesOk(c0, s0, Acc(2, 1))                        \* highest common: fine
ASSUME ~RepliesOk(c0, s0, Acc(1, 1))                       \* a lower common version
ASSUME ~RepliesOk(c0, s0, Acc(3, 1))                       \* not offered by the responder
ASSUME ~RepliesOk(c0, s1, Acc(2, 2))                       \* magics differ on the accepted version
ASSUME ~RepliesOk(c0, s0, Acc(2, 2))                       \* accepted data carries another magic
ASSUME RepliesOk(c0, s1, <<[t |-> "refuse", why |-> "refused", v |-> 2]>>)   \* silent: common version, refused
ASSUME RepliesOk(d0, s3, <<[t |-> "refuse", why |-> "mismatch", vs |-> <<3>>]>>)
ASSUME ~RepliesOk(d0, s3, <<[t |-> "refuse", why |-> "mismatch", vs |-> <<2>>]>>)   \* lists the client's versions
ASSUME ~RepliesOk(d0, s3, <<[t |-> "refuse", why |-> "mismatch", vs |-> <<>>]>>)
ASSUME ~RepliesOk(d0, s3, <<[t |-> "refuse", why |-> "refused", v |-> 3]>>)       \* disjoint but not a mismatch
ASSUME ~RepliesOk(d0, s3, <<>>)                                                   \* disjoint and silent
=============================================================================
