CONSTANTS
  MaxWalk = 5
INIT WInit
NEXT WNext
INVARIANT Emit
CHECK_DEADLOCK FALSE
