------------------------ MODULE GenChainSyncSession ------------------------
(* Script generator for the chain-sync session model (spec -> impl, M2).   *)
(* Run with -simulate: every simulated behaviour that reaches MaxOps steps *)
(* (or ends with both sides Done) is printed once as                       *)
(*   [ {step: <last>, cst, sst, buf, popped}, ... ]                         *)
(* step = what happened (server chain events, wire events with payloads,   *)
(* pops), the rest = the model state after it.  hist exists only here.     *)
EXTENDS ChainSyncSession, Json
CONSTANT MaxOps
VARIABLE hist

Obs == [step |-> last, cst |-> cst, sst |-> sst, buf |-> buf, popped |-> popped, lost |-> lost]
Finished == cst = "Done" /\ sst = "Done"
GInit == SessInit /\ hist = <<>>
GNext == Len(hist) < MaxOps /\ ~Finished /\ SessNext /\ hist' = Append(hist, Obs')
Emit == (Len(hist) = MaxOps \/ (Finished /\ hist # <<>>)) => PrintT(<<"VEC", ToJson(hist)>>)
=============================================================================
