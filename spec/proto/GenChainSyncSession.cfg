CONSTANTS
  MaxBlocks = 5
  Forks = {1, 2}
  MaxSwitch = 2
  Depths = {0, 1, 2}
  Announce = TRUE
  MaxOps = 40
INIT GInit
NEXT GNext
INVARIANT Emit
CHECK_DEADLOCK FALSE
