----------------------- MODULE MiniProtocolsSession -----------------------
(* Two-party session model over the mini-protocol tables: one client, one  *)
(* server, each with its own view of the protocol state, and the bearer    *)
(* between them.  A peer sends only what the table lets its role send in   *)
(* its own view.  Checked by MCMiniProtocols: agency is exclusive, every   *)
(* message in flight is expected by its receiver, messages never cross,    *)
(* both sides agree on the state whenever the bearer is empty, and the     *)
(* only deadlocks are completed sessions.                                  *)
EXTENDS MiniProtocols

(* ------------------------- two-party session model --------------------- *)
VARIABLES proto,   \* name of the protocol spoken on this channel
          cst,     \* the client's view of the protocol state
          sst,     \* the server's view
          wire     \* messages in flight: [to |-> role, msg |-> m]

svars == <<proto, cst, sst, wire>>
Pr == ByName(proto)
View(r) == IF r = "client" THEN cst ELSE sst

SInit(PS) ==
    /\ proto \in Names(PS)
    /\ cst = ByName(proto).init /\ sst = ByName(proto).init
    /\ wire = <<>>

\* a peer sends only what the table lets its role send in its own view
Send(r, m) ==
    /\ MaySend(Pr, r, View(r), m)
    /\ wire' = Append(wire, [to |-> Peer(r), msg |-> m])
    /\ IF r = "client" THEN cst' = Next(Pr, cst, m) /\ UNCHANGED sst
                       ELSE sst' = Next(Pr, sst, m) /\ UNCHANGED cst
    /\ UNCHANGED proto

Recv(r) ==
    /\ wire # <<>> /\ Head(wire).to = r
    /\ MayRecv(Pr, r, View(r), Head(wire).msg)
    /\ wire' = Tail(wire)
    /\ IF r = "client" THEN cst' = Next(Pr, cst, Head(wire).msg) /\ UNCHANGED sst
                       ELSE sst' = Next(Pr, sst, Head(wire).msg) /\ UNCHANGED cst
    /\ UNCHANGED proto

ClientSend == \E m \in Msgs(Pr) : Send("client", m)
ServerSend == \E m \in Msgs(Pr) : Send("server", m)
ClientRecv == Recv("client")
ServerRecv == Recv("server")
SNext == ClientSend \/ ServerSend \/ ClientRecv \/ ServerRecv

\* session invariants
\* a side that keeps agency (block-fetch Streaming) may run ahead of its peer;
\* the bearer is bounded in the MC config only
WireBound(n) == Len(wire) <= n
\* everything in flight travels in one direction (no crossing messages)
OneDirection == \A i, j \in 1..Len(wire) : wire[i].to = wire[j].to
AgencyExclusive == ~(HasAgency(Pr, "client", cst) /\ HasAgency(Pr, "server", sst))
InFlightExpected == wire # <<>> => MayRecv(Pr, Head(wire).to, View(Head(wire).to), Head(wire).msg)
ViewsAgree == wire = <<>> => cst = sst
\* Done paths: once a side is in a terminal state it neither sends nor accepts anything,
\* and as soon as the bearer is drained the other side is terminal too
Terminal(s) == Pr.agency[s] = "nobody"
DoneIsFinal ==
    /\ Terminal(cst) => \A m \in Msgs(Pr) : ~MaySend(Pr, "client", cst, m) /\ ~MayRecv(Pr, "client", cst, m)
    /\ Terminal(sst) => \A m \in Msgs(Pr) : ~MaySend(Pr, "server", sst, m) /\ ~MayRecv(Pr, "server", sst, m)
    /\ (wire = <<>> /\ (Terminal(cst) \/ Terminal(sst))) => (Terminal(cst) /\ Terminal(sst) /\ ~ENABLED SNext)
\* the only deadlocks are completed sessions
QuietOnlyWhenDone == (~ENABLED SNext) => (cst = sst /\ Pr.agency[cst] = "nobody")
=============================================================================
