CONSTANTS
  Versions = {1}
  Magics = {1}
  Rests = {0}
INIT TInit
NEXT TNext
CHECK_DEADLOCK FALSE
POSTCONDITION TraceVerdict
