----------------------------- MODULE WellFormed -----------------------------
(* C22 - "exactly one well-formed CBOR data item", as a strict generic      *)
(* decoder sees it (RFC 8949 s.3), over *head tokens*.                       *)
(*                                                                           *)
(* A token is the head of one CBOR data item with its payload bytes skipped: *)
(*      <<m, a, i>>   m = major type 0..7   (anything else: unreadable head) *)
(*                    a = argument (count for arrays/maps, length for         *)
(*                        strings, value otherwise; clipped to 32 bits)       *)
(*                    i = 1 iff additional information 31 (indefinite/break)  *)
(* so <<7, 31, 1>> is the "break" stop code.                                  *)
(*                                                                           *)
(* The machine is a pushdown automaton: a stack of open containers,           *)
(*      <<"n", r>>    definite container / tag, r >= 1 items still missing    *)
(*      <<"ia">>      indefinite array                                        *)
(*      <<"im", p>>   indefinite map, p = parity of the items seen so far     *)
(*      <<"is", m>>   indefinite byte (m=2) / text (m=3) string: chunks only  *)
(* and a phase: "expect" (nothing read), "open" (inside the item), "done"     *)
(* (exactly one complete item read), "err".  A token string is accepted iff   *)
(* the phase is "done" after the last token: declared container lengths match *)
(* the items actually present, break closes only indefinite containers, maps  *)
(* hold 2n items, a tag wraps one item, nothing follows the item.             *)
EXTENDS Integers, Sequences

VARIABLE st          \* [stack |-> Seq(frame), phase |-> STRING]

Init0 == [stack |-> <<>>, phase |-> "expect"]

Major(t) == t[1]
Arg(t)   == t[2]
Indef(t) == t[3] = 1

IsBreak(t) == Major(t) = 7 /\ Indef(t)
\* a head no strict decoder can read: unknown major, or additional info 31
\* on a major type that has no indefinite form
IsBad(t) == \/ Major(t) \notin 0..7
            \/ Indef(t) /\ Major(t) \in {0, 1, 6}
            \/ Arg(t) < 0
\* a complete item in one token
IsLeaf(t) == /\ ~IsBad(t) /\ ~Indef(t)
             /\ \/ Major(t) \in {0, 1, 2, 3, 7}
                \/ Major(t) \in {4, 5} /\ Arg(t) = 0
IsOpenDef(t)   == ~IsBad(t) /\ ~Indef(t) /\ (Major(t) = 6 \/ (Major(t) \in {4, 5} /\ Arg(t) > 0))
IsOpenIndef(t) == Indef(t) /\ Major(t) \in {2, 3, 4, 5}

Top(s)  == s[Len(s)]
Pop(s)  == SubSeq(s, 1, Len(s) - 1)

\* one item was completed below the current top of the stack
RECURSIVE ItemDone(_)
ItemDone(s) ==
    IF s = <<>> THEN <<>>
    ELSE LET f == Top(s) IN
         CASE f[1] = "n"  -> IF f[2] = 1 THEN ItemDone(Pop(s)) ELSE Append(Pop(s), <<"n", f[2] - 1>>)
           [] f[1] = "ia" -> s
           [] f[1] = "im" -> Append(Pop(s), <<"im", 1 - f[2]>>)
           [] OTHER       -> s        \* "is": unreachable, chunks never complete an item here

After(s) == [stack |-> s, phase |-> IF s = <<>> THEN "done" ELSE "open"]
Err      == [stack |-> <<>>, phase |-> "err"]

InString(s) == s.stack # <<>> /\ Top(s.stack)[1] = "is"

\* classification of token t in state s: which transition fires
Class(s, t) ==
    IF s.phase \in {"done", "err"} THEN "reject"
    ELSE IF IsBad(t) THEN "reject"
    ELSE IF InString(s) THEN
            IF IsBreak(t) THEN "break"
            ELSE IF Major(t) = Top(s.stack)[2] /\ ~Indef(t) THEN "chunk"
            ELSE "reject"
    ELSE IF IsBreak(t) THEN
            IF s.stack # <<>> /\ (Top(s.stack)[1] = "ia" \/ (Top(s.stack)[1] = "im" /\ Top(s.stack)[2] = 0))
            THEN "break" ELSE "reject"
    ELSE IF IsLeaf(t) THEN "leaf"
    ELSE IF IsOpenDef(t) THEN "opendef"
    ELSE IF IsOpenIndef(t) THEN "openindef"
    ELSE "reject"

Need(t) == IF Major(t) = 6 THEN 1 ELSE IF Major(t) = 5 THEN 2 * Arg(t) ELSE Arg(t)
IndefFrame(t) == IF Major(t) = 4 THEN <<"ia">> ELSE IF Major(t) = 5 THEN <<"im", 0>> ELSE <<"is", Major(t)>>

StepC(s, t, c) ==
    CASE c = "leaf"      -> After(ItemDone(s.stack))
      [] c = "opendef"   -> [stack |-> Append(s.stack, <<"n", Need(t)>>), phase |-> "open"]
      [] c = "openindef" -> [stack |-> Append(s.stack, IndefFrame(t)), phase |-> "open"]
      [] c = "chunk"     -> s
      [] c = "break"     -> After(ItemDone(Pop(s.stack)))
      [] OTHER           -> Err
Step(s, t) == StepC(s, t, Class(s, t))

RECURSIVE RunFrom(_, _, _)
RunFrom(s, toks, k) == IF k > Len(toks) THEN s ELSE RunFrom(Step(s, toks[k]), toks, k + 1)
Run(toks)     == RunFrom(Init0, toks, 1)
Accepts(toks) == Run(toks).phase = "done"

---------------------------------------------------------------------------
\* The machine as actions (one per transition class), for exhaustive checking.
Init == st = Init0
Leaf(t)      == Class(st, t) = "leaf"      /\ st' = StepC(st, t, "leaf")
OpenDef(t)   == Class(st, t) = "opendef"   /\ st' = StepC(st, t, "opendef")
OpenIndef(t) == Class(st, t) = "openindef" /\ st' = StepC(st, t, "openindef")
Chunk(t)     == Class(st, t) = "chunk"     /\ st' = StepC(st, t, "chunk")
Break(t)     == Class(st, t) = "break"     /\ st' = StepC(st, t, "break")
Reject(t)    == Class(st, t) = "reject"    /\ st' = StepC(st, t, "reject")

---------------------------------------------------------------------------
\* Reference: the recursive (grammar-shaped) definition of "one well-formed
\* item starts at position k"; value = position after the item, 0 = none.
RECURSIVE Item(_, _), Items(_, _, _), UntilBreak(_, _), PairsUntilBreak(_, _), Chunks(_, _, _)
Item(t, k) ==
    IF k > Len(t) \/ k = 0 THEN 0
    ELSE LET h == t[k] IN
         IF IsBad(h) \/ IsBreak(h) THEN 0
         ELSE IF Indef(h) THEN
                 CASE Major(h) = 4 -> UntilBreak(t, k + 1)
                   [] Major(h) = 5 -> PairsUntilBreak(t, k + 1)
                   [] Major(h) \in {2, 3} -> Chunks(t, k + 1, Major(h))
                   [] OTHER -> 0
         ELSE CASE Major(h) \in {0, 1, 2, 3, 7} -> k + 1
                [] Major(h) = 4 -> Items(t, k + 1, Arg(h))
                [] Major(h) = 5 -> Items(t, k + 1, 2 * Arg(h))
                [] Major(h) = 6 -> Item(t, k + 1)
                [] OTHER -> 0
Items(t, k, n) == IF n = 0 \/ k = 0 THEN k ELSE Items(t, Item(t, k), n - 1)
UntilBreak(t, k) ==
    IF k > Len(t) \/ k = 0 THEN 0
    ELSE IF IsBreak(t[k]) THEN k + 1 ELSE UntilBreak(t, Item(t, k))
PairsUntilBreak(t, k) ==
    IF k > Len(t) \/ k = 0 THEN 0
    ELSE IF IsBreak(t[k]) THEN k + 1 ELSE PairsUntilBreak(t, Item(t, Item(t, k)))
Chunks(t, k, m) ==
    IF k > Len(t) \/ k = 0 THEN 0
    ELSE IF IsBreak(t[k]) THEN k + 1
    ELSE IF Major(t[k]) = m /\ ~Indef(t[k]) /\ ~IsBad(t[k]) THEN Chunks(t, k + 1, m) ELSE 0

WellFormedItem(t) == Item(t, 1) = Len(t) + 1
=============================================================================
