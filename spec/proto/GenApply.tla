------------------------------ MODULE GenApply ------------------------------
(* Vector generators for C24 (spec -> impl, M1).                           *)
(*                                                                         *)
(* Pairs (cfg GenApplyPairs): every (data-carrying state, message) pair of *)
(* every P2P protocol over payload tokens Tok, with Apply's verdict:       *)
(*   {"kind":"pair","proto":p,"st":{cls,sub,data},"msg":{tag,data},        *)
(*    "exp":{"ok":true,cls,sub,data} | {"ok":false}}                       *)
(* Sequences (cfg GenApplySeq): every message sequence from the initial    *)
(* state that is a valid prefix followed by one arbitrary message, up to   *)
(* MaxLen messages; the payload tokens are a fixed function of the         *)
(* position (Phase shifts it) so that the count stays the number of        *)
(* message-class sequences:                                                *)
(*   {"kind":"seq","proto":p,"steps":[{"msg":..,"exp":..},...]}            *)
(* plus {"kind":"init","proto":p,"st":InitState(p)} per protocol.          *)
(* Mode: "pairs" | "seq" | "both" (one TLC run for everything).            *)
(* hist/dead are history variables and exist only here.                    *)
EXTENDS Apply, Json
CONSTANTS Tok, MaxLen, Phase, Mode
VARIABLES gp, gst, hist, dead

PairVec(p, s, m) == [kind |-> "pair", proto |-> p, st |-> s, msg |-> m, exp |-> Apply(p, s, m)]
ASSUME Mode \in {"pairs", "both"} =>
        \A p \in Names(P2PProtocols) :
            /\ PrintT(<<"VEC", ToJson([kind |-> "init", proto |-> p, st |-> InitState(p)])>>)
            /\ \A s \in StatesOf(p, Tok) : \A m \in AllMsgs(p, Tok) :
                   PrintT(<<"VEC", ToJson(PairVec(p, s, m))>>)

\* three token values in rotation: consecutive messages always differ in payload size class
DataAt(i, n) == [ j \in 1..n |-> ((i + j + Phase) % 3) + 1 ]

GInit == /\ Mode \in {"seq", "both"}
         /\ gp \in Names(P2PProtocols) /\ gst = InitState(gp) /\ hist = <<>> /\ dead = FALSE

GStep(t) ==
    LET m == Msg(t, DataAt(Len(hist), MsgArity(gp, t)))
        r == Apply(gp, gst, m)
    IN  /\ hist' = Append(hist, [msg |-> m, exp |-> r])
        /\ IF r.ok THEN gst' = St(r.cls, r.sub, r.data) /\ dead' = FALSE
                   ELSE gst' = gst /\ dead' = TRUE
        /\ UNCHANGED gp

GNext == ~dead /\ Len(hist) < MaxLen /\ \E t \in Msgs(ByName(gp)) : GStep(t)

Emit == (dead \/ Len(hist) = MaxLen) =>
           PrintT(<<"VEC", ToJson([kind |-> "seq", proto |-> gp, steps |-> hist])>>)
=============================================================================
