----------------------------- MODULE GenHandshake -----------------------------
(* Vector generator for C25 (spec -> impl): every pair (proposal C, own      *)
(* table S) of the bounded domain, printed once when the design model has   *)
(* received the proposal, with the reply kinds the design model can give    *)
(* (used only for DRIFT notes; the verdict is TraceHandshake's).            *)
EXTENDS Handshake, TLC, Json
GNext == \E c \in Tables : RecvPropose(c)
Emit  == phase = "confirm" => PrintT(<<"VEC", ToJson([c |-> C, s |-> S, model |-> Negotiate(C, S)])>>)
=============================================================================
