CONSTANTS
  Tok = {1, 2, 3}
  MaxLen = 8
  Phase = 0
  Mode = "both"
INIT GInit
NEXT GNext
INVARIANT Emit
CHECK_DEADLOCK FALSE
