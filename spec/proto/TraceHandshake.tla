---------------------------- MODULE TraceHandshake ----------------------------
(* Trace validation for C25 (impl -> spec).  One event per handshake run    *)
(* against a real responder:                                                *)
(*   {"ev":"hs","impl":"n1-n2n"|"n1-n2c"|"n2",                              *)
(*    "c":[[v,m,x],..],  the proposal sent          "s":[[v,m,x],..] the    *)
(*    responder's table, "replies":[ every handshake message it sent ]}     *)
(* reply objects as in Handshake.tla.  The event is allowed iff the replies *)
(* satisfy the property predicate RepliesOk - nothing else is demanded.     *)
EXTENDS Handshake, TraceKit

VARIABLE l
tvars == <<phase, S, C, reply, l>>

IsEvent(e) == l <= NRec /\ Rec[l].ev = e /\ l' = l + 1

TInit == phase = "propose" /\ S = {} /\ C = {} /\ reply = <<>> /\ l = 1

THandshake ==
    /\ IsEvent("hs")
    /\ S' = SeqSet(Rec[l].s) /\ C' = SeqSet(Rec[l].c)
    /\ IsTable(S') /\ IsTable(C')
    /\ reply' = Rec[l].replies
    /\ RepliesOk(C', S', reply')
    /\ phase' = "done"
TReset == IsEvent("reset") /\ phase' = "propose" /\ S' = {} /\ C' = {} /\ reply' = <<>>

TNext == THandshake \/ TReset
=============================================================================
