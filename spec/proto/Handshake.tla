------------------------------ MODULE Handshake ------------------------------
(* C25 - handshake responders accept only the highest common version.       *)
(*                                                                          *)
(* A version table is a set of entries <<v, m, x>>: version number v (at    *)
(* most one entry per v), network magic m, x = the remaining version data   *)
(* (diffusion mode, peer sharing, query - anything that is not the magic).  *)
(* A reply is a record                                                      *)
(*   [t |-> "accept", v |-> version, m |-> magic, x |-> rest]               *)
(*   [t |-> "refuse", why |-> "mismatch", vs |-> <<versions..>>]            *)
(*   [t |-> "refuse", why |-> "refused" | "decode", v |-> version]          *)
(*                                                                          *)
(* Part 1 is the property (what C25 states, nothing more); it is the only   *)
(* verdict-producing predicate.  Part 2 is the responder as a small state   *)
(* machine in the shape of the two implementations                         *)
(*   pallas-network  handshake::Server::handshake     (highest-first search) *)
(*   pallas-network2 HandshakeResponder::try_accept_handshake (max_by_key)   *)
(* with the freedom the property leaves (same magic, other data different:  *)
(* accept with our data, or refuse) kept as nondeterminism.                 *)
EXTENDS Integers, Sequences, FiniteSets

Ver(e)   == e[1]
Magic(e) == e[2]
Rest(e)  == e[3]

Dom(T)      == { Ver(e) : e \in T }
Entry(T, v) == CHOOSE e \in T : Ver(e) = v
Common(C, S) == Dom(C) \cap Dom(S)
IsTable(T)  == \A e, f \in T : Ver(e) = Ver(f) => e = f

SeqSet(s) == { s[i] : i \in DOMAIN s }

---------------------------------------------------------------------------
\* Part 1: the property.  C = client's proposal, S = responder's table.

\* "the accepted version is offered by both sides, no higher version is offered
\*  by both, and the accepted parameters agree on network magic"
AcceptOk(C, S, r) ==
    /\ r.v \in Common(C, S)
    /\ \A w \in Common(C, S) : w <= r.v
    /\ Magic(Entry(C, r.v)) = Magic(Entry(S, r.v))
    /\ r.m = Magic(Entry(S, r.v))

\* "when the two version sets are disjoint the handshake is refused with a
\*  version-mismatch listing the responder's versions"
MismatchOk(S, r) == r.t = "refuse" /\ r.why = "mismatch" /\ SeqSet(r.vs) = Dom(S)

\* all the handshake messages the responder sent for one proposal
RepliesOk(C, S, rs) ==
    /\ \A i \in DOMAIN rs : rs[i].t = "accept" => AcceptOk(C, S, rs[i])
    /\ Common(C, S) = {} => /\ Len(rs) >= 1
                            /\ \A i \in DOMAIN rs : MismatchOk(S, rs[i])
\* (silent when a common version exists and nothing is accepted)

---------------------------------------------------------------------------
\* Part 2: the responder (design model).
CONSTANTS Versions, Magics, Rests

Entries == Versions \X Magics \X Rests
Tables  == { T \in SUBSET Entries : IsTable(T) }

VARIABLES phase,     \* "propose" -> "confirm" -> "done"     (handshake::State)
          S,         \* the responder's own table
          C,         \* the proposal received
          reply      \* the message sent, <<>> before

vars == <<phase, S, C, reply>>

Max(X) == CHOOSE v \in X : \A w \in X : w <= v

Init == phase = "propose" /\ S \in Tables /\ C = {} /\ reply = <<>>

\* Server::receive_proposed_versions / State::apply(Propose)
RecvPropose(c) ==
    /\ phase = "propose"
    /\ C' = c /\ phase' = "confirm"
    /\ UNCHANGED <<S, reply>>

Best == Max(Common(C, S))

\* accept_version(best, our data): both stacks answer with the responder's data
Accept ==
    /\ phase = "confirm" /\ Common(C, S) # {}
    /\ Magic(Entry(C, Best)) = Magic(Entry(S, Best))
    /\ reply' = <<[t |-> "accept", v |-> Best, m |-> Magic(Entry(S, Best)), x |-> Rest(Entry(S, Best))]>>
    /\ phase' = "done" /\ UNCHANGED <<S, C>>

\* refuse(Refused(best, ..)): the best common version's data is not acceptable
RefuseParams ==
    /\ phase = "confirm" /\ Common(C, S) # {}
    /\ Entry(C, Best) # Entry(S, Best)
    /\ reply' = <<[t |-> "refuse", why |-> "refused", v |-> Best]>>
    /\ phase' = "done" /\ UNCHANGED <<S, C>>

\* refuse(VersionMismatch(our versions)), in any order
RefuseMismatch ==
    /\ phase = "confirm" /\ Common(C, S) = {}
    /\ \E vs \in [1..Cardinality(Dom(S)) -> Dom(S)] :
          /\ SeqSet(vs) = Dom(S)
          /\ reply' = <<[t |-> "refuse", why |-> "mismatch", vs |-> vs]>>
    /\ phase' = "done" /\ UNCHANGED <<S, C>>

Next == \/ \E c \in Tables : RecvPropose(c)
        \/ Accept
        \/ RefuseParams
        \/ RefuseMismatch

Spec == Init /\ [][Next]_vars

\* the design model satisfies the property ...
PropertyHolds == phase = "done" => RepliesOk(C, S, reply)
\* ... always answers a proposal ...
Answers == phase = "confirm" => ENABLED (Accept \/ RefuseParams \/ RefuseMismatch)
\* ... and the reference negotiation function is what it computes
Negotiate(c, s) ==
    IF Common(c, s) = {} THEN {"mismatch"}
    ELSE LET b == Max(Common(c, s)) IN
         IF Entry(c, b) = Entry(s, b) THEN {"accept"}
         ELSE IF Magic(Entry(c, b)) = Magic(Entry(s, b)) THEN {"accept", "refused"}
         ELSE {"refused"}
Kind(r) == IF r.t = "accept" THEN "accept" ELSE r.why
MatchesNegotiate == phase = "done" => Kind(reply[1]) \in Negotiate(C, S)
TypeOK == phase \in {"propose", "confirm", "done"} /\ S \in Tables /\ C \in Tables
=============================================================================
