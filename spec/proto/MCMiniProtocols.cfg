INIT MCInit
NEXT MCNext
CONSTRAINT Bound
INVARIANTS OneDirection AgencyExclusive InFlightExpected ViewsAgree QuietOnlyWhenDone DoneIsFinal
CHECK_DEADLOCK FALSE
