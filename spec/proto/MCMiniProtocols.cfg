INIT MCInit
NEXT MCNext
CONSTRAINT Bound
INVARIANTS OneDirection AgencyExclusive InFlightExpected ViewsAgree QuietOnlyWhenDone
CHECK_DEADLOCK FALSE
