----------------------- MODULE TraceChainSyncSession -----------------------
(* Trace validation of chain-sync sessions (impl -> spec, M3).  One event  *)
(* per step of harness/pv-proto/src/session.rs: a random chain producer    *)
(* behind a real chainsync::Server agent, a real chainsync::Client feeding *)
(* the real RollbackBuffer:                                                *)
(*  {"a":"grow","b":B} {"a":"switch","k":K,"b":B}                           *)
(*  {"a":"c_send","msg":M,"pts":[..]} {"a":"s_recv","msg":M}                *)
(*  {"a":"s_send","msg":M,"p":P,"tip":{"p":P,"h":H}}                        *)
(*  {"a":"c_recv","msg":M,"p":P,"res":"Handled"|"OutOfScope"|""}            *)
(*  {"a":"pop","d":D,"got":[..]}        {"a":"reset"}                       *)
(* each with the observed "cst","sst" (agent states), "buf" (buffer        *)
(* content) and "popped" (everything popped since the intersection).       *)
(* Level 0 checks the script against the model (chain producer rule,       *)
(* message order), level 1 also the agents' states, level 2 also the       *)
(* buffer - so that a rejection can be attributed.                         *)
EXTENDS ChainSyncSession, TraceKit
CONSTANT Level
VARIABLE l

IsEvent(e) == l <= NRec /\ Rec[l].a = e /\ l' = l + 1
TInit == SessInit /\ l = 1

StepMatches(e) ==
    /\ last'.a = e.a
    /\ CASE e.a = "grow"   -> last'.b = e.b
         [] e.a = "switch" -> last'.k = e.k /\ last'.b = e.b
         [] e.a = "s_recv" -> last'.msg = e.msg
         [] e.a = "s_send" -> last'.msg = e.msg /\ last'.p = e.p /\ last'.tip = [p |-> e.tip.p, h |-> e.tip.h]
         [] e.a = "c_send" -> last'.msg = e.msg /\ last'.pts = e.pts
         [] e.a = "c_recv" -> last'.msg = e.msg /\ last'.p = e.p
         [] e.a = "pop"    -> last'.d = e.d
         [] OTHER -> FALSE

Observed(e) ==
    /\ Level >= 1 => (e.cst = cst' /\ e.sst = sst')
    /\ Level >= 2 => /\ e.buf = buf' /\ e.popped = popped'
                     /\ (e.a = "c_recv" /\ e.msg = "RollBackward") => e.res = last'.res
                     /\ e.a = "pop" => e.got = last'.popped

TStep == /\ l <= NRec /\ Rec[l].a # "reset" /\ l' = l + 1
         /\ SessNext /\ StepMatches(Rec[l]) /\ Observed(Rec[l])
TReset == /\ IsEvent("reset")
          /\ chain' = <<>> /\ ptr' = 0 /\ pend' = FALSE /\ req' = <<>> /\ sst' = CS.init
          /\ cst' = CS.init /\ isect' = 0 /\ buf' = <<>> /\ rbl' = [op |-> "new"] /\ popped' = <<>> /\ lost' = FALSE
          /\ wire' = <<>> /\ nsw' = 0 /\ last' = [a |-> "init"]
TNext == TStep \/ TReset
=============================================================================
