CONSTANTS
  Versions = {1, 2, 3}
  Magics = {1, 2}
  Rests = {0, 1}
INIT Init
NEXT Next
INVARIANTS TypeOK PropertyHolds Answers MatchesNegotiate
CHECK_DEADLOCK FALSE
