CONSTANTS
  Depths = {1, 2, 3, 4, 5, 6, 7}
  Msgs = {}
  JudgeC12 = FALSE
  JudgeC13 = "strict"
INIT TInit
NEXT TNext
CHECK_DEADLOCK FALSE
POSTCONDITION TraceVerdict
