CONSTANTS
  Offsets = {0}
  Inputs <- GenInputs
INIT Init
NEXT Next
CHECK_DEADLOCK FALSE
