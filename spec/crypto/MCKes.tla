------------------------------- MODULE MCKes -------------------------------
(* Exhaustive configuration of Kes (C12, C13): every evolution history of   *)
(* every depth in Depths, sum and compact, with signatures made at any      *)
(* period and verified at every in-range period.                            *)
EXTENDS Kes, TLC
=============================================================================
