------------------------------- MODULE MCKes -------------------------------
(* Exhaustive configuration of Kes (C12, C13): every evolution history of   *)
(* every depth in Depths, sum and compact, with signatures made at any      *)
(* period and verified at every in-range period.  The only restriction      *)
(* against Kes!Next: a key is generated once, from the initial state (a      *)
(* second keygen just restarts the same state graph from its root).          *)
EXTENDS Kes, TLC

FirstKeyGen(d, c) == depth = 0 /\ KeyGen(d, c)
MCNext == \/ \E d \in Depths : \E c \in BOOLEAN : FirstKeyGen(d, c)
          \/ UpdateOk
          \/ UpdateFail
          \/ \E m \in Msgs : Sign(m)
          \/ \E t \in Periods : Verify(t)
=============================================================================
