-------------------------------- MODULE Kes --------------------------------
(* C12 / C13 - pallas-crypto/src/kes: binary-sum key-evolving signatures     *)
(* (Sum{d}Kes and Sum{d}CompactKes, macros sum_kes! / sum_compact_kes!).     *)
(*                                                                           *)
(* The key of depth d is a binary tree of height d; leaf t holds the Ed25519 *)
(* signing key of period t.  Every node has a 32-byte seed: the root's is    *)
(* the master seed, the children's are H(1 || s) and H(2 || s); a leaf's     *)
(* seed IS its signing key.  A tree path is a sequence over {0,1} (0 = left).*)
(* The key buffer stores, for the current leaf, its signing key and for each *)
(* level where the path to it goes LEFT the seed of the right sibling (the   *)
(* material future periods are derived from), plus the two child public keys *)
(* of every node on the path, plus the period counter.                       *)
(*                                                                           *)
(*   live     = the paths whose seed / signing key is present in the buffer  *)
(*   period   = trailing big-endian counter                                  *)
(*                                                                           *)
(* Public keys are modelled as free terms: the verification key of leaf p is *)
(* <<"vk", p>>, the key of an inner node is <<"H", vk(left), vk(right)>>     *)
(* (Blake2b-256 of the pair, assumed collision-free), so equality of terms   *)
(* is equality of keys.  An Ed25519 signature by leaf p over m is the pair   *)
(* <<p, m>>; it verifies under <<"vk", q>> on m' iff p = q and m = m'.       *)
EXTENDS Integers, Sequences, FiniteSets

CONSTANTS Depths,      \* depths offered to KeyGen (the code has 1..7)
          Msgs         \* message alphabet

VARIABLES depth,       \* 0 = no key yet
          compact,     \* BOOLEAN: Sum{d}CompactKes instead of Sum{d}Kes
          period,
          live,
          exhausted,   \* an update has been refused
          sig,         \* last signature made: [t, m, body] or NoSig
          out          \* observable result of the last call

vars == <<depth, compact, period, live, exhausted, sig, out>>

NoSig == [t |-> -1]
Pow2(k) == 2 ^ k
Total == Pow2(depth)

\* path of leaf t in a tree of height k (most significant bit first)
RECURSIVE LeafPath(_, _)
LeafPath(k, t) ==
    IF k = 0 THEN <<>>
    ELSE IF t < Pow2(k - 1) THEN <<0>> \o LeafPath(k - 1, t)
                            ELSE <<1>> \o LeafPath(k - 1, t - Pow2(k - 1))

IsPrefixOf(p, q) == Len(p) <= Len(q) /\ SubSeq(q, 1, Len(p)) = p

---------------------------------------------------------------------------
\* Secret material in the buffer.

\* keygen_slice(slice, seed) at node p with k levels below: split the seed,
\* store the right child's seed, descend into the left child; at a leaf the
\* seed becomes the signing key.  (The seed handed in is zeroed.)
RECURSIVE KeygenLive(_, _)
KeygenLive(p, k) ==
    IF k = 0 THEN {p}
    ELSE {Append(p, 1)} \cup KeygenLive(Append(p, 0), k - 1)

\* update_slice(key_slice, t) at node p with k levels below, local period t.
\*   Less    : t+1 <  half - stay in the left subtree
\*   Equal   : t+1 =  half - keygen_slice(.., None): the stored seed of the right
\*             child is split (and zeroed) and the whole sub-key region, which
\*             held the last leaf of the left subtree, is overwritten
\*   Greater : t+1 >  half - recurse into the right subtree with t - half
RECURSIVE UpdateLive(_, _, _, _)
UpdateLive(L, p, k, t) ==
    LET half == Pow2(k - 1)
        lft == Append(p, 0)
        rgt == Append(p, 1)
    IN  IF t + 1 < half THEN UpdateLive(L, lft, k - 1, t)
        ELSE IF t + 1 = half
             THEN { x \in L : ~IsPrefixOf(lft, x) /\ x # rgt } \cup KeygenLive(rgt, k - 1)
             ELSE UpdateLive(L, rgt, k - 1, t - half)

---------------------------------------------------------------------------
\* Public keys and signatures as terms.
RECURSIVE Vk(_, _)
Vk(p, k) == IF k = 0 THEN <<"vk", p>> ELSE <<"H", Vk(Append(p, 0), k - 1), Vk(Append(p, 1), k - 1)>>
Root == Vk(<<>>, depth)

EdVerify(s, vk, m) == vk = <<"vk", s[1]>> /\ s[2] = m

\* sum_kes!: signature = sub-signature + both child keys of every level
RECURSIVE SumSign(_, _, _, _)
SumSign(p, k, t, m) ==
    IF k = 0 THEN [ed |-> <<p, m>>]
    ELSE LET half == Pow2(k - 1)
             c == IF t < half THEN 0 ELSE 1
         IN  [sigma |-> SumSign(Append(p, c), k - 1, t - c * half, m),
              lhs |-> Vk(Append(p, 0), k - 1), rhs |-> Vk(Append(p, 1), k - 1)]
RECURSIVE SumVerify(_, _, _, _, _)
SumVerify(s, k, t, pk, m) ==
    IF k = 0 THEN EdVerify(s.ed, pk, m)
    ELSE LET half == Pow2(k - 1)
         IN  /\ <<"H", s.lhs, s.rhs>> = pk
             /\ IF t < half THEN SumVerify(s.sigma, k - 1, t, s.lhs, m)
                            ELSE SumVerify(s.sigma, k - 1, t - half, s.rhs, m)

\* sum_compact_kes!: leaf signature + leaf key, one sibling key per level;
\* the verifier recomputes the root along the bits of the claimed period
RECURSIVE CompactSign(_, _, _, _)
CompactSign(p, k, t, m) ==
    IF k = 0 THEN [ed |-> <<p, m>>, vk |-> Vk(p, 0)]
    ELSE LET half == Pow2(k - 1)
             c == IF t < half THEN 0 ELSE 1
         IN  [sigma |-> CompactSign(Append(p, c), k - 1, t - c * half, m),
              pk |-> Vk(Append(p, 1 - c), k - 1)]
RECURSIVE Recompute(_, _, _, _)
Recompute(s, k, t, m) ==
    IF k = 0 THEN (IF EdVerify(s.ed, s.vk, m) THEN s.vk ELSE <<"bad">>)
    ELSE LET half == Pow2(k - 1)
             r == Recompute(s.sigma, k - 1, IF t < half THEN t ELSE t - half, m)
         IN  IF r = <<"bad">> THEN r
             ELSE IF t < half THEN <<"H", r, s.pk>> ELSE <<"H", s.pk, r>>

SignBody(t, m) == IF compact THEN CompactSign(<<>>, depth, t, m) ELSE SumSign(<<>>, depth, t, m)
VerifyBody(body, t, pk, m) ==
    IF compact THEN Recompute(body, depth, t, m) = pk ELSE SumVerify(body, depth, t, pk, m)

\* serialised sizes (to_bytes): 64-byte Ed25519 signature, 32-byte keys
RECURSIVE SumSigSize(_)
SumSigSize(k) == IF k = 0 THEN 64 ELSE SumSigSize(k - 1) + 2 * 32
RECURSIVE CompactSigSize(_)
CompactSigSize(k) == IF k = 0 THEN 64 + 32 ELSE CompactSigSize(k - 1) + 32
SigSize(k, c) == IF c THEN CompactSigSize(k) ELSE SumSigSize(k)
\* key buffer: SIZE + 4
KeySize(k) == 32 + k * 32 + k * 64 + 4

---------------------------------------------------------------------------
MaxDepth == CHOOSE d \in Depths : \A e \in Depths : e <= d
Periods == 0..(Pow2(MaxDepth) - 1)         \* in-range periods of the deepest key (Verify guards t < Total)

Init == /\ depth = 0 /\ compact = FALSE /\ period = 0 /\ live = {} /\ exhausted = FALSE
        /\ sig = NoSig /\ out = [op |-> "none"]

KeyGen(d, c) ==
    /\ depth' = d /\ compact' = c /\ period' = 0 /\ exhausted' = FALSE
    /\ live' = KeygenLive(<<>>, d)
    /\ sig' = NoSig
    /\ out' = [op |-> "keygen", pk |-> Vk(<<>>, d)]

UpdateOk ==
    /\ depth > 0 /\ period + 1 < Total
    /\ live' = UpdateLive(live, <<>>, depth, period)
    /\ period' = period + 1
    /\ out' = [op |-> "update", ok |-> TRUE]
    /\ UNCHANGED <<depth, compact, exhausted, sig>>
UpdateFail ==          \* KeyCannotBeUpdatedMore: nothing is touched
    /\ depth > 0 /\ period + 1 = Total
    /\ exhausted' = TRUE
    /\ out' = [op |-> "update", ok |-> FALSE]
    /\ UNCHANGED <<depth, compact, period, live, sig>>
Update == UpdateOk \/ UpdateFail

Sign(m) ==
    /\ depth > 0
    /\ sig' = [t |-> period, m |-> m, body |-> SignBody(period, m)]
    /\ out' = [op |-> "sign", size |-> SigSize(depth, compact)]
    /\ UNCHANGED <<depth, compact, period, live, exhausted>>

\* KesSig::verify(t, pk, m) of the last signature against the key's root and its message
Verify(t) ==
    /\ depth > 0 /\ sig # NoSig /\ t < Total
    /\ out' = [op |-> "verify", t |-> t, ok |-> VerifyBody(sig.body, t, Root, sig.m)]
    /\ UNCHANGED <<depth, compact, period, live, exhausted, sig>>

Next == \/ \E d \in Depths : \E c \in BOOLEAN : KeyGen(d, c)
        \/ UpdateOk
        \/ UpdateFail
        \/ \E m \in Msgs : Sign(m)
        \/ \E t \in Periods : Verify(t)

Spec == Init /\ [][Next]_vars

---------------------------------------------------------------------------
\* C13: nothing in the buffer derives the signing key of a past period.
ForwardSecureSet(S, k, per) ==
    \A p \in S : \A t \in 0..(per - 1) : ~IsPrefixOf(p, LeafPath(k, t))
ForwardSecure == ForwardSecureSet(live, depth, period)

\* design invariants of the buffer content
CanSign == depth > 0 => LeafPath(depth, period) \in live
FutureDerivable ==      \* every future leaf has exactly one live ancestor, the current leaf is its own
    depth > 0 => \A t \in period..(Total - 1) :
                    Cardinality({ p \in live : IsPrefixOf(p, LeafPath(depth, t)) }) = 1
RECURSIVE Zeros(_)
Zeros(p) == IF p = <<>> THEN 0 ELSE (1 - Head(p)) + Zeros(Tail(p))
LiveShape == depth > 0 => Cardinality(live) = 1 + Zeros(LeafPath(depth, period))

\* C12, as state/action properties of the model
PeriodRange == depth > 0 => period \in 0..(Total - 1)
VerifyExactlyOwnPeriod == out.op = "verify" => (out.ok <=> out.t = sig.t)
ExhaustedIffLast == exhausted => period = Total - 1
\* (a non-stuttering step that leaves out.op = "update" is an Update step)
UpdateFailsExactlyAtEnd == [][out'.op = "update" => (out'.ok <=> period + 1 < Total)]_vars
UpdateCountsPeriods == [][out'.op = "update" => period' = (IF out'.ok THEN period + 1 ELSE period)]_vars
RootConstant == [][out'.op # "keygen" => Vk(<<>>, depth') = Root]_vars
TypeOK == /\ depth \in Depths \cup {0} /\ compact \in BOOLEAN /\ exhausted \in BOOLEAN
          /\ \A p \in live : Len(p) <= depth /\ \A i \in 1..Len(p) : p[i] \in {0, 1}
=============================================================================
