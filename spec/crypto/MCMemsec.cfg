CONSTANTS
  Alpha = {0, 1, 127, 128, 255}
  MaxLen = 2
  Inputs <- MCInputs
INIT Init
NEXT Next
INVARIANTS CmpInv EqInv ResultOK
CHECK_DEADLOCK FALSE
