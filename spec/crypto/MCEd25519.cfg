INIT Init
NEXT MCNext
INVARIANTS SignedVerifies VerifyExact KatsStay
CHECK_DEADLOCK FALSE
