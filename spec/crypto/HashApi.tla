------------------------------ MODULE HashApi ------------------------------
(* C10 - pallas-crypto hash / nonce API around an UNINTERPRETED Blake2b.     *)
(*   pallas-crypto/src/hash/{hasher,hash,serde}.rs, src/nonce/mod.rs         *)
(*                                                                           *)
(* Byte strings are lower-case hex strings ("" = empty, two characters per   *)
(* byte), so concatenation of bytes is \o and the length in bytes is         *)
(* Len(s) \div 2.  H is a partial function <<bits, input>> -> digest that is *)
(* LEARNED: the first plain hash of an input defines it, every later use     *)
(* must agree (DESIGN 4.3); it starts out as the frozen RFC 7693 answers of  *)
(* HashKats.  What the specification fixes is the structure around H:        *)
(*   - a streaming Hasher is New / Input(chunk)* / Finalize, its digest is   *)
(*     H of the concatenation of the chunks - however the input is split;    *)
(*   - hash_tagged(b, t)      = H[ <t> \o b ]                                *)
(*   - hash_cbor(x)           = H[ Ser(x) ]        (Ser = the CBOR encoding) *)
(*   - hash_tagged_cbor(x, t) = H[ <t> \o Ser(x) ]                           *)
(*   - epoch nonce            = H256[nc \o nh], then H256[that \o ee] if     *)
(*                              extra entropy is given                       *)
(*   - rolling nonce          = H256[ prev \o H256[vrf] ]                    *)
(*   - Hash<N> from hex / CBOR accepts exactly N bytes and round-trips.      *)
(* Derived operations never define H: the inputs they are specified over     *)
(* must have been hashed plainly before (otherwise the check would be        *)
(* vacuous), so a trace always contains the plain hash first.                *)
EXTENDS Integers, Sequences, FiniteSets, TLC, HashKats

CONSTANTS Hashers          \* identities of streaming hashers (trace: small ints)

VARIABLES H,               \* learned part of Blake2b: <<bits, input>> -> digest
          st,              \* st[h] = [bits, acc] for a hasher under construction, or Idle
          out              \* observable result of the last call

vars == <<H, st, out>>

Bits == {160, 224, 256}
Idle == [bits |-> 0]

HexDigits == <<"0", "1", "2", "3", "4", "5", "6", "7", "8", "9", "a", "b", "c", "d", "e", "f">>
HexByte(t) == HexDigits[(t \div 16) + 1] \o HexDigits[(t % 16) + 1]      \* t \in 0..255
ByteLen(s) == Len(s) \div 2

Known(n, x) == <<n, x>> \in DOMAIN H
\* learning: defines H at <<n, x>> if undefined, otherwise d must be the known value
\* (and, Blake2b being collision resistant, no other input of that width has this digest -
\*  this is what ties the logged chunks to the logged digest)
CollisionFree(n, x, d) == \A k \in DOMAIN H : (k[1] = n /\ H[k] = d) => k[2] = x
Learn(n, x, d) == /\ Known(n, x) => H[<<n, x>>] = d
                  /\ CollisionFree(n, x, d)
                  /\ H' = IF Known(n, x) THEN H ELSE (<<n, x>> :> d) @@ H
\* use without learning
Is(n, x, d) == Known(n, x) /\ H[<<n, x>>] = d
DigestLenOK(n, d) == ByteLen(d) = n \div 8 /\ Len(d) = 2 * (n \div 8)

Init == /\ H = Kat
        /\ st = [h \in Hashers |-> Idle]
        /\ out = [op |-> "none"]

---------------------------------------------------------------------------
\* streaming hasher (Hasher::<BITS>::{new, input, finalize})
New(h, n) ==
    /\ n \in Bits
    /\ st' = [st EXCEPT ![h] = [bits |-> n, acc |-> ""]]
    /\ out' = [op |-> "new", h |-> h]
    /\ UNCHANGED H
Input(h, chunk) ==
    /\ st[h] # Idle
    /\ st' = [st EXCEPT ![h].acc = @ \o chunk]
    /\ out' = [op |-> "input", h |-> h]
    /\ UNCHANGED H
Finalize(h, d) ==          \* consumes the hasher
    /\ st[h] # Idle
    /\ DigestLenOK(st[h].bits, d)
    /\ Learn(st[h].bits, st[h].acc, d)
    /\ st' = [st EXCEPT ![h] = Idle]
    /\ out' = [op |-> "finalize", h |-> h, bits |-> st[h].bits, input |-> st[h].acc, digest |-> d]

\* one-shot Hasher::<BITS>::hash(bytes)
Hash(n, x, d) ==
    /\ n \in Bits /\ DigestLenOK(n, d)
    /\ Learn(n, x, d)
    /\ out' = [op |-> "hash", bits |-> n, input |-> x, digest |-> d]
    /\ UNCHANGED st

\* derived operations: specified over H, never defining it
Derived(op, n, pre, d) ==
    /\ n \in Bits
    /\ Is(n, pre, d)
    /\ out' = [op |-> op, bits |-> n, input |-> pre, digest |-> d]
    /\ UNCHANGED <<H, st>>
HashTagged(n, b, t, d)          == Derived("hash_tagged", n, HexByte(t) \o b, d)
HashCbor(n, ser, d)             == Derived("hash_cbor", n, ser, d)
HashTaggedCbor(n, ser, t, d)    == Derived("hash_tagged_cbor", n, HexByte(t) \o ser, d)

\* nonce/mod.rs; ee = "none" or a byte string
EpochNonceValue(nc, nh, ee) ==
    LET e == H[<<256, nc \o nh>>]
    IN  IF ee = "none" THEN e ELSE H[<<256, e \o ee>>]
EpochNonce(nc, nh, ee, d) ==
    /\ ByteLen(nc) = 32 /\ ByteLen(nh) = 32
    /\ Known(256, nc \o nh)
    /\ ee # "none" => Known(256, H[<<256, nc \o nh>>] \o ee)
    /\ d = EpochNonceValue(nc, nh, ee)
    /\ out' = [op |-> "epoch_nonce", digest |-> d]
    /\ UNCHANGED <<H, st>>
RollingNonce(prev, vrf, d) ==
    /\ ByteLen(prev) = 32 /\ ByteLen(vrf) \in {32, 64}
    /\ Known(256, vrf)
    /\ Is(256, prev \o H[<<256, vrf>>], d)
    /\ out' = [op |-> "rolling_nonce", digest |-> d]
    /\ UNCHANGED <<H, st>>

---------------------------------------------------------------------------
\* Hash<N> values: hex and CBOR forms (N bytes; the code uses 20, 28, 32)
\* CBOR definite byte string of a payload p (hex): major type 2 header + bytes
CborBytes(p) ==
    LET n == ByteLen(p)
    IN  IF n < 24 THEN HexByte(64 + n) \o p
        ELSE IF n < 256 THEN "58" \o HexByte(n) \o p
        ELSE "59" \o HexByte(n \div 256) \o HexByte(n % 256) \o p

\* FromStr: s is a lower-case hex string of any length (odd lengths included)
FromHex(N, s, ok, v) ==
    /\ ok <=> Len(s) = 2 * N
    /\ ok => v = s                       \* Display / to_string gives the same string back
    /\ out' = [op |-> "from_hex", ok |-> ok]
    /\ UNCHANGED <<H, st>>
\* minicbor Decode (non-relaxed) of the definite byte string with payload p
FromCbor(N, p, cbor, ok, v) ==
    /\ cbor = CborBytes(p)
    /\ ok <=> ByteLen(p) = N
    /\ ok => v = p
    /\ out' = [op |-> "from_cbor", ok |-> ok]
    /\ UNCHANGED <<H, st>>
\* minicbor Encode of a hash value v
ToCbor(N, v, cbor) ==
    /\ ByteLen(v) = N
    /\ cbor = CborBytes(v)
    /\ out' = [op |-> "to_cbor"]
    /\ UNCHANGED <<H, st>>

---------------------------------------------------------------------------
\* Invariants of the machine itself
FunctionalOnKats == \A k \in DOMAIN Kat : H[k] = Kat[k]          \* learning never overwrites
\* split independence: whenever two finished hashers consumed the same bytes at the same
\* width they produced the same digest - by construction digest = H[acc], checked as an
\* action property so that it is evaluated on every Finalize step
SplitIndependent ==
    [][out'.op = "finalize" => out'.digest = H'[<<out'.bits, out'.input>>]]_vars
=============================================================================
