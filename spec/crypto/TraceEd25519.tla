----------------------------- MODULE TraceEd25519 -----------------------------
(* Trace validation for C11 (impl -> spec).  Hex strings.  Events:           *)
(*  {"ev":"reset"}                                                            *)
(*  {"ev":"public_key","kind":"std"|"ext","src":"pallas"|"ref","sk":h,"pk":h} *)
(*  {"ev":"sign","kind":..,"src":..,"sk":h,"msg":h,"sig":h}                    *)
(*  {"ev":"verify","src":..,"pk":h,"msg":h,"sig":h,"ok":b}                     *)
(*  {"ev":"from_bytes","k0":b,"k31":b,"ok":b}    (random extended keys)       *)
(* src only documents which implementation produced the value: pallas and    *)
(* the reference (ed25519-dalek) feed the same learned functions, which is   *)
(* how their agreement is decided.                                           *)
EXTENDS Ed25519Api, TraceKit
VARIABLE l
IsEvent(e) == l <= NRec /\ Rec[l].ev = e /\ l' = l + 1
R == Rec[l]
TInit == Init /\ l = 1
TReset == IsEvent("reset") /\ Pk' = KatPk /\ Sig' = KatSig
          /\ issued' = { <<k.pk, k.msg, k.sig>> : k \in Kats } /\ out' = [op |-> "none"]
TPublicKey == IsEvent("public_key") /\ PublicKey(<<R.kind, R.sk>>, R.pk)
TSign == IsEvent("sign") /\ Sign(<<R.kind, R.sk>>, R.msg, R.sig)
TVerify == IsEvent("verify") /\ Verify(R.pk, R.msg, R.sig, R.ok)
TFromBytes == IsEvent("from_bytes") /\ FromBytes(R.k0, R.k31, R.ok)
TNext == TReset \/ TPublicKey \/ TSign \/ TVerify \/ TFromBytes
=============================================================================
