------------------------------- MODULE KesInd -------------------------------
(* C13 beyond the depths TLC exhausts: a depth-parametric abstraction of     *)
(* Kes.tla whose forward-security invariant is proved INDUCTIVE (Apalache),  *)
(* for every tree depth 1..7 the code offers.                                *)
(*                                                                           *)
(* Integer encoding of tree paths: a node is <<k, i>> - level k (0 = root,   *)
(* Depth = leaves) and index i among the 2^k nodes of that level; its        *)
(* children are <<k+1, 2i>> and <<k+1, 2i+1>>; leaf t is <<Depth, t>>; the   *)
(* ancestor of leaf t at level k is <<k, t div 2^(Depth-k)>>.  (Kes.tla's    *)
(* path of <<k, i>> is the k-bit binary expansion of i: LeafPath(k, i).)     *)
(*                                                                           *)
(* State: period, live (the nodes whose seed / signing key is in the key     *)
(* buffer).  Update is the closed form of update_slice's recursion: let      *)
(* q = period + 1 and ks the level at which the code takes its Equal branch  *)
(* (q is the first leaf of the right child of a node at level ks-1, i.e.     *)
(* 2^(Depth-ks) divides q and 2^(Depth-ks+1) does not).  The Less / Greater  *)
(* branches above only navigate.  At ks the stored seed of the right child   *)
(* <<ks, q div 2^(Depth-ks)>> is consumed, everything under its left sibling *)
(* is overwritten, and keygen_slice lays down the leftmost path below the    *)
(* right child: leaf q and the right siblings on the way.                    *)
(* MCKesInd.tla checks with TLC (depths 1..5) that this closed form is       *)
(* exactly Kes!UpdateLive / Kes!KeygenLive and that IndInv holds; Apalache   *)
(* proves Init => IndInv and IndInv /\ Next => IndInv' with Depth symbolic   *)
(* in 1..7 (ConstInit) - no bound on the number of steps.                    *)
(* Apalache fragment only: no recursion, constant-bounded quantifiers,       *)
(* powers of two by table.                                                   *)
EXTENDS Integers, FiniteSets

CONSTANT
    \* @type: Int;
    Depth

VARIABLES
    \* @type: Int;
    period,
    \* @type: Set(<<Int, Int>>);
    live

MaxDepth == 7
MaxPeriod == 127
ConstInit == Depth \in 1..MaxDepth

\* 2^k for k in 0..7 (and 1 outside, never used there)
P(k) == IF k = 1 THEN 2 ELSE IF k = 2 THEN 4 ELSE IF k = 3 THEN 8 ELSE IF k = 4 THEN 16
        ELSE IF k = 5 THEN 32 ELSE IF k = 6 THEN 64 ELSE IF k = 7 THEN 128 ELSE 1
Total == P(Depth)
Levels == 1..MaxDepth

\* index of the ancestor of leaf t at level k
Anc(t, k) == t \div P(Depth - k)
\* node n is a descendant-or-self of node a
\* @type: (<<Int, Int>>, <<Int, Int>>) => Bool;
Under(n, a) == n[1] >= a[1] /\ n[2] \div P(n[1] - a[1]) = a[2]
\* leaf t lies under node n (n derives the signing key of period t)
\* @type: (<<Int, Int>>, Int) => Bool;
Derives(n, t) == t \div P(Depth - n[1]) = n[2]

\* the buffer content the code maintains: the current leaf, and the right sibling of every
\* node on the path to it that is a left child
\* @type: Int => Set(<<Int, Int>>);
Live(p) == {<<Depth, p>>} \cup
           { <<k, Anc(p, k) + 1>> : k \in { m \in Levels : m <= Depth /\ Anc(p, m) % 2 = 0 } }

Init == period = 0 /\ live = Live(0)                  \* keygen: leftmost path

KeyGen == period' = 0 /\ live' = Live(0)              \* a new key in the same buffer

UpdateOk ==
    /\ period + 1 < Total
    /\ LET q == period + 1 IN
       \E ks \in Levels :
          /\ ks <= Depth
          /\ q % P(Depth - ks) = 0 /\ q % P(Depth - ks + 1) # 0        \* the Equal branch is taken at level ks
          /\ live' = { n \in live : ~Under(n, <<ks, Anc(q, ks) - 1>>) /\ n # <<ks, Anc(q, ks)>> }
                     \cup {<<Depth, q>>}
                     \cup { <<m, Anc(q, m) + 1>> : m \in { j \in Levels : j > ks /\ j <= Depth } }
    /\ period' = period + 1
UpdateFail == period + 1 = Total /\ UNCHANGED <<period, live>>         \* KeyCannotBeUpdatedMore

Next == UpdateOk \/ UpdateFail \/ KeyGen

---------------------------------------------------------------------------
TypeOK == /\ period \in 0..MaxPeriod
          /\ \A n \in live : n[1] \in 0..Depth /\ n[2] >= 0 /\ n[2] < P(n[1])
PeriodInRange == period <= Total - 1
LiveIsPathSiblings == live = Live(period)
\* C13: nothing in the buffer derives the signing key of a past period
ForwardSecure == \A n \in live : \A t \in 0..MaxPeriod : t < period => ~Derives(n, t)

IndInv == TypeOK /\ PeriodInRange /\ LiveIsPathSiblings /\ ForwardSecure

\* all states satisfying IndInv (IndInv forces live = Live(period), which doubles as the
\* assignment Apalache needs)
IndInit == /\ period \in 0..MaxPeriod
           /\ live = Live(period)
           /\ IndInv
=============================================================================
