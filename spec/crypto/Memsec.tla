------------------------------ MODULE Memsec ------------------------------
(* C14 - pallas-crypto/src/memsec.rs: constant-time memeq / memcmp.          *)
(*                                                                           *)
(* The code works on i32 values.  Every intermediate value of memcmp lies   *)
(* in -512..511 (bytes 0..255, diff in -255..255, diff-1 >= -256, the       *)
(* accumulator is 0 or a previous diff), so two's complement on a 16-bit    *)
(* window is an exact model: &, |, ! act bit by bit and commute with sign   *)
(* extension, and the arithmetic shift >> 8 of a value that fits 16 bits    *)
(* gives the same number on 16 and on 32 bits.  Window operators:           *)
(*   Enc(x)  the 16-bit pattern of x as a natural  (x mod 2^16)             *)
(*   Dec(e)  the signed value of a pattern                                  *)
(* Bit operations on patterns come from CommunityModules' Bitwise.          *)
(*                                                                           *)
(* Two levels are kept side by side:                                         *)
(*   bit level  - the branchless expressions exactly as written in the code *)
(*   abstract   - what the property says (equality, lexicographic order)    *)
(* and the loop of each function is a small state machine (Init / Step /    *)
(* Finish) whose invariant ties the accumulator to the abstract meaning.    *)
EXTENDS Integers, Sequences, Bitwise

W == 16
M == 2 ^ W                       \* 65536
Half == 2 ^ (W - 1)

InWindow(x) == -Half <= x /\ x < Half
\* TLC evaluates an operator argument once per *use* but a function argument
\* once per application, so helpers that use their argument more than once
\* are written as functions (f[x]) - otherwise nested calls cost 2^depth.
Enc(x) == (x + M) % M
Dec[e \in Nat] == IF e >= Half THEN e - M ELSE e

BAnd(x, y) == Dec[Enc(x) & Enc(y)]
BOr(x, y)  == Dec[Enc(x) | Enc(y)]
BXor(x, y) == Dec[Enc(x) ^^ Enc(y)]
BNot(x)    == Dec[(M - 1) - Enc(x)]        \* flip all W bits of the pattern
\* arithmetic shift right by 8 on a pattern: drop the low byte, replicate the sign bit
SarPattern[e \in Nat] == IF e >= Half THEN (e \div 256) + (M - M \div 256) ELSE e \div 256
Sar8(x) == Dec[SarPattern[Enc(x)]]

Byte == 0..255
Diff == -255..255

---------------------------------------------------------------------------
\* memcmp, bit level: the two expressions of the code
StepF[res \in Int, diff \in Int] == BOr(BAnd(res, Sar8(BAnd(diff - 1, BNot(diff)))), diff)
StepBits(res, diff) == StepF[res, diff]
FinalF[res \in Int] == Sar8(res - 1) + Sar8(res) + 1
FinalBits(res) == FinalF[res]

\* memcmp, abstract: a non-zero difference at a more significant index wins
StepAbs(res, diff) == IF diff = 0 THEN res ELSE diff
Sign(x) == IF x < 0 THEN -1 ELSE IF x > 0 THEN 1 ELSE 0

\* memeq, bit level (u8 accumulator) and abstract
EqStepBits(sum, x, y) == sum | (x ^^ y)              \* on u8: patterns are the values
EqStepAbs(sum, x, y) == IF x = y THEN sum ELSE 1     \* 0 <=> all equal so far

\* the step refines the abstract step on the whole accumulator/diff domain,
\* all intermediates stay inside the window, and the final expression is sign
StepRefines(res, diff) ==
    /\ InWindow(diff - 1) /\ InWindow(BNot(diff))
    /\ StepBits(res, diff) = StepAbs(res, diff)
FinalRefines(res) == FinalBits(res) = Sign(res)
EqStepRefines(sum, x, y) == (EqStepBits(sum, x, y) = 0) <=> (sum = 0 /\ x = y)

---------------------------------------------------------------------------
\* Reference meaning (the property): ordinary comparison of byte strings.
RECURSIVE LexCmp(_, _)
LexCmp(a, b) ==          \* -1 / 0 / 1, equal lengths
    IF a = <<>> THEN 0
    ELSE IF Head(a) < Head(b) THEN -1
    ELSE IF Head(a) > Head(b) THEN 1
    ELSE LexCmp(Tail(a), Tail(b))
StrEq(a, b) == a = b

\* The functions as the code computes them (loop unrolled functionally):
\* memcmp walks i = len-1 .. 0, so index 1 (TLA) is processed last.
RECURSIVE CmpAcc(_, _, _, _)
CmpAcc(a, b, i, res) == IF i = 0 THEN res ELSE CmpAcc(a, b, i - 1, StepBits(res, a[i] - b[i]))
Memcmp(a, b) == FinalBits(CmpAcc(a, b, Len(a), 0))

RECURSIVE EqAcc(_, _, _, _)
EqAcc(a, b, i, sum) == IF i > Len(a) THEN sum ELSE EqAcc(a, b, i + 1, EqStepBits(sum, a[i], b[i]))
Memeq(a, b) == EqAcc(a, b, 1, 0) = 0

---------------------------------------------------------------------------
\* The loops as state machines.
CONSTANT Inputs          \* set of <<a, b>> pairs, equal non-zero lengths
VARIABLES a, b,          \* the two strings
          pc,            \* "cmp" | "eq" | "cmp_done" | "eq_done"
          i,             \* next index to read (cmp: downwards, eq: upwards)
          acc,           \* res (memcmp) / sum (memeq)
          out            \* result: -1/0/1 (cmp_done) or TRUE/FALSE (eq_done)
vars == <<a, b, pc, i, acc, out>>

InitCmp == \E p \in Inputs : a = p[1] /\ b = p[2] /\ pc = "cmp" /\ i = Len(p[1]) /\ acc = 0 /\ out = "none"
InitEq  == \E p \in Inputs : a = p[1] /\ b = p[2] /\ pc = "eq" /\ i = 1 /\ acc = 0 /\ out = "none"
Init == InitCmp \/ InitEq

CmpStep == /\ pc = "cmp" /\ i >= 1
           /\ acc' = StepBits(acc, a[i] - b[i])
           /\ i' = i - 1
           /\ UNCHANGED <<a, b, pc, out>>
CmpFinish == /\ pc = "cmp" /\ i = 0
             /\ out' = FinalBits(acc)
             /\ pc' = "cmp_done"
             /\ UNCHANGED <<a, b, i, acc>>
EqStep == /\ pc = "eq" /\ i <= Len(a)
          /\ acc' = EqStepBits(acc, a[i], b[i])
          /\ i' = i + 1
          /\ UNCHANGED <<a, b, pc, out>>
EqFinish == /\ pc = "eq" /\ i > Len(a)
            /\ out' = (acc = 0)
            /\ pc' = "eq_done"
            /\ UNCHANGED <<a, b, i, acc>>
Next == CmpStep \/ CmpFinish \/ EqStep \/ EqFinish
Spec == Init /\ [][Next]_vars

\* loop invariants: the accumulator means what the abstract level says
Suffix(s, k) == SubSeq(s, k + 1, Len(s))        \* indices k+1..Len
Prefix(s, k) == SubSeq(s, 1, k)
CmpInv == pc = "cmp" => /\ acc \in Diff
                        /\ Sign(acc) = LexCmp(Suffix(a, i), Suffix(b, i))
EqInv  == pc = "eq" => /\ acc \in Byte
                       /\ (acc = 0) <=> (Prefix(a, i - 1) = Prefix(b, i - 1))
\* the property itself
ResultOK == /\ pc = "cmp_done" => out = LexCmp(a, b)
            /\ pc = "eq_done" => out = StrEq(a, b)
=============================================================================
