CONSTANTS
  Depth = 4
INIT Init
NEXT Next
INVARIANTS IndInv KeygenAgrees ForwardSecureAgrees Injective
PROPERTIES UpdateAgrees
CHECK_DEADLOCK FALSE
