CONSTANTS
  Depths = {1, 2, 3, 4}
  Msgs = {"a"}
INIT Init
NEXT MCNext
INVARIANTS TypeOK ForwardSecure CanSign FutureDerivable LiveShape PeriodRange VerifyExactlyOwnPeriod ExhaustedIffLast
PROPERTIES UpdateFailsExactlyAtEnd UpdateCountsPeriods RootConstant
CHECK_DEADLOCK FALSE
