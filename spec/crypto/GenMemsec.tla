----------------------------- MODULE GenMemsec -----------------------------
(* Vector generator for C14 (spec -> impl, M1).  One VEC line per row:      *)
(*   {"k": kind, "pairs": [ [a, b, cmp, eq], ... ]}                          *)
(* a, b byte arrays of equal length, cmp = LexCmp(a,b) in -1/0/1, eq = a=b. *)
(*  len1 : all 256 x 256 pairs of one-byte strings (row per first byte)     *)
(*  len2 : every (res, diff) in Diff x Diff realised by a two-byte input:   *)
(*         the byte at index 1 (processed first by memcmp) has difference   *)
(*         res, the byte at index 0 has difference diff; each difference d  *)
(*         is realised as (max(d,0)+k, max(-d,0)+k) for the offsets k in    *)
(*         Offsets (clipped so that both bytes stay <= 255).                *)
(* The expected values are the property's (LexCmp / equality); that the     *)
(* bit-level functions of Memsec agree with them is MCMemsec's business.    *)
EXTENDS Memsec, TLC, Json, FiniteSets
CONSTANTS Offsets
GenInputs == { <<<<0>>, <<0>>>> }     \* the state machine is not used here; keep it tiny

Abs(d) == IF d < 0 THEN -d ELSE d
Max(x, y) == IF x > y THEN x ELSE y
Min(x, y) == IF x < y THEN x ELSE y
Realise(d, k) == LET kk == Min(k, 255 - Abs(d)) IN <<Max(d, 0) + kk, Max(-d, 0) + kk>>

Vec(x, y) == <<x, y, LexCmp(x, y), x = y>>
\* rows are built over bound variables (concrete values), pairs as a set
Len1Row(x) == [k |-> "len1", pairs |-> { Vec(<<x>>, <<y>>) : y \in Byte }]
Len2Row(res, k) ==
    [k |-> "len2", res |-> res, off |-> k,
     pairs |-> { Vec(<<hi[1], lo[1]>>, <<hi[2], lo[2]>>) :
                   hi \in { Realise(d, k) : d \in Diff }, lo \in { Realise(res, k) } }]

Emit(row) == PrintT(<<"VEC", ToJson(row)>>)

ASSUME \A x \in Byte : Emit(Len1Row(x))
ASSUME \A k \in Offsets : \A res \in Diff : Emit(Len2Row(res, k))
=============================================================================
