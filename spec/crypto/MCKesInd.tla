------------------------------ MODULE MCKesInd ------------------------------
(* TLC cross-check of KesInd (run for Depth = 1..5): before Apalache is       *)
(* asked to prove IndInv inductive, TLC shows on the bounded model that       *)
(*  - IndInv is an invariant of KesInd's own behaviours, and                  *)
(*  - KesInd is the same machine as Kes.tla: under the map  <<k, i>> |-> the  *)
(*    k-bit binary path of i, Live(0) is Kes!KeygenLive and the closed-form   *)
(*    update is Kes!UpdateLive (the code-shaped recursion) in every reachable *)
(*    state, and the two ForwardSecure formulations agree.                    *)
EXTENDS KesInd, TLC

\* Kes.tla's constant-level operators (its variables are not used here)
K == INSTANCE Kes WITH Depths <- {Depth}, Msgs <- {}, depth <- Depth, compact <- FALSE,
                       period <- period, live <- {}, exhausted <- FALSE, sig <- 0, out <- 0

PathOf(n) == K!LeafPath(n[1], n[2])
Paths(S) == { PathOf(n) : n \in S }

KeygenAgrees == period = 0 => Paths(live) = K!KeygenLive(<<>>, Depth)
UpdateAgrees ==        \* the successor computed by Kes's recursion is the successor KesInd takes
    [][period' = period + 1 => Paths(live') = K!UpdateLive(Paths(live), <<>>, Depth, period)]_<<period, live>>
ForwardSecureAgrees == ForwardSecure <=> K!ForwardSecureSet(Paths(live), Depth, period)
Injective == Cardinality(Paths(live)) = Cardinality(live)
=============================================================================
