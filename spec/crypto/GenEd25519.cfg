CONSTANTS
  Full = FALSE
INIT Init
NEXT Idle
CHECK_DEADLOCK FALSE
