----------------------------- MODULE EdgeEd25519 -----------------------------
(* C11: TLC judges the degenerate / edge verification vectors (M1 direction:  *)
(* expected = the set of answers RFC 8032 allows, computed here).  Input: the *)
(* ndjson file of pv-crypto ed25519-edge (env TRACE); one VEC line per vector *)
(*   {"i": line, "name": .., "class": .., "verdict": .., "drift": b, ..}       *)
EXTENDS Ed25519Api, TraceKit, Json

Line(i) == LET f == Rec[i] j == EdgeJudge(f) IN
    [i |-> i, name |-> f.name, class |-> j.class, verdict |-> j.verdict, drift |-> j.drift,
     reference_deviates |-> j.reference_deviates, pallas |-> f.ok, ref |-> f.ref]
ASSUME \A i \in 1..NRec : Rec[i].ev = "edge_verify" => PrintT(<<"VEC", ToJson(Line(i))>>)
Idle == UNCHANGED vars
=============================================================================
