------------------------------ MODULE MCEd25519 ------------------------------
(* Exhaustive configuration of Ed25519Api (C11): 2 keys x 2 messages, the    *)
(* environment picks public keys / signatures from small candidate sets      *)
(* (the uninterpreted functions), every traced triple is verified; and the   *)
(* clamping table over all 256 x 256 values of byte 0 / byte 31.             *)
EXTENDS Ed25519Api

RECURSIVE Rep(_, _)
Rep(s, k) == IF k = 0 THEN "" ELSE s \o Rep(s, k - 1)
Keys == { <<"std", Rep("01", 32)>>, <<"ext", Rep("02", 64)>> }
MsgsMC == {"", "aa"}
PkCand == { Rep("0a", 32), Rep("0b", 32) }
SigCand == { Rep("0c", 64), Rep("0d", 64) }

MCNext ==
    \/ \E k \in Keys, p \in PkCand : PublicKey(k, p)
    \/ \E k \in Keys, m \in MsgsMC, s \in SigCand : Sign(k, m, s)
    \/ \E p \in PkCand, m \in MsgsMC, s \in SigCand, ok \in BOOLEAN : Verify(p, m, s, ok)
    \/ \E k0 \in {0, 7, 8}, k31 \in {0, 64, 127, 128, 192}, ok \in BOOLEAN : FromBytes(k0, k31, ok)

\* exactly 2^5 * 2^6 of the 2^16 (byte 0, byte 31) pairs are accepted, and acceptance depends on the five clamping bits only
ASSUME ClampingCount == Cardinality({ p \in (0..255) \X (0..255) : CheckStructure(p[1], p[2]) }) = 32 * 64
ASSUME ClampingBitsOnly == \A k0 \in 0..255, k31 \in 0..255 :
          CheckStructure(k0, k31) = CheckStructure(k0 % 8, (k31 \div 64) * 64)
ASSUME ClampingUnique == \A lo \in 0..7, hi \in 0..3 : CheckStructure(lo, hi * 64) <=> (lo = 0 /\ hi = 1)
=============================================================================
