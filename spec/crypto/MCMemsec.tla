----------------------------- MODULE MCMemsec -----------------------------
(* Exhaustive configuration for C14.                                       *)
(*  - ASSUMEs: the branchless step refines the abstract step for ALL       *)
(*    511 x 511 (res, diff) pairs, the final expression is the sign for    *)
(*    all res, the xor/or step of memeq for all 256^2 byte pairs with the  *)
(*    accumulator states {0, non-zero samples}.                            *)
(*  - state machine: all pairs of strings of length 1..MaxLen over Alpha,  *)
(*    loop invariants and the result against LexCmp / equality.            *)
EXTENDS Memsec, TLC, FiniteSets
CONSTANTS Alpha, MaxLen

Strs(n) == [1..n -> Alpha]
MCInputs == UNION { { <<x, y>> : x \in Strs(n), y \in Strs(n) } : n \in 1..MaxLen }

ASSUME StepTable == \A res \in Diff : \A diff \in Diff : StepRefines(res, diff)
ASSUME FinalTable == \A res \in Diff : FinalRefines(res)
ASSUME EqTable == \A x \in Byte : \A y \in Byte : \A sum \in {0, 1, 2, 128, 255} : EqStepRefines(sum, x, y)
\* window helpers against their arithmetic meaning on the whole window sample
ASSUME WindowOps == \A x \in -512..511 :
          /\ Dec[Enc(x)] = x
          /\ BNot(x) = -x - 1
          /\ Sar8(x) = (x - (x % 256)) \div 256
          /\ BAnd(x, -1) = x /\ BAnd(x, 0) = 0 /\ BOr(x, 0) = x
\* the functional forms used by the generator agree with the property
ASSUME Functional == \A p \in MCInputs : Memcmp(p[1], p[2]) = LexCmp(p[1], p[2]) /\ Memeq(p[1], p[2]) = (p[1] = p[2])
ASSUME PrintT(<<"tables", Cardinality(Diff) * Cardinality(Diff), Cardinality(Diff), 256 * 256 * 5>>)
=============================================================================
