------------------------------ MODULE TraceKes ------------------------------
(* Trace validation for C12 and C13 (impl -> spec).  Events of pv-crypto     *)
(* kes-trace (one key after the other; "keygen" starts a new one):           *)
(*  {"ev":"keygen","depth":d,"compact":b,"pk":id,"to_pk":id,"period":0,      *)
(*   "size":n,"found":[path..],"dirty":"random"|"oldkey","stale":[path..]}    *)
(*   (the buffer given to keygen always holds garbage or an older evolved     *)
(*    key; "stale" = node seeds of that older key still found after keygen)   *)
(*  {"ev":"update","ok":b,"period":p,"pk":id,"found":[path..]}                *)
(*  {"ev":"sign","sig":id,"msg":id,"len":n,"rt":b}                             *)
(*  {"ev":"verify","sig":id,"t":t,"ok":b}    (under the key's pk and the      *)
(*                                            signature's own message)       *)
(*  {"ev":"dropped","buf_zero":b,"seed_zero":b}                               *)
(* "found" = tree paths whose seed / signing key occurs in as_bytes().        *)
(*                                                                           *)
(* Two readers of the same trace:                                            *)
(*  JudgeC12 = TRUE : period counts updates, pk constant, update refused     *)
(*      exactly at the last period, verify(t') true exactly for t' = the     *)
(*      signature's period, serialised size and byte round trip.             *)
(*  JudgeC13 = "fs" : the found set contains no ancestor-or-self of a past   *)
(*      leaf (the property, nothing more); the period is the number of       *)
(*      successful updates seen in the trace.                                *)
(*  JudgeC13 = "strict" : additionally found = live of the design model      *)
(*      (used first; a strict-only rejection is reported as drift).          *)
EXTENDS Kes, TraceKit, TLC

CONSTANTS JudgeC12, JudgeC13
VARIABLES l,
          pkid,      \* interned id of the key's public key (from keygen)
          issued     \* sig id -> [t, m] for the signatures of this key

tvars == <<vars, l, pkid, issued>>

IsEvent(e) == l <= NRec /\ Rec[l].ev = e /\ l' = l + 1
SeqToSet(s) == { s[i] : i \in DOMAIN s }
Min(x, y) == IF x < y THEN x ELSE y

FoundOK(r) ==
    LET F == SeqToSet(r.found)
        fs == ForwardSecureSet(F, depth', Min(period', Pow2(depth')))
    IN  CASE JudgeC13 = "off" -> TRUE
          [] JudgeC13 = "fs" -> fs
          [] JudgeC13 = "strict" -> fs /\ F = live'

TInit == Init /\ l = 1 /\ pkid = 0 /\ issued = <<>>

TKeyGen ==
    /\ IsEvent("keygen")
    /\ KeyGen(Rec[l].depth, Rec[l].compact)
    /\ pkid' = Rec[l].pk /\ issued' = <<>>
    /\ JudgeC12 => /\ Rec[l].period = period'
                   /\ Rec[l].size = KeySize(depth')
                   /\ Rec[l].to_pk = Rec[l].pk
    /\ FoundOK(Rec[l])
    \* keygen into a dirty buffer (random bytes / an older evolved key): design model only -
    \* nothing of the buffer's previous owner survives (the property speaks about one key's evolution)
    /\ (JudgeC13 = "strict" /\ Has(Rec[l], "stale")) => Rec[l].stale = <<>>

\* the spec's Update when the logged outcome is the specified one; when it is not
\* (only tolerated while C12 is not being judged) follow the log so that C13 can
\* still be evaluated on what the code did
TUpdate ==
    /\ IsEvent("update")
    /\ depth > 0
    /\ \/ /\ Rec[l].ok = (period + 1 < Total)
          /\ Update
       \/ /\ Rec[l].ok # (period + 1 < Total) /\ ~JudgeC12
          /\ period' = IF Rec[l].ok THEN period + 1 ELSE period
          /\ out' = [op |-> "update", ok |-> Rec[l].ok]
          /\ UNCHANGED <<depth, compact, live, exhausted, sig>>
    /\ JudgeC12 => /\ Rec[l].period = period'
                   /\ Rec[l].pk = pkid
    /\ FoundOK(Rec[l])
    /\ UNCHANGED <<pkid, issued>>

TSign ==
    /\ IsEvent("sign")
    /\ Sign(Rec[l].msg)
    /\ issued' = (Rec[l].sig :> [t |-> period, m |-> Rec[l].msg]) @@ issued
    /\ JudgeC12 => /\ Rec[l].len = out'.size
                   /\ Rec[l].rt = TRUE
    /\ UNCHANGED pkid

\* any signature issued by this key may be re-verified later: it becomes `sig`
TVerify ==
    /\ IsEvent("verify")
    /\ depth > 0 /\ Rec[l].sig \in DOMAIN issued
    /\ LET i == issued[Rec[l].sig]
           s == [t |-> i.t, m |-> i.m, body |-> SignBody(i.t, i.m)]
       IN  /\ sig' = s
           /\ out' = [op |-> "verify", t |-> Rec[l].t, ok |-> VerifyBody(s.body, Rec[l].t, Root, s.m)]
    /\ JudgeC12 => /\ Rec[l].ok = out'.ok
                   /\ out'.ok = (Rec[l].t = sig'.t)
    /\ UNCHANGED <<depth, compact, period, live, exhausted, pkid, issued>>

TDropped ==
    /\ IsEvent("dropped")
    /\ JudgeC13 = "strict" => Rec[l].buf_zero /\ Rec[l].seed_zero
    /\ UNCHANGED <<vars, pkid, issued>>

TNext == TKeyGen \/ TUpdate \/ TSign \/ TVerify \/ TDropped
=============================================================================
