---------------------------- MODULE TraceHashApi ----------------------------
(* Trace validation for C10 (impl -> spec).  Byte strings are lower-case hex *)
(* strings.  Events of pv-crypto hash-trace:                                 *)
(*  {"ev":"reset"}                               new case: H := Kat          *)
(*  {"ev":"new","h":1,"bits":256}  {"ev":"input","h":1,"chunk":hex}         *)
(*  {"ev":"finalize","h":1,"digest":hex}                                     *)
(*  {"ev":"hash","bits":n,"input":hex,"digest":hex}        (one-shot, learns)*)
(*  {"ev":"kat","bits":n,"input":hex,"digest":hex}   (one-shot on a KAT input)*)
(*  {"ev":"hash_tagged","bits":n,"bytes":hex,"tag":t,"digest":hex}           *)
(*  {"ev":"hash_cbor","bits":n,"ser":hex,"digest":hex}                       *)
(*  {"ev":"hash_tagged_cbor","bits":n,"ser":hex,"tag":t,"digest":hex}        *)
(*  {"ev":"epoch_nonce","nc":hex,"nh":hex,"ee":"none"|hex,"digest":hex}      *)
(*  {"ev":"rolling_nonce","prev":hex,"vrf":hex,"digest":hex}                 *)
(*  {"ev":"from_hex","n":N,"s":hex,"ok":b,"v":hex}                           *)
(*  {"ev":"from_cbor","n":N,"payload":hex,"cbor":hex,"ok":b,"v":hex}         *)
(*  {"ev":"to_cbor","n":N,"v":hex,"cbor":hex}                                *)
EXTENDS HashApi, TraceKit
VARIABLE l

IsEvent(e) == l <= NRec /\ Rec[l].ev = e /\ l' = l + 1
R == Rec[l]

TInit == Init /\ l = 1
TReset == IsEvent("reset") /\ H' = Kat /\ st' = [h \in Hashers |-> Idle] /\ out' = [op |-> "none"]
TNew == IsEvent("new") /\ R.h \in Hashers /\ New(R.h, R.bits)
TInput == IsEvent("input") /\ R.h \in Hashers /\ Input(R.h, R.chunk)
TFinalize == IsEvent("finalize") /\ R.h \in Hashers /\ Finalize(R.h, R.digest)
THash == IsEvent("hash") /\ Hash(R.bits, R.input, R.digest)
TKat == IsEvent("kat") /\ <<R.bits, R.input>> \in DOMAIN Kat /\ Hash(R.bits, R.input, R.digest)
THashTagged == IsEvent("hash_tagged") /\ R.tag \in 0..255 /\ HashTagged(R.bits, R.bytes, R.tag, R.digest)
THashCbor == IsEvent("hash_cbor") /\ HashCbor(R.bits, R.ser, R.digest)
THashTaggedCbor == IsEvent("hash_tagged_cbor") /\ R.tag \in 0..255 /\ HashTaggedCbor(R.bits, R.ser, R.tag, R.digest)
TEpochNonce == IsEvent("epoch_nonce") /\ EpochNonce(R.nc, R.nh, R.ee, R.digest)
TRollingNonce == IsEvent("rolling_nonce") /\ RollingNonce(R.prev, R.vrf, R.digest)
TFromHex == IsEvent("from_hex") /\ FromHex(R.n, R.s, R.ok, R.v)
TFromCbor == IsEvent("from_cbor") /\ FromCbor(R.n, R.payload, R.cbor, R.ok, R.v)
TToCbor == IsEvent("to_cbor") /\ ToCbor(R.n, R.v, R.cbor)

TNext == \/ TReset \/ TNew \/ TInput \/ TFinalize \/ THash \/ TKat \/ THashTagged \/ THashCbor
         \/ THashTaggedCbor \/ TEpochNonce \/ TRollingNonce \/ TFromHex \/ TFromCbor \/ TToCbor
=============================================================================
