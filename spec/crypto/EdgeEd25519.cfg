INIT Init
NEXT Idle
CHECK_DEADLOCK FALSE
