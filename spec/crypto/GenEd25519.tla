------------------------------ MODULE GenEd25519 ------------------------------
(* Vector generator for C11 (M1): the clamping table of                      *)
(* SecretKeyExtended::from_bytes.  One VEC per row:                          *)
(*    {"k0": b, "rows": [[k31, accept], ...]}                                 *)
(* Quick: all 2^3 x 2^2 combinations of the five clamping bits, each with    *)
(* the remaining bits of both bytes all-zero / all-one / alternating;        *)
(* Full = TRUE: all 256 x 256 values of (byte 0, byte 31).                   *)
EXTENDS Ed25519Api, Json
CONSTANT Full

Fill5 == {0, 31, 21}          \* patterns for the upper five bits of byte 0
Fill6 == {0, 63, 42}          \* patterns for the lower six bits of byte 31
K0s == IF Full THEN 0..255 ELSE { lo + 8 * f : lo \in 0..7, f \in Fill5 }
K31s == IF Full THEN 0..255 ELSE { hi * 64 + f : hi \in 0..3, f \in Fill6 }

Row(k0) == [k0 |-> k0, rows |-> { <<k31, CheckStructure(k0, k31)>> : k31 \in K31s }]
Idle == UNCHANGED vars
ASSUME \A k0 \in K0s : PrintT(<<"VEC", ToJson(Row(k0))>>)
=============================================================================
