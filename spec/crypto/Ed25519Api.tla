----------------------------- MODULE Ed25519Api -----------------------------
(* C11 - pallas-crypto/src/key/ed25519.rs as an ABSTRACT signature scheme.   *)
(*                                                                           *)
(* Byte strings are lower-case hex strings.  A secret key is <<kind, bytes>> *)
(* with kind "std" (32-byte seed, SecretKey) or "ext" (64-byte extended key, *)
(* SecretKeyExtended).  Two uninterpreted functions are LEARNED from the     *)
(* trace (first occurrence defines, later ones must agree - whichever        *)
(* implementation produced them, pallas or the independent reference):       *)
(*     Pk  : key -> public key           Sig : <<key, msg>> -> signature     *)
(* (Ed25519 is deterministic, so Sig is a function.)  They start out as the  *)
(* RFC 8032 section 7.1 test vectors 1-3.  The scheme's rules:               *)
(*   - sign(k, m) issues the triple <<Pk[k], m, Sig[k, m]>>;                 *)
(*   - verify(pk, m, s) is TRUE exactly for issued triples: a signature      *)
(*     verifies under its key's public key on its message, and nothing else  *)
(*     that was traced does (tampered message / key / signature);            *)
(*   - SecretKeyExtended::from_bytes accepts a key iff its clamping bits are *)
(*     set: low 3 bits of byte 0 clear, bit 6 of byte 31 set, bit 7 clear.   *)
EXTENDS Integers, Sequences, FiniteSets, TLC

VARIABLES Pk, Sig,
          issued,      \* set of <<pk, msg, sig>>
          out

vars == <<Pk, Sig, issued, out>>

\* RFC 8032 7.1, TEST 1..3 (cross-checked against ed25519-dalek before freezing)
Kat1 == [sk |-> "9d61b19deffd5a60ba844af492ec2cc44449c5697b326919703bac031cae7f60",
         pk |-> "d75a980182b10ab7d54bfed3c964073a0ee172f3daa62325af021a68f707511a",
         msg |-> "",
         sig |-> "e5564300c360ac729086e2cc806e828a84877f1eb8e5d974d873e065224901555fb8821590a33bacc61e39701cf9b46bd25bf5f0595bbe24655141438e7a100b"]
Kat2 == [sk |-> "4ccd089b28ff96da9db6c346ec114e0f5b8a319f35aba624da8cf6ed4fb8a6fb",
         pk |-> "3d4017c3e843895a92b70aa74d1b7ebc9c982ccf2ec4968cc0cd55f12af4660c",
         msg |-> "72",
         sig |-> "92a009a9f0d4cab8720e820b5f642540a2b27b5416503f8fb3762223ebdb69da085ac1e43e15996e458f3613d0f11d8c387b2eaeb4302aeeb00d291612bb0c00"]
Kat3 == [sk |-> "c5aa8df43f9f837bedb7442f31dcb7b166d38535076f094b85ce3a2e0b4458f7",
         pk |-> "fc51cd8e6218a1a38da47ed00230f0580816ed13ba3303ac5deb911548908025",
         msg |-> "af82",
         sig |-> "6291d657deec24024827e69c3abe01a30ce548a284743a445e3680d7db5ac3ac18ff9b538d16f290ae67f760984dc6594a7c15e9716ed28dc027beceea1ec40a"]
Kats == {Kat1, Kat2, Kat3}
KatKey(k) == <<"std", k.sk>>
KatPk == [x \in {KatKey(k) : k \in Kats} |-> (CHOOSE k \in Kats : KatKey(k) = x).pk]
KatSig == [x \in {<<KatKey(k), k.msg>> : k \in Kats} |-> (CHOOSE k \in Kats : <<KatKey(k), k.msg>> = x).sig]

ByteLen(s) == Len(s) \div 2
KeyShapeOK(key) == \/ key[1] = "std" /\ Len(key[2]) = 64
                   \/ key[1] = "ext" /\ Len(key[2]) = 128

Init == /\ Pk = KatPk /\ Sig = KatSig
        /\ issued = { <<k.pk, k.msg, k.sig>> : k \in Kats }
        /\ out = [op |-> "none"]

\* SecretKey::public_key / SecretKeyExtended::public_key (or the reference)
PublicKey(key, pk) ==
    /\ KeyShapeOK(key) /\ Len(pk) = 64
    /\ key \in DOMAIN Pk => Pk[key] = pk
    /\ Pk' = IF key \in DOMAIN Pk THEN Pk ELSE (key :> pk) @@ Pk
    /\ out' = [op |-> "public_key", pk |-> pk]
    /\ UNCHANGED <<Sig, issued>>

\* SecretKey::sign / SecretKeyExtended::sign (or the reference); the key's
\* public key must be known (public_key is always traced first)
Sign(key, m, s) ==
    /\ key \in DOMAIN Pk /\ Len(s) = 128
    /\ <<key, m>> \in DOMAIN Sig => Sig[<<key, m>>] = s
    /\ Sig' = IF <<key, m>> \in DOMAIN Sig THEN Sig ELSE (<<key, m>> :> s) @@ Sig
    /\ issued' = issued \cup {<<Pk[key], m, s>>}
    /\ out' = [op |-> "sign", sig |-> s]
    /\ UNCHANGED Pk

\* PublicKey::verify
Verify(pk, m, s, ok) ==
    /\ ok <=> <<pk, m, s>> \in issued
    /\ out' = [op |-> "verify", pk |-> pk, msg |-> m, sig |-> s, ok |-> ok]
    /\ UNCHANGED <<Pk, Sig, issued>>

\* SecretKeyExtended::check_structure on byte 0 and byte 31 of the key
Bit(x, i) == (x \div (2 ^ i)) % 2
CheckStructure(k0, k31) == /\ Bit(k0, 0) = 0 /\ Bit(k0, 1) = 0 /\ Bit(k0, 2) = 0
                           /\ Bit(k31, 6) = 1
                           /\ Bit(k31, 7) = 0
FromBytes(k0, k31, ok) ==
    /\ ok <=> CheckStructure(k0, k31)
    /\ out' = [op |-> "from_bytes", ok |-> ok]
    /\ UNCHANGED <<Pk, Sig, issued>>

---------------------------------------------------------------------------
\* Degenerate / edge triples (small-order and non-canonical points, boundary scalars).
\* RFC 8032 5.1.7 decides a triple from: S in range (S < L), A and R decodable, and the group
\* equation [S]B = R + [k]A, which a verifier may check with or without the cofactor 8.  The
\* equation facts come from the harness (curve25519-dalek): eq1 (cofactorless), eq8 (cofactored;
\* eq1 => eq8); the byte-level facts are decided here.  32-byte values are little-endian sequences.
LBytes == <<237, 211, 245, 92, 26, 99, 18, 88, 214, 156, 247, 162, 222, 249, 222, 20,
            0, 0, 0, 0, 0, 0, 0, 0, 0, 0, 0, 0, 0, 0, 0, 16>>          \* L = 2^252 + 27742...8493
PBytes == [i \in 1..32 |-> IF i = 1 THEN 237 ELSE IF i = 32 THEN 127 ELSE 255]     \* p = 2^255 - 19
LessLE(x, y) == \E i \in 1..32 : x[i] < y[i] /\ \A j \in (i + 1)..32 : x[j] = y[j]
SInRange(s) == LessLE(s, LBytes)
YCanonical(enc) == LessLE([enc EXCEPT ![32] = @ % 128], PBytes)        \* y < p (sign bit masked)

\* Classes.  Fixed by the RFC: S >= L and undecodable points are invalid; with canonical encodings
\* a triple is valid if the cofactorless equation holds (then both variants accept) and invalid if
\* even the cofactored one fails.  Left open by the RFC: eq8 /\ ~eq1 (a small-order component makes
\* the two permitted checks differ).  Non-canonical point encodings (y >= p, x = 0 with the sign bit)
\* are invalid by the RFC's decoding rule but accepted by deployed verifiers including the
\* reference, so they are not judged either: both open classes only have to be answered
\* deterministically, and a difference from the reference is drift.
EdgeFactsOK(f) == /\ f.eq1 => f.eq8
                  /\ f.a_canon => (f.a_dec /\ YCanonical(f.a))
                  /\ f.r_canon => (f.r_dec /\ YCanonical(f.r))
EdgeClass(f) ==
    IF ~SInRange(f.s) THEN "reject:S-out-of-range"
    ELSE IF ~f.a_dec \/ ~f.r_dec THEN "reject:undecodable-point"
    ELSE IF ~f.a_canon \/ ~f.r_canon THEN "either:non-canonical-encoding"
    ELSE IF f.eq8 /\ ~f.eq1 THEN "either:cofactor"
    ELSE IF f.eq1 THEN "accept:equation-holds"
    ELSE "reject:equation-fails"
EdgeAllowed(f) == LET c == EdgeClass(f) IN
    IF c = "accept:equation-holds" THEN {TRUE}
    ELSE IF c \in {"either:non-canonical-encoding", "either:cofactor"} THEN {TRUE, FALSE}
    ELSE {FALSE}
\* judgement of one logged edge_verify record (ok, ok2 = pallas-crypto asked twice; ref = reference)
EdgeJudge(f) ==
    [class |-> EdgeClass(f),
     verdict |-> IF ~EdgeFactsOK(f) THEN "bad-facts"
                 ELSE IF f.ok # f.ok2 THEN "nondeterministic"
                 ELSE IF f.ok \in EdgeAllowed(f) THEN "ok"
                 ELSE IF f.ok THEN "accepts-invalid" ELSE "rejects-valid",
     drift |-> Cardinality(EdgeAllowed(f)) = 2 /\ f.ok # f.ref,
     reference_deviates |-> f.ref \notin EdgeAllowed(f)]

---------------------------------------------------------------------------
\* laws of the scheme (checked by MCEd25519)
SignedVerifies == \A key \in DOMAIN Pk : \A km \in DOMAIN Sig :
                     km[1] = key => <<Pk[key], km[2], Sig[km]>> \in issued
VerifyExact == out.op = "verify" => (out.ok <=> <<out.pk, out.msg, out.sig>> \in issued)
KatsStay == /\ \A x \in DOMAIN KatPk : Pk[x] = KatPk[x]
            /\ \A x \in DOMAIN KatSig : Sig[x] = KatSig[x]
=============================================================================
