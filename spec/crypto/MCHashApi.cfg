CONSTANTS
  Hashers = {1, 2}
  MaxBytes = 2
  MaxLearned = 2
INIT Init
NEXT MCNext
CONSTRAINT Bound
INVARIANTS TypeOK FunctionalOnKats KatOnlyFrozen DerivedIsFunctionOfH
PROPERTIES SplitIndependent
CHECK_DEADLOCK FALSE
