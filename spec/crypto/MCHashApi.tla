----------------------------- MODULE MCHashApi -----------------------------
(* Exhaustive configuration of HashApi (C10) on a toy domain: two hashers,   *)
(* chunks of 0, 1 and 2 zero bytes, inputs up to MaxBytes bytes, two         *)
(* candidate digests per input (the environment "chooses" Blake2b), width    *)
(* 256.  Shows that the machine is split independent, that learning never    *)
(* overwrites, that a KAT input only ever gets its frozen digest and that    *)
(* the derived operations are functions of H.                                *)
EXTENDS HashApi
CONSTANTS MaxBytes, MaxLearned

RECURSIVE Rep(_, _)
Rep(s, k) == IF k = 0 THEN "" ELSE s \o Rep(s, k - 1)
Widths == {256}
Cand(n) == { Rep("00", n \div 8), Rep("ff", n \div 8) }       \* candidate digests of width n
Chunks == {"", "00", "0000"}
Z32 == Rep("00", 32)
Inputs == {"", "00", "0000", Z32 \o Z32}
Tags == {0}
KatDigests(n) == { Kat[<<n, KatIn_abc>>], Rep("00", n \div 8) }

FinalizeAt(h, n, d) == st[h] # Idle /\ st[h].bits = n /\ Finalize(h, d)

MCNext ==
    \/ \E h \in Hashers, n \in Widths : New(h, n)
    \/ \E h \in Hashers, c \in Chunks : Input(h, c)
    \/ \E h \in Hashers, n \in Widths : \E d \in Cand(n) : FinalizeAt(h, n, d)
    \/ \E n \in Widths, x \in Inputs : \E d \in Cand(n) : Hash(n, x, d)
    \/ \E n \in Widths : \E d \in KatDigests(n) : Hash(n, KatIn_abc, d)
    \/ \E n \in Widths, b \in {"", "00"}, t \in Tags : \E d \in Cand(n) : HashTagged(n, b, t, d)
    \/ \E d \in Cand(256) : EpochNonce(Z32, Z32, "none", d)

Bound == /\ \A h \in Hashers : st[h] # Idle => ByteLen(st[h].acc) <= MaxBytes
         /\ Cardinality(DOMAIN H) <= Cardinality(DOMAIN Kat) + MaxLearned

KatOnlyFrozen == out.op = "hash" /\ out.input \in KatInputs => out.digest = Kat[<<out.bits, out.input>>]
DerivedIsFunctionOfH ==
    out.op \in {"hash_tagged", "hash", "finalize"} => H[<<out.bits, out.input>>] = out.digest
TypeOK == /\ \A k \in DOMAIN H : k[1] \in Bits /\ Len(H[k]) = 2 * (k[1] \div 8)
          /\ \A h \in Hashers : st[h] = Idle \/ st[h].bits \in Bits
=============================================================================
