---------------------------- MODULE TraceMemsec ----------------------------
(* Trace validation for C14 (impl -> spec): seeded random longer strings.   *)
(*   {"ev":"memcmp","a":[..],"b":[..],"res":-1|0|1}                          *)
(*   {"ev":"memeq","a":[..],"b":[..],"res":true|false}                       *)
(* Each event is one complete call; the spec's machine jumps to the final   *)
(* state with the logged result and must satisfy ResultOK there.            *)
EXTENDS Memsec, TraceKit
VARIABLE l

IsEvent(e) == l <= NRec /\ Rec[l].ev = e /\ l' = l + 1
Call(r, done) == /\ Len(r.a) = Len(r.b) /\ Len(r.a) > 0
                 /\ a' = r.a /\ b' = r.b /\ pc' = done /\ i' = 0 /\ acc' = 0 /\ out' = r.res
                 /\ ResultOK'
TInit == a = <<>> /\ b = <<>> /\ pc = "idle" /\ i = 0 /\ acc = 0 /\ out = "none" /\ l = 1
TMemcmp == IsEvent("memcmp") /\ Call(Rec[l], "cmp_done")
TMemeq  == IsEvent("memeq") /\ Call(Rec[l], "eq_done")
TNext == TMemcmp \/ TMemeq
=============================================================================
