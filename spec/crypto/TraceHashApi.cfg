CONSTANTS
  Hashers = {1, 2, 3}
INIT TInit
NEXT TNext
CHECK_DEADLOCK FALSE
POSTCONDITION TraceVerdict
