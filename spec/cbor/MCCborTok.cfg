CONSTANTS
  Tier = 1
INIT Init
NEXT Next
INVARIANT GoodNeverBad
INVARIANT GoodCompleteAtEnd
INVARIANT BadNeverAccepted
INVARIANT AgreesWithRun
CHECK_DEADLOCK FALSE
