---------------------------- MODULE NumRangesDom ----------------------------
(* Bounded domain for C04: boundary magnitudes x every head width x sign, in *)
(* every position of one- to three-entry containers.                         *)
EXTENDS NumRanges
CONSTANT Tier

Mags == {<<>>, <<1>>, <<127, 255, 255, 255, 255, 255, 255, 255>>, <<128, 0, 0, 0, 0, 0, 0, 0>>,
         <<255, 255, 255, 255, 255, 255, 255, 255>>}
        \cup (IF Tier = 1 THEN {} ELSE {<<23>>, <<24>>, <<1, 0>>, <<255, 255, 255, 255>>, <<1, 0, 0, 0, 0>>})
FitsArg(nb, w) == IF w = 0 THEN nb = <<>> \/ (Len(nb) = 1 /\ nb[1] < 24) ELSE Len(nb) <= w
Ints == {UInt(p[2], PadB(p[1], p[2])) : p \in {q \in Mags \X Widths : FitsArg(q[1], q[2])}}
        \cup {NInt(p[2], PadB(p[1], p[2])) : p \in {q \in Mags \X Widths : FitsArg(q[1], q[2])}}
OneOK == UInt(0, <<1>>)
NonInts == {CNull, BStr(0, <<0>>), Arr(0, <<>>)}

\* amount lists: J alone, and J in each position next to valid amounts
Lists(ctx) ==
    IF Single(ctx) THEN {<<J>> : J \in Ints \cup NonInts}
    ELSE {<<J>> : J \in Ints \cup NonInts} \cup {<<J, OneOK>> : J \in Ints} \cup {<<OneOK, J>> : J \in Ints}
         \cup (IF Tier = 1 THEN {} ELSE {<<OneOK, J, OneOK>> : J \in Ints} \cup {<<J, K>> : <<J, K>> \in Ints \X Ints})
         \cup {<<>>}
Cases == {<<ctx, Js>> \in Contexts \X UNION {Lists(c) : c \in Contexts} : Js \in Lists(ctx)}
=============================================================================
