---------------------------- MODULE GenNumRanges ----------------------------
(* Vector generator for C04 (M1): one row per case.                          *)
(*   ctx      decoder to call        bytes   Ser(Build(ctx, amounts))        *)
(*   zero     some amount is an integer zero: the decoder MUST fail          *)
(*   acc      design model: decoder succeeds                                 *)
(*   amounts  denotations [neg, m] the decoded value should show, in order   *)
EXTENDS NumRangesDom, Json

Row(c, Js) == LET r == Decode(c, Js) IN
    [ctx |-> c, bytes |-> Ser(Build(c, Js)), zero |-> HasZero(Js), acc |-> r.ok, amounts |-> r.amounts,
     ints |-> \A i \in 1..Len(Js) : IsInt(Js[i])]

ASSUME \A c \in Contexts : \A Js \in Lists(c) : PrintT(<<"VEC", ToJson(Row(c, Js))>>)
=============================================================================
