--------------------------- MODULE TracePlutusOrd ---------------------------
(* Trace validation for C07, part 2 (impl -> spec): the harness builds every *)
(* term of the universe as a real PlutusData value and logs Ord::cmp for all *)
(* ordered pairs:                                                            *)
(*   {"ev":"universe","n":N}                                                 *)
(*   {"ev":"row","i":i,"c":[cmp(U[i],U[1]), ..., cmp(U[i],U[N])]}   -1/0/1   *)
(* A row is accepted when every order law that involves it holds on the      *)
(* logged matrix (PlutusOrd!RowLaws).  A panic inside cmp is logged as       *)
(* {"ev":"panic",...} and matches nothing.                                   *)
EXTENDS PlutusOrdDom, TraceKit

VARIABLE l

M == [i \in 1..N |-> IF i + 1 <= NRec /\ Has(Rec[i + 1], "c") THEN Rec[i + 1].c ELSE <<>>]

IsEvent(e) == l <= NRec /\ Rec[l].ev = e /\ l' = l + 1

TInit == l = 1
TUniverse == IsEvent("universe") /\ l = 1 /\ Rec[l].n = N /\ NRec = N + 1
TRow == IsEvent("row") /\ l > 1 /\ Rec[l].i = l - 1 /\ RowLaws(M, Cl, l - 1)
TNext == TUniverse \/ TRow
=============================================================================
