---------------------------- MODULE PlutusOrdDom ----------------------------
(* The universe U of PlutusData terms for C07, as a SEQUENCE (the index is   *)
(* the term's identity in vectors and in the logged comparison matrix).      *)
(* Tier 1: 72 terms to depth 2; Tier 2: ~190 terms to depth 4.               *)
EXTENDS PlutusOrd
CONSTANT Tier

Fill(n, d) == [i \in 1..n |-> (i * 7 + d) % 251]
M64 == <<255, 255, 255, 255, 255, 255, 255, 255>>          \* 2^64-1
P64 == <<1, 0, 0, 0, 0, 0, 0, 0, 0>>                       \* 2^64

Ints1 == <<PInt(FALSE, <<>>), PInt(FALSE, <<1>>), PInt(TRUE, <<>>), PInt(FALSE, M64), PInt(TRUE, M64),
           PBigU(<<>>), PBigU(<<0>>), PBigU(<<1>>), PBigU(<<0, 1>>), PBigU(P64), PBigU(M64),
           PBigN(<<>>), PBigN(<<1>>), PBigN(P64), PBigN(<<0, 0>>)>>
Ints2 == <<PInt(FALSE, <<2>>), PInt(TRUE, <<1>>), PInt(FALSE, <<1, 0>>), PInt(TRUE, <<255>>), PInt(FALSE, <<127, 255, 255, 255, 255, 255, 255, 255>>),
           PBigU(<<2>>), PBigU(<<255>>), PBigU(<<1, 0>>), PBigN(<<2>>), PBigN(M64), PBigN(<<0, 1>>), PBigU(Fill(65, 1)), PBigN(Fill(65, 1)),
           PBigU(<<0>> \o M64), PBigU(<<1, 0, 0, 0, 0, 0, 0, 0, 1>>)>>
\* lengths around every multiple of the chunk size: k*64-1, k*64, k*64+1 (quick k <= 3, thorough k <= 5)
Bytes1 == <<PBytes(<<>>), PBytes(<<0>>), PBytes(<<1>>), PBytes(Fill(64, 0)), PBytes(Fill(65, 0)), PBytes(Fill(64, 0) \o <<0>>),
            PBytes(Fill(127, 0)), PBytes(Fill(128, 0)), PBytes(Fill(129, 0)), PBytes(Fill(191, 0)), PBytes(Fill(192, 0)), PBytes(Fill(193, 0))>>
BigLong1 == <<PBigU(Fill(64, 1)), PBigU(Fill(128, 1)), PBigU(Fill(129, 1)), PBigU(Fill(192, 1)), PBigN(Fill(64, 1)), PBigN(Fill(127, 1)),
              PBigN(Fill(128, 1)), PBigN(Fill(192, 1)), PBigN(Fill(193, 1))>>
Bytes2 == <<PBytes(Fill(63, 0)), PBytes(<<1, 0>>), PBytes(<<0, 1>>), PBytes(Fill(23, 0)), PBytes(Fill(24, 0)), PBytes(Fill(65, 3)),
            PBytes(Fill(255, 0)), PBytes(Fill(256, 0)), PBytes(Fill(257, 0)), PBytes(Fill(319, 0)), PBytes(Fill(320, 0)), PBytes(Fill(321, 0)),
            PBigU(Fill(63, 1)), PBigU(Fill(191, 1)), PBigU(Fill(193, 1)), PBigU(Fill(256, 1)), PBigU(Fill(257, 1)), PBigU(Fill(320, 1)),
            PBigN(Fill(129, 1)), PBigN(Fill(191, 1)), PBigN(Fill(255, 1)), PBigN(Fill(256, 1)), PBigN(Fill(320, 1))>>

Atoms == Ints1 \o Bytes1 \o BigLong1 \o (IF Tier = 1 THEN <<>> ELSE Ints2 \o Bytes2)

i0 == PInt(FALSE, <<>>)
i1 == PInt(FALSE, <<1>>)
b0 == PBigU(<<0>>)
b1 == PBigU(<<0, 1>>)
n1 == PInt(TRUE, <<>>)
by == PBytes(<<1>>)
long == PBytes(Fill(65, 0))

\* both encodings of each list-like term
Both(f(_)) == <<f(TRUE), f(FALSE)>>
L1a(d) == PArr(d, <<>>)
L1b(d) == PArr(d, <<i1>>)
L1c(d) == PArr(d, <<i1, i0>>)
L1d(d) == PArr(d, <<b1>>)                  \* equal to L1b only if ints compare across representations
L1e(d) == PArr(d, <<long, n1>>)
M1a(d) == PMap(d, <<>>)
M1b(d) == PMap(d, <<<<i1, by>>>>)
M1c(d) == PMap(d, <<<<i1, by>>, <<i0, i0>>>>)
M1d(d) == PMap(d, <<<<i0, i0>>, <<i1, by>>>>)
C1a(d) == PConstr(121, d, <<>>)
C1b(d) == PConstr(122, d, <<i1>>)
C1c(d) == PConstr(127, d, <<>>)
C1d(d) == PConstr(1280, d, <<i0>>)
C1e(d) == PConstr(1400, d, <<>>)
C1f(d) == PConstrAny(<<>>, d, <<>>)        \* constructor 0 in the general form
C1g(d) == PConstrAny(<<7>>, d, <<i0>>)     \* constructor 7 = tag 1280
C1h(d) == PConstrAny(M64, d, <<>>)
C1i(d) == PConstrAny(<<1, 0>>, d, <<by>>)

Level1 == Both(L1a) \o Both(L1b) \o Both(L1c) \o Both(L1e) \o Both(M1a) \o Both(M1b) \o Both(M1c)
          \o Both(C1a) \o Both(C1b) \o Both(C1d) \o Both(C1f) \o Both(C1g) \o <<C1c(TRUE), C1e(FALSE), C1h(TRUE), L1d(TRUE), M1d(FALSE)>>
Level1More == Both(L1d) \o Both(M1d) \o Both(C1c) \o Both(C1e) \o Both(C1h) \o Both(C1i)

\* depth 2: containers of containers, every def/indef combination of outer and inner
N2a(d, e) == PArr(d, <<PArr(e, <<i1>>), PMap(e, <<>>)>>)
N2b(d, e) == PMap(d, <<<<PConstr(121, e, <<>>), PArr(e, <<>>)>>>>)
N2c(d, e) == PConstr(123, d, <<PArr(e, <<i0>>), by>>)
N2d(d, e) == PConstrAny(<<2>>, d, <<PArr(e, <<i0>>), by>>)      \* same constructor as N2c in the general form
Four(f(_, _)) == <<f(TRUE, TRUE), f(TRUE, FALSE), f(FALSE, TRUE), f(FALSE, FALSE)>>
Level2 == <<N2a(TRUE, TRUE), N2a(FALSE, FALSE), N2a(TRUE, FALSE), N2c(TRUE, TRUE), N2c(FALSE, FALSE), N2b(TRUE, FALSE), N2b(FALSE, TRUE)>>
Level2More == Four(N2a) \o Four(N2b) \o Four(N2c) \o Four(N2d)

\* thorough: depth 3 and 4, in pairs that differ only in definite/indefinite choices at every level
Level3 == <<PArr(TRUE, <<N2a(TRUE, FALSE)>>), PArr(FALSE, <<N2a(FALSE, TRUE)>>),
            PMap(TRUE, <<<<N2c(TRUE, TRUE), N2b(FALSE, FALSE)>>>>), PMap(FALSE, <<<<N2c(FALSE, FALSE), N2b(TRUE, TRUE)>>>>),
            PConstr(121, TRUE, <<PArr(FALSE, <<N2a(TRUE, TRUE)>>), long>>), PConstr(121, FALSE, <<PArr(TRUE, <<N2a(FALSE, FALSE)>>), long>>),
            PConstrAny(<<>>, FALSE, <<PArr(TRUE, <<N2a(FALSE, TRUE)>>), long>>)>>

\* thorough: every atom also wrapped once, so that container comparison meets every atom pair
Wrapped == [i \in 1..Len(Atoms) |-> PArr(i % 2 = 0, <<Atoms[i]>>)]

Raw == IF Tier = 1 THEN Atoms \o Level1 \o Level2
       ELSE Atoms \o Level1 \o Level1More \o Level2 \o Level2More \o Level3 \o Wrapped

\* drop repeated terms, keep first occurrences (the index must identify a term)
RECURSIVE Dedup(_, _)
Dedup(s, seen) == IF s = <<>> THEN <<>>
                  ELSE IF s[1] \in seen THEN Dedup(Tail(s), seen)
                  ELSE <<s[1]>> \o Dedup(Tail(s), seen \cup {s[1]})
U == Dedup(Raw, {})
N == Len(U)
Cl == [i \in 1..N |-> Erase(U[i])]

\* byte strings occurring at the top of a term (for the re-assembly vectors)
TopBytes(t) == IF t.k = "bytes" THEN t.b ELSE t.a
HasTopBytes(t) == t.k = "bytes" \/ (t.k = "int" /\ t.rep # "int")
\* alternative encodings of term t that differ only in the chunking of its byte string
Alts(t) == IF t.k = "bytes" THEN AltChunkings(t.b)
           ELSE IF HasTopBytes(t) THEN {Tag(0, <<IF t.rep = "biguint" THEN 2 ELSE 3>>, c) : c \in AltChunkings(t.a)}
           ELSE {}
=============================================================================
