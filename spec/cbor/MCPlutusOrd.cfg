CONSTANTS
  Tier = 1
INIT Init
NEXT Next
INVARIANT RoundTrip
INVARIANT WellFormed
INVARIANT Chunked
INVARIANT ErasureStable
CHECK_DEADLOCK FALSE
