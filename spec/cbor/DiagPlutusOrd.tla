---------------------------- MODULE DiagPlutusOrd ----------------------------
(* Names the law (and a witness) that a rejected comparison matrix breaks;   *)
(* run only after TracePlutusOrd rejected a trace, to give the finding a     *)
(* specific key.  Same laws, same matrix.                                    *)
EXTENDS PlutusOrdDom, TraceKit, Json

M == [i \in 1..N |-> IF i + 1 <= NRec /\ Has(Rec[i + 1], "c") THEN Rec[i + 1].c ELSE <<>>]
Laws == <<"values", "reflexive", "antisymmetric", "transitive", "eq-congruent", "eq-ignores-encoding">>
Holds(law, i) == CASE law = "values" -> RowValues(M, i)
                   [] law = "reflexive" -> Reflexive(M, i)
                   [] law = "antisymmetric" -> Antisymmetric(M, i)
                   [] law = "transitive" -> TransitiveAt(M, i)
                   [] law = "eq-congruent" -> EqCongruent(M, i)
                   [] law = "eq-ignores-encoding" -> EqIgnoresEncoding(M, Cl, i)
Broken(i) == CHOOSE k \in 1..Len(Laws) : ~Holds(Laws[k], i) /\ \A j \in 1..(k - 1) : Holds(Laws[j], i)
Bad == {i \in 1..N : ~RowLaws(M, Cl, i)}
ASSUME \A i \in Bad : PrintT(<<"VEC", ToJson([row |-> i, law |-> Laws[Broken(i)], kind |-> U[i].k, term |-> U[i]])>>)
ASSUME Bad = {} => PrintT(<<"VEC", ToJson([row |-> 0, law |-> "none", kind |-> "none"])>>)
=============================================================================
