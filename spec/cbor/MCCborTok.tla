----------------------------- MODULE MCCborTok -----------------------------
(* Exhaustive check of the pushdown well-formedness machine of CborTok:     *)
(* the token stream of every item of the C03 domains is consumed token by   *)
(* token; it is complete exactly at its last token; truncated, over-long    *)
(* and ill-nested streams never reach the accepting (empty) stack.          *)
EXTENDS CborHelpersDom

VARIABLES st,     \* stack of the machine
          rest,   \* tokens still to feed
          good    \* the stream is the token stream of one item
vars == <<st, rest, good>>

Items == Dom(TAnyCbor) \cup Dom(TMia(TKvp(TAnyUInt, TMia(TAnyUInt)))) \cup Dom(TCborWrap(TMia(TAnyUInt))) \cup Dom(TBytes)

T(k) == Tok(k, 0)
IllNested ==
    {<<T("break")>>, <<Tok("arr", 1), T("break")>>, <<T("mapI"), T("atom"), T("break")>>, <<T("strI"), T("atom")>>,
     <<T("chunk")>>, <<T("atom"), T("atom")>>, <<Tok("arr", 2), T("atom"), T("atom"), T("atom")>>, <<T("tag"), T("break")>>,
     <<T("strI"), T("chunk"), T("arrI")>>, <<Tok("map", 1), T("atom"), T("break")>>, <<T("arrI"), T("break"), T("break")>>}
Prefixes(s) == {SubSeq(s, 1, k) : k \in 0..(Len(s) - 1)}

Init == /\ st = WFInit
        /\ \/ good = TRUE /\ rest \in {Tokens(i) : i \in Items}
           \/ good = FALSE /\ rest \in IllNested \cup UNION {Prefixes(Tokens(i)) : i \in Range(Core(TAnyCbor)) \cup Range(Core(TMia(TMia(TAnyUInt))))}

Feed(kinds) == /\ rest # <<>> /\ rest[1].k \in kinds /\ ~WFDone(st) /\ ~WFIsBad(st)
               /\ st' = Consume(st, rest[1]) /\ rest' = Tail(rest) /\ UNCHANGED good
Atom      == rest # <<>> /\ Feed({"atom"})
OpenDef   == rest # <<>> /\ Feed({"arr", "map"})
OpenIndef == rest # <<>> /\ Feed({"arrI", "mapI", "strI"})
OpenTag   == rest # <<>> /\ Feed({"tag"})
Chunk     == rest # <<>> /\ Feed({"chunk"})
Break     == rest # <<>> /\ Feed({"break"})
\* anything fed after the item is complete, or after an error, is an error
Garbage   == rest # <<>> /\ (WFDone(st) \/ WFIsBad(st)) /\ st' = Consume(st, rest[1]) /\ rest' = Tail(rest) /\ UNCHANGED good

Next == Atom \/ OpenDef \/ OpenIndef \/ OpenTag \/ Chunk \/ Break \/ Garbage

GoodNeverBad      == good => ~WFIsBad(st)
GoodCompleteAtEnd == good => (WFDone(st) <=> rest = <<>>)
BadNeverAccepted  == (~good /\ rest = <<>>) => ~WFDone(st)
\* the step-wise run agrees with the recursive definition used by the other specifications
AgreesWithRun     == (good /\ st = WFInit) => WF(rest)
ItemsOK           == \A i \in Items : ItemOK(i) /\ WF(Tokens(i))
=============================================================================
