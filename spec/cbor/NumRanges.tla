----------------------------- MODULE NumRanges -----------------------------
(* C04 - decoded numeric wrappers never violate their declared ranges.       *)
(*                                                                          *)
(*   positive_coin = 1 .. 2^64-1          (pallas_codec::utils::PositiveCoin)*)
(*   nonZeroInt64  = -2^63 .. -1 / 1 .. 2^63-1              (NonZeroInt)     *)
(* and the Conway shapes that embed them: Value = [coin, {policy => {asset   *)
(* name => positive_coin}}], Mint = {policy => {asset name => nonZeroInt64}},*)
(* transaction body field 22 (donation: positive_coin), field 9 (mint) and   *)
(* field 1 (outputs, each {0: address, 1: Value}).                           *)
(*                                                                          *)
(* An integer token J = UInt(w,a) / NInt(w,a) denotes a (uint) or -1-a       *)
(* (nint); a is a byte sequence, so 2^64-1 needs no TLC arithmetic.  The     *)
(* decoders are specified as what the property demands of them: a zero is    *)
(* an error at every head width and in every position of every container;    *)
(* a container decodes only if all its amounts do (no partial result).       *)
EXTENDS CborTok, FiniteSets, TLC

Denot(J)  == [neg |-> J.t = "nint", m |-> NormB(J.a)]
IsInt(J)  == J.t \in {"uint", "nint"}
IsZero(J) == J.t = "uint" /\ NormB(J.a) = <<>>
FitsI63(a) == LET n == NormB(a) IN Len(n) < 8 \/ (Len(n) = 8 /\ n[1] < 128)

\* ---- the two wrappers
AccPositiveCoin(J) == J.t = "uint" /\ ~IsZero(J)
AccNonZeroInt(J)   == IsInt(J) /\ ~IsZero(J) /\ FitsI63(J.a)
Err == [ok |-> FALSE, amounts |-> <<>>]
Ok(xs) == [ok |-> TRUE, amounts |-> xs]
DecPositiveCoin(J) == IF AccPositiveCoin(J) THEN Ok(<<Denot(J)>>) ELSE Err
DecNonZeroInt(J)   == IF AccNonZeroInt(J) THEN Ok(<<Denot(J)>>) ELSE Err

\* ---- container shapes (token trees)
Policy == [i \in 1..28 |-> i]
Names  == <<<<65>>, <<66, 67>>, <<68>>>>                 \* asset names, already in map-key order
Assets(Js) == [i \in 1..Len(Js) |-> <<BStr(0, Names[i]), Js[i]>>]
MultiAsset(Js) == Map(0, <<<<BStr(1, Policy), Map(0, Assets(Js))>>>>)
ValueItem(Js)  == Arr(0, <<UIntN(2000000), MultiAsset(Js)>>)
MintItem(Js)   == MultiAsset(Js)
Addr == BStr(1, [i \in 1..29 |-> IF i = 1 THEN 97 ELSE i])
OutputItem(Js) == Map(0, <<<<UIntN(0), Addr>>, <<UIntN(1), ValueItem(Js)>>>>)
BodyBase(outs) == <<<<UIntN(0), Arr(0, <<>>)>>, <<UIntN(1), Arr(0, outs)>>, <<UIntN(2), UIntN(170000)>>>>
BodyItem(outs, extra) == MapMin(BodyBase(outs) \o extra)
BodyDonation(J) == BodyItem(<<>>, <<<<UIntN(22), J>>>>)
BodyMint(Js)    == BodyItem(<<>>, <<<<UIntN(9), MintItem(Js)>>>>)
BodyOutput(Js)  == BodyItem(<<OutputItem(Js)>>, <<>>)

Contexts == {"PositiveCoin", "NonZeroInt", "Value", "Mint", "Body.donation", "Body.mint", "Body.output"}
Coinish(ctx) == ctx \in {"PositiveCoin", "Value", "Body.donation", "Body.output"}
Single(ctx)  == ctx \in {"PositiveCoin", "NonZeroInt", "Body.donation"}

\* the token tree handed to the decoder of context ctx for the amounts Js
Build(ctx, Js) ==
    CASE ctx = "PositiveCoin"  -> Js[1]
      [] ctx = "NonZeroInt"    -> Js[1]
      [] ctx = "Value"         -> ValueItem(Js)
      [] ctx = "Mint"          -> MintItem(Js)
      [] ctx = "Body.donation" -> BodyDonation(Js[1])
      [] ctx = "Body.mint"     -> BodyMint(Js)
      [] ctx = "Body.output"   -> BodyOutput(Js)

\* the decoder of context ctx: all amounts or nothing
AccOne(ctx, J) == IF Coinish(ctx) THEN AccPositiveCoin(J) ELSE AccNonZeroInt(J)
Decode(ctx, Js) == IF \A i \in 1..Len(Js) : AccOne(ctx, Js[i]) THEN Ok([i \in 1..Len(Js) |-> Denot(Js[i])]) ELSE Err

\* what the property forbids: a decoded value holding a zero
HoldsZero(r) == r.ok /\ \E i \in 1..Len(r.amounts) : r.amounts[i] = [neg |-> FALSE, m |-> <<>>]
HasZero(Js) == \E i \in 1..Len(Js) : IsZero(Js[i])
=============================================================================
