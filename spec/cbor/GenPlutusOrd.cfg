CONSTANTS
  Tier = 1
