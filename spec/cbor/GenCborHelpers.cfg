CONSTANTS
  Tier = 1
