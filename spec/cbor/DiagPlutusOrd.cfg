CONSTANTS
  Tier = 1
