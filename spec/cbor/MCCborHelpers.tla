--------------------------- MODULE MCCborHelpers ---------------------------
(* Exhaustive configuration for C03: every (wrapper instantiation, item) of  *)
(* the bounded domains is decoded, re-encoded and (KeepRaw) mutated; the     *)
(* property's laws are invariants.  One action per wrapper entry point.      *)
EXTENDS CborHelpersDom

VARIABLES ph,    \* "idle" | "value" | "rejected" | "mutated" | "bytes" | "bytesM"
          orig,  \* how the KeepRaw(s) in val were obtained: "decoded" | "owned" | "clone" | "owned_clone" | "from"
          ty,    \* type descriptor of the call in progress
          item,  \* the input item
          val,   \* abstract value held by the caller
          out    \* bytes written by the last encode
vars == <<ph, orig, ty, item, val, out>>

None == [c |-> "none"]

Init == ph = "idle" /\ orig = "decoded" /\ ty = None /\ item = CNull /\ val = <<>> /\ out = <<>>

\* minicbor::decode::<W>(Ser(i))
Decode(t, i) ==
    /\ ph = "idle"
    /\ ty' = t /\ item' = i /\ out' = <<>> /\ orig' = "decoded"
    /\ IF Acc(t, i) THEN ph' = "value" /\ val' = Dec(t, i) ELSE ph' = "rejected" /\ val' = <<>>

DecodeAs(c) == ByWrapper(c) # {} /\ \E t \in ByWrapper(c) : \E i \in Dom(t) : Decode(t, i)

DecAnyUInt   == ph = "idle" /\ DecodeAs("anyuint")
DecMaybeIndefArray == ph = "idle" /\ DecodeAs("mia")
DecKeyValuePairs == ph = "idle" /\ DecodeAs("kvp")
DecNonEmptyKeyValuePairs == ph = "idle" /\ DecodeAs("nekvp")
DecNullable  == ph = "idle" /\ DecodeAs("nullable")
DecKeepRaw   == ph = "idle" /\ DecodeAs("keepraw")
DecAnyCbor   == ph = "idle" /\ DecodeAs("anycbor")
DecVec       == ph = "idle" /\ DecodeAs("vec")
DecSet       == ph = "idle" /\ DecodeAs("set")
DecNonEmptySet == ph = "idle" /\ DecodeAs("neset")
DecCborWrap  == ph = "idle" /\ DecodeAs("cborwrap")
DecTagWrap   == ph = "idle" /\ DecodeAs("tagwrap30")
DecZeroOrOneArray == ph = "idle" /\ DecodeAs("z1")
DecOrderPreservingProperties == ph = "idle" /\ DecodeAs("opp")
DecEmptyMap  == ph = "idle" /\ DecodeAs("emptymap")
DecBytes     == ph = "idle" /\ DecodeAs("bytes")
DecInt       == ph = "idle" /\ DecodeAs("int")
DecByDatatype == ph = "idle" /\ DecodeAs("thing")

\* minicbor::to_vec(&value)
Encode ==
    /\ ph \in {"value", "mutated"}
    /\ out' = Ser(Enc(ty, val))
    /\ ph' = IF ph = "value" THEN "bytes" ELSE "bytesM"
    /\ UNCHANGED <<ty, item, val, orig>>

\* KeepRaw::to_owned(), Clone::clone(), KeepRaw::from(content) / serde: other ways of holding the same value
ToOwned   == ph = "value" /\ CanMutate(ty) /\ orig = "decoded" /\ orig' = "owned" /\ UNCHANGED <<ph, ty, item, val, out>>
CloneIt   == /\ ph = "value" /\ CanMutate(ty) /\ orig \in {"decoded", "owned"}
             /\ orig' = (IF orig = "decoded" THEN "clone" ELSE "owned_clone") /\ UNCHANGED <<ph, ty, item, val, out>>
FromInner == /\ ph = "value" /\ CanMutate(ty) /\ orig = "decoded"
             /\ val' = Strip(ty, val) /\ orig' = "from" /\ UNCHANGED <<ph, ty, item, out>>

\* KeepRaw::deref_mut().push(3)
DerefMut ==
    /\ ph = "value" /\ CanMutate(ty)
    /\ val' = Mutate(ty, val)
    /\ ph' = "mutated"
    /\ UNCHANGED <<ty, item, out, orig>>

Drop == ph \in {"rejected", "bytes", "bytesM"} /\ ph' = "idle" /\ orig' = "decoded" /\ ty' = None /\ item' = CNull /\ val' = <<>> /\ out' = <<>>

Next == \/ DecAnyUInt \/ DecMaybeIndefArray \/ DecKeyValuePairs \/ DecNonEmptyKeyValuePairs \/ DecNullable
        \/ DecKeepRaw \/ DecAnyCbor \/ DecVec \/ DecSet \/ DecNonEmptySet \/ DecCborWrap \/ DecTagWrap
        \/ DecZeroOrOneArray \/ DecOrderPreservingProperties \/ DecEmptyMap \/ DecBytes \/ DecInt \/ DecByDatatype
        \/ Encode \/ ToOwned \/ CloneIt \/ FromInner \/ DerefMut \/ Drop

\* ---- the property, as invariants
DomainsOK == ph = "idle" => \A t \in TypeSet : \A i \in Dom(t) : ItemOK(i)
ValueRoundTrip == ph = "value" => LawValueRoundTrip(ty, item) /\ LawEncWF(ty, item)
PreservesBytes == (ph = "bytes" /\ Preserving(ty) /\ orig # "from") => out = Ser(item)
MutationEncodesNewContent == ph = "bytesM" => /\ (IsKR(ty) => out = Ser(Enc(ty.e, val.inner)))
                                              /\ (Pushes(ty, Dec(ty, item)) => out # Ser(item))
MutationLaw == (ph = "value" /\ orig = "decoded") => LawMutation(ty, item)

\* the lh variant differs from the exact one only where a definite container has a wide length head
LhVariantSound == (ph = "value" /\ orig # "from" /\ "wide-len-head" \notin Exotic(item)) => EncX(ty, val, TRUE) = Enc(ty, val)
=============================================================================
