--------------------------- MODULE MCCborHelpers ---------------------------
(* Exhaustive configuration for C03: every (wrapper instantiation, item) of  *)
(* the bounded domains is decoded, re-encoded and (KeepRaw) mutated; the     *)
(* property's laws are invariants.  One action per wrapper entry point.      *)
EXTENDS CborHelpersDom

VARIABLES ph,    \* "idle" | "value" | "rejected" | "mutated" | "bytes"
          ty,    \* type descriptor of the call in progress
          item,  \* the input item
          val,   \* abstract value held by the caller
          out    \* bytes written by the last encode
vars == <<ph, ty, item, val, out>>

None == [c |-> "none"]

Init == ph = "idle" /\ ty = None /\ item = CNull /\ val = <<>> /\ out = <<>>

\* minicbor::decode::<W>(Ser(i))
Decode(t, i) ==
    /\ ph = "idle"
    /\ ty' = t /\ item' = i /\ out' = <<>>
    /\ IF Acc(t, i) THEN ph' = "value" /\ val' = Dec(t, i) ELSE ph' = "rejected" /\ val' = <<>>

DecodeAs(c) == ByWrapper(c) # {} /\ \E t \in ByWrapper(c) : \E i \in Dom(t) : Decode(t, i)

DecAnyUInt   == ph = "idle" /\ DecodeAs("anyuint")
DecMaybeIndefArray == ph = "idle" /\ DecodeAs("mia")
DecKeyValuePairs == ph = "idle" /\ DecodeAs("kvp")
DecNonEmptyKeyValuePairs == ph = "idle" /\ DecodeAs("nekvp")
DecNullable  == ph = "idle" /\ DecodeAs("nullable")
DecKeepRaw   == ph = "idle" /\ DecodeAs("keepraw")
DecAnyCbor   == ph = "idle" /\ DecodeAs("anycbor")
DecVec       == ph = "idle" /\ DecodeAs("vec")
DecSet       == ph = "idle" /\ DecodeAs("set")
DecNonEmptySet == ph = "idle" /\ DecodeAs("neset")
DecCborWrap  == ph = "idle" /\ DecodeAs("cborwrap")
DecTagWrap   == ph = "idle" /\ DecodeAs("tagwrap30")
DecZeroOrOneArray == ph = "idle" /\ DecodeAs("z1")
DecOrderPreservingProperties == ph = "idle" /\ DecodeAs("opp")
DecEmptyMap  == ph = "idle" /\ DecodeAs("emptymap")
DecBytes     == ph = "idle" /\ DecodeAs("bytes")
DecInt       == ph = "idle" /\ DecodeAs("int")
DecByDatatype == ph = "idle" /\ DecodeAs("thing")

\* minicbor::to_vec(&value)
Encode ==
    /\ ph \in {"value", "mutated"}
    /\ out' = Ser(Enc(ty, val))
    /\ ph' = IF ph = "value" THEN "bytes" ELSE "bytesM"
    /\ UNCHANGED <<ty, item, val>>

\* KeepRaw::deref_mut().push(3)
DerefMut ==
    /\ ph = "value" /\ CanMutate(ty)
    /\ val' = Mutate(ty, val)
    /\ ph' = "mutated"
    /\ UNCHANGED <<ty, item, out>>

Drop == ph \in {"rejected", "bytes", "bytesM"} /\ ph' = "idle" /\ ty' = None /\ item' = CNull /\ val' = <<>> /\ out' = <<>>

Next == \/ DecAnyUInt \/ DecMaybeIndefArray \/ DecKeyValuePairs \/ DecNonEmptyKeyValuePairs \/ DecNullable
        \/ DecKeepRaw \/ DecAnyCbor \/ DecVec \/ DecSet \/ DecNonEmptySet \/ DecCborWrap \/ DecTagWrap
        \/ DecZeroOrOneArray \/ DecOrderPreservingProperties \/ DecEmptyMap \/ DecBytes \/ DecInt \/ DecByDatatype
        \/ Encode \/ DerefMut \/ Drop

\* ---- the property, as invariants
DomainsOK == ph = "idle" => \A t \in TypeSet : \A i \in Dom(t) : ItemOK(i)
ValueRoundTrip == ph = "value" => LawValueRoundTrip(ty, item) /\ LawEncWF(ty, item)
PreservesBytes == (ph = "bytes" /\ Preserving(ty)) => out = Ser(item)
MutationEncodesNewContent == ph = "bytesM" => out = Ser(Enc(ty.e, val.inner)) /\ LawMutation(ty, item)
\* the lh variant differs from the exact one only where a definite container has a wide length head
LhVariantSound == (ph = "value" /\ "wide-len-head" \notin Exotic(item)) => EncX(ty, val, TRUE) = Enc(ty, val)
=============================================================================
