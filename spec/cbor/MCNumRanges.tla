---------------------------- MODULE MCNumRanges ----------------------------
(* Exhaustive configuration for C04: every case of the bounded domain is     *)
(* decoded by the specified decoders; "never holds a zero", "zero is an      *)
(* error", "all or nothing" are invariants.  One action per decode entry.    *)
EXTENDS NumRangesDom

VARIABLES ph, ctx, input, res
vars == <<ph, ctx, input, res>>

Init == ph = "idle" /\ ctx = "" /\ input = <<>> /\ res = Err

Dec(c) == /\ ph = "idle"
          /\ \E Js \in Lists(c) : input' = Js /\ res' = Decode(c, IF Single(c) THEN <<Js[1]>> ELSE Js)
          /\ ctx' = c /\ ph' = "decoded"

DecodePositiveCoin == ph = "idle" /\ Dec("PositiveCoin")
DecodeNonZeroInt   == ph = "idle" /\ Dec("NonZeroInt")
DecodeValue        == ph = "idle" /\ Dec("Value")
DecodeMint         == ph = "idle" /\ Dec("Mint")
DecodeBodyDonation == ph = "idle" /\ Dec("Body.donation")
DecodeBodyMint     == ph = "idle" /\ Dec("Body.mint")
DecodeBodyOutput   == ph = "idle" /\ Dec("Body.output")
Drop == ph = "decoded" /\ ph' = "idle" /\ ctx' = "" /\ input' = <<>> /\ res' = Err

Next == DecodePositiveCoin \/ DecodeNonZeroInt \/ DecodeValue \/ DecodeMint \/ DecodeBodyDonation
        \/ DecodeBodyMint \/ DecodeBodyOutput \/ Drop

AllInts == \A i \in 1..Len(input) : IsInt(input[i])
NeverHoldsZero   == ~HoldsZero(res)
ZeroIsAnError    == (ph = "decoded" /\ AllInts /\ HasZero(input)) => ~res.ok
AllOrNothing     == (ph = "decoded" /\ res.ok) => Len(res.amounts) = Len(input)
SameAsConstructor == (ph = "decoded" /\ res.ok) =>      \* decoded values satisfy what try_from checks
                        \A i \in 1..Len(res.amounts) : res.amounts[i].m # <<>> \/ res.amounts[i].neg
TreesWellFormed  == (ph = "decoded" /\ AllInts) => LET t == Build(ctx, input) IN ItemOK(t) /\ WF(Tokens(t))
=============================================================================
