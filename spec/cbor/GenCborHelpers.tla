--------------------------- MODULE GenCborHelpers ---------------------------
(* Vector generator for C03 (M1, spec -> impl): one row per (wrapper         *)
(* instantiation, item) of the bounded domains.                              *)
(*   ty     name of the instantiation (the harness maps it to the Rust type) *)
(*   bytes  Ser(item), the decoder input                                     *)
(*   acc    design model: the decoder accepts (a mismatch is drift only)     *)
(*   pres   the instantiation is one of the form-retaining wrappers          *)
(*   cls    most specific non-canonical feature of the input (finding keys)  *)
(*   view   projection of Dec(ty,item) that the Rust value exposes           *)
(*   reenc  Ser(Enc(ty, Dec(ty,item))): bytes the re-encoding must have      *)
(*   lh     same with container length-head widths forgotten (classifier)    *)
(*   lhw    the container wrappers that meet a wide definite length head     *)
(*   mut    KeepRaw only: bytes after deref_mut().push(3)                    *)
(*   mut_lh / mut_lhw   the same two classifiers for the mutated value       *)
(*   origins  per way of obtaining the KeepRaw (decoded, to_owned, clone,    *)
(*          clone of owned, From<T>/serde): bytes before / after the script  *)
EXTENDS CborHelpersDom, Json

Row(t, i) ==
    LET a == Acc(t, i)
        v == Dec(t, i)
    IN [ty |-> Name(t), bytes |-> Ser(i), acc |-> a, pres |-> Preserving(t), cls |-> Class(i),
        view  |-> IF a THEN View(t, v) ELSE <<>>,
        reenc |-> IF a THEN Ser(Enc(t, v)) ELSE <<>>,
        lh    |-> IF a THEN Ser(EncX(t, v, TRUE)) ELSE <<>>,
        lhw   |-> IF a /\ Preserving(t) THEN WideHeads(t, i) ELSE {},
        mutable |-> a /\ CanMutate(t),
        mut   |-> IF a /\ CanMutate(t) THEN Ser(Enc(t, Mutate(t, v))) ELSE <<>>,
        mut_lh |-> IF a /\ CanMutate(t) THEN Ser(EncX(t, Mutate(t, v), TRUE)) ELSE <<>>,
        mut_lhw |-> IF a /\ CanMutate(t) THEN WideHeadsIn(t, i) ELSE {},
        origins |-> IF a /\ CanMutate(t)
                    THEN [o \in Origins |-> LET w == Orig(t, v, o) IN
                             [before |-> Ser(Enc(t, w)), after |-> Ser(Enc(t, Mutate(t, w))),
                              before_lh |-> Ser(EncX(t, w, TRUE)), after_lh |-> Ser(EncX(t, Mutate(t, w), TRUE))]]
                    ELSE <<>>]

ASSUME \A k \in 1..Len(Types) : \A i \in Dom(Types[k]) : PrintT(<<"VEC", ToJson(Row(Types[k], i))>>)
=============================================================================
