---------------------------- MODULE GenPlutusOrd ----------------------------
(* Vector generator for C07 (M1): one row per term of the universe.          *)
(*   id    index in U            term  the abstract term                     *)
(*   enc   Ser(Enc(term)): the bytes the encoder must write                  *)
(*   alts  other chunkings of the term's byte string that must decode to it  *)
(*   bytesy  the term's encoding contains a byte string (chunking matters)   *)
EXTENDS PlutusOrdDom, Json

RECURSIVE HasBytes(_)
HasBytes(t) == CASE t.k = "bytes" -> TRUE
                 [] t.k = "int" -> t.rep # "int"
                 [] t.k = "map" -> \E i \in 1..Len(t.kv) : HasBytes(t.kv[i][1]) \/ HasBytes(t.kv[i][2])
                 [] OTHER -> \E i \in 1..Len(t.xs) : HasBytes(t.xs[i])

Row(i) == [id |-> i, term |-> U[i], enc |-> Ser(Enc(U[i])), alts |-> {Ser(a) : a \in Alts(U[i])}, bytesy |-> HasBytes(U[i])]

ASSUME \A i \in 1..N : PrintT(<<"VEC", ToJson(Row(i))>>)
=============================================================================
