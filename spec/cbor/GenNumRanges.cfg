CONSTANTS
  Tier = 1
