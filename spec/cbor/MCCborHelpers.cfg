CONSTANTS
  Tier = 1
INIT Init
NEXT Next
INVARIANT DomainsOK
INVARIANT ValueRoundTrip
INVARIANT PreservesBytes
INVARIANT MutationEncodesNewContent
INVARIANT MutationLaw
INVARIANT LhVariantSound
CHECK_DEADLOCK FALSE
