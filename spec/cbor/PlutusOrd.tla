------------------------------ MODULE PlutusOrd ------------------------------
(* C07 - PlutusData (pallas-primitives/src/plutus_data.rs).                  *)
(*                                                                          *)
(* Abstract terms:                                                          *)
(*   [k |-> "int", rep |-> "int", neg, a]      CBOR integer, a = argument    *)
(*        bytes without leading zeros (value a, or -1-a when neg)            *)
(*   [k |-> "int", rep |-> "biguint"|"bignint", a]   tag 2 / 3 + bytes a     *)
(*   [k |-> "bytes", b]                                                      *)
(*   [k |-> "arr", def, xs]      [k |-> "map", def, kv]                      *)
(*   [k |-> "constr", tag, any, def, xs]   tag 121..127, 1280..1400, or 102  *)
(*        with the constructor number in `any` (bytes; <<>> otherwise)       *)
(*                                                                          *)
(* Part 1 (round trip): Enc(term) is the CBOR item of the canonical Plutus   *)
(* encoding - byte strings longer than 64 bytes as an indefinite string of   *)
(* 64-byte chunks, shorter ones definite; Dec is its inverse and also        *)
(* re-assembles any other chunking.                                          *)
(* Part 2 (order): the comparison is DATA from the implementation: a matrix  *)
(* M[i][j] in {-1,0,1} over the universe; the laws below are what "total     *)
(* order whose equality ignores definite/indefinite encodings" means.  No    *)
(* particular order is demanded.                                             *)
EXTENDS CborTok, FiniteSets, TLC

\* ------------------------------------------------------------ terms
PInt(neg, a) == [k |-> "int", rep |-> "int", neg |-> neg, a |-> a]
PBigU(a)     == [k |-> "int", rep |-> "biguint", neg |-> FALSE, a |-> a]
PBigN(a)     == [k |-> "int", rep |-> "bignint", neg |-> TRUE, a |-> a]
PBytes(b)    == [k |-> "bytes", b |-> b]
PArr(def, xs) == [k |-> "arr", def |-> def, xs |-> xs]
PMap(def, kv) == [k |-> "map", def |-> def, kv |-> kv]
PConstr(tag, def, xs) == [k |-> "constr", tag |-> tag, any |-> <<>>, def |-> def, xs |-> xs]
PConstrAny(any, def, xs) == [k |-> "constr", tag |-> 102, any |-> any, def |-> def, xs |-> xs]

ChunkSize == 64

\* bounded_bytes as the Haskell encoder writes them
EncBB(b) == IF Len(b) <= ChunkSize THEN BStrMin(b)
            ELSE LET cs == Chunks(b, ChunkSize) IN BStrI([i \in 1..Len(cs) |-> BStrMin(cs[i])])

RECURSIVE Enc(_)
EncAll(xs) == [i \in 1..Len(xs) |-> Enc(xs[i])]
EncList(def, xs) == IF def THEN ArrMin(EncAll(xs)) ELSE ArrI(EncAll(xs))
Enc(t) ==
    CASE t.k = "int" /\ t.rep = "int"     -> IF t.neg THEN NIntMin(t.a) ELSE UIntMin(t.a)
      [] t.k = "int" /\ t.rep = "biguint" -> Tag(0, <<2>>, EncBB(t.a))
      [] t.k = "int" /\ t.rep = "bignint" -> Tag(0, <<3>>, EncBB(t.a))
      [] t.k = "bytes"  -> EncBB(t.b)
      [] t.k = "arr"    -> EncList(t.def, t.xs)
      [] t.k = "map"    -> LET kv == [i \in 1..Len(t.kv) |-> <<Enc(t.kv[i][1]), Enc(t.kv[i][2])>>]
                           IN IF t.def THEN MapMin(kv) ELSE MapI(kv)
      [] t.k = "constr" -> IF t.tag = 102 THEN TagN(102, Arr(0, <<UIntMin(t.any), EncList(t.def, t.xs)>>))
                           ELSE TagN(t.tag, EncList(t.def, t.xs))

\* decoder (inverse on the image of Enc; any chunking of a byte string is re-assembled)
IsBStr(x) == x.t \in {"bytes", "bytesI"}
ConstrTag(n) == n \in 121..127 \/ n \in 1280..1400
RECURSIVE Dec(_)
DecAll(xs) == [i \in 1..Len(xs) |-> Dec(xs[i])]
Dec(x) ==
    CASE x.t = "uint" -> PInt(FALSE, NormB(x.a))
      [] x.t = "nint" -> PInt(TRUE, NormB(x.a))
      [] IsBStr(x)    -> PBytes(Payload(x))
      [] x.t \in {"arr", "arrI"} -> PArr(x.t = "arr", DecAll(x.xs))
      [] x.t \in {"map", "mapI"} -> PMap(x.t = "map", [i \in 1..Len(x.kv) |-> <<Dec(x.kv[i][1]), Dec(x.kv[i][2])>>])
      [] x.t = "tag" ->
            LET n == ValOf(x.a) IN
            IF n = 2 THEN PBigU(Payload(x.x))
            ELSE IF n = 3 THEN PBigN(Payload(x.x))
            ELSE IF n = 102 THEN PConstrAny(NormB(x.x.xs[1].a), x.x.xs[2].t = "arr", DecAll(x.x.xs[2].xs))
            ELSE PConstr(n, x.x.t = "arr", DecAll(x.x.xs))

\* the same term with every definite/indefinite choice erased
RECURSIVE Erase(_)
Erase(t) ==
    CASE t.k = "arr"    -> [t EXCEPT !.def = TRUE, !.xs = [i \in 1..Len(t.xs) |-> Erase(t.xs[i])]]
      [] t.k = "map"    -> [t EXCEPT !.def = TRUE, !.kv = [i \in 1..Len(t.kv) |-> <<Erase(t.kv[i][1]), Erase(t.kv[i][2])>>]]
      [] t.k = "constr" -> [t EXCEPT !.def = TRUE, !.xs = [i \in 1..Len(t.xs) |-> Erase(t.xs[i])]]
      [] OTHER -> t

\* other chunkings of the byte strings of a term's encoding that a decoder must re-assemble:
\* the whole string as one definite item (any length), one chunk, a trailing empty chunk, a 1-byte first
\* chunk, a chunk of 63 then the rest
AltChunkings(b) ==
    {BStr(MinW(Len(b)), b), BStrI(<<BStrMin(b)>>), BStrI(<<BStrMin(b), BStr(0, <<>>)>>)}
    \cup (IF b = <<>> THEN {BStrI(<<>>)} ELSE {})
    \cup (IF Len(b) >= 2 THEN {BStrI(<<BStrMin(SubSeq(b, 1, 1)), BStrMin(SubSeq(b, 2, Len(b)))>>)} ELSE {})
    \cup (IF Len(b) > 63 THEN {BStrI(<<BStrMin(SubSeq(b, 1, 63)), BStrMin(SubSeq(b, 64, Len(b)))>>)} ELSE {})

\* ------------------------------------------------------------ order laws over a logged matrix
\* M: sequence of rows, M[i][j] = cmp(U[i], U[j]) in {-1, 0, 1}; Cl[i]: erased form of U[i]
Reflexive(M, i)     == M[i][i] = 0
Antisymmetric(M, i) == \A j \in 1..Len(M) : M[i][j] = -M[j][i]
\* triples whose first two members are i and some j (in both roles)
TransitiveAt(M, i)  == \A j \in 1..Len(M) : \A c \in 1..Len(M) :
                          /\ (M[i][j] <= 0 /\ M[j][c] <= 0) => (M[i][c] <= 0 /\ ((M[i][j] < 0 \/ M[j][c] < 0) => M[i][c] < 0))
                          /\ (M[j][i] <= 0 /\ M[i][c] <= 0) => (M[j][c] <= 0 /\ ((M[j][i] < 0 \/ M[i][c] < 0) => M[j][c] < 0))
\* equal elements compare alike to every third element
EqCongruent(M, i)   == \A j \in 1..Len(M) : M[i][j] = 0 => \A c \in 1..Len(M) : M[i][c] = M[j][c]
EqIgnoresEncoding(M, Cl, i) == \A j \in 1..Len(M) : Cl[i] = Cl[j] => M[i][j] = 0
RowValues(M, i)     == Len(M[i]) = Len(M) /\ \A j \in 1..Len(M) : M[i][j] \in {-1, 0, 1}

RowLaws(M, Cl, i) == /\ RowValues(M, i) /\ Reflexive(M, i) /\ Antisymmetric(M, i) /\ TransitiveAt(M, i)
                     /\ EqCongruent(M, i) /\ EqIgnoresEncoding(M, Cl, i)
=============================================================================
