---------------------------- MODULE CborHelpers ----------------------------
(* C03 - the CBOR helper wrappers of pallas-codec/src/utils.rs, specified    *)
(* over token-level CBOR items (CborTok).                                    *)
(*                                                                          *)
(* A wrapper instantiation is a *type descriptor* ty (record with a field c  *)
(* naming the wrapper and the descriptors of its parameters).  For each ty:  *)
(*   Acc(ty, item)   the decoder accepts the item            (design model)  *)
(*   Dec(ty, item)   the abstract value it yields                            *)
(*   Enc(ty, value)  the item the encoder writes                             *)
(*   View(ty, value) the part of the abstract value the Rust type can show   *)
(* What the property demands:                                               *)
(*   (a) every wrapper:        Dec(ty, Enc(ty, v)) = v                       *)
(*   (b) preserving wrappers:  Enc(ty, Dec(ty, i)) = i  (hence same bytes),  *)
(*       for every accepted i, whatever the head widths                      *)
(*   (c) KeepRaw after a mutation through DerefMut encodes the new content   *)
(* The preserving wrappers (KeepRaw, AnyCbor, AnyUInt, Nullable, and the     *)
(* definite/indefinite containers KeyValuePairs, NonEmptyKeyValuePairs,      *)
(* MaybeIndefArray) are therefore specified LOSSLESS: their abstract value   *)
(* keeps what (b) needs (AnyUInt: the head width; containers: def/indef and  *)
(* the width of the length head; KeepRaw/AnyCbor: the item itself).  The     *)
(* other wrappers are specified as the value-level codecs they are.          *)
EXTENDS CborTok, FiniteSets, TLC

\* ------------------------------------------------------------ descriptors
TAnyUInt     == [c |-> "anyuint"]
TU32         == [c |-> "u32"]
TU64         == [c |-> "u64"]
TBool        == [c |-> "bool"]
TInt         == [c |-> "int"]
TBytes       == [c |-> "bytes"]
TAnyCbor     == [c |-> "anycbor"]
TEmptyMap    == [c |-> "emptymap"]
TThing       == [c |-> "thing"]      \* codec_by_datatype! { U8|U16|U32 => Coin(u32), Bool => Change(bool), (b,u,i => Multi(bool,u64,u32)) }
TOpp         == [c |-> "opp"]        \* OrderPreservingProperties<P>, P = one (u32 key, u32 value) entry
TVec(e)      == [c |-> "vec", e |-> e]
TMia(e)      == [c |-> "mia", e |-> e]
TKvp(k, v)   == [c |-> "kvp", k |-> k, v |-> v]
TNeKvp(k, v) == [c |-> "nekvp", k |-> k, v |-> v]
TNullable(e) == [c |-> "nullable", e |-> e]
TKeepRaw(e)  == [c |-> "keepraw", e |-> e]
TSet(e)      == [c |-> "set", e |-> e]
TNeSet(e)    == [c |-> "neset", e |-> e]
TCborWrap(e) == [c |-> "cborwrap", e |-> e]
TTagWrap(e)  == [c |-> "tagwrap30", e |-> e]     \* TagWrap<_, 30>
TZ1(e)       == [c |-> "z1", e |-> e]

RECURSIVE Name(_)
Name(ty) ==
    IF ty.c \in {"vec", "mia", "nullable", "keepraw", "set", "neset", "cborwrap", "tagwrap30", "z1"}
    THEN ty.c \o "<" \o Name(ty.e) \o ">"
    ELSE IF ty.c \in {"kvp", "nekvp"} THEN ty.c \o "<" \o Name(ty.k) \o "," \o Name(ty.v) \o ">"
    ELSE ty.c

\* wrappers whose purpose is to retain the original form; a composite retains it when its parts do
RECURSIVE Preserving(_)
Preserving(ty) ==
    CASE ty.c \in {"anyuint", "keepraw", "anycbor"} -> TRUE
      [] ty.c \in {"mia", "nullable"} -> Preserving(ty.e)
      [] ty.c \in {"kvp", "nekvp"} -> Preserving(ty.k) /\ Preserving(ty.v)
      [] OTHER -> FALSE

IsArr(x) == x.t \in {"arr", "arrI"}
IsMap(x) == x.t \in {"map", "mapI"}
Tag258(x) == x.t = "tag" /\ NormB(x.a) = <<1, 2>>

\* ------------------------------------------------------------ Acc
RECURSIVE Acc(_, _)
AccAll(ty, xs) == \A i \in 1..Len(xs) : Acc(ty, xs[i])
Acc(ty, x) ==
    CASE ty.c = "anyuint"  -> x.t = "uint"
      [] ty.c = "u32"      -> x.t = "uint" /\ Len(NormB(x.a)) <= 4
      [] ty.c = "u64"      -> x.t = "uint"
      [] ty.c = "bool"     -> x.t = "simple" /\ x.v \in {20, 21}
      [] ty.c = "int"      -> x.t \in {"uint", "nint"}
      [] ty.c = "bytes"    -> x.t = "bytes"
      [] ty.c \in {"vec", "mia"} -> IsArr(x) /\ AccAll(ty.e, x.xs)
      [] ty.c \in {"kvp", "nekvp"} ->
            IsMap(x) /\ \A i \in 1..Len(x.kv) : Acc(ty.k, x.kv[i][1]) /\ Acc(ty.v, x.kv[i][2])
      [] ty.c = "nullable" -> (x.t = "simple" /\ x.v \in {22, 23}) \/ Acc(ty.e, x)
      [] ty.c = "keepraw"  -> Acc(ty.e, x)
      [] ty.c = "anycbor"  -> TRUE
      [] ty.c \in {"set", "neset"} ->
            IF x.t = "tag" THEN Tag258(x) /\ IsArr(x.x) /\ AccAll(ty.e, x.x.xs)
            ELSE IsArr(x) /\ AccAll(ty.e, x.xs)
      [] ty.c = "cborwrap" -> x.t = "tag" /\ x.x.t = "bwrap" /\ Acc(ty.e, x.x.x)     \* the tag number is not checked
      [] ty.c = "tagwrap30" -> x.t = "tag" /\ Acc(ty.e, x.x)                          \* the tag number is not checked
      [] ty.c = "z1"       -> x.t = "arr" /\ Len(x.xs) <= 1 /\ AccAll(ty.e, x.xs)
      [] ty.c = "opp"      -> \/ x.t = "mapI"                                          \* read as empty, content not consumed
                              \/ x.t = "map" /\ \A i \in 1..Len(x.kv) : Acc(TU32, x.kv[i][1]) /\ Acc(TU32, x.kv[i][2])
      [] ty.c = "emptymap" -> TRUE                                                     \* decode skips one item
      [] ty.c = "thing"    -> \/ x.t = "uint" /\ x.w # 8 /\ Acc(TU32, x)
                              \/ x.t = "simple" /\ x.v \in {20, 21}
                              \/ x.t = "arr" /\ Len(x.xs) >= 3 /\ Acc(TBool, x.xs[1]) /\ Acc(TU64, x.xs[2]) /\ Acc(TU32, x.xs[3])

\* ------------------------------------------------------------ Dec
RECURSIVE Dec(_, _)
DecAll(ty, xs) == [i \in 1..Len(xs) |-> Dec(ty, xs[i])]
Dec(ty, x) ==
    CASE ty.c = "anyuint"  -> [w |-> x.w, a |-> x.a]
      [] ty.c \in {"u32", "u64"} -> NormB(x.a)
      [] ty.c = "bool"     -> x.v = 21
      [] ty.c = "int"      -> [neg |-> x.t = "nint", m |-> NormB(x.a)]
      [] ty.c = "bytes"    -> x.b
      [] ty.c = "vec"      -> DecAll(ty.e, x.xs)
      [] ty.c = "mia"      -> [def |-> x.t = "arr", w |-> IF x.t = "arr" THEN x.w ELSE 0, xs |-> DecAll(ty.e, x.xs)]
      [] ty.c \in {"kvp", "nekvp"} ->
            [def |-> x.t = "map", w |-> IF x.t = "map" THEN x.w ELSE 0,
             kv |-> [i \in 1..Len(x.kv) |-> <<Dec(ty.k, x.kv[i][1]), Dec(ty.v, x.kv[i][2])>>]]
      [] ty.c = "nullable" -> IF x.t = "simple" /\ x.v = 22 THEN [n |-> "null", x |-> <<>>]
                              ELSE IF x.t = "simple" /\ x.v = 23 THEN [n |-> "undef", x |-> <<>>]
                              ELSE [n |-> "some", x |-> Dec(ty.e, x)]
      [] ty.c = "keepraw"  -> [raw |-> <<x>>, inner |-> Dec(ty.e, x)]        \* raw: <<item>> or <<>> (cleared)
      [] ty.c = "anycbor"  -> x
      [] ty.c \in {"set", "neset"} -> IF x.t = "tag" THEN DecAll(ty.e, x.x.xs) ELSE DecAll(ty.e, x.xs)
      [] ty.c = "cborwrap" -> Dec(ty.e, x.x.x)
      [] ty.c = "tagwrap30" -> Dec(ty.e, x.x)
      [] ty.c = "z1"       -> DecAll(ty.e, x.xs)
      [] ty.c = "opp"      -> IF x.t = "mapI" THEN <<>>
                              ELSE [i \in 1..Len(x.kv) |-> <<Dec(TU32, x.kv[i][1]), Dec(TU32, x.kv[i][2])>>]
      [] ty.c = "emptymap" -> "emptymap"
      [] ty.c = "thing"    -> IF x.t = "uint" THEN [v |-> "coin", x |-> <<NormB(x.a)>>]
                              ELSE IF x.t = "simple" THEN [v |-> "change", x |-> <<x.v = 21>>]
                              ELSE [v |-> "multi", x |-> <<x.xs[1].v = 21, NormB(x.xs[2].a), NormB(x.xs[3].a)>>]

\* ------------------------------------------------------------ Enc
\* lh = TRUE: variant that forgets the width of container length heads (and nothing else);
\* used only to classify a deviation of the implementation, never as the expectation.
RECURSIVE EncX(_, _, _)
EncAll(ty, vs, lh) == [i \in 1..Len(vs) |-> EncX(ty, vs[i], lh)]
EncX(ty, v, lh) ==
    CASE ty.c = "anyuint"  -> UInt(v.w, v.a)
      [] ty.c \in {"u32", "u64"} -> UIntMin(v)
      [] ty.c = "bool"     -> IF v THEN CTrue ELSE CFalse
      [] ty.c = "int"      -> IF v.neg THEN NIntMin(v.m) ELSE UIntMin(v.m)
      [] ty.c = "bytes"    -> BStrMin(v)
      [] ty.c \in {"vec", "z1"} -> ArrMin(EncAll(ty.e, v, lh))
      [] ty.c = "mia"      -> IF v.def THEN Arr(IF lh THEN MinW(Len(v.xs)) ELSE v.w, EncAll(ty.e, v.xs, lh))
                              ELSE ArrI(EncAll(ty.e, v.xs, lh))
      [] ty.c \in {"kvp", "nekvp"} ->
            LET kv == [i \in 1..Len(v.kv) |-> <<EncX(ty.k, v.kv[i][1], lh), EncX(ty.v, v.kv[i][2], lh)>>]
            IN IF v.def THEN Map(IF lh THEN MinW(Len(kv)) ELSE v.w, kv) ELSE MapI(kv)
      [] ty.c = "nullable" -> IF v.n = "null" THEN CNull ELSE IF v.n = "undef" THEN CUndef ELSE EncX(ty.e, v.x, lh)
      [] ty.c = "keepraw"  -> IF v.raw = <<>> THEN EncX(ty.e, v.inner, lh) ELSE v.raw[1]
      [] ty.c = "anycbor"  -> v
      [] ty.c \in {"set", "neset"} -> Tag(2, <<1, 2>>, ArrMin(EncAll(ty.e, v, lh)))
      [] ty.c = "cborwrap" -> LET i == EncX(ty.e, v, lh) IN Tag(1, <<24>>, BWrap(MinW(Len(Ser(i))), i))
      [] ty.c = "tagwrap30" -> Tag(1, <<30>>, EncX(ty.e, v, lh))
      [] ty.c = "opp"      -> MapMin([i \in 1..Len(v) |-> <<UIntMin(v[i][1]), UIntMin(v[i][2])>>])
      [] ty.c = "emptymap" -> Map(0, <<>>)
      [] ty.c = "thing"    -> IF v.v = "coin" THEN UIntMin(v.x[1])
                              ELSE IF v.v = "change" THEN (IF v.x[1] THEN CTrue ELSE CFalse)
                              ELSE Arr(0, <<IF v.x[1] THEN CTrue ELSE CFalse, UIntMin(v.x[2]), UIntMin(v.x[3])>>)
Enc(ty, v) == EncX(ty, v, FALSE)

\* ------------------------------------------------------------ View (what the Rust value exposes)
RECURSIVE View(_, _)
ViewAll(ty, vs) == [i \in 1..Len(vs) |-> View(ty, vs[i])]
View(ty, v) ==
    CASE ty.c = "anyuint"  -> [w |-> v.w, v |-> NormB(v.a)]
      [] ty.c \in {"vec", "set", "neset", "z1"} -> ViewAll(ty.e, v)
      [] ty.c = "mia"      -> [def |-> v.def, xs |-> ViewAll(ty.e, v.xs)]
      [] ty.c \in {"kvp", "nekvp"} ->
            [def |-> v.def, kv |-> [i \in 1..Len(v.kv) |-> <<View(ty.k, v.kv[i][1]), View(ty.v, v.kv[i][2])>>]]
      [] ty.c = "nullable" -> IF v.n = "some" THEN [n |-> "some", x |-> View(ty.e, v.x)] ELSE v
      [] ty.c = "keepraw"  -> [raw |-> IF v.raw = <<>> THEN <<>> ELSE Ser(v.raw[1]), inner |-> View(ty.e, v.inner)]
      [] ty.c = "anycbor"  -> Ser(v)
      [] ty.c \in {"cborwrap", "tagwrap30"} -> View(ty.e, v)
      [] OTHER -> v

\* ------------------------------------------------------------ mutation through DerefMut
(* Scripted mutation: push the number 3 onto the list held by a KeepRaw, reaching it through DerefMut of  *)
(* every KeepRaw on the way.  DerefMut of a KeepRaw clears its raw bytes; the encoder then writes the       *)
(* content.  Shapes: KeepRaw<list>; KeepRaw<Vec<KeepRaw<list>>> (first element, through both);            *)
(* Vec<KeepRaw<list>> (first element); CborWrap<KeepRaw<list>>.                                           *)
IsKR(ty) == ty.c = "keepraw"
LeafMut(ty) == IsKR(ty) /\ ty.e.c \in {"vec", "mia"} /\ ty.e.e.c \in {"u32", "anyuint"}
CanMutate(ty) == \/ LeafMut(ty)
                 \/ (IsKR(ty) /\ ty.e.c = "vec" /\ LeafMut(ty.e.e))
                 \/ (ty.c \in {"vec", "cborwrap"} /\ LeafMut(ty.e))
Pushed(ty) == IF ty.c = "u32" THEN <<3>> ELSE [w |-> 0, a |-> <<3>>]
RECURSIVE Mutate(_, _)
Mutate(ty, v) ==
    IF LeafMut(ty) THEN
        [raw |-> <<>>,
         inner |-> IF ty.e.c = "vec" THEN Append(v.inner, Pushed(ty.e.e))
                   ELSE [v.inner EXCEPT !.xs = Append(v.inner.xs, Pushed(ty.e.e))]]
    ELSE IF IsKR(ty) THEN [raw |-> <<>>, inner |-> Mutate(ty.e, v.inner)]
    ELSE IF ty.c = "vec" THEN (IF v = <<>> THEN v ELSE [v EXCEPT ![1] = Mutate(ty.e, v[1])])
    ELSE Mutate(ty.e, v)

(* Ways of obtaining a KeepRaw value.  to_owned() and clone() copy raw bytes and content (identity on the   *)
(* abstract value); From<T> / serde Deserialize hold the content only, as the public constructors build    *)
(* it (a constructed MaybeIndefArray / KeyValuePairs has no wide length head).  Applied to every KeepRaw   *)
(* of the shapes above.                                                                                   *)
Origins == {"decoded", "owned", "clone", "owned_clone", "from"}
Built(ty, v) == Dec(ty, EncX(ty, v, TRUE))
RECURSIVE Strip(_, _)
Strip(ty, v) ==
    IF IsKR(ty) THEN [raw |-> <<>>, inner |-> Built(ty.e, v.inner)]
    ELSE IF ty.c = "vec" THEN [k \in 1..Len(v) |-> Strip(ty.e, v[k])]
    ELSE Strip(ty.e, v)
Orig(ty, v, o) == IF o = "from" THEN Strip(ty, v) ELSE v

\* wide definite length heads anywhere inside the KeepRaws of a mutable shape (classifier only)
RECURSIVE WideHeads(_, _)
RECURSIVE WideHeadsIn(_, _)
WideHeadsIn(ty, x) ==
    CASE IsKR(ty) -> WideHeadsIn(ty.e, x)
      [] ty.c = "vec" -> IF x.t \in {"arr", "arrI"} THEN UNION {WideHeadsIn(ty.e, x.xs[k]) : k \in 1..Len(x.xs)} ELSE {}
      [] ty.c = "cborwrap" -> WideHeadsIn(ty.e, x.x.x)
      [] OTHER -> WideHeads(ty, x)

\* ------------------------------------------------------------ classification of an input (for finding keys)
RECURSIVE Exotic(_)
ExoticSeq(xs) == UNION {Exotic(xs[i]) : i \in 1..Len(xs)}
Exotic(x) ==
    CASE x.t \in {"uint", "nint"} ->
            IF x.w = MinWB(NormB(x.a)) THEN {}
            ELSE IF x.w = 1 THEN {"int-1byte-head-below-24"} ELSE {"int-wide-head"}
      [] x.t \in {"bytes", "text"} -> IF x.w = MinW(Len(x.b)) THEN {} ELSE {"str-wide-len-head"}
      [] x.t \in {"bytesI", "textI"} -> {"str-indef"}
      [] x.t = "arr"  -> (IF x.w = MinW(Len(x.xs)) THEN {} ELSE {"wide-len-head"}) \cup ExoticSeq(x.xs)
      [] x.t = "arrI" -> {"indef"} \cup ExoticSeq(x.xs)
      [] x.t = "map"  -> (IF x.w = MinW(Len(x.kv)) THEN {} ELSE {"wide-len-head"})
                         \cup UNION {Exotic(x.kv[i][1]) \cup Exotic(x.kv[i][2]) : i \in 1..Len(x.kv)}
      [] x.t = "mapI" -> {"indef"} \cup UNION {Exotic(x.kv[i][1]) \cup Exotic(x.kv[i][2]) : i \in 1..Len(x.kv)}
      [] x.t = "tag"  -> (IF x.w = MinWB(NormB(x.a)) THEN {} ELSE {"tag-wide-head"}) \cup Exotic(x.x)
      [] x.t = "bwrap" -> Exotic(x.x)
      [] OTHER -> {}
\* one label: the most specific feature first
Class(x) == LET e == Exotic(x) IN
    IF "int-1byte-head-below-24" \in e THEN "int-1byte-head-below-24"
    ELSE IF "int-wide-head" \in e THEN "int-wide-head"
    ELSE IF "wide-len-head" \in e THEN "wide-len-head"
    ELSE IF "tag-wide-head" \in e THEN "tag-wide-head"
    ELSE IF "str-wide-len-head" \in e THEN "str-wide-len-head"
    ELSE IF "str-indef" \in e THEN "str-indef"
    ELSE IF "indef" \in e THEN "indef"
    ELSE "canonical"

\* which definite/indefinite container wrappers meet a definite length head wider than needed in this input
WideHeads(ty, x) ==
    CASE ty.c = "mia" ->
            (IF x.t = "arr" /\ x.w # MinW(Len(x.xs)) THEN {"MaybeIndefArray"} ELSE {})
            \cup UNION {WideHeads(ty.e, x.xs[i]) : i \in 1..Len(x.xs)}
      [] ty.c \in {"kvp", "nekvp"} ->
            (IF x.t = "map" /\ x.w # MinW(Len(x.kv))
             THEN {IF ty.c = "kvp" THEN "KeyValuePairs" ELSE "NonEmptyKeyValuePairs"} ELSE {})
            \cup UNION {WideHeads(ty.k, x.kv[i][1]) \cup WideHeads(ty.v, x.kv[i][2]) : i \in 1..Len(x.kv)}
      [] ty.c = "nullable" -> IF x.t = "simple" THEN {} ELSE WideHeads(ty.e, x)
      [] OTHER -> {}

\* ------------------------------------------------------------ the laws (checked by MCCborHelpers)
LawValueRoundTrip(ty, i) == Acc(ty, i) => LET v == Dec(ty, i) IN Acc(ty, Enc(ty, v)) /\ Dec(ty, Enc(ty, v)) = v
LawPreserve(ty, i)       == (Acc(ty, i) /\ Preserving(ty)) => Enc(ty, Dec(ty, i)) = i
\* (c) after the script the encoding is that of the content, whichever way the KeepRaw was obtained;
\*     in particular it is not the old encoding when something was pushed
Pushes(ty, v) == ~(ty.c = "vec" /\ v = <<>>) /\ ~(IsKR(ty) /\ ty.e.c = "vec" /\ IsKR(ty.e.e) /\ v.inner = <<>>)
LawMutation(ty, i)       == (Acc(ty, i) /\ CanMutate(ty)) =>
                               \A o \in Origins :
                                  LET v == Orig(ty, Dec(ty, i), o)
                                      m == Mutate(ty, v)
                                  IN /\ (IsKR(ty) => Enc(ty, m) = Enc(ty.e, m.inner))
                                     /\ (Pushes(ty, v) => Ser(Enc(ty, m)) # Ser(Enc(ty, v)))
                                     /\ (o # "from" => Enc(ty, v) = Enc(ty, Dec(ty, i)))
LawEncWF(ty, i)          == Acc(ty, i) => LET e == Enc(ty, Dec(ty, i)) IN ItemOK(e) /\ WF(Tokens(e))
=============================================================================
