-------------------------- MODULE CborHelpersDom --------------------------
(* Bounded input domains for CborHelpers (C03): per wrapper instantiation a  *)
(* set of items.  The top level varies everything the wrapper itself looks   *)
(* at (every head width, definite / indefinite, lengths 0..MaxLen); nested   *)
(* positions draw from a few representatives (Core) so that the product      *)
(* stays small.  Every domain also contains foreign shapes (rejections).     *)
(* Tier = 1 (quick) / 2 (thorough: more payloads, longer lists).             *)
EXTENDS CborHelpers

CONSTANT Tier

MaxLen == IF Tier = 1 THEN 2 ELSE 3

SeqsUpTo(S, n) == UNION {[1..k -> S] : k \in 0..n}
Range(s) == {s[i] : i \in 1..Len(s)}

\* payload alphabet as value bytes: 0 23 24 255 256 65535 65536 2^32-1 2^32 2^64-1 (+ a few more when thorough)
Payloads ==
    {<<>>, <<23>>, <<24>>, <<255>>, <<1, 0>>, <<255, 255>>, <<1, 0, 0>>, <<255, 255, 255, 255>>,
     <<1, 0, 0, 0, 0>>, <<255, 255, 255, 255, 255, 255, 255, 255>>}
    \cup (IF Tier = 1 THEN {} ELSE {<<1>>, <<5>>, <<22>>, <<25>>, <<128>>, <<127, 255>>, <<128, 0>>, <<1, 0, 0, 0>>,
                                    <<127, 255, 255, 255>>, <<128, 0, 0, 0>>, <<127, 255, 255, 255, 255, 255, 255, 255>>,
                                    <<128, 0, 0, 0, 0, 0, 0, 0>>})

FitsArg(nb, w) == IF w = 0 THEN nb = <<>> \/ (Len(nb) = 1 /\ nb[1] < 24) ELSE Len(nb) <= w
UIntItems == {UInt(w, PadB(nb, w)) : <<nb, w>> \in {p \in Payloads \X Widths : FitsArg(p[1], p[2])}}
NIntItems == {NInt(w, PadB(nb, w)) : <<nb, w>> \in {p \in Payloads \X Widths : FitsArg(p[1], p[2])}}

u5w0 == UInt(0, <<5>>)
u5w1 == UInt(1, <<5>>)
u256 == UInt(2, <<1, 0>>)
u200 == UInt(1, <<200>>)
u7w8 == UInt(8, <<0, 0, 0, 0, 0, 0, 0, 7>>)

Foreign ==
    {u5w0, NInt(0, <<0>>), BStr(0, <<>>), BStr(0, <<1, 2>>), TStr(0, <<97>>), Arr(0, <<>>), ArrI(<<>>), Arr(0, <<u5w0, u5w0>>),
     Map(0, <<>>), MapI(<<>>), Map(0, <<<<u5w0, u5w0>>>>), Tag(2, <<1, 2>>, Arr(0, <<>>)), Tag(1, <<24>>, BWrap(0, u5w0)),
     Tag(0, <<2>>, BStr(0, <<255>>)), CFalse, CTrue, CNull, CUndef, BStrI(<<BStr(0, <<1>>), BStr(0, <<2, 3>>)>>)}

\* representatives for nested positions (a sequence, so that they can be picked by index)
RECURSIVE Core(_)
Core(ty) ==
    CASE ty.c = "anyuint" -> IF Tier = 1 THEN <<u5w0, u5w1, u256>> ELSE <<u5w0, u5w1, u256, u7w8, u200>>
      [] ty.c \in {"u32", "u64"} -> <<u5w0, u200, u256>>
      [] ty.c \in {"vec", "mia"} ->
            LET c == Core(ty.e) IN <<Arr(0, <<>>), ArrI(<<c[1]>>), Arr(1, <<c[2], c[Len(c)]>>), ArrI(<<>>)>>
      [] ty.c \in {"kvp", "nekvp"} ->
            LET k == Core(ty.k) v == Core(ty.v)
            IN <<MapI(<<<<k[1], v[1]>>>>), Map(1, <<<<k[2], v[2]>>, <<k[1], v[Len(v)]>>>>), Map(0, <<>>)>>
      [] ty.c = "keepraw" -> Core(ty.e)
      [] ty.c = "anycbor" -> <<u5w1, ArrI(<<Map(1, <<<<u5w0, BStrI(<<BStr(1, <<9>>)>>)>>>>)>>), Tag(4, <<0, 0, 0, 42>>, CNull), TStr(0, <<97, 98>>)>>

ArrDom(E) == {Arr(w, xs) : <<w, xs>> \in Widths \X SeqsUpTo(E, MaxLen)} \cup {ArrI(xs) : xs \in SeqsUpTo(E, MaxLen)}
MapDom(P) == {Map(w, kv) : <<w, kv>> \in Widths \X SeqsUpTo(P, MaxLen)} \cup {MapI(kv) : kv \in SeqsUpTo(P, MaxLen)}

\* the accepted-shape part of the domain of a type
RECURSIVE Shape(_)
Shape(ty) ==
    CASE ty.c = "anyuint" -> UIntItems
      [] ty.c \in {"u32", "u64"} -> UIntItems
      [] ty.c = "bool" -> {CFalse, CTrue}
      [] ty.c = "int" -> UIntItems \cup NIntItems
      [] ty.c = "bytes" ->
            {BStr(w, b) : <<w, b>> \in {p \in Widths \X {<<>>, <<7>>, [i \in 1..24 |-> i], [i \in 1..65 |-> i]} : FitsW(Len(p[2]), p[1])}}
            \cup {BStrI(<<>>), BStrI(<<BStr(0, <<1>>), BStr(1, <<2, 3>>)>>)}
      [] ty.c \in {"vec", "mia"} -> ArrDom(Range(Core(ty.e)))
      [] ty.c \in {"kvp", "nekvp"} ->
            MapDom({<<Core(ty.k)[1], Core(ty.v)[1]>>, <<Core(ty.k)[2], Core(ty.v)[2]>>, <<Core(ty.k)[3], Core(ty.v)[Len(Core(ty.v))]>>})
      [] ty.c = "nullable" -> Shape(ty.e)
      [] ty.c = "keepraw" -> Shape(ty.e)
      [] ty.c = "anycbor" -> Range(Core(TAnyCbor)) \cup Range(Core(TMia(TMia(TAnyUInt)))) \cup Range(Core(TKvp(TAnyUInt, TMia(TAnyUInt))))
                             \cup {BStr(4, <<1>>), TStrI(<<TStr(0, <<97>>)>>), NInt(8, <<255, 255, 255, 255, 255, 255, 255, 255>>)}
      [] ty.c \in {"set", "neset"} ->
            LET A == ArrDom(Range(Core(ty.e)))
            IN A \cup {Tag(w, PadB(<<1, 2>>, w), a) : <<w, a>> \in {2, 4, 8} \X {x \in A : x.t = "arrI" \/ x.w \in {0, 1}}}
                 \cup {Tag(2, <<1, 3>>, Arr(0, <<>>)), Tag(1, <<30>>, Arr(0, <<>>))}
      [] ty.c = "cborwrap" ->
            {Tag(tw, PadB(<<24>>, tw), BWrap(bw, i)) :
                <<tw, bw, i>> \in {q \in {1, 2} \X {0, 1} \X (Shape(ty.e) \cup {CNull}) : FitsW(Len(Ser(q[3])), q[2])}}
            \cup {Tag(1, <<25>>, BWrap(0, u5w0)), Tag(1, <<24>>, u5w0)}
      [] ty.c = "tagwrap30" ->
            {Tag(w, PadB(<<30>>, w), i) : <<w, i>> \in {1, 2, 8} \X Shape(ty.e)} \cup {Tag(1, <<31>>, u5w0), Tag(0, <<3>>, u5w0)}
      [] ty.c = "z1" -> {Arr(w, xs) : <<w, xs>> \in Widths \X SeqsUpTo(Range(Core(ty.e)), 2)} \cup {ArrI(<<>>), ArrI(<<u5w0>>)}
      [] ty.c = "opp" -> MapDom({<<u5w0, u200>>, <<u256, u5w1>>, <<u5w0, u5w0>>})
      [] ty.c = "emptymap" -> {Map(0, <<>>), Map(1, <<>>), MapI(<<>>), Map(0, <<<<u5w0, u5w0>>>>)}
      [] ty.c = "thing" ->
            UIntItems \cup {CFalse, CTrue}
            \cup {Arr(w, <<b, u, i>>) : <<w, b, u, i>> \in {0, 1} \X {CFalse, CTrue} \X {u5w0, u7w8, UInt(8, <<255, 255, 255, 255, 255, 255, 255, 255>>)} \X {u5w1, u256}}
            \cup {ArrI(<<CTrue, u5w0, u5w0>>), Arr(0, <<CTrue, u5w0>>), Arr(0, <<CTrue, u5w0, u5w0, u5w0>>), Arr(0, <<u5w0, u5w0, u5w0>>)}

Dom(ty) == Shape(ty) \cup (IF ty.c = "nullable" THEN {CNull, CUndef} ELSE {}) \cup Foreign

\* the wrapper instantiations under check (the harness has the same list, by Name)
Types ==
    <<TAnyUInt,
      TMia(TAnyUInt), TMia(TMia(TAnyUInt)), TMia(TKvp(TAnyUInt, TMia(TAnyUInt))),
      TKvp(TAnyUInt, TAnyUInt), TKvp(TAnyUInt, TMia(TAnyUInt)), TKvp(TU32, TU32), TNeKvp(TAnyUInt, TAnyUInt),
      TNullable(TAnyUInt), TNullable(TMia(TAnyUInt)),
      TKeepRaw(TVec(TU32)), TKeepRaw(TMia(TAnyUInt)), TVec(TKeepRaw(TMia(TAnyUInt))),
      TKeepRaw(TVec(TKeepRaw(TMia(TAnyUInt)))), TCborWrap(TKeepRaw(TVec(TU32))),
      TAnyCbor, TVec(TAnyCbor),
      TSet(TU32), TNeSet(TU32), TCborWrap(TU32), TCborWrap(TMia(TAnyUInt)), TTagWrap(TU32), TZ1(TU32),
      TOpp, TEmptyMap, TBytes, TInt, TThing>>

TypeSet == Range(Types)
ByWrapper(c) == {ty \in TypeSet : ty.c = c}
=============================================================================
