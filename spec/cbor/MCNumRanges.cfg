CONSTANTS
  Tier = 1
INIT Init
NEXT Next
INVARIANT NeverHoldsZero
INVARIANT ZeroIsAnError
INVARIANT AllOrNothing
INVARIANT SameAsConstructor
INVARIANT TreesWellFormed
CHECK_DEADLOCK FALSE
