---------------------------- MODULE MCPlutusOrd ----------------------------
(* Exhaustive configuration for C07, part 1: every term of the universe is   *)
(* encoded and decoded by the specification; every alternative chunking is   *)
(* decoded.  Laws of the encoding are invariants.                            *)
EXTENDS PlutusOrdDom

VARIABLES ph, term, item
vars == <<ph, term, item>>
NoTerm == [k |-> "none"]

Init == ph = "idle" /\ term = NoTerm /\ item = CNull

EncodeKind(k) == /\ ph = "idle"
                 /\ \E i \in 1..N : U[i].k = k /\ term' = U[i] /\ item' = Enc(U[i])
                 /\ ph' = "encoded"
EncodeBigInt       == ph = "idle" /\ EncodeKind("int")
EncodeBoundedBytes == ph = "idle" /\ EncodeKind("bytes")
EncodeArray        == ph = "idle" /\ EncodeKind("arr")
EncodeMap          == ph = "idle" /\ EncodeKind("map")
EncodeConstr       == ph = "idle" /\ EncodeKind("constr")
\* a peer's encoding with another chunking of the same byte string
Rechunk == /\ ph = "encoded" /\ Alts(term) # {}
           /\ \E a \in Alts(term) : item' = a
           /\ ph' = "foreign" /\ UNCHANGED term
Decode  == ph \in {"encoded", "foreign"} /\ ph' = "decoded" /\ UNCHANGED <<term, item>>
Drop    == ph = "decoded" /\ ph' = "idle" /\ term' = NoTerm /\ item' = CNull

Next == EncodeBigInt \/ EncodeBoundedBytes \/ EncodeArray \/ EncodeMap \/ EncodeConstr \/ Rechunk \/ Decode \/ Drop

\* chunking discipline of one bounded_bytes item
ChunkingOK(x, b) ==
    IF Len(b) <= ChunkSize THEN x.t = "bytes" /\ x.b = b
    ELSE /\ x.t = "bytesI" /\ Len(x.cs) = (Len(b) + ChunkSize - 1) \div ChunkSize
         /\ \A i \in 1..Len(x.cs) : Len(x.cs[i].b) = (IF i < Len(x.cs) THEN ChunkSize ELSE Len(b) - ChunkSize * (Len(x.cs) - 1))
         /\ Payload(x) = b

RoundTrip     == ph = "decoded" => Dec(item) = term
WellFormed    == ph # "idle" => ItemOK(item) /\ WF(Tokens(item))
Chunked       == (ph = "encoded" /\ HasTopBytes(term)) =>
                    ChunkingOK(IF term.k = "bytes" THEN item ELSE item.x, TopBytes(term))
ErasureStable == ph = "encoded" => Erase(Erase(term)) = Erase(term)
=============================================================================
