"""C39 - Sequence validation updates certificate state atomically.

spec/ledger/ValidateTxs.tla   CallSpec (all-or-nothing over an uninterpreted Step) + the copy-on-write design model
  MC   : MCValidateTxs - all sequences of length <= 3 (4 thorough) over {state-changing, neutral, failing,
         index-dependent, state-dependent} transactions: the design model implements CallSpec, caller state never half-updated
  M3   : pv-ledger validate-txs-trace - random sequences of valid / invalid Shelley-MA and Alonzo fixtures through the
         real validate_txs; CertState fingerprinted before/after; Step learned from validate_tx reference runs on a clone;
         TraceValidateTxs checks every call against CallSpec
"""
import json
import os
import vlib


def run(ctx):
    binary = ctx.build("pv-ledger")
    ctx.assume("the certificate state is compared through an interned canonical dump of all CertState fields")
    ctx.assume("Step(state, tx, index) is learned from validate_tx runs on a clone of the state (first occurrence defines)")
    cfg = "MCValidateTxs.cfg"
    if not ctx.thorough:
        cfg = ctx.path("MCquick.cfg")
        src = open(os.path.join(vlib.SPEC, "ledger", "MCValidateTxs.cfg")).read()
        open(cfg, "w").write(src.replace("MaxLen = 4", "MaxLen = 3"))
    ctx.tlc_mc("ledger", "MCValidateTxs", cfg, workers=4, required_actions=["CallBegin", "StepTx", "Abort", "Commit"])

    tr = ctx.path("trace.ndjson")
    runs, calls = (30, 20) if ctx.thorough else (6, 12)
    out = ctx.run_bin(binary, ["validate-txs-trace", "--seed", ctx.seed, "--runs", runs, "--calls", calls, "--out", tr])
    stats = json.loads(out.strip().splitlines()[-1])
    ctx.cov["run_stats"] = stats
    events = vlib.read_ndjson(tr)
    calls_ok = [e for e in events if e["ev"] == "call" and e["res"] == "Ok" and e["st2"] != e["st"]]
    calls_err_after_change = 0
    steps = {}
    for e in events:
        if e["ev"] == "step":
            steps[(e["st"], e["tx"], e["ix"])] = e
    for e in events:
        if e["ev"] == "call" and e["res"] == "Err" and len(e["txs"]) >= 2:
            k = (e["st"], e["txs"][0], 0)
            if k in steps and steps[k]["ok"] and steps[k]["st2"] != e["st"]:
                calls_err_after_change += 1
    ctx.cov["calls_changing_state"] = len(calls_ok)
    ctx.cov["failing_calls_after_a_state_changing_tx"] = calls_err_after_change
    if not calls_ok or not calls_err_after_change or stats["states"] < 4:
        raise vlib.ToolError("trace does not exercise the interesting cases: %s" % stats)
    ok, matched, total, first = ctx.tlc_trace("ledger", "TraceValidateTxs", "TraceValidateTxs.cfg", tr)
    ctx.cov["traces_validated_against_impl"] += 2 * runs
    ctx.cov["evaluations"] += total
    ctx.sample({"impl_trace_events": [e for e in events if e["ev"] == "call"][:3]})
    if not ok:
        what = "event %d not allowed by ValidateTxs!CallSpec: %s" % (matched + 1, json.dumps(first))
        if first["ev"] == "call":
            key = "validate_txs/%s/%s" % (first["res"], "state-changed" if first["st"] != first["st2"] else "state-kept")
        else:
            key = "trace/%s" % first["ev"]
        ctx.report(key, what, payload={"event_index": matched + 1, "event": first}, src_file=tr)

    if not ctx.violations:
        # binding self-test: pretend a failing call had modified the caller's state; drop a reference step
        idx = next(i for i, e in enumerate(events) if e["ev"] == "call" and e["res"] == "Err" and i > 5)
        corrupt = [dict(e) for e in events[: idx + 3]]
        corrupt[idx]["st2"] = corrupt[idx]["st"] + 1000
        p1 = ctx.path("trace_corrupt.ndjson")
        vlib.write_ndjson(p1, corrupt)
        ok1, m1, _, _ = ctx.tlc_trace("ledger", "TraceValidateTxs", "TraceValidateTxs.cfg", p1, count=False)
        ctx.selftest("failing call %d reports a changed state" % (idx + 1), (not ok1) and m1 == idx)
        sidx = next(i for i, e in enumerate(events) if e["ev"] == "step" and i > 2)
        dropped = [e for i, e in enumerate(events[: sidx + 6]) if i != sidx]
        p2 = ctx.path("trace_dropped.ndjson")
        vlib.write_ndjson(p2, dropped)
        ok2, m2, _, _ = ctx.tlc_trace("ledger", "TraceValidateTxs", "TraceValidateTxs.cfg", p2, count=False)
        ctx.selftest("drop reference step %d" % (sidx + 1), (not ok2) and m2 == sidx, "matched %d" % m2)

    return ctx.finish(
        rule="MC: the copy-on-write loop implements all-or-nothing for every sequence up to the bound; M3: seeded random sequences "
             "(length 0..4) of valid and invalid Shelley-MA / Alonzo fixtures (pool registration, stake delegation depending on it, MIR, "
             "minting, scripts; invalid siblings failing after their certificates were processed) through validate_txs with the "
             "certificate state fingerprinted before and after, checked by TLC against the fold of the learned single-transaction steps",
        exhaustive=False)
