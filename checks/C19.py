"""C19 - Byron addresses round-trip; corrupted ones are rejected.

spec/addr/ByronAddr.tla  (address = (payload, crc); CRC uninterpreted, learned from an independent
                          CRC-32/ISO-HDLC pinned by known answers; a parser may yield (p, c) only if c = CRC[p])
  MC : toy instance 2 payloads x 2 checksums, every learnable checksum function, every parser
  M3 : random payloads -> from_decoded -> round trip through seven parsers; every single-bit corruption of the
       encoding of a sample of addresses fed to the same parsers; validated by TraceByronAddr
"""
import json
import vlib

N_KAT = 6
MAX_ROUNDS = 8


def _key(first, events, matched):
    ev = first.get("ev")
    if ev == "panic":
        return "panic/%s" % first.get("at")
    if ev == "parse":
        region = next((e["region"] for e in reversed(events[:matched]) if e["ev"] == "corrupt"), "?")
        return "parse/%s/%s-bitflip" % (first.get("entry"), region)
    if ev == "roundtrip":
        # size class: the base58 crate decodes into a fixed 132-byte buffer
        big = "/over-132-bytes" if first.get("len", 0) > 132 else ""
        return "roundtrip/%s%s" % (first.get("entry"), big)
    return "%s" % ev


def run(ctx):
    binary = ctx.build("pv-addr")
    ctx.assume("CRC-32 is uninterpreted in the spec; its values are learned from the harness's table-driven "
               "CRC-32/ISO-HDLC, checked against 6 known answers (python3 zlib.crc32) frozen in ByronAddr.tla")
    ctx.assume("CBOR/base58/hex framing is not modelled; corrupted text forms are derived from the corrupted bytes "
               "with the base58 and hex crates")

    ctx.tlc_mc("addr", "MCByronAddr", "MCByronAddr.cfg", workers=2,
               required_actions=["Learn", "FromDecoded", "RoundTrip", "DoParse", "ParseOtherKind"])

    n, sample = (600, 24) if ctx.thorough else (120, 6)
    tr = ctx.path("trace.ndjson")
    ctx.run_bin(binary, ["byron-trace", "--seed", ctx.seed, "--n", n, "--corrupt", sample, "--out", tr])
    events = vlib.read_ndjson(tr)
    if sum(1 for e in events if e["ev"] == "kat") != N_KAT:
        raise vlib.ToolError("harness did not exercise all known answers")
    flips = sum(1 for e in events if e["ev"] == "corrupt")
    ctx.cov["addresses_built"] = n
    ctx.cov["single_bit_corruptions"] = flips
    ctx.cov["parser_calls_on_corrupted_input"] = flips * 7
    ctx.sample({"impl_trace_events": [events[N_KAT], events[N_KAT + 1], events[N_KAT + 2]]})

    # TLC stops at the first event the spec does not allow. To name every failing (parser, region) class the
    # events of a rejected class are removed and the rest is validated again (TLC stays the judge each time).
    cur, path, rounds, skipped = events, tr, 0, set()
    while True:
        ok, matched, total, first = ctx.tlc_trace("addr", "TraceByronAddr", "TraceByronAddr.cfg", path, count=(rounds == 0))
        if rounds == 0:
            ctx.cov["traces_validated_against_impl"] += n
            ctx.cov["evaluations"] += total
        if ok:
            break
        if first.get("ev") in ("kat", "crc"):
            raise vlib.ToolError("independent CRC implementation is inconsistent: %s" % json.dumps(first)[:300])
        key = _key(first, cur, matched)
        ctx.sample({"rejected_event": first})
        ctx.report(key, "event not allowed by ByronAddr: %s" % json.dumps(first)[:500],
                   payload={"event_index": matched + 1, "event": first, "context": cur[max(0, matched - 3):matched]},
                   src_file=path if rounds == 0 else None)
        rounds += 1
        if rounds >= MAX_ROUNDS or key in skipped:
            ctx.notes.append("stopped classifying rejected events after %d rounds" % rounds)
            break
        skipped.add(key)
        # drop every event of the rejected class
        nxt, region = [], "?"
        for e in cur:
            if e["ev"] == "corrupt":
                region = e["region"]
            if _key(e, [{"ev": "corrupt", "region": region}], 1) == key and e["ev"] in ("parse", "roundtrip", "panic"):
                continue
            nxt.append(e)
        cur = nxt
        path = ctx.path("trace_round%d.ndjson" % rounds)
        vlib.write_ndjson(path, cur)

    # binding self-test (on a short prefix): a wrong checksum on an accepted parse / a dropped learn event
    if not ctx.violations:
        idx = next(i for i, e in enumerate(events) if e["ev"] == "roundtrip")
        cut = [dict(e) for e in events[: idx + 10]]
        c1 = [dict(e) for e in cut]
        c1[idx]["crc"] = "%08x" % (int(c1[idx]["crc"], 16) ^ 1)
        p1 = ctx.path("trace_corrupt.ndjson")
        vlib.write_ndjson(p1, c1)
        ok1, m1, _, _ = ctx.tlc_trace("addr", "TraceByronAddr", "TraceByronAddr.cfg", p1, count=False)
        ctx.selftest("flip one bit of the crc in roundtrip event %d" % (idx + 1), (not ok1) and m1 == idx)
        # an accepted parse of a payload whose checksum differs must be rejected
        c2 = cut + [{"ev": "corrupt", "bit": 0, "region": "crc"},
                    {"ev": "parse", "entry": "ByronAddress::from_bytes", "outcome": "ok",
                     "payload": cut[idx]["payload"], "crc": "%08x" % (int(cut[idx]["crc"], 16) ^ 0x80)}]
        p2 = ctx.path("trace_accept_bad.ndjson")
        vlib.write_ndjson(p2, c2)
        ok2, m2, _, _ = ctx.tlc_trace("addr", "TraceByronAddr", "TraceByronAddr.cfg", p2, count=False)
        ctx.selftest("append an accepted parse with a wrong checksum", (not ok2) and m2 == len(c2) - 1)
        ilearn = idx - 2
        c3 = [e for i, e in enumerate(cut) if i != ilearn]
        p3 = ctx.path("trace_dropped.ndjson")
        vlib.write_ndjson(p3, c3)
        ok3, m3, _, _ = ctx.tlc_trace("addr", "TraceByronAddr", "TraceByronAddr.cfg", p3, count=False)
        ctx.selftest("drop crc-learn event %d" % (ilearn + 1), (not ok3) and m3 == ilearn, "matched %d" % m3)
        # a wrong known answer must be rejected
        c4 = [dict(e) for e in events[:N_KAT]]
        c4[2]["crc"] = "cbf43927"
        p4 = ctx.path("trace_badkat.ndjson")
        vlib.write_ndjson(p4, c4)
        ok4, m4, _, _ = ctx.tlc_trace("addr", "TraceByronAddr", "TraceByronAddr.cfg", p4, count=False)
        ctx.selftest("wrong known answer for '123456789'", (not ok4) and m4 == 2)

    return ctx.finish(
        rule="MC: 2 payloads x 2 checksums, all learnable checksum functions, all parsers (accept iff match); "
             "M3: seeded random address payloads (4 address types, attribute combinations) built with from_decoded, "
             "round trip through 7 parser entry points, and every single-bit corruption of the encoded bytes of a "
             "sample fed to the same 7 parsers; each event accepted or rejected by TraceByronAddr",
        exhaustive=False)
