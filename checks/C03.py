"""C03 - CBOR helper wrappers round-trip and preserve original encodings.

spec/lib/CborTok.tla      token-level CBOR items, Ser, pushdown well-formedness machine
spec/cbor/CborHelpers.tla Acc / Dec / Enc / View per wrapper instantiation; the property's laws
  MC  : MCCborHelpers - every (instantiation, item) of the bounded domains decoded, re-encoded, mutated;
        laws (a) Dec(Enc(v)) = v, (b) preserving wrappers Enc(Dec(i)) = i, (c) KeepRaw mutation for every way of
        obtaining the KeepRaw (decoded, to_owned, clone, From<T>/serde) and for nested KeepRaw, as invariants;
        MCCborTok - the well-formedness machine accepts exactly the token streams of items
  M1  : GenCborHelpers prints one vector per (instantiation, item): input bytes, expected re-encoding,
        expected bytes after the scripted DerefMut mutation, the abstract value; pv-cbor helpers-replay
        runs them through the real pallas_codec::utils types.
Verdict rules (only what the property states):
  * a form-retaining wrapper that accepts an input must re-encode it to the same bytes,
  * decode(encode(v)) = v for values obtained by decoding and for values built from the spec's abstract value,
  * KeepRaw after deref_mut().push(3) encodes the new content.
Everything else the design model knows (which inputs are accepted, the decoded value, the canonical bytes of
the value-level wrappers) is compared too but only produces DRIFT notes.
"""
import json
import os
import vlib

SPEC_DIR = "cbor"


def strip_raw(v):
    if isinstance(v, dict):
        return {k: strip_raw(x) for k, x in v.items() if k != "raw"}
    if isinstance(v, list):
        return [strip_raw(x) for x in v]
    return v


def hexs(b):
    return "".join("%02x" % x for x in b)


def judge(row, res):
    """-> (violations [(key, what)], drifts [text])"""
    ty = row["ty"]
    wr = ty.split("<")[0]
    vio, drift = [], []
    inp = hexs(row["bytes"])
    if res["dec"] == "ok":
        if not row["acc"]:
            drift.append("%s accepts %s which the design model rejects" % (ty, inp))
        elif res["view"] != row["view"]:
            drift.append("%s decodes %s to %s, design model %s" % (ty, inp, json.dumps(res["view"]), json.dumps(row["view"])))
        if row["pres"]:
            want = row["reenc"] if row["acc"] else row["bytes"]
            if res["enc"] != want:
                if row["acc"] and res["enc"] == row["lh"] and row["lhw"]:
                    for w in row["lhw"]:
                        vio.append(("%s/definite-length-head-width-lost" % w,
                                    "%s accepts %s and re-encodes it as %s (%s does not keep the width of a definite length head)"
                                    % (ty, inp, hexs(res["enc"]), w)))
                else:
                    vio.append(("%s/reencode-differs/%s" % (ty, row["cls"]),
                                "%s accepts %s but re-encodes it as %s" % (ty, inp, hexs(res["enc"]))))
        elif row["acc"] and res["enc"] not in (row["reenc"], row["lh"]):
            drift.append("%s re-encodes %s as %s, design model %s" % (ty, inp, hexs(res["enc"]), hexs(row["reenc"])))
        rd = res["redec"]
        if not (rd["ok"] and rd["same"] and strip_raw(rd["view"]) == strip_raw(res["view"])):
            vio.append(("%s/value-roundtrip/%s" % (wr, row["cls"]),
                        "%s: value decoded from %s does not survive encode+decode: %s" % (ty, inp, json.dumps(rd)[:300])))
        if row["mutable"]:
            if res.get("mut") != row["mut"] and res.get("mut") == row["mut_lh"] and row["mut_lhw"]:
                for w in row["mut_lhw"]:
                    vio.append(("%s/definite-length-head-width-lost" % w,
                                "%s decoded from %s and mutated encodes as %s (%s does not keep the width of a definite length head)"
                                % (ty, inp, hexs(res["mut"]), w)))
            elif res.get("mut") != row["mut"]:
                vio.append(("%s/mutation-reencode" % ty,
                            "%s decoded from %s, after deref_mut().push(3), encodes as %s; new content encodes as %s"
                            % (ty, inp, hexs(res.get("mut") or []), hexs(row["mut"]))))
        # every way of holding the decoded KeepRaw: same bytes before, new content after the script
        obs = res.get("origins") or {}
        if row["mutable"] and "panic" in obs:
            vio.append(("%s/mutation-panic" % ty, "%s decoded from %s: clone / to_owned / mutate panics: %s" % (ty, inp, obs["panic"])))
            obs = {}
        for o, got in sorted(obs.items()) if row["mutable"] else []:
            want = row["origins"]["from" if o == "serde" else o]
            for phase in ("before", "after"):
                if got[phase] == want[phase]:
                    continue
                if got[phase] == want[phase + "_lh"] and row["mut_lhw"]:
                    for w in row["mut_lhw"]:
                        vio.append(("%s/definite-length-head-width-lost" % w,
                                    "%s decoded from %s (%s, %s the mutation) encodes as %s (%s does not keep the width of a definite length head)"
                                    % (ty, inp, o, phase, hexs(got[phase]), w)))
                elif phase == "after":
                    vio.append(("%s/mutation-reencode/%s" % (ty, o),
                                "%s decoded from %s, obtained by %s, after the DerefMut script encodes as %s; new content encodes as %s"
                                % (ty, inp, o, hexs(got[phase]), hexs(want[phase]))))
                elif o in ("from", "serde") or not row["pres"]:
                    drift.append("%s built %s from %s encodes as %s, design model %s" % (ty, o, inp, hexs(got[phase]), hexs(want[phase])))
                else:
                    vio.append(("%s/copy-reencode-differs/%s" % (ty, o),
                                "%s decoded from %s, obtained by %s, encodes as %s instead of the original bytes"
                                % (ty, inp, o, hexs(got[phase]))))
    else:
        if res["dec"] == "panic":
            drift.append("%s panics on %s: %s" % (ty, inp, res.get("msg")))
        if row["acc"]:
            drift.append("%s rejects %s which the design model accepts (%s)" % (ty, inp, res.get("msg")))
    b = res.get("built")
    if b is not None:
        if not (b.get("ok") and b.get("same") and strip_raw(b["view"]) == strip_raw(b["view0"])):
            vio.append(("%s/built-value-roundtrip/%s" % (wr, row["cls"]),
                        "%s: value built from %s does not survive encode+decode: %s" % (ty, json.dumps(row["view"])[:200], json.dumps(b)[:300])))
        elif strip_raw(b["view0"]) != strip_raw(row["view"]):
            drift.append("%s: built value shows %s, expected %s" % (ty, json.dumps(b["view0"])[:200], json.dumps(row["view"])[:200]))
    return vio, drift


def evaluate(ctx, rows, results, report=True):
    nv = 0
    drifts = []
    for row, res in zip(rows, results):
        vio, dr = judge(row, res)
        drifts += dr
        for key, what in vio:
            nv += 1
            if report:
                ctx.report(key, what, payload={"vector": row, "observed": res})
    return nv, drifts


def run(ctx):
    binary = ctx.build("pv-cbor")
    tier = 2 if ctx.thorough else 1
    ctx.assume("container element types are instantiated with AnyUInt (itself form-retaining) so that a lost byte is the wrapper's own")
    ctx.assume("equality of KeepRaw values built with From<T> (no raw bytes, as documented) is equality of the content")

    # 1. model checking: the well-formedness machine and the laws on the specification
    ctx.tlc_mc(SPEC_DIR, "MCCborTok", "MCCborTok.cfg", workers=2,
               required_actions=["Atom", "OpenDef", "OpenIndef", "OpenTag", "Chunk", "Break", "Garbage"])
    cfg = ctx.path("MCCborHelpers.cfg")
    src = open(os.path.join(vlib.SPEC, SPEC_DIR, "MCCborHelpers.cfg")).read()
    open(cfg, "w").write(src.replace("Tier = 1", "Tier = %d" % tier))
    ctx.tlc_mc(SPEC_DIR, "MCCborHelpers", cfg, workers=4, timeout=1500,
               required_actions=["DecAnyUInt", "DecMaybeIndefArray", "DecKeyValuePairs", "DecNonEmptyKeyValuePairs",
                                 "DecNullable", "DecKeepRaw", "DecAnyCbor", "DecVec", "DecSet", "DecNonEmptySet",
                                 "DecCborWrap", "DecTagWrap", "DecZeroOrOneArray", "DecOrderPreservingProperties",
                                 "DecEmptyMap", "DecBytes", "DecInt", "DecByDatatype", "Encode", "ToOwned", "CloneIt", "FromInner",
                                 "DerefMut", "Drop"])

    # 2. M1: TLC vectors -> real types
    gcfg = ctx.path("GenCborHelpers.cfg")
    open(gcfg, "w").write("CONSTANTS\n  Tier = %d\n" % tier)
    vec = ctx.path("vectors.ndjson")
    n = ctx.tlc_gen(SPEC_DIR, "GenCborHelpers", gcfg, vec, workers=1, timeout=1500)
    out = ctx.path("results.ndjson")
    ctx.run_bin(binary, ["helpers-replay", "--in", vec, "--out", out])
    rows = vlib.read_ndjson(vec)
    results = vlib.read_ndjson(out)
    if len(rows) != len(results) or n != len(rows):
        raise vlib.ToolError("replay produced %d results for %d vectors" % (len(results), len(rows)))
    ctx.cov["traces_validated_against_impl"] += len(rows)
    ctx.cov["evaluations"] += len(rows)
    ctx.cov["vectors_by_wrapper"] = {}
    for r in rows:
        ctx.cov["vectors_by_wrapper"][r["ty"]] = ctx.cov["vectors_by_wrapper"].get(r["ty"], 0) + 1
    ctx.cov["accepted_by_impl"] = sum(1 for r in results if r["dec"] == "ok")
    ctx.cov["built_values_roundtripped"] = sum(1 for r in results if r.get("built") is not None)
    nv, drifts = evaluate(ctx, rows, results)
    ctx.cov["failing_vectors"] = nv
    ctx.cov["drift_count"] = len(drifts)
    by_cat = {}
    for d in drifts:
        w = d.split(" ")
        cat = w[0] + " " + (w[1] if w[1] in ("accepts", "rejects", "decodes", "re-encodes", "panics", "built") else "")
        by_cat.setdefault(cat, []).append(d)
    for cat in sorted(by_cat)[:14]:
        ctx.notes.append("DRIFT (%d x) e.g. %s" % (len(by_cat[cat]), by_cat[cat][0][:260]))
    pick = [i for i, r in enumerate(rows) if r["ty"] == "keepraw<vec<u32>>" and r["mutable"]][:1] + \
           [i for i, r in enumerate(rows) if r["ty"] == "kvp<anyuint,mia<anyuint>>" and r["acc"] and r["cls"] == "indef"][:1]
    for i in pick:
        ctx.sample({"vector": rows[i], "observed": results[i]})

    # 3. binding self-test: a corrupted expectation / a corrupted observation must be noticed
    if not ctx.violations:
        clean = [i for i, (r, s) in enumerate(zip(rows, results)) if r["pres"] and r["acc"] and s["dec"] == "ok" and not judge(r, s)[0]]
        i = clean[len(clean) // 2]
        bad = dict(rows[i])
        bad["reenc"] = bad["reenc"][:-1] + [(bad["reenc"][-1] + 1) % 256]
        ctx.selftest("corrupt expected re-encoding of vector %d (%s)" % (i, rows[i]["ty"]), len(judge(bad, results[i])[0]) > 0)
        j = next(k for k in clean if rows[k]["mutable"])
        obs = dict(results[j])
        obs["mut"] = results[j]["enc"]
        ctx.selftest("stale raw bytes after mutation in vector %d" % j, any("mutation" in k for k, _ in judge(rows[j], obs)[0]))
        k2 = next(k for k in clean if rows[k]["mutable"] and rows[k]["ty"].startswith("keepraw<vec<keepraw"))
        o3 = json.loads(json.dumps(results[k2]))
        o3["origins"]["owned"]["after"] = o3["origins"]["owned"]["before"]
        ctx.selftest("stale raw bytes after mutating a to_owned() nested KeepRaw in vector %d" % k2,
                     any("mutation-reencode/owned" in k for k, _ in judge(rows[k2], o3)[0]))
        obs2 = dict(results[i])
        obs2["redec"] = dict(obs2["redec"], same=False)
        ctx.selftest("unequal value after round trip in vector %d" % i, any("value-roundtrip" in k for k, _ in judge(rows[i], obs2)[0]))

    return ctx.finish(
        rule="MC: laws (a)(b)(c) on the specification over all items of the bounded domains (28 wrapper instantiations, "
             "payloads 0/23/24/255/256/65535/65536/2^32-1/2^32/2^64-1 at every head width, def/indef containers to depth 3); "
             "M1: every such item replayed into the real types: accepted => same bytes for the form-retaining wrappers, "
             "decode(encode(v)) = v for decoded and for built values, KeepRaw mutation encodes the new content",
        exhaustive=False)
