"""C37 - Accepted script transactions respect the execution-unit budget

Shares the machinery of C33 (checks/C33.py: spec/ledger/Phase1.tla, MCPhase1, TracePhase1, pv-ledger phase1-trace).
Demand: accepted and Plutus scripts in use (witness set or reference) => sum mem <= maxMem and sum steps <= maxSteps.
"""
import importlib.util
import os

_spec = importlib.util.spec_from_file_location("check_C33_shared", os.path.join(os.path.dirname(os.path.abspath(__file__)), "C33.py"))
shared = importlib.util.module_from_spec(_spec)
_spec.loader.exec_module(shared)


def run(ctx):
    return shared.run_phase1(ctx, "C37",
                             "MC: Accept => BudgetOK; M3: Plutus fixtures of Alonzo/Babbage/Conway with the limits moved to sum, sum-1, sum+1 around the transaction's totals, and Conway redeemers rescaled below / at / above the limits in list and map encoding (script data hash recomputed with pallas-primitives); BigNat sums compared by TLC")
