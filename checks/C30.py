"""C30 - Block traversal exposes each transaction with its own parts.

spec/traverse/BlockTraverse.tla
  MC : MCBlockTraverse - the traversal as the code performs it (clone_tx_at per index: parts by position, success
       from the invalid list, aux data by key scan) against the declarative Txs(b), for every block with <= 3
       transactions, any invalid *list* of length <= 2 (3 thorough; unsorted, repeated, out-of-range indices), any sparse aux map in
       ascending / descending / rotated wire order, wrapper tags 2..7
  M1 : GenBlockTraverse - each of those blocks built as CBOR around a real header of the era (labelled parts:
       fee / vkey / metadata label), MultiEraBlock::decode, era / tx_count / txs read through the public API
  M3 : all test_data blocks, immutable-DB chunk blocks and generated variants of real blocks (random invalid lists in any
       order with repeated / out-of-range indices, aux maps re-keyed sparsely and written in random order), projected from the wire bytes; era / tx_count / per-tx parts validated by TraceBlockTraverse
"""
import json
import os
import vlib

SPEC_DIR = "traverse"


def run(ctx):
    binary = ctx.build("pv-traverse")
    ctx.assume("parts are identified by their wire bytes (interned per block); the library side is read from the "
               "KeepRaw bytes of the traversed MultiEraTx (M3) or through fee / vkey / metadata labels (M1)")
    ctx.assume("blocks have as many witness sets as bodies and distinct aux keys (others are skipped: property silent)")

    max_tx = 4 if ctx.thorough else 3
    cfg = ctx.path("MC.cfg")
    src = open(os.path.join(vlib.SPEC, SPEC_DIR, "MCBlockTraverse.cfg")).read()
    max_inv = 3 if ctx.thorough else 2
    open(cfg, "w").write(src.replace("MaxTx = 3", "MaxTx = %d" % max_tx).replace("MaxInv = 3", "MaxInv = %d" % max_inv))
    ctx.tlc_mc(SPEC_DIR, "MCBlockTraverse", cfg, workers=4, timeout=1700, required_actions=["CloneTxAt", "Collect"])

    # M1
    gcfg = ctx.path("Gen.cfg")
    src = open(os.path.join(vlib.SPEC, SPEC_DIR, "GenBlockTraverse.cfg")).read()
    open(gcfg, "w").write(src.replace("MaxTx = 3", "MaxTx = %d" % max_tx).replace("MaxInv = 3", "MaxInv = %d" % max_inv))
    vec = ctx.path("vectors.ndjson")
    n = ctx.tlc_gen(SPEC_DIR, "GenBlockTraverse", gcfg, vec, timeout=1700)
    res = ctx.path("replay_results.ndjson")
    ctx.run_bin(binary, ["block-replay", "--in", vec, "--out", res])
    rows = vlib.read_ndjson(res)
    if len(rows) != n:
        raise vlib.ToolError("replay returned %d results for %d vectors" % (len(rows), n))
    ctx.cov["traces_validated_against_impl"] += len(rows)
    ctx.cov["evaluations"] += len(rows)
    ctx.cov["m1_vectors"] = len(rows)
    with open(vec) as f:
        for i, line in enumerate(f):
            if i == 1500:
                ctx.sample({"tlc_vector": json.loads(line)})
                break
    seen = set()
    for r in rows:
        if r["ok"]:
            continue
        key = "m1/%s/tag%s" % (r["why"][0], r["tag"])
        if key in seen:
            continue
        seen.add(key)
        r.pop("cbor", None) if len(json.dumps(r)) > 20000 else None
        ctx.report(key, "MultiEraBlock traversal differs from BlockTraverse on a generated block: %s" % json.dumps({k: v for k, v in r.items() if k != "cbor"})[:700], payload=r)

    # M3
    tr_all = ctx.path("trace_all.ndjson")
    args = ["block-trace", "--seed", ctx.seed, "--out", tr_all]
    if ctx.thorough:
        args += ["--chunk-blocks", 100000, "--variants", 12, "--variant-blocks", 120]
    else:
        args += ["--chunk-blocks", 250, "--variants", 3, "--variant-blocks", 40]
    ctx.run_bin(binary, args)
    allev = vlib.read_ndjson(tr_all)
    events = [e for e in allev if e["ev"] in ("block", "panic")]
    stats = [e for e in allev if e["ev"] == "stats"][0]
    skips = [e for e in allev if e["ev"] == "skip"]
    blocks = [e for e in events if e["ev"] == "block"]
    if len(blocks) < 100:
        raise vlib.ToolError("corpus trace too small: %d blocks" % len(blocks))
    ctx.cov["m3_blocks"] = len(blocks)
    ctx.cov["m3_generated_variants"] = stats["variants"]
    ctx.cov["m3_transactions"] = sum(len(e["txs"]) for e in blocks)
    ctx.cov["m3_blocks_with_invalid_entries"] = sum(1 for e in blocks if e["blk"]["invalid"])
    ctx.cov["m3_blocks_with_aux"] = sum(1 for e in blocks if e["blk"]["aux"])
    ctx.cov["m3_eras"] = sorted(set(e["era"] for e in blocks))
    ctx.cov["m3_skipped"] = [{"src": e["src"], "why": e["why"]} for e in skips][:10]
    tr = ctx.path("trace.ndjson")
    vlib.write_ndjson(tr, events)
    cur = events
    rounds = 0
    while True:
        p = tr if rounds == 0 else ctx.path("trace_%d.ndjson" % rounds)
        if rounds:
            vlib.write_ndjson(p, cur)
        ok, m, total, first = ctx.tlc_trace(SPEC_DIR, "TraceBlockTraverse", "TraceBlockTraverse.cfg", p, count=(rounds == 0))
        if ok:
            break
        tag = first.get("blk", {}).get("tag", "?")
        what = "panic" if first.get("ev") == "panic" else ("generated" if "~v" in first.get("src", "") else "corpus")
        slim = dict(first)
        if len(json.dumps(slim)) > 3000:
            slim = {k: (v if k != "txs" else v[:5]) for k, v in first.items() if k != "blk"}
        ctx.report("trace/%s/tag%s" % (what, tag), "traversal of %s not allowed by BlockTraverse: %s" % (first.get("src"), json.dumps(slim)[:600]),
                   payload={"event": first})
        rest = [dict(e) for e in cur[m + 1:]]
        for k, e in enumerate(rest):
            e["seq"] = k + 1
        cur = rest
        rounds += 1
        if not cur or rounds >= 6:
            break
    ctx.cov["traces_validated_against_impl"] += len(events)
    ctx.cov["evaluations"] += len(events)
    unsorted = [e for e in blocks if e["blk"]["invalid"] != sorted(e["blk"]["invalid"])]
    ctx.cov["m3_blocks_with_unsorted_invalid_list"] = len(unsorted)
    ctx.cov["m3_blocks_with_unsorted_aux_keys"] = sum(1 for e in blocks if [p[0] for p in e["blk"]["aux"]] != sorted(p[0] for p in e["blk"]["aux"]))
    if len(unsorted) < 5:
        raise vlib.ToolError("generated variants do not exercise unsorted invalid lists")
    small = next(e for e in unsorted if len(e["txs"]) <= 6)
    ctx.sample({"impl_trace_event": small})

    # binding self-test
    if not ctx.violations:
        head = [json.loads(json.dumps(e)) for e in events if len(e.get("txs", [])) <= 30][:80]
        for k, e in enumerate(head):
            e["seq"] = k + 1
        idx = next(i for i, e in enumerate(head) if i > 10 and e["ev"] == "block" and len(e["txs"]) >= 2)
        c1 = json.loads(json.dumps(head))
        c1[idx]["txs"][0]["valid"] = not c1[idx]["txs"][0]["valid"]
        p1 = ctx.path("selftest_valid.ndjson")
        vlib.write_ndjson(p1, c1)
        ok1, m1, _, _ = ctx.tlc_trace(SPEC_DIR, "TraceBlockTraverse", "TraceBlockTraverse.cfg", p1, count=False)
        ctx.selftest("flip the validity of the first tx of event %d" % (idx + 1), (not ok1) and m1 == idx)
        c2 = json.loads(json.dumps(head))
        t = c2[idx]["txs"]
        t[0]["wits"], t[1]["wits"] = t[1]["wits"], t[0]["wits"]
        if t[0]["wits"] == t[1]["wits"]:
            t[0]["wits"] = 999999
        p2 = ctx.path("selftest_swap.ndjson")
        vlib.write_ndjson(p2, c2)
        ok2, m2, _, _ = ctx.tlc_trace(SPEC_DIR, "TraceBlockTraverse", "TraceBlockTraverse.cfg", p2, count=False)
        ctx.selftest("swap the witness sets of two txs of event %d" % (idx + 1), (not ok2) and m2 == idx)
        c3 = [e for i, e in enumerate(head) if i != idx]
        p3 = ctx.path("selftest_drop.ndjson")
        vlib.write_ndjson(p3, c3)
        ok3, m3, _, _ = ctx.tlc_trace(SPEC_DIR, "TraceBlockTraverse", "TraceBlockTraverse.cfg", p3, count=False)
        ctx.selftest("drop event %d" % (idx + 1), (not ok3) and m3 == idx)

    return ctx.finish(
        rule="MC: step-wise traversal = Txs(b) for all blocks with <= %d txs (any invalid list incl. unsorted/repeated/out-of-range, sparse aux maps in several wire orders, "
             "tags 2..7); M1: each of them built as CBOR and traversed through the public API; M3: corpus blocks, chunk "
             "blocks and generated variants of real blocks validated by TraceBlockTraverse" % max_tx,
        exhaustive=False)
