"""C38 - Each implemented ledger rule rejects transactions that break only it

Shares the machinery of C33 (checks/C33.py: spec/ledger/Phase1.tla, MCPhase1, TracePhase1, pv-ledger phase1-trace).
Demand: Phase1!BrokenRules(T) # {} => reject, and the labelled mutator must really break its rule in the independent projection
(Phase1!Breaks(rule, T), sufficient conditions over observed facts).
"""
import importlib.util
import os

_spec = importlib.util.spec_from_file_location("check_C33_shared", os.path.join(os.path.dirname(os.path.abspath(__file__)), "C33.py"))
shared = importlib.util.module_from_spec(_spec)
_spec.loader.exec_module(shared)


def run(ctx):
    return shared.run_phase1(ctx, "C38",
                             'MC: every abstract rule mutator applied to every accepted tiny transaction breaks exactly its rule (plus declared side effects) and the mutant is rejected; M3: 24 rule-specific mutators (22 rules) applied alone and in random pairs to every accepted fixture of every era where the rule exists; TLC re-derives the broken rule from the projection and demands a rejection')
