"""C14 - Constant-time byte comparisons agree with ordinary comparisons.

spec/crypto/Memsec.tla  (memcmp / memeq at bit level on a 16-bit two's-complement window + abstract meaning)
  MC : branchless step == abstract step for all 511 x 511 (res, diff); final sign extraction for all res;
       xor/or step of memeq for all byte pairs; both loops as state machines over all string pairs of
       length <= 2 over {0,1,127,128,255} with loop invariants and result = LexCmp / equality
  M1 : TLC prints the expected memcmp/memeq result for all 65 536 one-byte pairs and for a two-byte input
       realising every (res, diff) pair; the real functions are called on each
  M3 : longer strings through the real functions, every call validated by TraceMemsec: all single-position differences
       for every length 1..24 (72) and seeded random strings
"""
import json
import os
import vlib


def _replay(ctx, binary, vec, tag):
    res = ctx.path("replay_%s.ndjson" % tag)
    ctx.run_bin(binary, ["memsec-replay", "--in", vec, "--out", res])
    return vlib.read_ndjson(res)


def run(ctx):
    binary = ctx.build("pv-crypto")
    ctx.assume("i32 arithmetic of memcmp is modelled on a 16-bit two's-complement window (all intermediates lie in -512..511; "
               "checked by MCMemsec's InWindow conjuncts)")
    ctx.assume("constant-time behaviour itself (timing) is not decided, only the computed results")

    # 1. exhaustive tables + loop state machines
    cfg = "MCMemsec.cfg"
    if ctx.thorough:
        cfg = ctx.path("MCthorough.cfg")
        src = open(os.path.join(vlib.SPEC, "crypto", "MCMemsec.cfg")).read()
        open(cfg, "w").write(src.replace("MaxLen = 2", "MaxLen = 3"))
    r = ctx.tlc_mc("crypto", "MCMemsec", cfg, workers=4,
                   required_actions=["CmpStep", "CmpFinish", "EqStep", "EqFinish"])
    if '"tables", 261121, 511, 327680' not in r["out"].replace("\n", " "):
        raise vlib.ToolError("MCMemsec did not evaluate its exhaustive tables")
    ctx.cov["evaluations"] += 261121 + 511 + 327680
    ctx.cov["step_table_pairs"] = 261121

    # 2. M1: TLC vectors -> real memcmp / memeq
    gcfg = ctx.path("Gen.cfg")
    src = open(os.path.join(vlib.SPEC, "crypto", "GenMemsec.cfg")).read()
    open(gcfg, "w").write(src.replace("Offsets = {0}", "Offsets = {0, 1, 77, 255}" if ctx.thorough else "Offsets = {0}"))
    vec = ctx.path("vectors.ndjson")
    ctx.tlc_gen("crypto", "GenMemsec", gcfg, vec, workers=1, timeout=1500)
    rows = _replay(ctx, binary, vec, "main")
    npairs = sum(r["n"] for r in rows)
    want = 65536 + 261121 * (4 if ctx.thorough else 1)
    if npairs != want:
        raise vlib.ToolError("expected %d vectors from GenMemsec, got %d" % (want, npairs))
    ctx.cov["traces_validated_against_impl"] += npairs
    ctx.cov["evaluations"] += npairs
    ctx.cov["vectors_len1"] = sum(r["n"] for r in rows if r["k"] == "len1")
    ctx.cov["vectors_len2"] = sum(r["n"] for r in rows if r["k"] == "len2")
    with open(vec) as f:
        first = json.loads(f.readline())
        ctx.sample({"tlc_vector_row": {"k": first["k"], "pairs": first["pairs"][:3]}})
    nbad = 0
    for r in rows:
        for b in r["bad"]:
            nbad += 1
            ctx.report("%s/%s" % (b["fn"], r["k"]),
                       "real %s differs from the specification on a=%s b=%s: want %s got %s" % (
                           b["fn"], b["a"], b["b"], b.get("want"), b.get("got", b.get("panic"))), payload=b)

    # 3. M3: random longer strings
    n = 20000 if ctx.thorough else 2000
    tr = ctx.path("trace.ndjson")
    ctx.run_bin(binary, ["memsec-trace", "--seed", ctx.seed, "--n", n, "--maxlen", 64 if ctx.thorough else 40,
                         "--single", 72 if ctx.thorough else 24, "--long", 1024 if ctx.thorough else 300, "--out", tr])
    ok, matched, total, first = ctx.tlc_trace("crypto", "TraceMemsec", "TraceMemsec.cfg", tr)
    ctx.cov["traces_validated_against_impl"] += 1
    ctx.cov["evaluations"] += total
    events = vlib.read_ndjson(tr)
    ctx.sample({"impl_trace_events": events[:2]})
    if not ok:
        nbad += 1
        ctx.report("%s/longer-strings" % first.get("fn", first.get("ev")),
                   "call %d of the longer-strings run returned a result the specification rejects: %s" % (matched + 1, json.dumps(first)),
                   payload={"event_index": matched + 1, "event": first}, src_file=tr)

    # 4. binding self-tests (the calls are stateless, so instead of dropping an event both binding
    #    directions get one corrupted expected value / logged result each)
    if nbad == 0:
        vrows = vlib.read_ndjson(vec)
        small = [dict(vrows[3]), dict(vrows[300])]
        small[0]["pairs"] = [list(p) for p in small[0]["pairs"]]
        small[1]["pairs"] = [list(p) for p in small[1]["pairs"]]
        p = small[0]["pairs"][7]
        p[2] = 1 if p[2] != 1 else -1
        q = small[1]["pairs"][100]
        q[3] = not q[3]
        p1 = ctx.path("vectors_corrupt.ndjson")
        vlib.write_ndjson(p1, small)
        rr = _replay(ctx, binary, p1, "corrupt")
        ctx.selftest("corrupt expected memcmp value of one vector", len(rr[0]["bad"]) == 1 and rr[0]["bad"][0]["fn"] == "memcmp")
        ctx.selftest("corrupt expected memeq value of one vector", len(rr[1]["bad"]) == 1 and rr[1]["bad"][0]["fn"] == "memeq")
        i1 = next(i for i, e in enumerate(events) if e["ev"] == "memcmp" and i > 10)
        c = [dict(e) for e in events[: i1 + 5]]
        c[i1]["res"] = 1 if c[i1]["res"] != 1 else 0
        p2 = ctx.path("trace_corrupt_cmp.ndjson")
        vlib.write_ndjson(p2, c)
        ok1, m1, _, _ = ctx.tlc_trace("crypto", "TraceMemsec", "TraceMemsec.cfg", p2, count=False)
        ctx.selftest("corrupt logged memcmp result of event %d" % (i1 + 1), (not ok1) and m1 == i1)
        i2 = next(i for i, e in enumerate(events) if e["ev"] == "memeq" and i > 10)
        c = [dict(e) for e in events[: i2 + 5]]
        c[i2]["res"] = not c[i2]["res"]
        p3 = ctx.path("trace_corrupt_eq.ndjson")
        vlib.write_ndjson(p3, c)
        ok2, m2, _, _ = ctx.tlc_trace("crypto", "TraceMemsec", "TraceMemsec.cfg", p3, count=False)
        ctx.selftest("corrupt logged memeq result of event %d" % (i2 + 1), (not ok2) and m2 == i2)

    return ctx.finish(
        rule="MC: bit-level step/final/xor-or tables exhaustively (511x511, 511, 256x256x5) and both loops over all string pairs "
             "of length <= 2 (3 in thorough) over a 5-byte alphabet; M1: every one-byte pair and a two-byte input for every "
             "(res, diff) accumulator/difference pair run through the real memcmp/memeq against TLC's expected values; "
             "M3: every single-position difference of strings of length 1..24 (72) and seeded random strings up to 40 (64) bytes "
             "validated call by call",
        exhaustive=False)
