"""C18 - Shelley and stake addresses round-trip with a faithful header.

spec/addr/ShelleyAddr.tla  (header, dispatch table, varuint over BigNat values, hex, hrp table)
  MC : every type x network id, boundary pointer values, every entry point; round trip / header / length laws
  M1 : TLC prints, per address of a bounded domain, the expected result of every public call
       (header, bytes, hex, hrp, bech32 data, parse-back); replayed into pallas-addresses
  M3 : seeded random addresses (random hashes, full-range u64 pointers) built with the real
       constructors; every public call logged and validated by TraceShelleyAddr
"""
import json
import os
import vlib

KNOWN_HRPS = ("addr", "addr_test", "stake", "stake_test")


def _cfg(ctx, name, src_name, repl):
    src = open(os.path.join(vlib.SPEC, "addr", src_name)).read()
    for a, b in repl:
        if a not in src:
            raise vlib.ToolError("cfg template %s lacks %r" % (src_name, a))
        src = src.replace(a, b)
    p = ctx.path(name)
    open(p, "w").write(src)
    return p


def run(ctx):
    binary = ctx.build("pv-addr")
    ctx.assume("bech32 checksum and character set are not modelled: the harness decodes the produced string with the "
               "bech32 crate and logs (hrp, data)")
    ctx.assume("pointer components travel as decimal strings -> BigNat limbs (pv_core::big_json); the base-128 digits "
               "are computed by the spec")

    # 1. exhaustive model check
    cfg = "MCShelleyAddr.cfg"
    if ctx.thorough:
        cfg = _cfg(ctx, "MCthorough.cfg", "MCShelleyAddr.cfg",
                   [("PtrInts = {0, 127, 128}", "PtrInts = {0, 127, 128, 16384}"),
                    ("WithU64Edges = FALSE", "WithU64Edges = TRUE"), ("PtrNets = {0, 1}", "PtrNets = {1, 15}")])
    ctx.tlc_mc("addr", "MCShelleyAddr", cfg, workers=4,
               required_actions=["CallToHeader", "CallToVec", "CallToHex", "CallHrp", "CallToBech32", "CallParse",
                                 "CallParseBack"])

    # 2. M1: expected call results from TLC -> real code
    gcfg = "GenShelleyAddr.cfg"
    if ctx.thorough:
        gcfg = _cfg(ctx, "GenThorough.cfg", "GenShelleyAddr.cfg",
                    [("PtrInts = {0, 127, 128, 16384}", "PtrInts = {0, 1, 127, 128, 16383, 16384, 2097151, 2097152}"),
                     ("TripleNets = {0, 1, 9}", "TripleNets = {0, 1, 2, 3, 4, 5, 6, 7, 8, 9, 10, 11, 12, 13, 14, 15}")])
    vec = ctx.path("vectors.ndjson")
    ctx.tlc_gen("addr", "GenShelleyAddr", gcfg, vec, workers=1)
    res = ctx.path("replay_results.ndjson")
    ctx.run_bin(binary, ["shelley-replay", "--in", vec, "--out", res])
    rows = vlib.read_ndjson(res)
    ctx.cov["traces_validated_against_impl"] += len(rows)
    ctx.cov["evaluations"] += sum(r.get("calls", 0) for r in rows)
    ctx.cov["vectors_replayed"] = len(rows)
    allv = vlib.read_ndjson(vec)
    v = next(x for x in allv if "a" in x and x["a"]["dk"] == "pointer")
    ctx.sample({"tlc_vector": {"a": v["a"], "calls": v["calls"][:4]}})
    ctx.cov["parser_vectors_design_model"] = sum(1 for x in allv if x.get("kind") == "parse")
    for r in rows:
        if r["ok"]:
            continue
        at = r["at"]
        if at == "parse":
            # inputs outside the property (non-canonical / malformed bytes): design model only
            ctx.notes.append("DRIFT: Address::from_bytes(%s) = %s, design model: %s" % (
                json.dumps(r["bytes"])[:200], json.dumps(r["got"])[:200], json.dumps(r["want"])[:200]))
            continue
        a = r.get("a", {})
        n = a.get("n", -1)
        if at in ("hrp", "to_bech32") and n not in (0, 1) and r["why"] == "mismatch" and r["got"].get("hrp") not in KNOWN_HRPS:
            # the property is silent on other networks unless a mainnet/testnet prefix is used
            ctx.notes.append("DRIFT: %s on network %d yields %s (model: refused)" % (at, n, r["got"].get("hrp")))
            continue
        key = "replay/%s/%s/%s-%s" % (at, r["why"], a.get("pk"), a.get("dk"))
        ctx.report(key, "Address::%s differs from the specification for %s: %s" % (at, json.dumps(a)[:300], json.dumps(r)[:600]), payload=r)

    # 3. M3: random addresses -> trace spec
    n = 3000 if ctx.thorough else 320
    tr = ctx.path("trace.ndjson")
    ctx.run_bin(binary, ["shelley-trace", "--seed", ctx.seed, "--n", n, "--out", tr])
    ok, matched, total, first = ctx.tlc_trace("addr", "TraceShelleyAddr", "TraceShelleyAddr.cfg", tr)
    events = vlib.read_ndjson(tr)
    ctx.cov["traces_validated_against_impl"] += n
    ctx.cov["evaluations"] += total
    ptr_ev = next((e for e in events if e["ev"] == "new" and e["dk"] == "pointer"), None)
    ctx.sample({"impl_trace_events": [ptr_ev] + events[events.index(ptr_ev) + 1: events.index(ptr_ev) + 3] if ptr_ev else events[:3]})
    if not ok:
        last_new = next((e for e in reversed(events[:matched + 1]) if e["ev"] == "new"), {})
        at = first.get("at") if first.get("ev") == "panic" else first.get("ev")
        key = "trace/%s%s/%s-%s" % (at, "/panic" if first.get("ev") == "panic" else "", last_new.get("pk"), last_new.get("dk"))
        ctx.report(key, "event %d of the implementation trace is not allowed by ShelleyAddr: %s (address %s)" % (
            matched + 1, json.dumps(first)[:400], json.dumps(last_new)[:400]),
            payload={"event_index": matched + 1, "event": first, "address": last_new}, src_file=tr)

    # 4. binding self-test
    if not ctx.violations:
        idx = next(i for i, e in enumerate(events) if e["ev"] == "to_vec" and i > 30 and events[i - 2]["dk"] == "pointer")
        cut = events[: idx + 12]
        c1 = [dict(e) for e in cut]
        c1[idx] = dict(c1[idx], bytes=list(c1[idx]["bytes"]))
        c1[idx]["bytes"][-1] ^= 1          # last varuint byte of the pointer
        p1 = ctx.path("trace_corrupt.ndjson")
        vlib.write_ndjson(p1, c1)
        ok1, m1, _, _ = ctx.tlc_trace("addr", "TraceShelleyAddr", "TraceShelleyAddr.cfg", p1, count=False)
        ctx.selftest("flip one bit of the pointer bytes in to_vec event %d" % (idx + 1), (not ok1) and m1 == idx)
        inew = idx - 2
        c2 = [e for i, e in enumerate(cut) if i != inew]
        p2 = ctx.path("trace_dropped.ndjson")
        vlib.write_ndjson(p2, c2)
        ok2, m2, _, _ = ctx.tlc_trace("addr", "TraceShelleyAddr", "TraceShelleyAddr.cfg", p2, count=False)
        ctx.selftest("drop new event %d" % (inew + 1), (not ok2) and m2 == inew, "matched %d" % m2)
        # replay side: a wrong expected header must be noticed
        vs = [x for x in allv if "a" in x][:3]
        vs[1]["calls"][0]["h"] ^= 16
        p3 = ctx.path("vectors_corrupt.ndjson")
        vlib.write_ndjson(p3, vs)
        r3 = ctx.path("replay_corrupt.ndjson")
        ctx.run_bin(binary, ["shelley-replay", "--in", p3, "--out", r3])
        rr = vlib.read_ndjson(r3)
        ctx.selftest("corrupt expected header of vector 2", rr[0]["ok"] and not rr[1]["ok"] and rr[1]["at"] == "to_header" and rr[2]["ok"])

    return ctx.finish(
        rule="MC: all 10 address types x 16 network ids with boundary pointer values, every entry point, model laws "
             "(round trip, header nibbles, payload length, varuint inverse); M1: TLC-computed result of every public "
             "call for each address of the bounded domain compared with pallas-addresses; M3: seeded random addresses "
             "(random hashes, full-range u64 pointer components) with every call validated by TraceShelleyAddr",
        exhaustive=False)
