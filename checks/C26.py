"""C26 - Rollback buffer behaves like a chain-suffix model.

spec/net/RollbackBuffer.tla  (list model; a roll-back keeps everything up to the FIRST occurrence, as position() reports)
  MC   : all histories over 3 points, buffer length <= 5 (7 in thorough), model laws as action properties
  M2   : every TLC behaviour of N calls replayed into the real RollbackBuffer
  M3   : seeded random runs of the real buffer validated by TraceRollbackBuffer
"""
import json
import os
import vlib


def run(ctx):
    binary = ctx.build("pv-net")
    ctx.assume("point labels are mapped to Point::Specific(label/2, [label;4]) (two labels share a slot)")

    # 1. exhaustive model check of the list model's own laws
    cfg = "MCRollbackBuffer.cfg"
    if ctx.thorough:
        cfg = ctx.path("MCthorough.cfg")
        src = open(os.path.join(vlib.SPEC, "net", "MCRollbackBuffer.cfg")).read()
        open(cfg, "w").write(src.replace("MaxLen = 5", "MaxLen = 7"))
    ctx.tlc_mc("net", "MCRollbackBuffer", cfg, workers=4,
               required_actions=["RollForward", "RollBack", "PopWithDepth"])

    # 2. M2: TLC behaviours -> real buffer
    gcfg = ctx.path("Gen.cfg")
    src = open(os.path.join(vlib.SPEC, "net", "GenRollbackBuffer.cfg")).read()
    open(gcfg, "w").write(src.replace("MaxOps = 4", "MaxOps = %d" % (5 if ctx.thorough else 4)))
    vec = ctx.path("behaviours.ndjson")
    n = ctx.tlc_gen("net", "GenRollbackBuffer", gcfg, vec, workers=1, count_states=True)
    res = ctx.path("replay_results.ndjson")
    ctx.run_bin(binary, ["rollback-replay", "--in", vec, "--out", res])
    rows = vlib.read_ndjson(res)
    bad = [r for r in rows if not r["ok"]]
    sib = sum(1 for r in rows if r.get("sibling"))
    ctx.cov["traces_validated_against_impl"] += len(rows)
    ctx.cov["evaluations"] += len(rows)
    ctx.cov["behaviours_replayed"] = len(rows)
    ctx.cov["sibling_branches_skipped"] = sib
    with open(vec) as f:
        ctx.sample({"tlc_behaviour": json.loads(f.readline())})
    for r in bad[:5]:
        key = "replay/%s/%s" % (r["why"], r.get("want", {}).get("call", {}).get("op", "call"))
        ctx.report(key, "real RollbackBuffer diverges from the list model at step %s: %s" % (r.get("step"), json.dumps(r)[:400]), payload=r)

    # 3. M3: real runs -> trace spec
    runs, ops = (40, 200) if ctx.thorough else (10, 200)
    tr = ctx.path("trace.ndjson")
    ctx.run_bin(binary, ["rollback-trace", "--seed", ctx.seed, "--runs", runs, "--ops", ops, "--out", tr])
    ok, matched, total, first = ctx.tlc_trace("net", "TraceRollbackBuffer", "TraceRollbackBuffer.cfg", tr)
    ctx.cov["traces_validated_against_impl"] += runs
    ctx.cov["evaluations"] += total
    ctx.sample({"impl_trace_events": vlib.read_ndjson(tr)[1:4]})
    if not ok:
        ctx.report("trace/%s" % first.get("ev"), "implementation event %d not allowed by the list model: %s" % (matched + 1, json.dumps(first)),
                   payload={"event_index": matched + 1, "event": first}, src_file=tr)

    # 4. binding self-test: corrupt one logged field, drop one event => rejected
    events = vlib.read_ndjson(tr)
    idx = next(i for i, e in enumerate(events) if e["ev"] == "roll_forward" and i > 20)
    corrupt = [dict(e) for e in events[: idx + 40]]
    corrupt[idx]["size"] += 1
    p1 = ctx.path("trace_corrupt.ndjson")
    vlib.write_ndjson(p1, corrupt)
    ok1, m1, _, _ = ctx.tlc_trace("net", "TraceRollbackBuffer", "TraceRollbackBuffer.cfg", p1, count=False)
    ctx.selftest("corrupt size field of event %d" % (idx + 1), (not ok1) and m1 == idx)
    dropped = [e for i, e in enumerate(events[: idx + 40]) if i != idx]
    p2 = ctx.path("trace_dropped.ndjson")
    vlib.write_ndjson(p2, dropped)
    ok2, m2, _, _ = ctx.tlc_trace("net", "TraceRollbackBuffer", "TraceRollbackBuffer.cfg", p2, count=False)
    ctx.selftest("drop roll_forward event %d" % (idx + 1), not ok2, "matched %d" % m2)

    return ctx.finish(
        rule="MC: all histories of the list model (3 points, bounded length); M2: every TLC behaviour of N calls "
             "replayed step by step into RollbackBuffer with full-state comparison; M3: seeded random call sequences "
             "(4-point alphabet, duplicates and misses) logged with the full buffer and validated against the spec",
        exhaustive=False)
