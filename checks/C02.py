"""C02 - Flat decoding is total on arbitrary bytes.

spec/flat/FlatCodec.tla, decoder half: DecAt is a total function with outcomes ok(value) / err(class) / any
(over-long words: the property is silent on the value).
  MC : every listed byte string x every decoder call sequence of length <= 2: Total (outcome exists, cursor inside)
  M1 : the same vectors (bytes, calls, expected outcome per call) replayed into the real Decoder under panic capture
  M3 : seeded random / structured / damaged buffers (<= 64 bytes) with random call sequences through the real
       Decoder, validated by TraceFlat: a panic or a cursor outside the buffer is a finding, classified by TLC with
       the outcome class the specified decoder has for that call
A panic (or a cursor outside the buffer) is the property failure. Any other disagreement with the specified decoder
(ok vs err, value, cursor) is DRIFT: the property does not fix results on malformed input.
"""
import json
import os
import re
import vlib

R_ACTIONS = ["RBool", "RBits", "RU8", "RWord", "RInt", "RChar", "RBytes", "RUtf8", "RString", "RList", "RFiller", "RTop"]
VEC_RE = re.compile(r'<<\s*"VEC",\s*("(?:[^"\\]|\\.)*")\s*>>', re.S)


def cfg_variant(ctx, base, name, repl):
    src = open(os.path.join(vlib.SPEC, "flat", base)).read()
    for a, b in repl:
        if a not in src:
            raise vlib.ToolError("cfg pattern %r not found in %s" % (a, base))
        src = src.replace(a, b)
    p = ctx.path(name)
    open(p, "w").write(src)
    return p


def op_name(c):
    if c["op"] == "list":
        return "list-of-" + c["of"]
    if c["op"] == "top":
        return "top-" + c["of"]
    if c["op"] == "bits":
        return "bits8-%d" % c["n"]
    return c["op"]


def trace_findings(ctx, trace_file):
    """VEC lines printed by TraceFlat!TCallBad during the last validation of trace_file."""
    tag = "tr_TraceFlat_" + os.path.basename(trace_file).replace(".", "_")
    out = open(ctx.path("tlc_%s.out" % tag)).read()
    return [json.loads(json.loads(m.group(1).replace("\n", ""))) for m in VEC_RE.finditer(out)]


def validate(ctx, trace_file, events):
    """Strict validation; on a non-finding mismatch note DRIFT and fall back to the loose (property-only) mode."""
    ok, matched, total, first = ctx.tlc_trace("flat", "TraceFlat", "TraceFlat.cfg", trace_file, timeout=3000)
    drift_at = None
    if not ok:
        drift_at = matched
        ctx.notes.append("DRIFT: real decoder differs from the specified decoder at trace event %d (no panic): %s" % (
            matched + 1, json.dumps(first)[:300]))
        loose = cfg_variant(ctx, "TraceFlat.cfg", "TraceFlat_loose.cfg", [("Strict = TRUE", "Strict = FALSE")])
        ok, matched, total, first = ctx.tlc_trace("flat", "TraceFlat", loose, trace_file, timeout=3000)
        if not ok:
            c = first.get("c") or {"op": first.get("ev", "?")}
            ctx.report("decoder.%s/no-outcome" % op_name(c), "trace event %d is neither ok nor err nor a classified finding: %s" % (
                matched + 1, json.dumps(first)[:300]), payload={"event_index": matched + 1, "event": first}, src_file=trace_file)
    finds = trace_findings(ctx, trace_file)
    seen = set()
    for f in finds:
        key = "decoder.%s/%s" % (f["op"], f["class"]) if f["finding"] == "panic" else "decoder.%s/cursor-out-of-bounds" % f["op"]
        if key in seen:
            continue
        seen.add(key)
        ev = events[f["event"] - 1]
        load = next(e for e in reversed(events[: f["event"]]) if e["ev"] == "load")
        ctx.report(key, "Decoder call %s on buffer %s: %s (%s) where the specified decoder says %s" % (
            json.dumps(ev["c"]), json.dumps(load["buf"])[:200], f["finding"], ev.get("msg", ""), f["class"]),
            payload={"buf": load["buf"], "event": ev, "finding": f}, src_file=trace_file)
    return total, len(finds), drift_at


def model_and_replay(ctx, binary, tag, repl, actions):
    mc_cfg = cfg_variant(ctx, "MCFlatTotal.cfg", "MCFlatTotal_%s.cfg" % tag, repl)
    gen_cfg = cfg_variant(ctx, "GenFlatTotal.cfg", "GenFlatTotal_%s.cfg" % tag, repl)
    ctx.tlc_mc("flat", "MCFlat", mc_cfg, workers=4, required_actions=actions, allow_zero=("RTop",) if "RTop" not in actions else (),
               timeout=3000)
    vec = ctx.path("vectors_%s.ndjson" % tag)
    n = ctx.tlc_gen("flat", "GenFlat", gen_cfg, vec, workers=1, timeout=3000)
    res = ctx.path("replay_results_%s.ndjson" % tag)
    ctx.run_bin(binary, ["total-replay", "--in", vec, "--out", res])
    rows = vlib.read_ndjson(res)
    vectors = vlib.read_ndjson(vec)
    if len(rows) != n:
        raise vlib.ToolError("replay returned %d rows for %d vectors" % (len(rows), n))
    classes = ctx.cov.setdefault("replay_classes", {})
    per_entry = ctx.cov.setdefault("calls_per_entry_point", {})
    expected = ctx.cov.setdefault("expected_outcomes", {})
    for v, r in zip(vectors, rows):
        classes[r["class"]] = classes.get(r["class"], 0) + 1
        for c in v["calls"]:
            per_entry[op_name(c)] = per_entry.get(op_name(c), 0) + 1
        for x in v["exp"]:
            expected[x["class"]] = expected.get(x["class"], 0) + 1
    ctx.cov["traces_validated_against_impl"] += len(rows)
    ctx.cov["evaluations"] += sum(len(v["calls"]) for v in vectors)
    ctx.count("vectors_replayed", len(rows))
    ctx.count("input_byte_strings", len({json.dumps(v["buf"]) for v in vectors}))
    ctx.sample({"tlc_vector": next(v for v in vectors if len(v["calls"]) >= 2 and v["exp"][1]["out"] == "err" and len(v["buf"]) > 2)})
    seen = set()
    for r in rows:
        if r["class"] not in ("panic", "oob-cursor"):
            continue
        key = "decoder.%s/%s" % (op_name(r["call"]), r["spec_class"] if r["class"] == "panic" else "cursor-out-of-bounds")
        if key in seen:
            continue
        seen.add(key)
        ctx.report(key, "Decoder call %s (call %d of %s) on buffer %s: %s (%s) where the specified decoder says %s" % (
            json.dumps(r["call"]), r["step"] + 1, json.dumps(r["calls"]), json.dumps(r["buf"])[:200], r["class"],
            r["got"].get("msg", ""), r["spec_class"]), payload=r)
    drift = [r for r in rows if r["class"] == "drift"]
    if drift:
        ctx.notes.append("DRIFT: %d vectors (%s) where the real decoder's outcome/value/cursor differs from the specified "
                         "decoder without panicking, e.g. %s" % (len(drift), tag, json.dumps(drift[0])[:300]))
    return vectors


def run(ctx):
    binary = ctx.build("pv-flat")
    ctx.assume("harness profile has overflow-checks and debug-assertions on (like cargo test): an arithmetic overflow "
               "in the code under test is a panic")
    ctx.assume("a panic or a cursor outside the buffer is the property failure; ok/err/value/cursor differences from "
               "the specified decoder on malformed input are DRIFT (the property is silent there)")

    # 1+2. exhaustive: inputs x call sequences, Total; the same vectors replayed into the real decoder
    passes = [("wide", [("Inputs <- TotalInputs", "Inputs <- TotalInputsWide")], R_ACTIONS),
              ("deep", [("MaxCalls = 2", "MaxCalls = 3"), ("Calls <- TotalCalls", "Calls <- CallsCore")],
               [a for a in R_ACTIONS if a != "RTop"])] if ctx.thorough else [("q", [], R_ACTIONS)]
    vectors = None
    for tag, repl, actions in passes:
        vs = model_and_replay(ctx, binary, tag, repl, actions)
        vectors = vectors or vs

    # 3. M3: random / structured / damaged buffers through the real decoder -> trace spec
    chunks, runs = (10, 3000) if ctx.thorough else (1, 1200)
    events = tr = None
    nfind = 0
    limit = None
    for k in range(chunks):
        trk = ctx.path("trace_%d.ndjson" % k)
        ctx.run_bin(binary, ["total-trace", "--seed", ctx.seed * 1000 + k, "--runs", runs, "--maxcalls", 6, "--out", trk])
        evk = vlib.read_ndjson(trk)
        if events is None:
            events, tr = evk, trk
        total, nf, drift_at = validate(ctx, trk, evk)
        if k == 0:
            limit = drift_at if drift_at is not None else len(evk)
        nfind += nf
        ctx.cov["traces_validated_against_impl"] += runs
        ctx.cov["evaluations"] += total
        ctx.count("trace_events", total)
    ctx.cov["trace_findings"] = nfind
    ctx.sample({"impl_trace_events": [e for e in events if len(json.dumps(e)) < 200][:4]})

    # 4. binding self-tests
    if not ctx.violations and not ctx.known_hits:
        # M1: a corrupted expectation must be noticed by the replay
        i0 = next(i for i, v in enumerate(vectors) if v["exp"][0]["out"] == "ok" and v["calls"][0]["op"] == "u8")
        v1 = json.loads(json.dumps(vectors[i0]))
        v1["exp"][0]["val"] = (v1["exp"][0]["val"] + 1) % 256
        st = ctx.path("selftest_vectors.ndjson")
        vlib.write_ndjson(st, [v1])
        sres = ctx.path("selftest_results.ndjson")
        ctx.run_bin(binary, ["total-replay", "--in", st, "--out", sres])
        ctx.selftest("corrupt one expected value of a TLC vector", vlib.read_ndjson(sres)[0]["class"] == "drift")
        # M3: an injected panic outcome must be reported as a finding by TLC
        idx = next(i for i, e in enumerate(events) if e["ev"] == "call" and e["out"] == "ok" and e["c"]["op"] == "u8"
                   and i + 1 < len(events) and events[i + 1]["ev"] == "call" and events[i + 1]["out"] == "ok"
                   and events[i + 1]["c"]["op"] in ("bool", "u8") and 5 < i < limit - 30)
        part = [json.loads(json.dumps(e)) for e in events[: idx + 30]]
        part[idx]["out"] = "panic"
        p0 = ctx.path("trace_injected.ndjson")
        vlib.write_ndjson(p0, part)
        ctx.tlc_trace("flat", "TraceFlat", "TraceFlat.cfg", p0, count=False)
        f0 = trace_findings(ctx, p0)
        ctx.selftest("inject a panic outcome into trace event %d" % (idx + 1),
                     len(f0) == 1 and f0[0]["event"] == idx + 1 and f0[0]["op"] == "u8", json.dumps(f0)[:200])
        # M3 strict binding: corrupt a value; drop an event
        part = [json.loads(json.dumps(e)) for e in events[: idx + 30]]
        part[idx]["v"] = (part[idx]["v"] + 1) % 256
        p1 = ctx.path("trace_corrupt.ndjson")
        vlib.write_ndjson(p1, part)
        ok1, m1, _, _ = ctx.tlc_trace("flat", "TraceFlat", "TraceFlat.cfg", p1, count=False)
        ctx.selftest("corrupt the value of trace event %d" % (idx + 1), (not ok1) and m1 == idx, "matched %d" % m1)
        p2 = ctx.path("trace_dropped.ndjson")
        vlib.write_ndjson(p2, [e for i, e in enumerate(events[: idx + 30]) if i != idx])
        ok2, m2, _, _ = ctx.tlc_trace("flat", "TraceFlat", "TraceFlat.cfg", p2, count=False)
        ctx.selftest("drop trace event %d" % (idx + 1), (not ok2) and m2 == idx, "matched %d" % m2)

    return ctx.finish(
        rule="MC: %d byte strings (all of length <= %d over {00,01,7F,80,FF} + structured: continuation runs, over-long "
             "words, truncated / over-announced blocks, bad chars, bad UTF-8) x all decoder call sequences of length <= 2 "
             "over 26 entry points%s (Total); M1: each vector replayed into the real Decoder under catch_unwind; M3: seeded "
             "random / structured / damaged buffers of <= 64 bytes with random call sequences validated by TLC" % (
                 ctx.cov.get("input_byte_strings", 0), 3 if ctx.thorough else 2,
                 " and of length 3 over 12 entry points" if ctx.thorough else ""),
        exhaustive=False)
