"""C23 - original-stack agents (pallas-network/src/miniprotocols) follow the mini-protocol state machines.

spec/proto/MiniProtocols.tla   tables + agent semantics (AgentOK) + what the public API can exercise
  MC   : MCMiniProtocols - tables well-formed, two-party session model (agency exclusive, no unexpected message)
  M1/M2: GenMiniProtocols - every (protocol, role, state, direction, message) with a shortest path, and every
         maximal valid message sequence up to MaxWalk, emitted by TLC; pv-proto agents-trace sets each state up
         with a real client + real server agent over two in-process plexers, tries the message through every
         public entry point (raw peer channel for deliveries), and replays the walks through both agents
  M3   : TraceAgent validates every logged call / walk against the tables; the trace must cover all required
         probes before its `end` event.
"""
import json
import os
import vlib

MAX_FINDINGS = 12
WALK_STATES = {}   # (proto, path) -> states after each message, as computed by TLC (GenMiniProtocols)


def _key(e):
    if e.get("ev") == "walk":
        # keyed by the first message at which an agent leaves TLC's state sequence
        want = WALK_STATES.get((e["proto"], tuple(e["path"])))
        if want:
            init = "(init)"
            for i, m in enumerate(e["path"]):
                seen = [x[i] for x in (e["cstates"], e["sstates"]) if i < len(x) and x[i] != ""]
                short = i >= len(e["cstates"])
                if short or any(x != want[i] for x in seen):
                    return "walk/%s/%s/%s" % (e["proto"], want[i - 1] if i else init, m)
        return "walk/%s/%s" % (e["proto"], "-".join(e["path"]))
    if e.get("ev") == "end":
        return "coverage/end"
    if e.get("ev") == "reach":
        return "reach/%s/%s/%s" % (e["proto"], e["role"], e["want"])
    msgs = "+".join(s["msg"] for s in e["steps"])
    return "%s/%s/%s/%s" % (e["proto"], e["role"], e["state"], msgs)


def _describe(e):
    if e.get("ev") == "walk":
        return "real client/server pair driven along %s: client states %s, server states %s%s do not follow the table" % (
            e["path"], e["cstates"], e["sstates"], (" (stopped: %s)" % e["err"]) if e.get("err") else "")
    if e.get("ev") == "reach":
        return "%s %s: driving a real client/server pair along the valid path %s with the state-tracking methods did not reach %s (state %s, error %s)" % (
            e["proto"], e["role"], e["path"], e["want"], e["state"], e["err"] or "none")
    if e.get("ev") == "end":
        return "the trace does not cover every required (protocol, role, state, direction, message) probe"
    steps = ", ".join("%s %s" % (s["dir"], s["msg"]) for s in e["steps"])
    if e.get("peer") not in ("", e["state"]):
        return "%s: after the valid path %s the %s agent is in %s but its real peer agent is in %s (seen while probing %s(%s))" % (
            e["proto"], e["path"], e["role"], e["state"], e["peer"], e["via"], steps)
    if e.get("badkind") == "followup":
        return "%s %s: after refusing a %s with an unacceptable payload the agent is in %s; the legal follow-up %s(%s) returned %s%s and left it in %s (a refused message must not change the state)" % (
            e["proto"], e["role"], e["steps"][0]["msg"], e["state"], e["via"], steps, e["res"], ("(%s)" % e["err"]) if e["err"] else "", e["after"])
    if e.get("bad", 0) > 0:
        what = "a well-formed message of a kind this entry point does not handle" if e["badkind"] == "other-kind" else "a %s payload" % e["badkind"]
        return "%s %s in state %s: %s(%s) with %s in step %d returned %s%s and left the agent in %s: a message refused with an error must leave the state reached before that step" % (
            e["proto"], e["role"], e["state"], e["via"], steps, what, e["bad"], e["res"], ("(%s)" % e["err"]) if e["err"] else "", e["after"])
    return "%s %s in state %s: %s(%s) returned %s%s and left the agent in %s, which the state machine does not allow" % (
        e["proto"], e["role"], e["state"], e["via"], steps, e["res"], ("(%s)" % e["err"]) if e["err"] else "", e["after"])


def _validate_all(ctx, events, tag):
    """TLC accepts or stops at the first event the spec does not allow; that event (and the other events with the
    same key) is taken out and the rest re-validated, so that every divergence is seen."""
    findings = []
    cur = list(events)
    rounds = 0
    total_events = len(events)
    while True:
        rounds += 1
        p = ctx.path("trace_%s_%d.ndjson" % (tag, rounds))
        vlib.write_ndjson(p, cur)
        ok, matched, total, first = ctx.tlc_trace("proto", "TraceAgent", "TraceAgent.cfg", p, count=(rounds == 1))
        if ok:
            break
        k = _key(first)
        findings.append((k, first, p, matched))
        if first.get("ev") == "end" or len(findings) >= MAX_FINDINGS:
            break
        # drop every event of that key, and the coverage check (the trace is no longer complete)
        cur = [e for e in cur if e.get("ev") != "end" and _key(e) != k]
    return findings, total_events


def _session(ctx, binary):
    """Design-level extension (not a listed property): spec/proto/ChainSyncSession.tla - a chain producer that grows
    and switches forks behind a real chainsync::Server, a real chainsync::Client feeding the real RollbackBuffer.
    Agent states / agency are C23 matter (verdict); payload integrity and buffer content are reported as DRIFT."""
    sec = {"model": "spec/proto/ChainSyncSession.tla", "drift": []}
    # MC: every interleaving on small constants
    mcfg = "MCChainSyncSession.cfg"
    if ctx.thorough:
        mcfg = ctx.path("MCChainSyncSession5.cfg")
        src = open(os.path.join(vlib.SPEC, "proto", "MCChainSyncSession.cfg")).read()
        open(mcfg, "w").write(src.replace("MaxBlocks = 3", "MaxBlocks = 5").replace("MaxSwitch = 1", "MaxSwitch = 2")
                              .replace("Depths = {1}", "Depths = {0, 1, 2}"))
    r = ctx.tlc_mc("proto", "MCChainSyncSession", mcfg, workers=4, timeout=1500,
                   required_actions=["Grow", "Switch", "ServerRecv", "ServerReply", "CSend", "ClientRecv", "ClientPop"])
    sec["mc"] = {"cfg": os.path.basename(mcfg), "distinct": r["distinct"], "generated": r["generated"],
                 "invariants": ["AgencyOK", "ViewConsistent", "BufferOrdered", "OutOfScopeJustifiedStep"]}

    # M2: TLC scripts -> real Client + Server + RollbackBuffer
    scripts = ctx.path("session_scripts.ndjson")
    num, depth = (3000, 60) if ctx.thorough else (25, 45)
    gcfg = ctx.path("GenChainSyncSession.cfg")
    src = open(os.path.join(vlib.SPEC, "proto", "GenChainSyncSession.cfg")).read()
    open(gcfg, "w").write(src.replace("MaxOps = 40", "MaxOps = %d" % (depth - 5)))
    n = ctx.tlc_gen("proto", "GenChainSyncSession", gcfg, scripts, workers=1, simulate=(num, depth), timeout=1500)
    res = ctx.path("session_replay.ndjson")
    out = ctx.run_bin(binary, ["session-replay", "--in", scripts, "--out", res])
    summ = json.loads(out.strip().splitlines()[-1])
    rows = vlib.read_ndjson(res)
    if summ["scripts"] != n or len(rows) != 2 * n:
        raise vlib.ToolError("session replay ran %d rows for %d scripts" % (len(rows), n))
    sec["m2"] = {"scripts": n, "replays": len(rows), "steps": summ["steps"], "failed": sum(1 for r in rows if not r["ok"])}
    ctx.cov["traces_validated_against_impl"] += len(rows)
    ctx.cov["evaluations"] += summ["steps"]
    for r in rows:
        if r["ok"]:
            continue
        f = r["fail"]
        at = f.get("at", {})
        what = "chain-sync session script %d (%s) step %s (%s %s): %s expected %s, got %s" % (
            r["i"], r["mode"], f["step"], at.get("a"), at.get("msg", ""), f["field"], json.dumps(f["want"]), json.dumps(f["got"]))
        if f["kind"] == "state":
            ctx.report("session/chainsync/%s/%s-%s" % (f["field"].replace(" ", "_"), at.get("a"), at.get("msg", "")), what, payload=r,
                       src_file=scripts)
        else:
            sec["drift"].append(what)

    # M3: random producer / client policy -> TraceChainSyncSession (level 2 = script + agent states + buffer)
    tr = ctx.path("session_trace.ndjson")
    runs, steps = (300, 150) if ctx.thorough else (6, 80)
    ctx.run_bin(binary, ["session-trace", "--seed", ctx.seed, "--runs", runs, "--steps", steps, "--out", tr])
    ok, matched, total, first = ctx.tlc_trace("proto", "TraceChainSyncSession", "TraceChainSyncSession2.cfg", tr)
    sec["m3"] = {"runs": runs, "events": total, "matched_level2": matched}
    ctx.cov["traces_validated_against_impl"] += runs
    ctx.cov["evaluations"] += total
    if not ok:
        # attribute the rejection: the level that first rejects an event decides (later events are tainted)
        ok1, m1, _, f1 = ctx.tlc_trace("proto", "TraceChainSyncSession", "TraceChainSyncSession1.cfg", tr, count=False)
        if ok1 or m1 > matched:
            sec["drift"].append("session trace event %d is accepted with the agents' states but not with the buffer content: %s"
                                % (matched + 1, json.dumps(first)[:300]))
        else:
            ok0, m0, _, f0 = ctx.tlc_trace("proto", "TraceChainSyncSession", "TraceChainSyncSession0.cfg", tr, count=False)
            if ok0 or m0 > m1 or (f1 or {}).get("err"):
                ctx.report("session/chainsync/trace/%s-%s" % (f1.get("a"), f1.get("msg", "")),
                           "chain-sync session: after event %d the agents' states %s/%s (or an agent error %r) do not follow "
                           "the table: %s" % (m1 + 1, f1.get("cst"), f1.get("sst"), f1.get("err", ""), json.dumps(f1)[:300]),
                           payload={"event": f1, "event_index": m1 + 1}, src_file=tr)
            else:
                raise vlib.ToolError("session driver and model disagree at event %d: %s" % (m0 + 1, json.dumps(f0)[:300]))
    elif not ctx.violations:
        # self-test: a wrong buffer content must be noticed at level 2 and pass at level 1; a wrong agent state not
        ev = vlib.read_ndjson(tr)
        i = next(k for k, e in enumerate(ev) if e["a"] == "c_recv" and e["msg"] == "RollForward" and k > 5)
        c = [dict(e) for e in ev[: i + 3]]
        c[i]["buf"] = c[i]["buf"][:-1]
        p1 = ctx.path("session_trace_badbuf.ndjson")
        vlib.write_ndjson(p1, c)
        okb, mb, _, _ = ctx.tlc_trace("proto", "TraceChainSyncSession", "TraceChainSyncSession2.cfg", p1, count=False)
        ctx.selftest("session: buffer content of event %d corrupted (level 2)" % (i + 1), (not okb) and mb == i)
        if ctx.thorough:
            c = [dict(e) for e in ev[: i + 3]]
            c[i]["cst"] = "CanAwait"
            p2 = ctx.path("session_trace_badstate.ndjson")
            vlib.write_ndjson(p2, c)
            oks, ms, _, _ = ctx.tlc_trace("proto", "TraceChainSyncSession", "TraceChainSyncSession1.cfg", p2, count=False)
            ctx.selftest("session: client state of event %d corrupted (level 1)" % (i + 1), (not oks) and ms == i)
    for d in sec["drift"][:5]:
        ctx.notes.append("DRIFT " + d)
        ctx.log("DRIFT (design model, no verdict): " + d[:260])
    sec["drift"] = sec["drift"][:20]
    ctx.cov["chainsync_session"] = sec
    with open(scripts) as f:
        ctx.sample({"session_script_head": json.loads(f.readline())[:4]})


def run(ctx):
    binary = ctx.build("pv-proto")
    ctx.assume("tables transcribed by hand from the network spec (DESIGN 3.5); tx-monitor allows both Acquire and "
               "AwaitAcquire from Acquired; pallas has no tx-monitor server agent")
    ctx.assume("send_message/recv_message do not track the state in this code base: after an accepted low-level call "
               "either the old or the next state is accepted; high-level methods must end in the table's next state")
    ctx.assume("payloads: whether an agent inspects a payload is not fixed by the tables; if it refuses a message of an "
               "allowed kind for a payload reason (cookie mismatch, undecodable body) the state must stay as it was")
    ctx.assume("states behind a message the agent has no state-tracking method for (keep-alive / tx-monitor client Done) "
               "are not probed; local-tx-submission agents cannot even attempt the other role's messages (private send)")

    ctx.tlc_mc("proto", "MCMiniProtocols", "MCMiniProtocols.cfg", workers=2,
               required_actions=["ClientSend", "ServerSend", "Recv"])

    # M1/M2: the plan comes from TLC
    gcfg = ctx.path("GenMiniProtocols.cfg")
    src = open(os.path.join(vlib.SPEC, "proto", "GenMiniProtocols.cfg")).read()
    open(gcfg, "w").write(src.replace("MaxWalk = 5", "MaxWalk = %d" % (10 if ctx.thorough else 5)))
    plan = ctx.path("plan.ndjson")
    n = ctx.tlc_gen("proto", "GenMiniProtocols", gcfg, plan, workers=1, count_states=True)
    rows = vlib.read_ndjson(plan)
    for r in rows:
        if r["kind"] == "walk":
            WALK_STATES[(r["proto"], tuple(r["path"]))] = r["states"]
    ntriples = sum(1 for r in rows if r["kind"] == "triple")
    nwalks = n - ntriples
    ctx.sample({"tlc_probe": next(r for r in rows if r["kind"] == "triple" and r["path"])})
    ctx.sample({"tlc_walk": next(r for r in rows if r["kind"] == "walk" and len(r["path"]) > 3)})

    # M3: real agents -> trace
    tr = ctx.path("trace.ndjson")
    reps = 2 if ctx.thorough else 1
    ctx.run_bin(binary, ["agents-trace", "--plan", plan, "--out", tr, "--reps", reps])
    events = vlib.read_ndjson(tr)
    calls = [e for e in events if e["ev"] == "call"]
    walks = [e for e in events if e["ev"] == "walk"]
    if not calls or len(walks) != nwalks * reps:
        raise vlib.ToolError("harness logged %d calls / %d walks for %d planned walks" % (len(calls), len(walks), nwalks))
    ctx.cov["probe_triples"] = ntriples
    ctx.cov["walks"] = len(walks)
    ctx.cov["agent_calls"] = len(calls)
    ctx.cov["evaluations"] += len(calls) + sum(len(w["path"]) for w in walks)
    ctx.cov["traces_validated_against_impl"] += len(calls) + len(walks)
    ctx.sample({"impl_call": next(e for e in calls if e["res"] == "ok" and e["commit"] and e["path"])})
    ctx.sample({"impl_reject": next(e for e in calls if e["res"] == "reject" and e["path"])})

    valid = events
    findings, total = _validate_all(ctx, valid, "impl")
    for k, ev, path, matched in findings:
        ctx.report(k, _describe(ev), payload={"event": ev, "event_index": matched + 1}, src_file=path)

    # binding self-test on the accepted trace
    if not findings:
        idx = next(i for i, e in enumerate(valid) if e["ev"] == "call" and e["commit"] and e["res"] == "ok"
                   and e["after"] != e["state"] and i > 30)
        head = valid[: idx + 5]
        c1 = [dict(e) for e in head]
        c1[idx]["after"] = c1[idx]["state"]
        p1 = ctx.path("trace_corrupt_after.ndjson")
        vlib.write_ndjson(p1, c1)
        ok1, m1, _, _ = ctx.tlc_trace("proto", "TraceAgent", "TraceAgent.cfg", p1, count=False)
        ctx.selftest("state_after of an accepted call set back to state_before (event %d)" % (idx + 1), (not ok1) and m1 == idx)
        j = next(i for i, e in enumerate(valid) if e["ev"] == "call" and e["res"] == "reject" and i > 30)
        c2 = [dict(e) for e in valid[: j + 5]]
        c2[j]["res"] = "ok"
        p2 = ctx.path("trace_corrupt_res.ndjson")
        vlib.write_ndjson(p2, c2)
        ok2, m2, _, _ = ctx.tlc_trace("proto", "TraceAgent", "TraceAgent.cfg", p2, count=False)
        ctx.selftest("a rejected call logged as ok (event %d)" % (j + 1), (not ok2) and m2 == j)
        # dropping the only probe of some (state, message) must break the coverage condition at `end`
        keys = {}
        for i, e in enumerate(valid):
            if e["ev"] == "call" and len(e["steps"]) == 1:
                keys.setdefault((e["proto"], e["role"], e["state"], e["steps"][0]["dir"], e["steps"][0]["msg"]), []).append(i)
        lone = min(keys.values(), key=len)
        c3 = [e for i, e in enumerate(valid) if i not in set(lone)]
        p3 = ctx.path("trace_dropped.ndjson")
        vlib.write_ndjson(p3, c3)
        ok3, m3, t3, f3 = ctx.tlc_trace("proto", "TraceAgent", "TraceAgent.cfg", p3, count=False)
        ctx.selftest("drop every probe of one (state, message) pair (event %d)" % (lone[0] + 1),
                     (not ok3) and f3 is not None and f3.get("ev") == "end", "matched %d/%d" % (m3, t3))

    _session(ctx, binary)

    return ctx.finish(
        rule="MC: tables + session model; M1/M2: TLC enumerates every (protocol, role, state, direction, message) of the "
             "9 original-stack protocols with a shortest path and every maximal valid message sequence <= %d; each is "
             "executed on real agents over in-process plexers through every public entry point; M3: every call and "
             "walk validated by TraceAgent (allowed iff agency + table; next state; rejection leaves the state), "
             "coverage of all required probes enforced at the end of the trace; extra (design level): chain-sync session "
             "model (MC + TLC scripts replayed on real Client/Server/RollbackBuffer + random session traces)" % (10 if ctx.thorough else 5),
        exhaustive=True)
