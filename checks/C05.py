"""C05 - Ledger identity hashes are taken over the original on-wire bytes.

spec/traverse/Identity.tla  (H uninterpreted / learned; Preimage(kind, wire) table)
  MC : MCIdentity - for every oracle hash function over the relevant <<size, bytes>> pairs and every order of
       harness facts, Report accepts exactly the oracle hash of prefix o wire (sound, complete, distinguishing)
  M3 : every block / header / tx / witness datum / inline datum / native script / plutus script / reference script
       of test_data (thorough: + all immutable-DB chunk blocks), plus semantically equal re-encodings produced by a
       structural CBOR rewriter (definite <-> indefinite, non-minimal heads, reordered map entries, untagged sets, also
       inside #6.24 embedded CBOR) that
       the library still decodes; wire bytes located by the harness, candidate pre-images hashed with
       Hasher::<256/224>::hash, library-reported ids validated by TraceIdentity; plus minimal artefacts (datums of
       1 / 2 bytes, empty containers, smallest native / Plutus scripts, canonical and non-canonical spellings) spliced
       into real transactions of each Alonzo+ era (witness set, inline datums, reference scripts)
"""
import json
import os
import vlib

SPEC_DIR = "traverse"
DRIFT_APIS = ("DatumOption::compute_hash",)


def renumber(events):
    out = []
    for k, e in enumerate(events):
        e = dict(e)
        e["seq"] = k + 1
        out.append(e)
    return out


def segments(events):
    seg = []
    for e in events:
        if e["ev"] == "reset" and seg:
            yield seg
            seg = []
        seg.append(e)
    if seg:
        yield seg


def run(ctx):
    binary = ctx.build("pv-traverse")
    ctx.assume("Blake2b itself is uninterpreted here (learned from Hasher::<N>::hash on the candidate pre-images; its "
               "correctness is C10's subject); byte strings and digests are interned by the harness per block")
    ctx.assume("the structural rewriter keeps the CBOR data model value (same tree, different heads / definiteness)")

    kinds = '{"tx", "byron_ebb_header", "byron_header", "native_script", "plutus_v2"}' if ctx.thorough \
        else '{"tx", "byron_header", "native_script", "plutus_v2"}'
    cfg = ctx.path("MC.cfg")
    src = open(os.path.join(vlib.SPEC, SPEC_DIR, "MCIdentity.cfg")).read()
    import re
    open(cfg, "w").write(re.sub(r"MCKinds = \{[^}]*\}", "MCKinds = " + kinds, src))
    ctx.tlc_mc(SPEC_DIR, "MCIdentity", cfg, workers=4, timeout=1700, required_actions=["FeedHash", "FeedCat", "Observe"])

    tr_all = ctx.path("trace_all.ndjson")
    info_p = ctx.path("info.ndjson")
    args = ["identity-trace", "--seed", ctx.seed, "--out", tr_all, "--info", info_p, "--rewrites", 8 if ctx.thorough else 4]
    args += ["--inject-blocks", 6 if ctx.thorough else 2]
    if ctx.thorough:
        args += ["--chunk-blocks", 100000]
    ctx.run_bin(binary, args)
    allev = vlib.read_ndjson(tr_all)
    info = vlib.read_ndjson(info_p)
    stats = [e for e in info if e["ev"] == "stats"][0]
    skips = [e for e in info if e["ev"] == "skip"]
    if stats["ids"] < 1500 or stats["rewrites_decoded"] < 50:
        raise vlib.ToolError("identity trace too small: %s" % json.dumps(stats))
    for k in ("tx", "header", "byron_header", "byron_ebb_header", "datum", "native_script", "plutus_v1", "plutus_v2", "plutus_v3"):
        if stats["by_kind"].get(k, 0) == 0:
            raise vlib.ToolError("no artefact of kind %s in the corpus" % k)
    ctx.cov["m3_ids"] = stats["ids"]
    ctx.cov["m3_lookups_by_hash"] = stats["finds"]
    ctx.cov["m3_by_kind"] = stats["by_kind"]
    ctx.cov["m3_rewrites"] = {k: stats[k] for k in ("rewrites_tried", "rewrites_unchanged", "rewrites_decoded", "by_focus")}
    ctx.cov["m3_minimal_artefact_blocks"] = {"tried": stats["injected_tried"], "decoded": stats["injected_decoded"]}
    if stats["injected_decoded"] < 30:
        raise vlib.ToolError("minimal-artefact variants are not decoded any more: %s" % json.dumps(stats))
    ctx.cov["m3_skipped"] = [{"src": e["src"], "why": e["why"][:160]} for e in skips][:10]

    verdict = renumber([e for e in allev if not (e["ev"] == "id" and e["api"] in DRIFT_APIS)])
    tr = ctx.path("trace.ndjson")
    cur = verdict
    rounds = 0
    while True:
        p = tr if rounds == 0 else ctx.path("trace_%d.ndjson" % rounds)
        vlib.write_ndjson(p, cur)
        ok, m, total, first = ctx.tlc_trace(SPEC_DIR, "TraceIdentity", "TraceIdentity.cfg", p, count=(rounds == 0), timeout=1700)
        if ok:
            break
        if first.get("ev") not in ("id", "find"):
            raise vlib.ToolError("harness fact rejected by the trace spec: %s" % json.dumps(first))
        at = first.get("at", "")
        cls = "re-encoded" if "~" in at else (at.split("+", 1)[1].split("@", 1)[0] if "+" in at else "as-is")
        key = "%s/%s/%s" % (first["kind"], first["api"].replace(" ", "_"), cls)
        ctx.report(key, "identifier reported for %s is not the hash of the wire bytes (with the %s prefix rule): %s"
                   % (first.get("at"), first["kind"], json.dumps(first)), payload={"event": first})
        # resume with the rest of the trace: restart at the enclosing block (drop the offending event)
        start = max(i for i in range(m + 1) if cur[i]["ev"] == "reset")
        cur = renumber(cur[start:m] + cur[m + 1:])
        rounds += 1
        if rounds >= 16:
            break
    nblocks = sum(1 for e in verdict if e["ev"] == "reset")
    ctx.cov["traces_validated_against_impl"] += nblocks
    ctx.cov["evaluations"] += len(verdict)
    ctx.cov["m3_events"] = len(verdict)
    seg = next(s for s in segments(verdict) if "~" in s[0]["src"] and 6 <= len(s) <= 14)
    ctx.sample({"impl_trace_block": seg})

    # ComputeHash on a decoded value where an OriginalHash exists: outside the statement -> DRIFT only
    drift_segs = [s for s in segments(allev) if any(e["ev"] == "id" and e["api"] in DRIFT_APIS for e in s)]
    ctx.cov["m3_computed_hash_observations"] = sum(1 for s in drift_segs for e in s if e["ev"] == "id" and e["api"] in DRIFT_APIS)
    if drift_segs and not ctx.violations:
        dt = renumber([e for s in drift_segs for e in s])
        pd = ctx.path("trace_computed.ndjson")
        vlib.write_ndjson(pd, dt)
        okd, md, _, firstd = ctx.tlc_trace(SPEC_DIR, "TraceIdentity", "TraceIdentity.cfg", pd, count=False, timeout=1700)
        if not okd:
            ctx.notes.append("DRIFT (ComputeHash, not an identifier read from the wire bytes): %s at %s re-encodes the decoded "
                             "value, so it differs from the hash of a non-canonical wire encoding; "
                             "KeepRaw::original_hash of the same datum is accepted" % (firstd.get("api"), firstd.get("at")))

    # binding self-test
    if not ctx.violations:
        segs = list(segments(verdict))
        s_tx = next(s for s in segs if 20 <= len(s) <= 200 and any(e["ev"] == "id" and e["kind"] == "tx" for e in s))
        s_by = next(s for s in segs if len(s) <= 200 and any(e["ev"] == "id" and e["kind"] == "byron_header" for e in s))
        head = renumber(segs[0][:200] + s_tx + s_by)
        base = len(segs[0][:200])
        idx = next(i for i, e in enumerate(head) if i >= base and e["ev"] == "id" and e["kind"] == "tx")
        c1 = [dict(e) for e in head]
        c1[idx]["reported"] = c1[idx]["reported"] + 1
        p1 = ctx.path("selftest_reported.ndjson")
        vlib.write_ndjson(p1, c1)
        ok1, m1, _, _ = ctx.tlc_trace(SPEC_DIR, "TraceIdentity", "TraceIdentity.cfg", p1, count=False)
        ctx.selftest("corrupt the reported digest of event %d" % (idx + 1), (not ok1) and m1 == idx)
        j = next(i for i, e in enumerate(head) if i >= base and e["ev"] == "id" and e["kind"] == "byron_header")
        c2 = [dict(e) for e in head]
        c2[j]["kind"] = "byron_ebb_header"
        p2 = ctx.path("selftest_kind.ndjson")
        vlib.write_ndjson(p2, c2)
        ok2, m2, _, _ = ctx.tlc_trace(SPEC_DIR, "TraceIdentity", "TraceIdentity.cfg", p2, count=False)
        ctx.selftest("claim the EBB prefix rule for the Byron main header of event %d" % (j + 1), (not ok2) and m2 == j)
        h = max(i for i in range(idx) if head[i]["ev"] == "hash")
        c3 = [e for i, e in enumerate(head) if i != h]
        p3 = ctx.path("selftest_drop.ndjson")
        vlib.write_ndjson(p3, c3)
        ok3, m3, _, _ = ctx.tlc_trace(SPEC_DIR, "TraceIdentity", "TraceIdentity.cfg", p3, count=False)
        ctx.selftest("drop hash fact %d" % (h + 1), (not ok3) and m3 == h)

    return ctx.finish(
        rule="MC: Report is sound / complete / distinguishing for every oracle hash over the rule table; M3: all "
             "identifiers of the corpus and of decodable structural re-encodings (per block: header, random body, random "
             "witness set or whole block rewritten) validated by TraceIdentity: reported = H[Size(kind)][Prefix(kind) o wire]",
        exhaustive=False)
