"""C27 - Peer promotion keeps peer sets consistent and banned peers away.

spec/p2p/PromotionProps.tla (property spec: Disjoint4, limits, BannedNeverConnected with history everBanned)
spec/p2p/Initiator.tla      (design model of InitiatorBehavior)
  MC   : MCInitiatorC27 - design model || PromotionProps, 3 peers, small limits, every include/ban/demote command,
         housekeeping (peers visited in any order) and connection / handshake / error / violation event in every
         state within the depth bound; invariant pbad \\subseteq known C27 classes, NoUnderflow
  M2   : TLC's violating schedules + a behaviour cover replayed into the real InitiatorBehavior
  M3   : the real runs (replays + seeded random 200-event sequences over 20 peers) are validated against
         PromotionProps by TLC - only this produces the verdict.  Small runs are also compared step by step with
         the design model (TraceInitiator); a mismatch there is DRIFT, never a violation.
"""
import json
import os
import sys

import vlib

sys.path.insert(0, os.path.join(vlib.SPEC, "p2p"))
import p2pcheck as pc  # noqa: E402


def judge(ctx, trace, what):
    ok, matched, total, first, marks = pc.validate(ctx, "TracePromotionProps", trace)
    events = vlib.read_ndjson(trace)
    if not ok:
        raise vlib.ToolError("trace %s not consumed at event %d: %s" % (trace, matched + 1, json.dumps(first)[:300]))
    n = 0
    for tag, line, keys in marks:
        if tag != "BAD":
            continue
        for key in keys:
            n += 1
            e = events[line - 1]
            runfile, reset = pc.save_run(ctx, events, line, "c27_run_%d" % line)
            ctx.report(key, "%s: after event %d (%s peer %s) of run %s the real InitiatorBehavior breaks %s: "
                            "cold=%s warm=%s hot=%s banned=%s connects=%s limits=%s" % (
                                what, line, e.get("ev"), e.get("p"), reset.get("sid"), key, e.get("cold"), e.get("warm"),
                                e.get("hot"), e.get("banned"), [o["p"] for o in e.get("out", []) if o["t"] == "connect"],
                                {k: reset.get("cfg", {}).get(k) for k in ("max_peers", "max_warm", "max_hot", "max_err")}),
                       payload={"event": pc.slim(e), "cfg": reset.get("cfg")}, src_file=runfile)
    ctx.cov["evaluations"] += total
    return n


def drift(ctx, trace, what):
    ok, matched, total, first, marks = pc.validate(ctx, "TraceInitiator", trace, count=False)
    d = [(line, p) for tag, line, p in marks if tag == "DRIFT"]
    if not ok:
        ctx.notes.append("DRIFT(%s): design-model comparison stopped at event %d: %s" % (what, matched + 1, json.dumps(first)[:200]))
    for line, p in d[:5]:
        ctx.notes.append("DRIFT(%s): implementation step %d not reproduced by Initiator.tla: %s" % (what, line, json.dumps(p)[:200]))
    ctx.count("design_model_steps_compared", total)
    ctx.count("design_model_drift", len(d) + (0 if ok else 1))
    return d


def run(ctx):
    binary = ctx.build("pv-p2p")
    ctx.assume("a BanPeer command for a peer the behaviour does not track establishes no ban (property silent)")
    ctx.assume("a Connect emitted in the very step in which the peer first appears banned is not judged (order inside a "
               "step is not observable)")
    ctx.assume("PromotionBehavior::demote_peer / ban_peer called directly (public fns, not commands) are out of scope")

    # 1. exhaustive slices
    slices = [("MCInitiatorC27.cfg", "C27a", {"MaxDepth": "5"}),
              ("MCInitiatorC27.cfg", "C27q", {"Peers": "{1, 2}", "MaxPeers": "2", "MaxWarm": "1", "MaxDepth": "6"})]
    if ctx.thorough:
        slices = [("MCInitiatorC27.cfg", "C27a", {"MaxDepth": "7"}),
                  ("MCInitiatorC27.cfg", "C27b", {"MaxPeers": "3", "MaxWarm": "1", "MaxDepth": "6"}),
                  ("MCInitiatorC27.cfg", "C27c", {"MaxPeers": "2", "MaxWarm": "2", "MaxHot": "1", "MaxErr": "0",
                                                  "Peers": "{1, 2}", "MaxDepth": "7"})]
    rows = []
    for base, name, ov in slices:
        scheds, classes, consts = pc.mc_slice(ctx, base, name, ov, timeout=1500)
        find, cover = pc.select(ctx, scheds, 3000 if ctx.thorough else 700)
        cfg = pc.run_cfg_from_consts(consts, strict=False)
        for i, s in enumerate(find + cover):
            rows.append({"id": "%s-%s%d" % (name, s["kind"][0], i), "cfg": cfg, "sched": s["sched"]})
        ctx.cov.setdefault("model_c27_classes", [])
        ctx.cov["model_c27_classes"] = sorted(set(ctx.cov["model_c27_classes"]) | classes["c27"])

    # 2. M2 replay, 3. verdict by PromotionProps
    trace, res = pc.replay(ctx, binary, rows, "m2")
    ctx.cov["traces_validated_against_impl"] += len(rows)
    ctx.cov["schedules_replayed"] = len(rows)
    ctx.sample({"tlc_schedule": rows[len(rows) // 2]["sched"]})
    judge(ctx, trace, "TLC schedule replay")
    # design-model comparison on a bounded part of the replays (each costs a TLC step with all visiting orders)
    ev = vlib.read_ndjson(trace)
    cut = 6000 if ctx.thorough else 2500
    if len(ev) > cut:
        while cut < len(ev) and ev[cut].get("ev") != "reset":
            cut += 1
        part = ctx.path("m2.part.ndjson")
        vlib.write_ndjson(part, ev[:cut])
    else:
        part = trace
    drift(ctx, part, "M2")

    # random 200-event sequences over 20 peers
    runs = 60 if ctx.thorough else 12
    tr = ctx.path("rand.ndjson")
    out = ctx.run_bin(binary, ["init-random", "--mode", "c27", "--seed", ctx.seed, "--runs", runs, "--events", 200,
                               "--peers", 20, "--out", tr])
    ctx.sample({"random_driver": json.loads(out)["stats"]})
    judge(ctx, tr, "random run")
    ctx.cov["traces_validated_against_impl"] += runs
    evs = vlib.read_ndjson(tr)
    ctx.sample({"impl_trace_event": pc.slim(next(e for e in evs if e.get("ev") == "hk" and e.get("out")))})
    # small random runs, compared with the design model too
    sruns = 20 if ctx.thorough else 6
    trs = ctx.path("rand_small.ndjson")
    ctx.run_bin(binary, ["init-random", "--mode", "c27", "--seed", int(ctx.seed) + 500, "--runs", sruns, "--events", 150,
                         "--peers", 4, "--snap", 1, "--out", trs])
    judge(ctx, trs, "random run (small)")
    drift(ctx, trs, "M3-small")
    ctx.cov["traces_validated_against_impl"] += sruns

    # 4. binding self-tests
    if not ctx.violations:
        idx = next(i for i, e in enumerate(evs) if i > 30 and e.get("ev") == "hk" and e.get("warm") and e.get("ev") != "reset")
        end = idx + 20
        c1 = [dict(e) for e in evs[:end]]
        c1[idx]["cold"] = sorted(set(c1[idx]["cold"]) | {c1[idx]["warm"][0]})
        p1 = ctx.path("selftest_overlap.ndjson")
        vlib.write_ndjson(p1, c1)
        _, _, _, _, marks = pc.validate(ctx, "TracePromotionProps", p1, count=False)
        ctx.selftest("warm peer also logged as cold at event %d" % (idx + 1),
                     any(t == "BAD" and l == idx + 1 and any(k.startswith("disjoint/cold-warm") for k in ks) for t, l, ks in marks))
        # a Connect for a peer that is in the banned set
        bi = next((i for i, e in enumerate(evs) if e.get("banned") and e.get("ev") not in ("reset", "skip", "panic")), None)
        if bi is not None:
            nxt = next(i for i in range(bi + 1, len(evs)) if evs[i].get("ev") not in ("reset", "skip", "panic"))
            if not any(e.get("ev") == "reset" for e in evs[bi:nxt + 1]):
                c2 = [dict(e) for e in evs[:nxt + 5]]
                c2[nxt]["out"] = list(c2[nxt]["out"]) + [{"t": "connect", "p": evs[bi]["banned"][0],
                                                         "m": {"proto": "-", "kind": "-", "ver": 0, "ps": 0, "peers": []}, "k": ""}]
                p2 = ctx.path("selftest_connect.ndjson")
                vlib.write_ndjson(p2, c2)
                _, _, _, _, marks = pc.validate(ctx, "TracePromotionProps", p2, count=False)
                ctx.selftest("Connect for a banned peer injected at event %d" % (nxt + 1),
                             any(t == "BAD" and l == nxt + 1 and any(k.startswith("banned-connect") for k in ks) for t, l, ks in marks))
        # dropping a state-changing event must be noticed by the design-model comparison
        sev = vlib.read_ndjson(trs)
        di = next(i for i, e in enumerate(sev) if i > 10 and e.get("ev") == "hk" and any(o["t"] == "connect" for o in e.get("out", [])))
        dropped = [e for i, e in enumerate(sev[:di + 30]) if i != di]
        p3 = ctx.path("selftest_dropped.ndjson")
        vlib.write_ndjson(p3, dropped)
        _, _, _, _, marks = pc.validate(ctx, "TraceInitiator", p3, count=False)
        ctx.selftest("housekeeping event %d dropped" % (di + 1), any(t == "DRIFT" for t, _, _ in marks))

    return ctx.finish(
        rule="MC: Initiator.tla || PromotionProps, 3 peers, limits 2/2/1/1, all commands and interface events (incl. "
             "violating messages) in every state within the depth bound, housekeeping in every visiting order; "
             "M2: TLC schedules (violating + behaviour cover) replayed into InitiatorBehavior; M3: those runs and "
             "seeded random 200-event runs over 20 peers with random limits validated against PromotionProps by TLC",
        exhaustive=False)
