"""C27 - Peer promotion keeps peer sets consistent and banned peers away.

spec/p2p/PromotionProps.tla (property spec: Disjoint4, limits, BannedNeverConnected with history everBanned)
spec/p2p/Initiator.tla      (design model of InitiatorBehavior)
  MC   : MCInitiatorC27 - design model || PromotionProps, 3 peers, small limits, every include/ban/demote command,
         housekeeping (peers visited in any order) and connection / handshake / error / violation event in every
         state within the depth bound; invariant pbad \\subseteq known C27 classes, NoUnderflow
  M2   : TLC's violating schedules + a behaviour cover replayed into the real InitiatorBehavior
  M3   : the real runs (replays + seeded random 200-event sequences over 20 peers) are validated against
         PromotionProps by TLC - only this produces the verdict.  Small runs are also compared step by step with
         the design model (TraceInitiator); a mismatch there is DRIFT, never a violation.
"""
import json
import os
import sys

import vlib

sys.path.insert(0, os.path.join(vlib.SPEC, "p2p"))
import p2pcheck as pc  # noqa: E402


def judge(ctx, bundle, marks):
    """PromotionProps verdict: every BAD mark outside the self-test parts is a property failure on the real code."""
    events = bundle.events
    n = 0
    for tag, line, keys in marks:
        label, local = bundle.part_of(line)
        if tag != "BAD" or label.startswith("selftest"):
            continue
        for key in keys:
            n += 1
            e = events[line - 1]
            runfile, reset = pc.save_run(ctx, events, line, "c27_run_%d" % line)
            ctx.report(key, "%s: after event %d (%s peer %s) of run %s the real InitiatorBehavior breaks %s: "
                            "cold=%s warm=%s hot=%s banned=%s connects=%s limits=%s" % (
                                label, local, e.get("a", e.get("ev")), e.get("p"), reset.get("sid"), key, e.get("cold"),
                                e.get("warm"), e.get("hot"), e.get("banned"),
                                [o["p"] for o in e.get("out", []) if o["t"] == "connect"],
                                {k: reset.get("cfg", {}).get(k) for k in ("max_peers", "max_warm", "max_hot", "max_err")}),
                       payload={"event": pc.slim(e), "cfg": reset.get("cfg")}, src_file=runfile)
    return n


def drift_notes(ctx, bundle, ok, matched, total, first, marks):
    d = [(line, p) for tag, line, p in marks if tag == "DRIFT" and not bundle.part_of(line)[0].startswith("selftest")]
    if not ok:
        ctx.notes.append("DRIFT: design-model comparison stopped at event %d: %s" % (matched + 1, json.dumps(first)[:200]))
    for line, p in d[:5]:
        ctx.notes.append("DRIFT(%s): implementation step %d not reproduced by Initiator.tla: %s" % (
            bundle.part_of(line)[0], line, json.dumps(p)[:200]))
    ctx.count("design_model_steps_compared", total)
    ctx.count("design_model_drift", len(d) + (0 if ok else 1))
    return d


def run(ctx):
    binary = ctx.build("pv-p2p")
    ctx.assume("a BanPeer command for a peer the behaviour does not track establishes no ban (property silent)")
    ctx.assume("a Connect emitted in the very step in which the peer first appears banned is not judged (order inside a "
               "step is not observable)")
    ctx.assume("PromotionBehavior::demote_peer / ban_peer called directly (public fns, not commands) are out of scope")

    # 1. exhaustive slices (quick: two small TLC runs; deeper ones and other limit configurations in thorough)
    slices = [("MCInitiatorC27.cfg", "C27a", {"MaxDepth": "5"}),
              ("MCInitiatorC27.cfg", "C27q", {"Peers": "{1, 2}", "MaxPeers": "2", "MaxWarm": "1", "MaxDepth": "6"})]
    if ctx.thorough:
        slices = [("MCInitiatorC27.cfg", "C27a", {"MaxDepth": "7"}),
                  ("MCInitiatorC27.cfg", "C27q", {"Peers": "{1, 2}", "MaxPeers": "2", "MaxWarm": "1", "MaxDepth": "7"}),
                  ("MCInitiatorC27.cfg", "C27b", {"MaxPeers": "3", "MaxWarm": "1", "MaxDepth": "6"}),
                  ("MCInitiatorC27.cfg", "C27c", {"MaxPeers": "2", "MaxWarm": "2", "MaxHot": "1", "MaxErr": "0",
                                                  "Peers": "{1, 2}", "MaxDepth": "7"})]
    rows = []
    for base, name, ov in slices:
        scheds, classes, consts = pc.mc_slice(ctx, base, name, ov, timeout=1500)
        find, cover = pc.select(ctx, scheds, None, prefix_free=False)
        cfg = pc.run_cfg_from_consts(consts, strict=False)
        for i, s in enumerate(find + cover):
            rows.append({"id": "%s-%s%d" % (name, s["kind"][0], i), "cfg": cfg, "sched": s["sched"], "exp": s.get("exp"),
                         "must": s["kind"] == "finding" and bool(s["c27"])})
        ctx.cov.setdefault("model_c27_classes", [])
        ctx.cov["model_c27_classes"] = sorted(set(ctx.cov["model_c27_classes"]) | classes["c27"])

    # 2. the real runs: M2 replays, random 200-event sequences over 20 peers, small random runs
    trace, res, rows = pc.replay(ctx, binary, rows, "m2", sample=4000 if ctx.thorough else 600)
    ctx.cov["schedules_replayed"] = len(rows)
    ctx.sample({"tlc_schedule": rows[len(rows) // 2]["sched"]})
    runs = 60 if ctx.thorough else 12
    tr = ctx.path("rand.ndjson")
    out = ctx.run_bin(binary, ["init-random", "--mode", "c27", "--seed", ctx.seed, "--runs", runs, "--events", 200,
                               "--peers", 20, "--out", tr])
    ctx.sample({"random_driver": json.loads(out)["stats"]})
    sruns = 20 if ctx.thorough else 6
    trs = ctx.path("rand_small.ndjson")
    ctx.run_bin(binary, ["init-random", "--mode", "c27", "--seed", int(ctx.seed) + 500, "--runs", sruns, "--events", 150,
                         "--peers", 4, "--snap", 1, "--out", trs])
    ctx.cov["traces_validated_against_impl"] += len(rows) + runs + sruns
    m2 = vlib.read_ndjson(trace)
    evs = vlib.read_ndjson(tr)
    sev = vlib.read_ndjson(trs)
    ctx.sample({"impl_trace_event": pc.slim(next(e for e in evs if e.get("ev") == "hk" and e.get("out")))})

    # binding self-tests ride in the same TLC runs as extra runs after the real ones
    A = pc.Bundle().add("TLC schedule replay", m2).add("random run", evs).add("random run (small)", sev)
    idx = next(i for i, e in enumerate(evs) if i > 30 and e.get("ev") == "hk" and e.get("warm"))
    c1, k1 = pc.run_containing(evs, idx, idx)
    c1[k1]["cold"] = sorted(set(c1[k1]["cold"]) | {c1[k1]["warm"][0]})
    A.add("selftest-overlap", c1)
    bi = next(i for i, e in enumerate(evs) if e.get("banned") and e.get("ev") not in ("reset", "skip", "panic")
              and i + 1 < len(evs) and evs[i + 1].get("ev") not in ("reset", "skip", "panic"))
    c2, k2 = pc.run_containing(evs, bi, bi + 1)
    c2[k2 + 1]["out"] = list(c2[k2 + 1]["out"]) + [{"t": "connect", "p": c2[k2]["banned"][0],
                                                    "m": {"proto": "-", "kind": "-", "ver": 0, "ps": 0, "peers": []}, "k": ""}]
    A.add("selftest-connect", c2)
    pa = A.write(ctx.path("all_runs.ndjson"))

    # 3. verdict: PromotionProps over every real run (one TLC start)
    ok, matched, total, first, marks = pc.validate(ctx, "TracePromotionProps", pa)
    if not ok:
        raise vlib.ToolError("trace not consumed at event %d: %s" % (matched + 1, json.dumps(first)[:300]))
    ctx.cov["evaluations"] += total
    judge(ctx, A, marks)

    def st_hit(label, local, prefix):
        line = A.first_line(label) + local
        return any(t == "BAD" and l == line and any(k.startswith(prefix) for k in ks) for t, l, ks in marks)
    if not ctx.violations:
        ctx.selftest("warm peer also logged as cold", st_hit("selftest-overlap", k1, "disjoint/cold-warm"))
        ctx.selftest("Connect for a banned peer injected", st_hit("selftest-connect", k2 + 1, "banned-connect"))

    # 4. design-model comparison (DRIFT only) on a bounded part of the replays + the small runs + a dropped event
    B = pc.Bundle().add("M2", pc.cut_at_reset(m2, 8000 if ctx.thorough else 2500)).add("M3-small", sev)
    di = next(i for i, e in enumerate(sev) if i > 10 and e.get("ev") == "hk" and any(o["t"] == "connect" for o in e.get("out", [])))
    c3, k3 = pc.run_containing(sev, di, min(di + 10, len(sev) - 1))
    c3 = [e for i, e in enumerate(c3) if i != k3]
    cut = next((i for i, e in enumerate(c3) if i > 0 and e.get("ev") == "reset"), len(c3))
    B.add("selftest-dropped", c3[:cut])
    pb = B.write(ctx.path("model_runs.ndjson"))
    okb, mb, tb, fb, marksb = pc.validate(ctx, "TraceInitiator", pb, count=False)
    drift_notes(ctx, B, okb, mb, tb, fb, marksb)
    if not ctx.violations:
        ctx.selftest("housekeeping event with a Connect dropped",
                     any(t == "DRIFT" and B.part_of(l)[0] == "selftest-dropped" for t, l, _ in marksb))

    return ctx.finish(
        rule="MC: Initiator.tla || PromotionProps, 3 peers, limits 2/2/1/1, all commands and interface events (incl. "
             "violating messages) in every state within the depth bound, housekeeping in every visiting order; "
             "M2: TLC schedules (violating + behaviour cover) replayed into InitiatorBehavior; M3: those runs and "
             "seeded random 200-event runs over 20 peers with random limits validated against PromotionProps by TLC",
        exhaustive=False)
