"""C17 - Fixed-point arithmetic, rounding and printing are exact.

spec/math/FixedPoint.tla  (BigNat: exact add/sub, mul = floor(a*b/10^34), div = trunc(a*10^34/b), cmp,
                           floor/ceil/trunc exact, round within one half, printed numeral denotes x/10^p)
  MC : scale 10^2, all operand pairs in a small range, rounding/printing at p in 0..2; every BigNat result
       cross-checked against TLC's native integers
  M1 : TLC computes floor/ceil/trunc, the allowed roundings and the canonical print for every x in a small
       range at p in 0..3; replayed into pallas-math Decimal
  M3 : a Decimal accumulator at precision 34 driven through + - * / neg abs cmp (owned / ref / assign forms,
       sparse and dense operands up to 70 digits), rounding and printing of fresh values at ten precisions;
       validated by TraceFixedPoint with 34-digit BigNat arithmetic
"""
import json
import os
import vlib

MAX_ROUNDS = 6


def _cfg(ctx, name, src_name, repl):
    src = open(os.path.join(vlib.SPEC, "math", src_name)).read()
    for a, b in repl:
        if a not in src:
            raise vlib.ToolError("cfg template %s lacks %r" % (src_name, a))
        src = src.replace(a, b)
    p = ctx.path(name)
    open(p, "w").write(src)
    return p


def _key(e):
    ev = e.get("ev")
    if ev in ("panic", "unreadable"):
        return "%s/%s%s" % (ev, e.get("at"), "/p%d" % e["p"] if "p" in e else "")
    if ev in ("floor", "ceil", "trunc", "round", "print"):
        return "%s/p%d" % (ev, e["p"])
    if ev in ("add", "sub", "mul", "div", "neg", "abs"):
        return "%s/%s" % (ev, e.get("via"))
    return str(ev)


def _validate(ctx, events, path, label):
    """TLC judges the trace; a rejected event is reported, replaced by something the spec accepts
    (a load of the logged result / removed) and the rest is validated again."""
    rounds = 0
    cur = events
    first_total = None
    while True:
        ok, matched, total, first = ctx.tlc_trace("math", "TraceFixedPoint", "TraceFixedPoint.cfg", path, count=(rounds == 0),
                                                  timeout=1500)
        if first_total is None:
            first_total = total
        if ok:
            return first_total
        key = "%s/%s" % (label, _key(first))
        ctx.sample({"rejected_event": first})
        ctx.report(key, "event %d not allowed by FixedPoint: %s" % (matched + 1, json.dumps(first)[:700]),
                   payload={"event_index": matched + 1, "event": first}, src_file=path if rounds == 0 else None)
        rounds += 1
        if rounds >= MAX_ROUNDS:
            ctx.notes.append("stopped classifying rejected events after %d rounds" % rounds)
            return first_total
        bad = _key(first)
        nxt = []
        for i, e in enumerate(cur):
            if i < matched or _key(e) != bad:
                nxt.append(e)
            elif e["ev"] in ("add", "sub", "mul", "div", "neg", "abs") and "r" in e:
                nxt.append({"ev": "load", "r": e["r"], "via": "resync"})
            elif e["ev"] in ("panic", "unreadable") and e.get("at") in ("add", "sub", "mul", "div", "neg", "abs"):
                pass
        cur = nxt
        path = ctx.path("trace_%s_round%d.ndjson" % (label, rounds))
        vlib.write_ndjson(path, cur)


def run(ctx):
    binary = ctx.build("pv-math")
    ctx.assume("results are read back from Decimal's printed form and confirmed with Decimal::from_str(candidate, p) == "
               "result (PartialEq on the raw integer); IBig decimal parsing and that equality are trusted")
    ctx.assume("arithmetic is exercised at precision 34 only (pallas-math uses a static 10^34 there)")

    # 1. exhaustive model check at scale 10^2 with native-integer cross-check
    cfg = "MCFixedPoint.cfg"
    if ctx.thorough:
        cfg = _cfg(ctx, "MCthorough.cfg", "MCFixedPoint.cfg", [("Range = 10", "Range = 45"), ("RRange = 30", "RRange = 400")])
    ctx.tlc_mc("math", "MCFixedPoint", cfg, workers=4, timeout=1500,
               required_actions=["DoLoad", "DoAdd", "DoSub", "DoMul", "DoDiv", "DoNeg", "DoAbs", "DoCmp", "DoFloor",
                                 "DoCeil", "DoTrunc", "DoRound", "DoPrint"])

    # 2. M1: rounding / printing vectors at small precisions
    gcfg = "GenFixedPoint.cfg"
    if ctx.thorough:
        gcfg = _cfg(ctx, "GenThorough.cfg", "GenFixedPoint.cfg", [("RRange = 120", "RRange = 1500")])
    vec = ctx.path("vectors.ndjson")
    ctx.tlc_gen("math", "GenFixedPoint", gcfg, vec, workers=1, timeout=1500)
    res = ctx.path("replay_results.ndjson")
    ctx.run_bin(binary, ["fixed-replay", "--in", vec, "--out", res])
    rows = vlib.read_ndjson(res)
    vecs = vlib.read_ndjson(vec)
    ctx.cov["traces_validated_against_impl"] += len(rows)
    ctx.cov["evaluations"] += 5 * len(rows)
    ctx.cov["vectors_replayed"] = len(rows)
    ctx.sample({"tlc_vector": next(v for v in vecs if v["p"] == 1 and v["x"] == -25)})
    odd_prints = []
    for r in rows:
        if r["ok"]:
            continue
        if r["at"] == "print":
            odd_prints.append(r)       # canonical form is design level; TLC decides below whether it denotes x
            continue
        ctx.report("replay/%s/p%d" % (r["at"], r["p"]),
                   "Decimal(%d at precision %d).%s() = %s, specification: %s" % (r["x"], r["p"], r["at"], json.dumps(r["got"]), json.dumps(r["want"])),
                   payload=r)
    if odd_prints:
        def big(i):
            s, mag = abs(i), []
            while s:
                mag.append(s % 10000)
                s //= 10000
            return {"neg": i < 0, "mag": mag}
        evs = [{"ev": "print", "p": r["p"], "x": big(r["x"]), "chars": list(r["got"])} for r in odd_prints[:400]
               if isinstance(r["got"], str)]
        for r in odd_prints:
            if not isinstance(r["got"], str):
                ctx.report("replay/print/panic/p%d" % r["p"], "to_string panicked: %s" % json.dumps(r)[:300], payload=r)
        p = ctx.path("trace_oddprints.ndjson")
        vlib.write_ndjson(p, evs)
        if evs:
            _validate(ctx, evs, p, "replay")
            ctx.notes.append("DRIFT: %d printed forms differ from the canonical form of the design model (first: %s)" % (
                len(odd_prints), json.dumps(odd_prints[0])[:200]))

    # 3. M3: accumulator runs + rounding/printing at several precisions
    n, nround = (8000, 4000) if ctx.thorough else (500, 300)
    tr = ctx.path("trace.ndjson")
    ctx.run_bin(binary, ["fixed-trace", "--seed", ctx.seed, "--n", n, "--rounds", nround, "--out", tr])
    events = vlib.read_ndjson(tr)
    total = _validate(ctx, events, tr, "trace")
    ctx.cov["traces_validated_against_impl"] += 1 + nround
    ctx.cov["evaluations"] += total
    mul = next(e for e in events if e["ev"] == "mul" and len(e["r"]["mag"]) > 6)
    ctx.sample({"impl_trace_events": [mul, next(e for e in events if e["ev"] == "round" and e["p"] == 2)]})
    for op in ("add", "sub", "mul", "div", "neg", "abs", "cmp", "floor", "ceil", "trunc", "round", "print"):
        ctx.cov["events_" + op] = sum(1 for e in events if e["ev"] == op)

    # 4. binding self-test
    if not ctx.violations and not ctx.known_hits:
        idx = next(i for i, e in enumerate(events) if e["ev"] == "mul" and i > 10 and e["r"]["mag"]
                   and e["r"] != e["a"] and "a" in events[i + 1])
        cut = [json.loads(json.dumps(e)) for e in events[: idx + 6]]
        c1 = json.loads(json.dumps(cut))
        c1[idx]["r"]["mag"][0] ^= 1                      # last digit of the product off by one
        for j in range(idx + 1, len(c1)):                # keep the chain consistent with the corrupted value
            if "a" in c1[j] and c1[j]["a"] == cut[idx]["r"]:
                c1[j]["a"] = c1[idx]["r"]
        p1 = ctx.path("trace_corrupt.ndjson")
        vlib.write_ndjson(p1, c1)
        ok1, m1, _, _ = ctx.tlc_trace("math", "TraceFixedPoint", "TraceFixedPoint.cfg", p1, count=False)
        ctx.selftest("last limb of the product in mul event %d off by one" % (idx + 1), (not ok1) and m1 == idx)
        c2 = [e for i, e in enumerate(cut) if i != idx]
        p2 = ctx.path("trace_dropped.ndjson")
        vlib.write_ndjson(p2, c2)
        ok2, m2, _, _ = ctx.tlc_trace("math", "TraceFixedPoint", "TraceFixedPoint.cfg", p2, count=False)
        ctx.selftest("drop mul event %d" % (idx + 1), (not ok2) and m2 == idx, "matched %d" % m2)
        ir = next(i for i, e in enumerate(events) if e["ev"] == "print" and e["p"] == 3 and len(e["chars"]) > 4)
        c3 = [json.loads(json.dumps(events[ir]))]
        c3[0]["chars"] = c3[0]["chars"][:-1]            # drop the last fraction digit
        if events[ir]["chars"][-1] == "0":
            c3[0]["chars"] = c3[0]["chars"][:-3] + ["7"] + c3[0]["chars"][-2:]
        p3 = ctx.path("trace_badprint.ndjson")
        vlib.write_ndjson(p3, c3)
        ok3, m3, _, _ = ctx.tlc_trace("math", "TraceFixedPoint", "TraceFixedPoint.cfg", p3, count=False)
        ctx.selftest("printed numeral with a digit removed/changed", (not ok3) and m3 == 0)

    return ctx.finish(
        rule="MC: all operand pairs of a small range at scale 10^2 and rounding/printing at p<=2, BigNat results "
             "cross-checked with native integers; M1: TLC-computed floor/ceil/trunc/allowed-round/print for every x of a "
             "small range at p<=3 compared with Decimal; M3: seeded accumulator runs at precision 34 (operands up to 70 "
             "digits, all operator forms) and rounding/printing of fresh values at 10 precisions, each event recomputed "
             "by TLC with BigNat arithmetic",
        exhaustive=False)
