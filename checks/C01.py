"""C01 - Flat codec round-trips any sequence of values at any bit alignment.

spec/flat/FlatCodec.tla  (format definition over a logical bit stream + Encoder/Decoder state machine)
  MC : every call sequence [pad] op^(<=N) Finish, decoded by the same calls: RoundTrip, ConsumesAll (spec level)
  M2 : every such behaviour printed by TLC (ops, packed bytes, cursors, start offsets) replayed into the real
       Encoder and Decoder; the real pair must round-trip (property), bytes/cursors are compared with TLC's (drift)
  M3 : seeded random sequences (0..64 ops, byte strings up to 1000 bytes) through the real code, validated by
       TraceFlat: the specified decoder, run by TLC on the bytes the real encoder produced, must return the
       written values and end at the end of the buffer, and the real decoder must agree with it call by call
"""
import json
import os
import threading
import vlib

KINDS = ["bool", "bits", "u8", "word", "int", "char", "bytes", "utf8", "string", "list", "filler"]
W_ACTIONS = ["WBool", "WBits", "WU8", "WWord", "WInt", "WChar", "WBytes", "WUtf8", "WString", "WList", "WFiller", "Finish"]
R_ACTIONS = ["RBool", "RBits", "RU8", "RWord", "RInt", "RChar", "RBytes", "RUtf8", "RString", "RList", "RFiller"]


def cfg_variant(ctx, base, name, repl):
    src = open(os.path.join(vlib.SPEC, "flat", base)).read()
    for a, b in repl:
        if a not in src:
            raise vlib.ToolError("cfg pattern %r not found in %s" % (a, base))
        src = src.replace(a, b)
    p = ctx.path(name)
    open(p, "w").write(src)
    return p


def trace_key(ev):
    kind = ev.get("ev")
    op = (ev.get("o") or {}).get("op", "end")
    if kind == "panic":
        return "roundtrip/%s/%s-panic" % (op, ev.get("where", "dec"))
    if kind == "enc-error":
        return "roundtrip/%s/enc-error" % op
    if kind == "dec":
        return "roundtrip/%s/%s" % (op, "dec-error" if ev.get("out") != "ok" else "value")
    if kind == "end":
        return "roundtrip/end/leftover"
    return "roundtrip/%s/%s" % (op, kind)


def model_and_replay(ctx, binary, tag, repl, matrix):
    """MC (3 workers) and behaviour generation (1 worker) side by side on the same
    configuration, then replay of every printed behaviour into the real code."""
    mc_cfg = cfg_variant(ctx, "MCFlat.cfg", "MCFlat_%s.cfg" % tag, repl)
    gen_cfg = cfg_variant(ctx, "GenFlat.cfg", "GenFlat_%s.cfg" % tag, repl)
    mc_err = []

    def mc():
        try:
            ctx.tlc_mc("flat", "MCFlat", mc_cfg, workers=3, required_actions=W_ACTIONS + R_ACTIONS, allow_zero=("RTop",),
                       timeout=3000)
        except Exception as e:  # noqa: BLE001
            mc_err.append(e)

    th = threading.Thread(target=mc)
    th.start()
    vec = ctx.path("behaviours_%s.ndjson" % tag)
    try:
        n = ctx.tlc_gen("flat", "GenFlat", gen_cfg, vec, workers=1, timeout=3000)
    finally:
        th.join()
    if mc_err:
        raise mc_err[0]
    res = ctx.path("replay_results_%s.ndjson" % tag)
    ctx.run_bin(binary, ["rt-replay", "--in", vec, "--out", res])
    rows = vlib.read_ndjson(res)
    vectors = vlib.read_ndjson(vec)
    if len(rows) != len(vectors) or len(rows) != n:
        raise vlib.ToolError("replay returned %d rows for %d vectors" % (len(rows), len(vectors)))
    if not all(v["rt"] for v in vectors):
        raise vlib.ToolError("TLC printed a behaviour on which the specification itself does not round-trip")
    classes = ctx.cov.setdefault("replay_classes", {})
    for v, r in zip(vectors, rows):
        classes[r["class"]] = classes.get(r["class"], 0) + 1
        if r["class"] in ("ok", "format", "cursor"):
            for o, off in zip(v["ops"], v["offs"]):
                matrix[o["op"]][off] += 1
    ctx.cov["traces_validated_against_impl"] += len(rows)
    ctx.cov["evaluations"] += sum(len(v["ops"]) for v in vectors)
    ctx.count("behaviours_replayed", len(rows))
    ctx.sample({"tlc_behaviour": next(v for v in vectors if 3 <= len(v["ops"]) and len(v["bytes"]) < 12)})
    seen = set()
    for r in rows:
        if r["class"] in ("ok", "format", "cursor"):
            continue
        key = "roundtrip/%s/%s" % (r.get("op"), r["class"])
        if key in seen:
            continue
        seen.add(key)
        v = vectors[r["i"]]
        st = r.get("step")
        off = v["offs"][st] if isinstance(st, int) and st < len(v["offs"]) else "?"
        ctx.report(key, "real Encoder/Decoder do not round-trip TLC behaviour %d (%s at call %s, start offset %s): %s" % (
            r["i"], r["class"], st, off, json.dumps(r)[:300]), payload={"vector": v, "result": r})
    drift = [r for r in rows if r["class"] in ("format", "cursor")]
    if drift:
        ctx.notes.append("DRIFT: on %d behaviours (%s) the real encoder's bytes / decoder cursors differ from the format "
                         "definition although the pair round-trips, e.g. %s" % (len(drift), tag, json.dumps(drift[0])[:200]))
    return vectors, rows


def run(ctx):
    binary = ctx.build("pv-flat")
    ctx.assume("values cross the harness boundary in the specification's shapes (7-bit group lists for words, "
               "sign+magnitude for integers, code points for chars/strings); the conversion is harness glue")
    ctx.assume("the byte layout of the real encoder is compared with the format definition but a difference there "
               "alone is DRIFT: C01 only demands that the real encoder/decoder pair round-trips")

    # 0. the specification's number / UTF-8 layer against TLC arithmetic, known encodings
    ctx.tlc_gen("flat", "FlatLaws", "FlatLaws.cfg", ctx.path("laws.ndjson"), workers=1)

    matrix = {k: [0] * 8 for k in KINDS}
    passes = [("w2", 2, [("AlphaQuick", "AlphaThorough")]), ("d3", 3, [("MaxOps = 2", "MaxOps = 3"), ("AlphaQuick", "AlphaDeep")])] \
        if ctx.thorough else [("q2", 2, [])]
    sampled = None
    for tag, depth, repl in passes:
        vectors, rows = model_and_replay(ctx, binary, tag, repl, matrix)
        sampled = sampled or [v for v, r in zip(vectors, rows) if r["class"] == "ok"]

    # 3. M3: random sequences through the real code -> trace spec
    chunks, runs = (4, 250) if ctx.thorough else (1, 60)
    events = tr = None
    trace_cfg = "TraceFlat.cfg"
    for k in range(chunks):
        trk = ctx.path("trace_%d.ndjson" % k)
        ctx.run_bin(binary, ["rt-trace", "--seed", ctx.seed * 1000 + k, "--runs", runs, "--maxops", 64, "--out", trk])
        evk = vlib.read_ndjson(trk)
        if events is None:
            events, tr = evk, trk
        ok, matched, total, first = ctx.tlc_trace("flat", "TraceFlat", "TraceFlat.cfg", trk, timeout=3000)
        if not ok and first.get("ev") in ("enc", "finish"):
            ctx.notes.append("DRIFT: real encoder output differs from the format definition at trace event %d (%s); "
                             "re-validating the round trip on the real bytes only" % (matched + 1, json.dumps(first)[:200]))
            loose = cfg_variant(ctx, "TraceFlat.cfg", "TraceFlat_loose.cfg", [("CheckFormat = TRUE", "CheckFormat = FALSE")])
            ok, matched, total, first = ctx.tlc_trace("flat", "TraceFlat", loose, trk, timeout=3000)
            if k == 0:
                trace_cfg = loose
        ctx.cov["traces_validated_against_impl"] += runs
        ctx.cov["evaluations"] += total
        ctx.count("trace_events", total)
        if not ok:
            ctx.report(trace_key(first), "trace event %d of the real code is not allowed by the specification: %s" % (
                matched + 1, json.dumps(first)[:300]), payload={"event_index": matched + 1, "event": first}, src_file=trk)
        # start offsets seen by the real decoder in the random runs
        prev = 0
        for e in evk:
            if e["ev"] in ("reset", "finish"):
                prev = 0
            elif e["ev"] == "dec":
                if e["out"] == "ok":
                    matrix[e["o"]["op"]][prev] += 1
                prev = e["used"]
    ctx.sample({"impl_trace_events": [e for e in events if e["ev"] in ("enc", "dec") and len(json.dumps(e)) < 160][:4]})
    ctx.cov["start_offset_matrix"] = {"columns": "bit offset 0..7 at which the call started (real code runs)", **matrix}
    holes = [(k, off) for k in KINDS for off in range(8) if matrix[k][off] == 0]
    if holes and not ctx.violations:
        raise vlib.ToolError("vacuous: primitive never exercised at these start offsets: %s" % holes[:10])

    # 4. binding self-tests (skipped when real violations were found)
    if not ctx.violations:
        vectors = sampled
        i0 = next(i for i, v in enumerate(vectors) if len(v["bytes"]) >= 3 and len(v["ops"]) >= 3)
        v1 = json.loads(json.dumps(vectors[i0]))
        v1["bytes"][1] ^= 0x10
        v2 = json.loads(json.dumps(vectors[i0]))
        v2["dec"][1]["used"] = (v2["dec"][1]["used"] + 1) % 8
        st = ctx.path("selftest_vectors.ndjson")
        vlib.write_ndjson(st, [v1, v2])
        sres = ctx.path("selftest_results.ndjson")
        ctx.run_bin(binary, ["rt-replay", "--in", st, "--out", sres])
        sr = vlib.read_ndjson(sres)
        ctx.selftest("corrupt one expected byte of a TLC behaviour", sr[0]["class"] == "format", sr[0]["class"])
        ctx.selftest("corrupt one expected decoder cursor of a TLC behaviour", sr[1]["class"] == "cursor", sr[1]["class"])
        # trace: corrupt a decoded value; drop an encoder event
        idx = next(i for i, e in enumerate(events) if e["ev"] == "dec" and e["o"]["op"] == "u8" and i > 10)
        end = next(i for i in range(idx, len(events)) if events[i]["ev"] == "reset") if any(
            e["ev"] == "reset" for e in events[idx:]) else len(events)
        part = [json.loads(json.dumps(e)) for e in events[:end]]
        part[idx]["v"] = (part[idx]["v"] + 1) % 256
        p1 = ctx.path("trace_corrupt.ndjson")
        vlib.write_ndjson(p1, part)
        ok1, m1, _, _ = ctx.tlc_trace("flat", "TraceFlat", trace_cfg, p1, count=False)
        ctx.selftest("corrupt the decoded value of trace event %d" % (idx + 1), (not ok1) and m1 == idx, "matched %d" % m1)
        j = max(i for i in range(idx) if events[i]["ev"] == "enc")
        p2 = ctx.path("trace_dropped.ndjson")
        vlib.write_ndjson(p2, [e for i, e in enumerate(events[:end]) if i != j])
        ok2, m2, _, _ = ctx.tlc_trace("flat", "TraceFlat", trace_cfg, p2, count=False)
        ctx.selftest("drop encoder event %d" % (j + 1), not ok2, "matched %d" % m2)

    return ctx.finish(
        rule="MC: all call sequences [1..7-bit pad] op^(<=%d) Finish over the op alphabet, decoded by the same calls "
             "(RoundTrip, ConsumesAll on the specification); M2: every one of these behaviours replayed into the real "
             "Encoder/Decoder (round trip required; bytes and cursors compared with TLC's); M3: seeded random sequences "
             "of 0..64 ops validated event by event by TLC; every primitive exercised at every start offset 0..7 "
             "(start_offset_matrix)" % (3 if ctx.thorough else 2),
        exhaustive=False)
