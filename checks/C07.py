"""C07 - PlutusData round-trips; comparison is a total order.

spec/cbor/PlutusOrd.tla   abstract PlutusData terms, Enc/Dec over CborTok (64-byte chunking), the order laws
  MC  : MCPlutusOrd - every term of the universe encoded / re-chunked / decoded by the specification;
        round trip, chunking discipline, well-formedness as invariants
  M1  : GenPlutusOrd prints per term the expected encoding and alternative chunkings; pv-cbor plutus-replay
        builds the real value, encodes, decodes, decodes the alternatives
  M3  : pv-cbor plutus-cmp logs Ord::cmp over all ordered pairs of the universe; TracePlutusOrd accepts a row
        when every order law involving it holds on the logged matrix (no particular order is imposed)
"""
import json
import os
import vlib

SPEC_DIR = "cbor"


def erase(t):
    if isinstance(t, dict):
        return {k: (True if k == "def" else erase(v)) for k, v in t.items()}
    if isinstance(t, list):
        return [erase(x) for x in t]
    return t


def hexs(b):
    return "".join("%02x" % x for x in b)


def judge(row, res):
    vio, drift = [], []
    t = row["term"]
    kind = t["k"] if t["k"] != "int" else t["rep"]
    if "panic" in res:
        vio.append(("encode/panic/%s" % kind, "encoding term %d panics: %s" % (row["id"], res["panic"])))
        return vio, drift
    if res["enc"] != row["enc"]:
        if row["bytesy"]:
            vio.append(("encode/bounded-bytes-encoding/%s" % kind,
                        "term %d %s encodes as %s, Plutus encoding (64-byte chunks above 64 bytes) is %s"
                        % (row["id"], json.dumps(t)[:120], hexs(res["enc"])[:200], hexs(row["enc"])[:200])))
        else:
            drift.append("term %d encodes as %s, design model %s" % (row["id"], hexs(res["enc"]), hexs(row["enc"])))
    checks = [("roundtrip", res["dec"], res["enc"])] + [("reassemble", a, b) for a, b in zip(res["alts"], row["alts"])]
    for what, d, inp in checks:
        if not (d.get("ok") and d.get("equal") and d.get("cmp") == 0):
            vio.append(("%s/%s" % (what, kind), "term %d %s: decoding %s gives %s" % (row["id"], json.dumps(t)[:120], hexs(inp)[:160], json.dumps(d)[:200])))
        elif erase(d["term"]) != erase(t):
            vio.append(("%s/value-changed/%s" % (what, kind), "term %d: decoding %s yields a different value %s"
                        % (row["id"], hexs(inp)[:160], json.dumps(d["term"])[:200])))
        elif d["term"] != t:
            drift.append("term %d: definite/indefinite form changed by %s" % (row["id"], what))
    return vio, drift


def tier_cfg(ctx, name, tier):
    src = open(os.path.join(vlib.SPEC, SPEC_DIR, name)).read()
    p = ctx.path(name)
    open(p, "w").write(src.replace("Tier = 1", "Tier = %d" % tier))
    return p


def name_law(ctx, trace, tier):
    """after a rejection: ask the specification which law the matrix breaks (DiagPlutusOrd)"""
    out = ctx.path("diag.ndjson")
    try:
        ctx.tlc_gen(SPEC_DIR, "DiagPlutusOrd", tier_cfg(ctx, "DiagPlutusOrd.cfg", tier), out, env={"TRACE": trace})
        rows = [r for r in vlib.read_ndjson(out) if r["row"] > 0]
        return rows
    except vlib.ToolError:
        return []


def run(ctx):
    binary = ctx.build("pv-cbor")
    tier = 2 if ctx.thorough else 1
    ctx.assume("the harness' term <-> PlutusData conversion (build / abs) is faithful; it is cross-checked on every term")

    ctx.tlc_mc(SPEC_DIR, "MCPlutusOrd", tier_cfg(ctx, "MCPlutusOrd.cfg", tier), workers=2,
               required_actions=["EncodeBigInt", "EncodeBoundedBytes", "EncodeArray", "EncodeMap", "EncodeConstr", "Rechunk", "Decode", "Drop"])

    # M1: encoding / decoding vectors
    vec = ctx.path("vectors.ndjson")
    n = ctx.tlc_gen(SPEC_DIR, "GenPlutusOrd", tier_cfg(ctx, "GenPlutusOrd.cfg", tier), vec)
    out = ctx.path("results.ndjson")
    ctx.run_bin(binary, ["plutus-replay", "--in", vec, "--out", out])
    rows, results = vlib.read_ndjson(vec), vlib.read_ndjson(out)
    if len(rows) != len(results):
        raise vlib.ToolError("replay produced %d results for %d vectors" % (len(results), len(rows)))
    for row, res in zip(rows, results):
        if res["built"] != row["term"]:
            raise vlib.ToolError("harness glue: term %d is built as %s" % (row["id"], json.dumps(res["built"])[:200]))
    ctx.cov["traces_validated_against_impl"] += len(rows)
    ctx.cov["evaluations"] += len(rows) + sum(len(r["alts"]) for r in rows)
    ctx.cov["universe"] = n
    drifts = []
    for row, res in zip(rows, results):
        vio, dr = judge(row, res)
        drifts += dr
        for key, what in vio:
            ctx.report(key, what, payload={"vector": row, "observed": res})
    i65 = next(i for i, r in enumerate(rows) if r["term"]["k"] == "bytes" and len(r["term"]["b"]) == 65)
    ctx.sample({"vector": {k: (v if k != "alts" else "%d alternatives" % len(v)) for k, v in rows[i65].items()},
                "observed_enc": results[i65]["enc"]})

    # M3: the comparison matrix
    tr = ctx.path("cmp_trace.ndjson")
    ctx.run_bin(binary, ["plutus-cmp", "--in", vec, "--out", tr])
    tcfg = tier_cfg(ctx, "TracePlutusOrd.cfg", tier)
    ok, matched, total, first = ctx.tlc_trace(SPEC_DIR, "TracePlutusOrd", tcfg, tr, timeout=1500)
    ctx.cov["traces_validated_against_impl"] += 1
    ctx.cov["evaluations"] += n * n
    ctx.cov["matrix_entries"] = n * n
    ctx.cov["triples_checked"] = n * n * n
    events = vlib.read_ndjson(tr)
    ctx.sample({"cmp_row": {"i": events[1]["i"], "term": rows[0]["term"], "c": events[1]["c"][:20]}})
    if not ok:
        if first.get("ev") != "row":
            ctx.report("order/%s" % first.get("ev"), "comparison of term %s against the universe: %s" % (first.get("i"), json.dumps(first)[:300]),
                       payload={"event": first, "term": rows[first["i"] - 1]["term"] if first.get("i") else None}, src_file=tr)
        else:
            laws = name_law(ctx, tr, tier)
            if not laws:
                laws = [{"row": first["i"], "law": "unnamed", "kind": rows[first["i"] - 1]["term"]["k"]}]
            for l in laws[:6]:
                ctx.report("order/%s/%s" % (l["law"], l["kind"]),
                           "Ord::cmp breaks the law '%s' in row %d (term %s)" % (l["law"], l["row"], json.dumps(rows[l["row"] - 1]["term"])[:200]),
                           payload={"row": l["row"], "term": rows[l["row"] - 1]["term"], "cmp": events[l["row"]].get("c")}, src_file=tr)

    # binding self-tests
    if not ctx.violations:
        M = [e["c"] for e in events[1:]]
        # (1) one entry flipped: antisymmetry
        i, j = next((a, b) for a in range(n) for b in range(n) if M[a][b] == -1 and a > 2)
        ev1 = json.loads(json.dumps(events))
        ev1[i + 1]["c"][j] = 1
        p1 = ctx.path("cmp_corrupt1.ndjson")
        vlib.write_ndjson(p1, ev1)
        ok1, m1, _, _ = ctx.tlc_trace(SPEC_DIR, "TracePlutusOrd", tcfg, p1, count=False)
        ctx.selftest("flip cmp(%d,%d) only" % (i + 1, j + 1), (not ok1) and m1 <= min(i, j) + 1, "matched %d" % m1)
        # (2) a pair swapped consistently: only transitivity can notice
        trip = next(((a, b, c) for a in range(n) for b in range(n) for c in range(n)
                     if M[a][b] == -1 and M[b][c] == -1 and M[a][c] == -1), None)
        if trip:
            a, b, c = trip
            ev2 = json.loads(json.dumps(events))
            ev2[a + 1]["c"][c] = 1
            ev2[c + 1]["c"][a] = -1
            p2 = ctx.path("cmp_corrupt2.ndjson")
            vlib.write_ndjson(p2, ev2)
            ok2, m2, _, _ = ctx.tlc_trace(SPEC_DIR, "TracePlutusOrd", tcfg, p2, count=False)
            laws = name_law(ctx, p2, tier)
            ctx.selftest("swap the order of terms %d and %d consistently" % (a + 1, c + 1),
                         (not ok2) and any(l["law"] == "transitive" for l in laws), "matched %d, laws %s" % (m2, sorted({l["law"] for l in laws})))
        # (3) a dropped row
        p3 = ctx.path("cmp_dropped.ndjson")
        vlib.write_ndjson(p3, [e for k, e in enumerate(events) if k != 5])
        ok3, m3, _, _ = ctx.tlc_trace(SPEC_DIR, "TracePlutusOrd", tcfg, p3, count=False)
        ctx.selftest("drop row 5", not ok3, "matched %d" % m3)
        # (4) a corrupted expected encoding
        bad = dict(rows[i65], enc=rows[i65]["enc"][:-2] + [rows[i65]["enc"][-2] ^ 1, 255])
        ctx.selftest("corrupt expected encoding of term %d" % rows[i65]["id"], len(judge(bad, results[i65])[0]) > 0)

    for d in drifts[:10]:
        ctx.notes.append("DRIFT " + d)
    ctx.cov["drift_count"] = len(drifts)
    return ctx.finish(
        rule="MC: Enc/Dec of the specification on every term of the universe incl. alternative chunkings; M1: every term built as "
             "a real PlutusData, encoding compared with the specification's bytes (64-byte chunking), decode(encode(x)) = x, every "
             "alternative chunking re-assembled; M3: Ord::cmp on all ordered pairs validated against the order laws "
             "(reflexive, antisymmetric, transitive, equality congruent and blind to definite/indefinite) by TLC",
        exhaustive=False)
