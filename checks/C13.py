"""C13 - KES evolution erases all signing material of past periods.

spec/crypto/Kes.tla: `live` = tree paths whose seed / signing key is in the key buffer; invariant ForwardSecure
(no live path is an ancestor-or-self of a past leaf) over every evolution history of depths 1..4 (5).
  M3 : after keygen and after every update of real Sum{1..7}Kes / Sum{1..7}CompactKes keys (all periods, until
       refusal) the harness scans as_bytes() for the seed of every tree node (recomputed independently from the
       master seed: H(1||s) / H(2||s), leaf seed = Ed25519 signing key) and logs the set of paths found.
       TraceKes, reader "strict": found = live of the model and ForwardSecure on it; if only that reader rejects,
       reader "fs" (the property alone: ForwardSecure on the found set) decides VIOLATION vs DRIFT.
"""
import importlib.util
import json
import os
import vlib

_spec = importlib.util.spec_from_file_location("check_C12_helpers", os.path.join(os.path.dirname(os.path.abspath(__file__)), "C12.py"))
K = importlib.util.module_from_spec(_spec)
_spec.loader.exec_module(K)


def apalache_inductive(ctx):
    """Thorough tier only, evidence only (never changes the verdict, never fails the check): the depth-parametric
    abstraction spec/crypto/KesInd.tla - (1) TLC: IndInv is an invariant and KesInd's closed-form update is exactly
    Kes!UpdateLive for Depth 1..5; (2) Apalache: Init => IndInv (Depth symbolic in 1..7) and IndInv /\ Next => IndInv'
    for every Depth 1..7 (one run per depth, Depth fixed by a cfg - with Depth symbolic the step query stalls in Z3)."""
    import shutil
    import subprocess
    import time
    t0 = time.time()
    res = {"module": "spec/crypto/KesInd.tla", "invariant": "IndInv = TypeOK /\\ PeriodInRange /\\ LiveIsPathSiblings /\\ ForwardSecure",
           "tlc_crosscheck": [], "obligations": [], "discharged": False}
    try:
        for d in (1, 2, 3, 4, 5):
            cfg = ctx.path("MCKesInd%d.cfg" % d)
            src = open(os.path.join(vlib.SPEC, "crypto", "MCKesInd.cfg")).read()
            open(cfg, "w").write(src.replace("Depth = 4", "Depth = %d" % d))
            try:
                r = ctx.tlc_mc("crypto", "MCKesInd", cfg, workers=2, required_actions=["UpdateOk"], timeout=600)
                res["tlc_crosscheck"].append({"depth": d, "ok": True, "distinct": r["distinct"]})
            except vlib.ToolError as e:
                res["tlc_crosscheck"].append({"depth": d, "ok": False, "error": str(e)[:200]})
        exe = shutil.which("apalache-mc")
        if not exe:
            res["note"] = "apalache-mc not installed: not discharged"
            return res
        spec = os.path.join(vlib.SPEC, "crypto", "KesInd.tla")
        jobs = [("Init => IndInv (Depth symbolic in 1..7, ConstInit)",
                 ["--cinit=ConstInit", "--init=Init", "--inv=IndInv", "--length=0"], 900)]
        for d in range(1, 8):
            cfg = ctx.path("KesInd_step%d.cfg" % d)
            open(cfg, "w").write("CONSTANTS\n  Depth = %d\nINIT IndInit\nNEXT Next\nINVARIANT IndInv\n" % d)
            jobs.append(("IndInv /\\ Next => IndInv' (Depth = %d)" % d, ["--config=" + cfg, "--length=1"], 1200))
        running, pending, done = [], list(enumerate(jobs)), {}
        while pending or running:
            while pending and len(running) < 3:
                i, (name, args, to) = pending.pop(0)
                log = open(ctx.path("apalache_%d.log" % i), "w")
                cmd = ["timeout", str(to), exe, "check", "--out-dir=" + ctx.path("apalache_out_%d" % i)] + args + [spec]
                running.append((i, name, time.time(), subprocess.Popen(cmd, cwd=ctx.work, stdout=log, stderr=subprocess.STDOUT), log))
            time.sleep(2)
            for job in list(running):
                i, name, ts, proc, log = job
                if proc.poll() is not None:
                    log.close()
                    out = open(ctx.path("apalache_%d.log" % i)).read()
                    ok = proc.returncode == 0 and "The outcome is: NoError" in out
                    why = "ok" if ok else ("timeout" if proc.returncode == 124 else
                                           "counterexample" if "The outcome is: Error" in out else "tool error (exit %s)" % proc.returncode)
                    done[i] = {"obligation": name, "discharged": ok, "result": why, "wall_s": round(time.time() - ts, 1)}
                    running.remove(job)
                    ctx.log("apalache: %s -> %s (%.0fs)" % (name, why, time.time() - ts))
        res["obligations"] = [done[i] for i in sorted(done)]
        res["discharged"] = bool(done) and all(o["discharged"] for o in done.values()) and all(c["ok"] for c in res["tlc_crosscheck"])
        for i in range(len(jobs)):
            shutil.rmtree(ctx.path("apalache_out_%d" % i), ignore_errors=True)
    except Exception as e:      # evidence only: a tool failure here is recorded, never a check failure
        res["note"] = "not discharged: %s" % str(e)[:300]
        res["discharged"] = False
    res["wall_s"] = round(time.time() - t0, 1)
    return res


def run(ctx):
    binary = ctx.build("pv-crypto")
    ctx.assume("secret material = the 32-byte seed of a tree node (leaf: the Ed25519 signing key itself), derived as documented "
               "in kes/common.rs Seed::split_slice; the harness confirms the derivation against the leaf key carried by real signatures")
    ctx.assume("only the key buffer (KesSk::as_bytes) is in scope, as the property says - not stack temporaries of the library")
    K.model_check(ctx)

    events = K.kes_trace(ctx, binary)
    segs = K.segments(events)
    ctx.cov["keys_driven"] = len(segs)
    scans = sum(1 for e in events if "found" in e)
    ctx.cov["buffer_scans"] = scans
    ctx.sample({"impl_trace_events": [e for e in events if e["ev"] in ("keygen", "update")][:3]})
    proj = [[{k: v for k, v in e.items() if k in ("ev", "depth", "compact", "ok", "found", "buf_zero", "seed_zero", "pk", "to_pk", "period", "size", "stale", "dirty")}
             for e in s if e["ev"] in ("keygen", "update", "dropped")] for s in segs]

    fails, nok = K.validate(ctx, "TraceKesC13.cfg", proj, "c13strict")
    ctx.cov["evaluations"] += nok
    violated = 0
    for seg, idx, ev, path in fails:
        # does the property itself reject this key's history?
        p = ctx.path("c13fs_%s.ndjson" % K.seg_name(seg).replace("/", "_"))
        vlib.write_ndjson(p, seg)
        ok, matched, total, first = ctx.tlc_trace("crypto", "TraceKes", "TraceKesC13fs.cfg", p, count=False)
        if not ok:
            violated += 1
            nupd = sum(1 for e in seg[: matched + 1] if e["ev"] == "update" and e.get("ok"))
            ctx.report("past-key-material/%s" % K.seg_name(seg),
                       "after %d update(s) of a %s key the buffer still holds seed/key material of a past period: found paths %s"
                       % (nupd, K.seg_name(seg), json.dumps(first.get("found"))),
                       payload={"key": seg[0], "event_index_in_key": matched, "event": first, "updates_before": nupd}, src_file=p)
        else:
            ctx.notes.append("DRIFT: key %s event %d: buffer content differs from the design model's live set but is forward secure: %s"
                             % (K.seg_name(seg), idx + 1, json.dumps(ev)[:300]))
    ctx.cov["traces_validated_against_impl"] += len(segs) - violated
    ctx.cov["drift_keys"] = len(fails) - violated

    # the scan must not be blind: the documented derivation reproduces the leaf key the code signs with
    blind = [e for e in events if e["ev"] == "sign" and not e.get("leaf_ok")]
    if blind and not violated:
        raise vlib.ToolError("seed derivation used by the scan does not reproduce the code's leaf keys (%d signatures); "
                             "forward security cannot be observed" % len(blind))
    ctx.cov["derivation_confirmed_on_signatures"] = sum(1 for e in events if e["ev"] == "sign" and e.get("leaf_ok"))
    for e in events:
        if e["ev"] == "panic":
            ctx.notes.append("driver panic (judged by C12): %s" % json.dumps(e)[:200])

    # binding self-tests on a depth-3 sum key: plant the seed of an exhausted subtree in one found set; drop an update event
    if not fails:
        seg = next(s for s in proj if s[0]["ev"] == "keygen" and s[0]["depth"] == 3 and not s[0]["compact"])
        iu = [i for i, e in enumerate(seg) if e["ev"] == "update"][4]      # 5th update: period 5 = 101b
        c = [dict(e) for e in seg]
        c[iu]["found"] = c[iu]["found"] + [[0]]                             # seed of the left half: derives leaves 0..3
        p2 = ctx.path("selftest_past_seed.ndjson")
        vlib.write_ndjson(p2, c)
        ok2, m2, _, _ = ctx.tlc_trace("crypto", "TraceKes", "TraceKesC13fs.cfg", p2, count=False)
        ctx.selftest("plant the seed of an exhausted subtree into the found set (property reader)", (not ok2) and m2 == iu)
        p3 = ctx.path("selftest_drop.ndjson")
        vlib.write_ndjson(p3, [e for i, e in enumerate(seg) if i != iu])
        ok3, m3, _, _ = ctx.tlc_trace("crypto", "TraceKes", "TraceKesC13.cfg", p3, count=False)
        ctx.selftest("drop update event %d (strict reader)" % (iu + 1), (not ok3) and m3 == iu)

    extra = None
    if ctx.thorough:
        extra = {"apalache_inductive": apalache_inductive(ctx)}
        if not extra["apalache_inductive"]["discharged"]:
            ctx.notes.append("apalache_inductive: not discharged (evidence only, verdict unaffected)")
    return ctx.finish(
        extra=extra,
        rule="MC: ForwardSecure and the shape of the live set over every evolution history for depths 1..4 (5); M3: every "
             "reachable key state of real keys of depth 1..7 (sum and compact, all 2^d periods, one (five) random seed(s) each) "
             "scanned for all 2^(d+1)-1 node seeds; found sets validated by TraceKes against the live set and ForwardSecure",
        exhaustive=False)
