"""C36 - Fee and size limits use the ledger's transaction size

Shares the machinery of C33 (checks/C33.py: spec/ledger/Phase1.tla, MCPhase1, TracePhase1, pv-ledger phase1-trace).
Demand: accepted => fee >= a*size+b and size <= maxSize with size = traversal size; on the boundary runs (fee = min, min-1, min+1;
size limit = size, size-1, size+1 on an otherwise accepted fixture) the verdict must be exactly accept / reject.
"""
import importlib.util
import os

_spec = importlib.util.spec_from_file_location("check_C33_shared", os.path.join(os.path.dirname(os.path.abspath(__file__)), "C33.py"))
shared = importlib.util.module_from_spec(_spec)
_spec.loader.exec_module(shared)


def run(ctx):
    return shared.run_phase1(ctx, "C36",
                             'MC: Accept => FeeSizeOK; M3: every accepted post-Byron fixture re-priced (value preserved, re-signed) to fee = a*size+b, one less, one more, and validated with the size limit at size, size-1, size+1 where size = MultiEraTx::size(); TLC computes the expected verdict')
