"""C11 - Ed25519 signing and verification agree with RFC 8032.

spec/crypto/Ed25519Api.tla: abstract signature scheme - Pk(key), Sig(key, msg) uninterpreted and *learned* from the trace
(pallas and the independent reference ed25519-dalek feed the same functions, so any disagreement is an inconsistency),
seeded with RFC 8032 7.1 vectors 1-3; verify(pk, m, s) is TRUE exactly for issued triples; clamping table of
SecretKeyExtended::from_bytes.
  MC : the scheme's algebra on 2 keys x 2 messages with candidate public keys / signatures; clamping predicate over all
       256 x 256 (byte 0, byte 31)
  M1 : TLC's clamping table (all 2^3 x 2^2 clamping-bit combinations x filler patterns; thorough: all 65 536 byte pairs)
       replayed into SecretKeyExtended::from_bytes / try_from with random other bytes
  M1': fixed family of ~270 degenerate / edge triples (neutral and other small-order A and R, S = 0, 1, 8, L-1, L, L+1,
       high bits, R + torsion, mixed-order A, all-zero key, non-canonical and off-curve encodings) x 3 messages: facts and
       answers (pallas twice, reference) logged, TLC computes the RFC 8032 class and the allowed answers (EdgeEd25519.tla)
  M3 : random standard and extended keys, messages 0..1024 bytes; public keys and signatures from pallas and from the
       reference; verify by both on issued triples, crossed triples and single-bit tamperings of message / key / signature
"""
import json
import os
import vlib

CFG = "TraceEd25519.cfg"


def cases(events):
    cs = []
    for e in events:
        if e["ev"] == "reset" or not cs:
            cs.append([])
        cs[-1].append(e)
    return cs


def short(ev):
    return dict((k, (v[:40] + "..") if isinstance(v, str) and len(v) > 42 else v) for k, v in ev.items())


def edge_vectors(ctx, binary):
    """Fixed family of degenerate / edge triples: facts + answers logged by the harness, judged by TLC
    (EdgeEd25519.tla: class and allowed answers per RFC 8032 5.1.7). Returns number of failures reported."""
    ef = ctx.path("edge.ndjson")
    ctx.run_bin(binary, ["ed25519-edge", "--out", ef])
    events = vlib.read_ndjson(ef)
    jf = ctx.path("edge_judged.ndjson")
    ctx.tlc_gen("crypto", "EdgeEd25519", "EdgeEd25519.cfg", jf, env={"TRACE": ef})
    rows = vlib.read_ndjson(jf)
    nvec = sum(1 for e in events if e["ev"] == "edge_verify")
    if len(rows) != nvec or nvec < 200:
        raise vlib.ToolError("edge vectors: %d logged, %d judged" % (nvec, len(rows)))
    classes, bad, drift, refdev = {}, 0, {}, 0
    for r in rows:
        e = events[r["i"] - 1]
        classes[r["class"]] = classes.get(r["class"], 0) + 1
        if r["verdict"] == "bad-facts":
            raise vlib.ToolError("edge vector %s: inconsistent facts from the harness" % r["name"])
        if r["verdict"] != "ok":
            bad += 1
            group = "all-zero-public-key" if not any(e["a"]) else r["name"]
            ctx.report("edge_verify/%s/%s" % (group, r["verdict"]),
                       "PublicKey::verify on edge vector '%s' (class %s, msg %s): pallas-crypto answers %s, reference %s; "
                       "RFC 8032 5.1.7 fixes the other answer" % (r["name"], r["class"], e["msg"][:16] or "empty", r["pallas"], r["ref"]),
                       payload={"judgement": r, "vector": e})
        if r["drift"]:
            drift[r["class"]] = drift.get(r["class"], 0) + 1
        if r["reference_deviates"]:
            refdev += 1
    ctx.cov["edge_vectors"] = nvec
    ctx.cov["edge_classes"] = classes
    ctx.cov["traces_validated_against_impl"] += nvec
    ctx.cov["evaluations"] += nvec
    ctx.sample({"edge_vector_judged": rows[0]})
    for c, n in sorted(drift.items()):
        ctx.notes.append("DRIFT: %d edge vector(s) of the RFC-open class '%s' answered differently by pallas-crypto and the reference" % (n, c))
    if refdev:
        ctx.notes.append("note: the reference itself deviates from the RFC-fixed answer on %d edge vector(s)" % refdev)
    return bad, events, ef


def run(ctx):
    binary = ctx.build("pv-crypto")
    ctx.assume("Ed25519 is uninterpreted: agreement with RFC 8032 is decided on the three 7.1 vectors and, for all traced keys and "
               "messages, as equality with ed25519-dalek through the shared learned functions")
    ctx.assume("'accepts exactly what the reference accepts' is decided for issued, crossed and single-bit-tampered triples and for a fixed "
               "family of degenerate triples; there the RFC-fixed classes (S >= L, undecodable, equation holds / fails with canonical "
               "encodings) are judged, the RFC-open ones (cofactor ambiguity, non-canonical point encodings) only for determinism")
    ctx.assume("group-equation facts of the edge vectors (eq1, eq8, decodability) are computed by the harness with curve25519-dalek")
    ctx.tlc_mc("crypto", "MCEd25519", "MCEd25519.cfg", workers=4, required_actions=["PublicKey", "Sign", "Verify", "FromBytes"])
    ctx.cov["evaluations"] += 65536 * 2 + 32

    # KAT constants of the spec against reference and pallas (15 events, prepended to the random trace below)
    kt = ctx.path("kat.ndjson")
    ctx.run_bin(binary, ["ed25519-katcheck", "--out", kt])
    kat_events = vlib.read_ndjson(kt)
    if len(kat_events) != 15:
        raise vlib.ToolError("expected 15 KAT events")
    nbad = 0

    # M1 clamping table
    gcfg = ctx.path("Gen.cfg")
    src = open(os.path.join(vlib.SPEC, "crypto", "GenEd25519.cfg")).read()
    open(gcfg, "w").write(src.replace("Full = FALSE", "Full = TRUE" if ctx.thorough else "Full = FALSE"))
    vec = ctx.path("clamp_vectors.ndjson")
    ctx.tlc_gen("crypto", "GenEd25519", gcfg, vec)
    res = ctx.path("clamp_results.ndjson")
    ctx.run_bin(binary, ["ed25519-clamp-replay", "--in", vec, "--out", res, "--seed", ctx.seed, "--fills", 1 if ctx.thorough else 3])
    rows = vlib.read_ndjson(res)
    nvec = sum(r["n"] for r in rows)
    ctx.cov["clamping_vectors"] = nvec
    ctx.cov["traces_validated_against_impl"] += nvec
    ctx.cov["evaluations"] += nvec
    ctx.sample({"tlc_clamping_row": {"k0": vlib.read_ndjson(vec)[0]["k0"], "rows": vlib.read_ndjson(vec)[0]["rows"][:4]}})
    for r in rows:
        for b in r["bad"]:
            nbad += 1
            ctx.report("from_bytes/k0&7=%d/k31>>6=%d" % (b["k0"] & 7, b["k31"] >> 6),
                       "SecretKeyExtended::from_bytes(byte0=%d, byte31=%d): specification says accept=%s, got %s"
                       % (b["k0"], b["k31"], b["want"], b.get("got", b.get("panic"))), payload=b)

    # M1': degenerate / edge triples, judged by TLC
    edge_bad, edge_events, edge_file = edge_vectors(ctx, binary)

    # M3
    tr = ctx.path("ed_trace.ndjson")
    ncases, fullevery = (200, 10) if ctx.thorough else (24, 12)
    ctx.run_bin(binary, ["ed25519-trace", "--seed", ctx.seed, "--cases", ncases, "--fullevery", fullevery,
                         "--families", 24 if ctx.thorough else 8, "--out", tr])
    events = kat_events + vlib.read_ndjson(tr)
    cs = cases(events)
    ctx.cov["cases"] = len(cs)
    ctx.cov["events"] = len(events)
    ctx.cov["verify_events"] = sum(1 for e in events if e["ev"] == "verify")
    ctx.cov["verify_true"] = sum(1 for e in events if e["ev"] == "verify" and e["ok"])
    ctx.sample({"impl_trace_events": [short(e) for e in events if e["ev"] in ("public_key", "sign", "verify")][:3]})
    for e in events:
        if e["ev"] == "panic":
            nbad += 1
            ctx.report("panic", "ed25519 driver panicked inside pallas-crypto: %s" % e["panic"], payload=e)
    rest = list(cs)
    fails = 0
    for rnd in range(6):
        flat = [e for c in rest for e in c]
        if not flat:
            break
        p = ctx.path("ed_trace_%d.ndjson" % rnd)
        vlib.write_ndjson(p, flat)
        ok, matched, total, first = ctx.tlc_trace("crypto", "TraceEd25519", CFG, p, count=(rnd == 0))
        ctx.cov["evaluations"] += matched
        if ok:
            break
        fails += 1
        n = 0
        for ci, c in enumerate(rest):
            if matched < n + len(c):
                kind = first.get("kind") or ("ext" if any(e.get("kind") == "ext" and e["ev"] == "sign" for e in c) and not any(
                    e.get("kind") == "std" and e["ev"] == "sign" for e in c) else "std")
                pre = "kat/" if len(cs) - len(rest) + ci < 3 else ""
                if first.get("ev") == "verify":
                    key = "%sverify/%s/%s/got-%s" % (pre, first.get("src", "-"), kind, str(first.get("ok")).lower())
                    what = "verify result differs from 'TRUE exactly for issued triples'"
                else:       # learned functions: pallas and the reference disagree (or a KAT constant is not reproduced)
                    key = "%s%s/%s" % (pre, first.get("ev"), kind)
                    what = "pallas-crypto and the reference (or an RFC 8032 constant) disagree on this value"
                ctx.report(key, "%s: %s" % (what, json.dumps(short(first))),
                           payload={"event_index_in_case": matched - n, "event": first, "case_head": c[:6]}, src_file=p)
                rest = rest[ci + 1:]
                break
            n += len(c)
    ctx.cov["traces_validated_against_impl"] += len(cs) - fails
    nbad += fails

    if not nbad:          # (known edge-vector findings do not suppress the self-tests)
        def check(name, evs, expect_at):
            p = ctx.path("selftest_%s.ndjson" % name.split()[0])
            vlib.write_ndjson(p, evs)
            ok, m, _, _ = ctx.tlc_trace("crypto", "TraceEd25519", CFG, p, count=False)
            ctx.selftest(name, (not ok) and (expect_at is None or m == expect_at), "matched %d" % m)
        c0 = cs[3][:40]
        c = [dict(e) for e in c0]
        i = next(i for i, e in enumerate(c) if e["ev"] == "verify" and e["src"] == "pallas" and e["ok"])
        c[i]["ok"] = False
        check("verify-true flipped to false", c, i)
        c = [dict(e) for e in c0]
        i = next(i for i, e in enumerate(c) if e["ev"] == "verify" and e["src"] == "pallas" and not e["ok"])
        c[i]["ok"] = True
        check("verify-false flipped to true", c, i)
        c = [dict(e) for e in c0]
        i = max(i for i, e in enumerate(c) if e["ev"] == "public_key" and e["kind"] == "std")
        c[i]["pk"] = ("1" if c[i]["pk"][0] != "1" else "2") + c[i]["pk"][1:]
        check("public-key corrupted (disagrees with the other implementation)", c, i)
        c = [dict(e) for e in c0]
        i = next(i for i, e in enumerate(c) if e["ev"] == "sign" and e["src"] == "ref")
        c[i]["sig"] = c[i]["sig"][:-1] + ("1" if c[i]["sig"][-1] != "1" else "2")
        check("reference-signature corrupted (disagrees with pallas)", c, i)
        i = next(i for i, e in enumerate(c0) if e["ev"] == "sign")
        check("sign-events dropped (verify of an unissued triple)", [e for e in c0 if e["ev"] != "sign"], None)
        vrows = vlib.read_ndjson(vec)
        bad_row = dict(vrows[0])
        bad_row["rows"] = [list(x) for x in bad_row["rows"]]
        bad_row["rows"][3][1] = not bad_row["rows"][3][1]
        p1 = ctx.path("clamp_corrupt.ndjson")
        vlib.write_ndjson(p1, [bad_row])
        r1 = ctx.path("clamp_corrupt_results.ndjson")
        ctx.run_bin(binary, ["ed25519-clamp-replay", "--in", p1, "--out", r1, "--seed", ctx.seed, "--fills", 1])
        ctx.selftest("clamping expectation corrupted", len(vlib.read_ndjson(r1)[0]["bad"]) == 1)
        # edge vectors: flip the logged answer of the honest triple and of an S >= L triple
        ce = [dict(e) for e in edge_events]
        ih = next(i for i, e in enumerate(ce) if e.get("name") == "honest")
        ce[ih]["ok"] = ce[ih]["ok2"] = False
        il = next(i for i, e in enumerate(ce) if e.get("name") == "honest/S+L")
        ce[il]["ok"] = ce[il]["ok2"] = True
        p4 = ctx.path("edge_corrupt.ndjson")
        vlib.write_ndjson(p4, ce)
        j4 = ctx.path("edge_corrupt_judged.ndjson")
        ctx.tlc_gen("crypto", "EdgeEd25519", "EdgeEd25519.cfg", j4, env={"TRACE": p4})
        jr = {r["i"]: r for r in vlib.read_ndjson(j4)}
        ctx.selftest("edge: honest triple logged as rejected / S+L triple logged as accepted",
                     jr[ih + 1]["verdict"] == "rejects-valid" and jr[il + 1]["verdict"] == "accepts-invalid")

    return ctx.finish(
        rule="MC: scheme algebra on 2 keys x 2 messages, clamping predicate on all 65 536 byte pairs; M1: clamping table replayed into "
             "from_bytes; M3: seeded random standard / extended keys with messages 0..1024 bytes, pallas and ed25519-dalek outputs "
             "learned into the same Pk / Sig functions, verify on issued, crossed and bit-tampered triples (every single bit of "
             "message/key/signature for a subset of cases, sampled bits otherwise) must be TRUE exactly for issued triples",
        exhaustive=False)
