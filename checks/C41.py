"""C41 - Signing keeps the witness set in step with the signature map.

spec/txbuilder/TxSigning.tla  (design layer: replace-by-key; property layer: any witness order)
  MC   : whole reachable state space over 3 keys x {valid, f1, f2}; invariants, totality (ENABLED),
         design => property layer; the property layer on its own
  M2   : every TLC behaviour of N calls replayed on real BuiltTransactions (4 shapes, 3-key pool)
  M3   : seeded long call sequences on real transactions validated by TraceTxSigning (property layer)
"""
import json
import os
import vlib

ACTIONS = ["Sign", "AddSignature", "RemoveSignature"]
OPS = ("sign", "add_signature", "remove_signature")


def run(ctx):
    binary = ctx.build("pv-txb")
    ctx.assume("signature values are abstracted: 'valid' = PublicKey::verify(tx_hash, sig) holds for the key it is "
               "filed under; f1/f2 = fixed 64-byte strings that do not verify")
    ctx.assume("body bytes = first element of the 4-array tx_bytes, cut out by the harness' own CBOR skipper")
    ctx.assume("Ed25519 (pallas-crypto sign/verify) is trusted; covered by C10/C11")

    # 1. exhaustive model check: design layer (+ refinement) and property layer
    ctx.tlc_mc("txbuilder", "MCTxSigning", "MCTxSigning.cfg", workers=2, required_actions=ACTIONS)
    ctx.tlc_mc("txbuilder", "MCTxSigning", "MCTxSigningAny.cfg", workers=2, required_actions=["NextAny"])

    # 2. M2: TLC behaviours -> real BuiltTransaction
    gcfg = ctx.path("Gen.cfg")
    src = open(os.path.join(vlib.SPEC, "txbuilder", "GenTxSigning.cfg")).read()
    if ctx.thorough:
        src = src.replace("MaxOps = 3", "MaxOps = 4").replace('Foreign = {"f1"}', 'Foreign = {"f1", "f2"}')
    open(gcfg, "w").write(src)
    vec = ctx.path("behaviours.ndjson")
    ctx.tlc_gen("txbuilder", "GenTxSigning", gcfg, vec, workers=1, count_states=True, timeout=1500)
    res = ctx.path("replay_results.ndjson")
    ctx.run_bin(binary, ["signing-replay", "--in", vec, "--out", res])
    rows = vlib.read_ndjson(res)
    bad = [r for r in rows if not r["ok"]]
    errs = [r for r in rows if r.get("why") == "err"]
    ctx.cov["traces_validated_against_impl"] += len(rows)
    ctx.cov["evaluations"] += sum(r.get("steps", r.get("step", 0)) for r in rows)
    ctx.cov["behaviours_replayed"] = len(rows)
    with open(vec) as f:
        ctx.sample({"tlc_behaviour": json.loads(f.readline())})
    if errs:
        ctx.notes.append("DRIFT: %d behaviours stopped at a call that returned Err (e.g. %s)" % (len(errs), json.dumps(errs[0])[:200]))
    if len(errs) * 2 > len(rows):
        raise vlib.ToolError("more than half of the replayed behaviours ended in Err: binding is vacuous")
    n_order = sum(1 for r in rows if r.get("order_drift"))
    n_rest = sum(1 for r in rows if r.get("rest_drift"))
    if n_order:
        ctx.notes.append("DRIFT: witness order differs from the design layer in %d behaviours (property is silent on order)" % n_order)
    if n_rest:
        ctx.notes.append("DRIFT: non-vkey part of the witness set / aux data changed in %d behaviours (outside C41)" % n_rest)
    seen = set()
    for r in bad:
        key = "%s/%s" % (r["op"], "panic" if r["why"] == "panic" else r.get("class", "mismatch"))
        if key in seen:
            continue
        seen.add(key)
        calls = [s["call"] for s in r["vector"][: r["step"] + 1]]
        ctx.report(key, "BuiltTransaction::%s breaks C41 (%s) after calls %s: %s" % (
            r["op"], key, json.dumps(calls), json.dumps({k: v for k, v in r.items() if k not in ("vector", "want")})[:500]),
            payload=r)

    # 3. M3: real runs -> trace spec (property layer)
    runs, ops = (40, 150) if ctx.thorough else (8, 120)
    tr = ctx.path("trace.ndjson")
    ctx.run_bin(binary, ["signing-trace", "--seed", ctx.seed, "--runs", runs, "--ops", ops, "--out", tr])
    events = vlib.read_ndjson(tr)
    # a rejected event ends the validation of the file: validate the runs one after the other from there on
    start, guard = 0, 0
    while start < len(events) and guard < 12:
        guard += 1
        part = ctx.path("trace_part%d.ndjson" % guard) if start else tr
        if start:
            vlib.write_ndjson(part, events[start:])
        ok, matched, total, first = ctx.tlc_trace("txbuilder", "TraceTxSigning", "TraceTxSigning.cfg", part)
        ctx.cov["evaluations"] += matched
        if ok:
            break
        idx = start + matched
        ev = first.get("ev")
        if ev == "panic":
            key = "%s/panic" % first.get("op")
        elif ev in OPS:
            key = "trace/%s" % ev
        else:
            key = "trace/%s" % ev
        brief = dict(first, body=str(first.get("body", ""))[:16] + "..")
        ctx.report(key, "implementation event %d not allowed by TxSigning (property layer): %s" % (idx + 1, json.dumps(brief)[:400]),
                   payload={"event_index": idx + 1, "event": first, "previous": events[max(0, idx - 3):idx]}, src_file=part)
        nxt = next((i for i in range(idx + 1, len(events)) if events[i]["ev"] == "built"), None)
        if nxt is None:
            break
        start = nxt
    ctx.cov["traces_validated_against_impl"] += runs
    ctx.sample({"impl_trace_events": [dict(e, body=e.get("body", "")[:24] + "..") for e in events[0:3]]})
    n_err = sum(1 for e in events if e["ev"] == "err")
    if n_err:
        ctx.notes.append("DRIFT: %d calls returned Err in the seeded runs" % n_err)
    if n_err * 2 > len(events):
        raise vlib.ToolError("more than half of the traced calls returned Err: binding is vacuous")

    # 4. binding self-test
    if not ctx.violations and not ctx.known_hits:
        idx = next(i for i, e in enumerate(events) if e["ev"] == "sign" and i > 15 and len(e["wits"]) >= 2)
        head = [dict(e) for e in events[: idx + 10]]
        c1 = [dict(e) for e in head]
        c1[idx]["wits"] = c1[idx]["wits"] + [c1[idx]["wits"][0]]          # a duplicate witness
        p1 = ctx.path("trace_dupwit.ndjson")
        vlib.write_ndjson(p1, c1)
        ok1, m1, _, _ = ctx.tlc_trace("txbuilder", "TraceTxSigning", "TraceTxSigning.cfg", p1, count=False)
        ctx.selftest("duplicate one witness in event %d" % (idx + 1), (not ok1) and m1 == idx)
        c2 = [dict(e) for e in head]
        c2[idx]["id"] = "00" + c2[idx]["id"][2:] if not c2[idx]["id"].startswith("00") else "11" + c2[idx]["id"][2:]
        p2 = ctx.path("trace_id.ndjson")
        vlib.write_ndjson(p2, c2)
        ok2, m2, _, _ = ctx.tlc_trace("txbuilder", "TraceTxSigning", "TraceTxSigning.cfg", p2, count=False)
        ctx.selftest("corrupt the id of event %d" % (idx + 1), (not ok2) and m2 == idx)
        # drop an event that changes the signature map
        # (followed by a call on another key, so that the loss stays visible)
        j = next(i for i in range(idx, 0, -1) if events[i]["ev"] in OPS and events[i + 1]["ev"] in OPS
                 and events[i]["sigmap"] != events[i - 1].get("sigmap") and events[i]["k"] != events[i + 1]["k"])
        c3 = [e for i, e in enumerate(events[: j + 10]) if i != j]
        p3 = ctx.path("trace_dropped.ndjson")
        vlib.write_ndjson(p3, c3)
        ok3, m3, _, _ = ctx.tlc_trace("txbuilder", "TraceTxSigning", "TraceTxSigning.cfg", p3, count=False)
        ctx.selftest("drop state-changing event %d" % (j + 1), not ok3, "matched %d" % m3)
        # expected-value side of M2: corrupt one expected witness list, the replay must disagree
        vrows = vlib.read_ndjson(vec)[:50]
        k = next(i for i, v in enumerate(vrows) if v[-1]["wits"])
        vrows[k][-1]["wits"] = vrows[k][-1]["wits"] + [vrows[k][-1]["wits"][0]]
        pv, pr = ctx.path("selftest_vec.ndjson"), ctx.path("selftest_res.ndjson")
        vlib.write_ndjson(pv, vrows)
        ctx.run_bin(binary, ["signing-replay", "--in", pv, "--out", pr])
        rr = vlib.read_ndjson(pr)
        ctx.selftest("corrupt expected witnesses of behaviour %d" % k, (not rr[k]["ok"]) and all(r["ok"] for i, r in enumerate(rr) if i != k))

    return ctx.finish(
        rule="MC: every reachable state of TxSigning over 3 keys and 3 signature values (invariants, totality, "
             "design layer refines property layer); M2: every TLC behaviour of N calls replayed on real built "
             "transactions with full comparison of signature map, decoded witnesses, body bytes and id after each "
             "call; M3: seeded call sequences on real transactions validated against the property layer",
        exhaustive=False)
