"""C21 - message reassembly is independent of segment boundaries (both stacks).

spec/net/Reassembly.tla   streams of message encodings with known end offsets, Feed(segment) / Deliver
  MC   : every stream of 3 messages of length 1..4 (and 2 channels x 2 messages), every cut set, every
         interleaving of feeding and polling: never ahead, polled => delivered = Complete(fed), nothing left over
  M3   : seeded message values of every core mini-protocol, built through the public enums, encoded, cut
         (all cut sets for short streams; single/double cuts, 1-byte segments, random cut sets, the natural
         64 KiB split for long ones) and pushed through
           old  : AgentChannel::enqueue_chunk -> two real Plexers -> ChannelBuffer::recv_full_msg::<M>
           new  : AnyMessage::from_payload over the growing partial buffer
           sock : BearerWriteHalf::write_segment -> socket -> BearerReadHalf::read_full_msgs (two channels interleaved)
         and the log (segment fed | ids handed over | partial-buffer size | error) validated by TraceReassembly.
"""
import json
import os
import vlib


def _blocks(events):
    """[(start, end)] of the stream blocks (a 'stream' event and everything up to the next one)."""
    starts = [i for i, e in enumerate(events) if e.get("ev") == "stream"]
    return [(s, (starts[k + 1] if k + 1 < len(starts) else len(events))) for k, s in enumerate(starts)]


def _label(events, start, bad):
    """Naming only: which message the receiver was about to hand over when event `bad` was logged."""
    st = events[start]
    delivered = {}
    cut = start
    for i in range(start + 1, bad):
        e = events[i]
        if e["ev"] == "cuts":
            delivered = {}
            cut = i
        elif e["ev"] == "seg":
            delivered[e["c"]] = delivered.get(e["c"], 0) + len(e["out"])
    e = events[bad]
    c = e.get("c", 1)
    ch = st["chans"][c - 1] if 1 <= c <= len(st["chans"]) else {"kinds": [], "ids": []}
    kinds, ids = ch["kinds"], ch["ids"]
    k = delivered.get(c, 0)
    for got in e.get("out", []):          # skip what was handed over correctly by this very event
        if k < len(ids) and ids[k] == got:
            k += 1
        else:
            break
    kind = kinds[k] if k < len(kinds) else (kinds[-1] if kinds else "?")
    return kind, cut


def _validate(ctx, tr, label, max_rounds=8):
    events = vlib.read_ndjson(tr)
    ncuts = sum(1 for e in events if e.get("ev") == "cuts")
    rejected = 0
    path = tr
    rounds = 0
    while events and rounds < max_rounds:
        rounds += 1
        ok, matched, total, first = ctx.tlc_trace("net", "TraceReassembly", "TraceReassembly.cfg", path)
        ctx.cov["evaluations"] += matched
        if ok:
            break
        rejected += 1
        start, end = next(((s, e) for s, e in _blocks(events) if s <= matched < e), (0, len(events)))
        st = events[start]
        kind, cut = _label(events, start, matched)
        sub = ctx.path("%s_rejected_sid%s.ndjson" % (label, st.get("sid")))
        cut_end = next((i for i in range(cut + 1, end) if events[i]["ev"] == "cuts"), end)
        vlib.write_ndjson(sub, [st] + events[cut:cut_end])
        ctx.report("%s/%s/%s/%s" % (st.get("stack"), st.get("proto"), kind, first.get("ev")),
                   "%s stack, %s: with segments %s the receiver's behaviour (%s) is not a reassembly of the stream %s" % (
                       st.get("stack"), st.get("proto"),
                       [e["n"] for e in events[cut:cut_end] if e["ev"] == "seg"][:12],
                       json.dumps(first)[:200], json.dumps(st["chans"])[:300]),
                   payload={"stream": st, "cut_set_events": events[cut:cut_end][:60], "event": first}, src_file=sub)
        events = events[:start] + events[end:]
        path = ctx.path("%s_rest%d.ndjson" % (label, rounds))
        vlib.write_ndjson(path, events)
    ctx.cov["traces_validated_against_impl"] += ncuts
    return rejected


CH_ACTIONS = ["SendMsg", "PushChunk", "PullChunk", "Decode"]


def _classify_iface(run):
    """error > corrupt > lost > reordered, per channel (protocol) of one interface run."""
    if any(e["ev"] in ("send_err", "recv_err") for e in run):
        return "error", [e for e in run if e["ev"] in ("send_err", "recv_err")][0].get("err", "")[:80]
    sent, recv = {}, {}
    for e in run:
        if e["ev"] == "send":
            sent.setdefault(e["ch"]["proto"], []).append((e["id"], e["len"]))
        elif e["ev"] == "recv":
            recv.setdefault(e["ch"]["proto"], []).append((e["id"], e["len"]))
    worst, detail = "reordered", ""
    for p in sorted(set(sent) | set(recv)):
        s, r = sent.get(p, []), recv.get(p, [])
        if any(x not in s for x in r) or len(r) > len(s):
            return "corrupt", "protocol %d: received something that was not sent" % p
        if len(r) < len(s):
            worst, detail = "lost", "protocol %d: %d of %d messages arrived" % (p, len(r), len(s))
        elif r != s and worst != "lost":
            detail = "protocol %d: arrival order %s" % (p, [s.index(x) + 1 for x in r])
    return worst, detail


def _channel(ctx, binary):
    """Extra section: the end-to-end channel on the REAL chunking path (spec/net/Channel.tla).
    send_msg_chunks -> Plexer pair -> recv_full_msg (old stack), write_message -> read_full_msgs (new stack),
    messages around k * 65535 bytes, several protocols concurrently.  A rejection is a C21 violation only in the
    sense of C21's own text (same messages, same order, no error) for the split the sender's chunking chose."""
    if ctx.thorough:
        ctx.tlc_mc("net", "MCChannel", "MCChannel.cfg", workers=4, timeout=1800, required_actions=CH_ACTIONS)
        ctx.tlc_mc("net", "MCChannel", "MCChannelLive.cfg", workers=2, required_actions=CH_ACTIONS)
    else:
        ctx.tlc_mc("net", "MCChannel", "MCChannelQuick.cfg", workers=2, required_actions=CH_ACTIONS)
    runs, runs2, msgs = (6, 3, 16) if ctx.thorough else (1, 1, 8)
    runs3, imsgs = (12, 40) if ctx.thorough else (3, 20)
    tr = ctx.path("channel.ndjson")
    ctx.run_bin(binary, ["channel-trace", "--seed", ctx.seed, "--runs", runs, "--runs2", runs2, "--msgs", msgs,
                         "--runs3", runs3, "--imsgs", imsgs, "--out", tr])
    events = vlib.read_ndjson(tr)
    sends = [e for e in events if e["ev"] == "send"]
    info = {"runs": runs + runs2 + runs3, "interface_runs": runs3, "messages_sent": len(sends), "messages_received": sum(1 for e in events if e["ev"] == "recv"),
            "multi_segment_messages": sum(1 for e in sends if e["nseg"] > 1),
            "within_2_bytes_of_a_segment_boundary": sum(1 for e in sends if e["len"] > 60000 and e["len"] % 65535 in (0, 1, 2, 65533, 65534)),
            "max_segments": max([e["nseg"] for e in sends] or [0]),
            "message_types": sorted(set("%s:%s" % (e.get("mp", "network2"), e["kind"]) for e in sends))}
    ctx.sample({"channel_events": [e for e in events if e["ev"] in ("send", "recv") and e["len"] > 65535][:2]})
    rejected = 0
    real = 0          # rejections that are not recorded known findings
    path = tr
    for rnd in range(runs3 + 4):
        ok, matched, total, first = ctx.tlc_trace("net", "TraceChannel", "TraceChannel.cfg", path)
        ctx.cov["evaluations"] += matched
        if ok or not events:
            break
        rejected += 1
        start = max(i for i in range(matched + 1) if events[i]["ev"] == "open")
        end = next((i for i in range(start + 1, len(events)) if events[i]["ev"] == "open"), len(events))
        stack = events[start].get("stack")
        # naming only: the message the receiver should have handed over next
        kind = "?"
        if first.get("ev") == "recv":
            ch = first["ch"]
            peer = {"side": "B" if ch["side"] == "A" else "A", "proto": ch["proto"], "role": "s" if ch["role"] == "c" else "c"}
            k = sum(1 for e in events[start:matched] if e["ev"] == "recv" and e["ch"] == ch)
            ps = [e for e in events[start:end] if e["ev"] == "send" and e["ch"] == peer]
            if k < len(ps):
                kind = "%s/%s/nseg%d" % (ps[k].get("mp", "network2"), ps[k]["kind"], ps[k]["nseg"])
        sub = ctx.path("channel_rejected_run%s.ndjson" % events[start].get("run"))
        vlib.write_ndjson(sub, events[start:end])
        if str(stack).startswith("iface-"):
            # naming only: what kind of disagreement the rejected run shows (TLC has already rejected it)
            cls, detail = _classify_iface(events[start:end])
            real += ctx.report("channel/iface/%s/%s" % (stack.split("-")[-1], cls),
                       "new stack through %s: messages queued with dispatch(Send) %s: %s; first rejected event: %s" % (
                           stack, {"reordered": "arrive complete but in another order on their channel",
                                   "lost": "do not all arrive", "corrupt": "arrive as messages that were never sent",
                                   "error": "end in an I/O error"}[cls], detail, json.dumps(first)[:200]),
                       payload={"event": first, "open": events[start], "class": cls, "detail": detail}, src_file=sub)
            events = events[:start] + events[end:]
            path = ctx.path("channel_rest%d.ndjson" % rnd)
            vlib.write_ndjson(path, events)
            continue
        real += ctx.report("channel/%s/%s/%s" % (stack, kind, first.get("ev")),
                   "end-to-end channel (%s): event %d of run %s is not the next message of the paired sender / not everything "
                   "arrived: %s" % (stack, matched - start + 1, events[start].get("run"), json.dumps(first)[:300]),
                   payload={"event": first, "open": events[start]}, src_file=sub)
        events = events[:start] + events[end:]
        path = ctx.path("channel_rest%d.ndjson" % rnd)
        vlib.write_ndjson(path, events)
    ctx.cov["traces_validated_against_impl"] += runs + runs2
    if not real:
        recvs = [i for i, e in enumerate(events) if e["ev"] == "recv" and e["len"] > 65535]
        if not recvs:
            raise vlib.ToolError("channel trace has no multi-segment message")
        i = recvs[len(recvs) // 2]
        rows = [dict(e) for e in events[: i + 3]]
        rows[i]["id"] = (rows[i]["id"] + 1) % (1 << 30)
        p1 = ctx.path("channel_selftest_id.ndjson")
        vlib.write_ndjson(p1, rows)
        ok1, m1, _, _ = ctx.tlc_trace("net", "TraceChannel", "TraceChannel.cfg", p1, count=False)
        ctx.selftest("channel: wrong digest of multi-segment recv event %d" % (i + 1), (not ok1) and m1 == i)
        if ctx.thorough:
            j = next(k for k, e in enumerate(events) if e["ev"] == "send")
            p2 = ctx.path("channel_selftest_drop.ndjson")
            vlib.write_ndjson(p2, [e for k, e in enumerate(events) if k != j])
            ok2, m2, _, _ = ctx.tlc_trace("net", "TraceChannel", "TraceChannel.cfg", p2, count=False)
            ctx.selftest("channel: dropped send event %d" % (j + 1), not ok2, "matched %d" % m2)
    info["rejected_runs"] = rejected
    ctx.cov["channel_end_to_end"] = info
    return rejected


def run(ctx):
    binary = ctx.build("pv-net")
    ctx.assume("a message is identified by a 30-bit FNV digest of its encoding; the delivered value is re-encoded by the harness")
    ctx.assume("message values whose encoding does not decode alone back to the same encoding are outside C21's premise "
               "(round trip is C22) and are skipped with a DRIFT note")
    ctx.assume("old stack: the blocking recv_full_msg is called once per message whose last byte has been enqueued; "
               "zero-length segments are not part of a split and are not generated")

    # 1. the reassembly model, exhaustively
    if ctx.thorough:
        cfg = ctx.path("MCReassemblyThorough.cfg")
        src = open(os.path.join(vlib.SPEC, "net", "MCReassembly.cfg")).read()
        open(cfg, "w").write(src.replace("NM = 3", "NM = 4").replace("MaxLen = 4", "MaxLen = 5"))
    else:
        cfg = "MCReassembly.cfg"
    ctx.tlc_mc("net", "MCReassembly", cfg, workers=2, required_actions=["Start", "Feed", "Deliver"])
    ctx.tlc_mc("net", "MCReassembly", "MCReassembly2.cfg", workers=2, required_actions=["Start", "Feed", "Deliver"])

    # 2. M3 on both stacks
    exh, long_, rounds = (9, 3, 5) if ctx.thorough else (7, 0, 1)
    tr = ctx.path("trace.ndjson")
    notes = ctx.path("notes.ndjson")
    ctx.run_bin(binary, ["reassembly-trace", "--seed", ctx.seed, "--exh", exh, "--long", long_, "--rounds", rounds, "--big", 1,
                         "--out", tr, "--notes", notes])
    nrows = vlib.read_ndjson(notes)
    ctx.cov["harness_stats"] = nrows[0]["stats"]
    for n in nrows[1:]:
        ctx.notes.append("DRIFT (not C21): %s %s skipped: %s" % (n.get("proto"), n.get("kind"), n.get("skipped")))
    events = vlib.read_ndjson(tr)
    streams = [e for e in events if e["ev"] == "stream"]
    ctx.cov["protocols"] = sorted(set("%s:%s" % (s["stack"], s["proto"]) for s in streams))
    kinds = set()
    for s in streams:
        for c in s["chans"]:
            kinds.update("%s:%s:%s" % (s["stack"], s["proto"].split("+")[0] if c is s["chans"][0] else s["proto"].split("+")[-1], k) for k in c["kinds"])
    ctx.cov["message_kinds_exercised"] = len(kinds)
    ctx.cov["segments_fed"] = sum(1 for e in events if e["ev"] == "seg")
    ctx.cov["max_stream_bytes"] = max(sum(c["lens"]) for s in streams for c in s["chans"])
    ctx.sample({"stream": streams[0]})
    ctx.sample({"events": events[1:5]})
    long_stream = next((s for s in streams if sum(s["chans"][0]["lens"]) > 100 and s["stack"] == "sock"), None)
    if long_stream:
        ctx.sample({"stream": {k: (v if k != "chans" else [{"lens": c["lens"], "kinds": c["kinds"]} for c in v]) for k, v in long_stream.items()}})
    rejected = _validate(ctx, tr, "trace")

    # 3. binding self-test: wrong id, dropped segment, wrong partial-buffer size, missing last segment
    if not rejected:
        st = ctx.path("selftest.ndjson")
        ctx.run_bin(binary, ["reassembly-trace", "--seed", ctx.seed + 1000, "--only", "new", "--exh", 6, "--long", 0, "--big", 0,
                             "--out", st])
        ev = vlib.read_ndjson(st)
        b0 = _blocks(ev)[0]
        ev = ev[b0[0]:b0[1]]
        segs = [i for i, e in enumerate(ev) if e["ev"] == "seg" and e["out"]]
        plain = [i for i, e in enumerate(ev) if e["ev"] == "seg" and not e["out"] and e["left"] > 0]
        if len(segs) < 3 or not plain:
            raise vlib.ToolError("self-test trace too small")

        def variant(name, rows, expect_at=None):
            p = ctx.path("selftest_%s.ndjson" % name.split(" ")[0])
            vlib.write_ndjson(p, rows)
            ok, m, _, _ = ctx.tlc_trace("net", "TraceReassembly", "TraceReassembly.cfg", p, count=False)
            ctx.selftest(name, (not ok) and (expect_at is None or m == expect_at), "matched %d" % m)

        i = segs[len(segs) // 2]
        rows = [dict(e) for e in ev]
        rows[i]["out"] = [(rows[i]["out"][0] + 1) % (1 << 30)] + rows[i]["out"][1:]
        variant("wrong-id in seg event %d" % (i + 1), rows, expect_at=i)
        j = plain[len(plain) // 2]
        variant("dropped seg event %d" % (j + 1), [e for k, e in enumerate(ev) if k != j])
        rows = [dict(e) for e in ev]
        rows[j]["left"] += 1
        variant("wrong-left in seg event %d" % (j + 1), rows, expect_at=j)
        if ctx.thorough:
            rows = [dict(e) for e in ev]
            rows[i]["out"] = rows[i]["out"][:-1]
            variant("late delivery in seg event %d" % (i + 1), rows, expect_at=i)

    # 4. extra section: end-to-end channel on the real chunking path (Channel.tla)
    _channel(ctx, binary)

    return ctx.finish(
        rule="MC: Reassembly.tla over all streams of 3 messages of length <= 4 (2 channels x 2 messages), all cut sets and "
             "poll interleavings; M3: per core protocol and stack, seeded message streams cut at all / single / double / "
             "1-byte / random / 64 KiB positions, pushed through the real receivers (ChannelBuffer::recv_full_msg over two "
             "Plexers; AnyMessage::from_payload; read_full_msgs over a socket with two interleaved channels); every segment "
             "event must hand over exactly the messages whose end offset was reached, and leave the partial buffer the spec computes; "
             "extra: Channel.tla (send_msg_chunks o Mux contract o recv_full_msg) model-checked, and the real chunking path "
             "(messages around k*65535 bytes, several protocols concurrently over real Plexers / write_message) validated by TraceChannel",
        exhaustive=False)
