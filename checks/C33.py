"""C33 - Phase-1 validation is total  (and the machinery shared by C33..C38).

spec/ledger/Phase1.tla     abstract transaction projection T, property predicates
                           (Conserved, SigsOK, FeeSizeOK, BudgetOK, Breaks_R), reference validator
  MC   : MCPhase1 - tiny abstract transactions x rule mutators: Accept => all predicates,
         every mutator breaks its rule and the mutant is rejected (rule set not vacuous)
  M3   : pv-ledger phase1-trace mirrors the accepted fixtures of pallas-validate/tests/*.rs,
         re-keys them with own Ed25519 keys, applies seeded structure-aware mutators, runs the
         real validate_tx under catch_unwind and logs the INDEPENDENT projection + verdict;
         TracePhase1 (TLC, BigNat arithmetic) decides every event for the property.
C33: no event may have verdict "panic" (hostile quantities, empty collections, missing outputs,
     malformed witnesses, foreign-era UTxO entries ...).
"""
import json
import os
import re
import vlib

MAX_ROUNDS = 60


def big(x):
    v = 0
    for limb in reversed(x["mag"]):
        v = v * 10000 + limb
    return -v if x["neg"] else v


def to_big(v):
    neg, v = v < 0, abs(v)
    mag = []
    while v:
        mag.append(v % 10000)
        v //= 10000
    return {"neg": neg and bool(mag), "mag": mag}


def slug(s):
    return re.sub(r"[^A-Za-z0-9_.+=<>^*-]+", "-", s).strip("-")


def panic_site(detail):
    msg, _, loc = detail.partition(" @ ")
    f = re.sub(r":\d+$", "", loc).replace("pallas-validate/src/", "")
    if "copy_from_slice" in msg:
        c = "copy_from_slice"
    elif "add with overflow" in msg:
        c = "add-overflow"
    elif "subtract with overflow" in msg:
        c = "sub-overflow"
    elif "multiply with overflow" in msg:
        c = "mul-overflow"
    elif "unwrap()" in msg:
        c = "unwrap"
    elif "unreachable" in msg:
        c = "unreachable"
    elif "not implemented" in msg:
        c = "unimplemented"
    else:
        c = "panic"
    return f, c


def key_of(prop, e):
    """stable finding key: era / rule or site / mutator class"""
    mut = re.sub(r"/pos\d+(of\d+)?", "", e["mut"])
    mut = re.sub(r"\d{6,}", "N", mut)
    if prop == "C33":
        f, c = panic_site(e.get("detail", ""))
        return slug("%s/%s/%s" % (f, c, mut.split("/")[0]))
    if prop == "C38":
        rule = e["rule"] or "+".join(e.get("refBroken") or []) or "unlabelled"
        return slug("%s/%s/%s" % (e["era"], rule, mut))
    extra = ""
    if prop == "C35" and mut.startswith("extra-"):
        mut = "extra-witness-with-invalid-signature"     # whatever the position and the number of valid ones
    if prop == "C34" and e["T"].get("redeemOnly"):
        extra = "/redeem-only"
    if prop == "C36":
        extra = "/" + e["verdict"]
    return slug("%s/%s%s" % (e["era"], mut, extra))


def describe(prop, e):
    T = e["T"]
    base = "%s fixture %s, mutator %s: validate_tx verdict %s %s" % (e["era"], e["fx"], e["mut"], e["verdict"], e.get("detail", ""))
    if prop == "C33":
        return "validate_tx panicked: " + base
    if prop == "C34":
        return ("accepted although value is not conserved (spent ada %s, produced %s, fee %s, mint %s): %s" % (
            [big(o["coin"]) for o in T["spent"]], [big(o["coin"]) for o in T["outs"]], big(T["fee"]),
            [(a["id"][-10:], big(a["q"])) for a in T["mint"]], base))
    if prop == "C35":
        return "accepted although witnesses %s do not cover needKeys %s / required signers %s with valid signatures only: %s" % (
            [(w["kh"][:8], w["ok"]) for w in T["wits"]], [k[:8] for k in T["needKeys"]], [k[:8] for k in T["reqSigners"]], base)
    if prop == "C36":
        return "fee %s, a*size+b = %s*%s+%s, size limit %s: %s" % (big(T["fee"]), T["pp"]["a"], T["size"], T["pp"]["b"], big(T["pp"]["maxSize"]), base)
    if prop == "C37":
        return "accepted with redeemer budget sums mem %s / steps %s over the limits %s / %s (%s form): %s" % (
            sum(big(r["mem"]) for r in T["redeemers"]), sum(big(r["steps"]) for r in T["redeemers"]),
            big(T["pp"]["maxMem"]), big(T["pp"]["maxSteps"]), T["rform"], base)
    return "rule %s is broken but the transaction was not rejected: %s" % (e.get("rule"), base)


def slim(e):
    d = dict(e)
    return d


def renumber(events):
    out = []
    for i, e in enumerate(events):
        d = dict(e)
        d["seq"] = i + 1
        out.append(d)
    return out


def validate(ctx, prop, events, tag):
    """TLC decides the trace; every stall is a finding (triaged by key), then the remaining
    events are re-validated (in windows, so that a tree with many defects stays affordable).
    Returns the number of events TLC matched."""
    cfg = "TracePhase1_%s.cfg" % prop
    matched_total = 0
    rounds = 0
    todo = list(events)           # events not yet decided
    window = len(todo)            # first attempt: the whole trace in one TLC run
    seen_keys = set()
    while todo:
        rounds += 1
        if rounds > 4 * MAX_ROUNDS:
            raise vlib.ToolError("too many validation rounds - giving up")
        chunk = todo[:window]
        if chunk[0]["ev"] != "base":
            raise vlib.ToolError("trace window does not start with a baseline event")
        path = ctx.path("%s_%d.ndjson" % (tag, rounds))
        vlib.write_ndjson(path, renumber(chunk))
        ok, matched, total, first = ctx.tlc_trace("ledger", "TracePhase1", cfg, path, timeout=1500)
        matched_total += matched
        if ok:
            todo = todo[len(chunk):]
        else:
            e = chunk[matched]
            if e["ev"] == "base":
                # an accepted, unmodified mainnet fixture fails the property's demand
                key = slug("%s/baseline/%s" % (e["era"], e["fx"]))
            else:
                key = key_of(prop, e)
            if prop == "C38" and e["verdict"] == "reject":
                raise vlib.ToolError("mutator %s of %s did not break rule %s according to the independent projection" % (e["mut"], e["fx"], e["rule"]))
            ctx.report(key, describe(prop, e), payload={"event": e})
            seen_keys.add(key)
            if len(seen_keys) > MAX_ROUNDS:
                raise vlib.ToolError("more than %d distinct findings in one trace - giving up" % MAX_ROUNDS)
            # drop the decided prefix and every later event with an already reported key
            rest = todo[matched + 1:]
            if e["ev"] == "base":
                rest = [x for x in rest if x["fx"] != e["fx"]]
            else:
                rest = [x for x in rest if x["ev"] == "base" or key_of(prop, x) not in seen_keys]
                base = next((x for x in reversed(chunk[:matched]) if x["ev"] == "base"), None)
                if rest and rest[0]["ev"] != "base" and base is not None:
                    rest = [base] + rest
            todo = rest
            window = 250
        # a window must not end between a baseline and its mutants' continuation: re-insert the baseline
        if todo and todo[0]["ev"] != "base":
            base = next((x for x in reversed(chunk) if x["ev"] == "base"), None)
            if base is None:
                raise vlib.ToolError("lost the baseline of the current fixture")
            todo = [base] + todo
    return matched_total


CORRUPT = {
    # pick an accepted event and corrupt one logged field so that the property's demand must fail
    "C33": lambda e: e.__setitem__("verdict", "panic"),
    "C34": lambda e: e["T"]["outs"][0].__setitem__("coin", to_big(big(e["T"]["outs"][0]["coin"]) + 1)),
    "C35": lambda e: e["T"]["wits"][0].__setitem__("ok", False),
    "C36": lambda e: e["T"].__setitem__("fee", to_big(0)),
    "C37": lambda e: e["T"]["redeemers"][0].__setitem__("mem", to_big(2 ** 70)),
    "C38": lambda e: e.__setitem__("verdict", "accept"),
}


def selftest(ctx, prop, events):
    def eligible(e):
        if e["ev"] != "tx":
            return False
        T = e["T"]
        if prop == "C38":
            return e["verdict"] == "reject" and e["rule"] != ""
        if e["verdict"] != "accept":
            return False
        if prop == "C34":
            return not T["special"] and T["outs"] and T["era"] != "byron"   # Byron's demand is an inequality
        if prop == "C35":
            return bool(T["wits"])
        if prop == "C37":
            return T["plutus"] and T["redeemers"]
        return True
    idx = next((i for i, e in enumerate(events) if eligible(e) and i > 2), None)
    if idx is None:
        raise vlib.ToolError("no event eligible for the binding self-test")
    cfg = "TracePhase1_%s.cfg" % prop
    lo = max(i for i in range(idx + 1) if events[i]["ev"] == "base")
    window = renumber(json.loads(json.dumps(events[lo: idx + 3])))
    k = idx - lo
    corrupt = json.loads(json.dumps(window))
    CORRUPT[prop](corrupt[k])
    p1 = ctx.path("selftest_corrupt.ndjson")
    vlib.write_ndjson(p1, corrupt)
    ok1, m1, _, _ = ctx.tlc_trace("ledger", "TracePhase1", cfg, p1, count=False)
    ctx.selftest("corrupt one logged field of event %d (%s)" % (idx + 1, events[idx]["mut"]), (not ok1) and m1 == k, "matched %d" % m1)
    dropped = [e for i, e in enumerate(window) if i != k]      # not renumbered: the gap must be noticed
    p2 = ctx.path("selftest_dropped.ndjson")
    vlib.write_ndjson(p2, dropped)
    ok2, m2, _, _ = ctx.tlc_trace("ledger", "TracePhase1", cfg, p2, count=False)
    ctx.selftest("drop event %d" % (idx + 1), (not ok2) and m2 == k, "matched %d" % m2)


def model_check(ctx):
    cfg = "MCPhase1.cfg"
    if ctx.thorough:
        cfg = ctx.path("MCPhase1_full.cfg")
        src = open(os.path.join(vlib.SPEC, "ledger", "MCPhase1.cfg")).read()
        open(cfg, "w").write(src.replace("Full = FALSE", "Full = TRUE"))
    ctx.tlc_mc("ledger", "MCPhase1", cfg, workers=4, timeout=2400,
               required_actions=["MCInit", "Validate", "MutateRule", "Revalidate"])


def synthesis(ctx, prop, binary):
    """spec -> impl: TLC enumerates abstract recipes with the reference verdict (GenPhase1), the harness
    synthesises a real signed transaction per recipe and runs validate_tx; the property's demand is decided
    by TLC as for the mutated fixtures. Reference verdict vs implementation verdict is DRIFT only."""
    gcfg = "GenPhase1.cfg"
    if ctx.thorough:
        gcfg = ctx.path("GenPhase1_thorough.cfg")
        src = open(os.path.join(vlib.SPEC, "ledger", "GenPhase1.cfg")).read()
        open(gcfg, "w").write(src.replace("MaxOff = 2", "MaxOff = 3"))
    vec = ctx.path("synth_vectors.ndjson")
    n = ctx.tlc_gen("ledger", "GenPhase1", gcfg, vec, workers=1, timeout=1500)
    tr = ctx.path("synth_trace.ndjson")
    out = ctx.run_bin(binary, ["phase1-synth", "--in", vec, "--out", tr])
    res = json.loads(out.strip().splitlines()[-1])
    per_era = {}
    for k, v in res["stats"].items():
        era, verdict = k.split("/")
        per_era.setdefault(era, {})[verdict] = v
    for era in ("shelley", "mary", "alonzo", "babbage", "conway"):
        st = per_era.get(era, {})
        if st.get("accept", 0) == 0:
            raise vlib.ToolError("synthesis is vacuous: no synthesised %s transaction is accepted by validate_tx (%s)" % (era, st))
        if sum(v for k, v in st.items() if k != "not-expressible") < 50:
            raise vlib.ToolError("fewer than 50 synthesised transactions in era %s: %s" % (era, st))
    events = vlib.read_ndjson(tr)
    ctx.sample({"synthesised": {k: v for k, v in events[len(events) // 2].items() if k != "T"}})
    matched = validate(ctx, prop, events, "synth")
    ctx.cov["traces_validated_against_impl"] += len(events)
    ctx.cov["evaluations"] += matched
    ctx.cov["synthesised_transactions"] = len(events)
    ctx.cov["synthesised_per_era"] = per_era
    ctx.cov["tlc_vectors"] = n
    if res["drift"]:
        total = sum(res["drift"].values())
        ctx.notes.append("DRIFT (reference Accept of the recipe vs validate_tx, %d of %d synthesised transactions; the reference models "
                         "a subset of the rules, so this is information, not a verdict): %s" % (
                             total, len(events), "; ".join("%dx %s" % (v, k) for k, v in sorted(res["drift"].items())[:12])))


def run_phase1(ctx, prop, rule_text, min_events=20):
    binary = ctx.build("pv-ledger")
    ctx.assume("fixtures = the accepted (successful_*) cases of pallas-validate/tests/*.rs, transcribed mechanically "
               "(harness/pv-ledger/tools) and re-keyed with own Ed25519 keys; each baseline must be accepted first")
    ctx.assume("the projection T is computed with pallas-traverse / pallas-addresses / pallas-crypto only; "
               "protocol parameters are the tests' well-known parameter sets")
    model_check(ctx)
    tr = ctx.path("trace.ndjson")
    args = ["phase1-trace", "--prop", prop, "--seed", ctx.seed, "--tier", ctx.tier, "--out", tr]
    if ctx.thorough:
        args += ["--rounds", 15]
    out = ctx.run_bin(binary, args)
    stats = json.loads(out.strip().splitlines()[-1])
    ctx.cov["run_stats"] = stats["stats"]
    events = vlib.read_ndjson(tr)
    if len(events) < min_events or stats["stats"].get("base-accept", 0) < 10:
        raise vlib.ToolError("trace generator produced too little: %s" % stats)
    if stats["stats"].get("base-reject", 0) or stats["stats"].get("base-panic", 0):
        ctx.notes.append("DRIFT: some transcribed fixtures are not accepted as baselines: %s" % stats["stats"])
    ctx.sample({"event": {k: v for k, v in events[1].items() if k != "T"}, "T_excerpt": {k: events[1]["T"][k] for k in ("era", "fee", "size", "wits", "pp")}})
    matched = validate(ctx, prop, events, "trace")
    ctx.cov["traces_validated_against_impl"] += len(events)
    ctx.cov["evaluations"] += matched
    ctx.cov["mutator_classes"] = len({e["mut"] for e in events})
    ctx.cov["fixtures"] = len({e["fx"] for e in events})
    synthesis(ctx, prop, binary)
    if not ctx.violations:
        selftest(ctx, prop, events)
    return ctx.finish(rule=rule_text + "; M1/M2: TLC-generated abstract recipes (GenPhase1, all deviations from the valid default in "
                                       "<= 2 (quick) / 3 (thorough) dimensions, 5 eras) synthesised into real signed transactions and "
                                       "validated the same way", exhaustive=False)


def run(ctx):
    return run_phase1(ctx, "C33",
                      "MC: tiny abstract transactions x rule mutators (no verdict other than accept/reject exists in the spec); "
                      "M3: every accepted fixture of every era x hostile-but-decodable mutators (quantities 0, 1, 2^63-1, 2^63, 2^64-1 "
                      "in outputs/fee/spent outputs/assets/mint/redeemer budgets/collateral, wrapping sums, empty collections, missing "
                      "UTxO entries, wrong-length keys and signatures in any position, legacy outputs with zero assets, foreign-era "
                      "UTxO entries, Byron address types) run through validate_tx under catch_unwind; TLC rejects any 'panic' verdict")
