"""C35 - Accepted transactions carry only valid signatures and all needed ones

Shares the machinery of C33 (checks/C33.py: spec/ledger/Phase1.tla, MCPhase1, TracePhase1, pv-ledger phase1-trace).
Demand on every run: accepted => Phase1!SigsOK(T): every vkey witness verifies over the tx id (independent Ed25519 check),
every key-locked spent/collateral input and every required signer has a valid witness.
"""
import importlib.util
import os

_spec = importlib.util.spec_from_file_location("check_C33_shared", os.path.join(os.path.dirname(os.path.abspath(__file__)), "C33.py"))
shared = importlib.util.module_from_spec(_spec)
_spec.loader.exec_module(shared)


def run(ctx):
    return shared.run_phase1(ctx, "C35",
                             'MC: Accept => SigsOK on tiny abstract transactions; M3: accepted post-Byron fixtures x witness mutators (corrupt / drop every position, extra valid / invalid witnesses front and back, duplicates, reordering, required signers unknown / with valid / invalid / dropped witness); signatures re-checked independently with pallas-crypto; TLC decides SigsOK')
