"""C28 - The P2P initiator never violates a protocol it speaks.

spec/p2p/ProtocolMonitor.tla (property spec): per peer and protocol the view of a specification-conformant responder,
    advanced by every message the initiator emits (emission order) and every message delivered to it; an emitted
    message must have a transition from the view with client agency.  Environment = consistent with a real connection.
spec/p2p/Initiator.tla (design model; protocol state advanced on Sent, like the code)
  MC   : MCInitiatorC28 - design model || monitor, one slice per emitting sub-behaviour (keep-alive + peer-sharing,
         block-fetch, chain-sync incl. ContinueSync, leios-notify + leios-fetch), connection / promotion lifecycle
         included, Sent / Recv confirmations delayed arbitrarily; violation classes are collected, invariant
         bad \\subseteq known C28 classes
  M2   : every violating schedule and a behaviour cover are replayed into the real InitiatorBehavior
  M3   : the emitted Send sequence of the REAL runs (replays + long seeded random schedules with delayed
         confirmations) is validated against ProtocolMonitor by TLC - only this produces the verdict.
Finding key = protocol/message-kind/emitting-hook-in-responder-view[-before-sent]  (before-sent: an earlier message of
that protocol to that peer is still unconfirmed, i.e. the initiator's own protocol state lags behind what it emitted).
"""
import json
import os
import sys

import vlib

sys.path.insert(0, os.path.join(vlib.SPEC, "p2p"))
import p2pcheck as pc  # noqa: E402


def judge(ctx, bundle, marks):
    """ProtocolMonitor verdict over the bundled real runs (self-test parts excluded)."""
    events = bundle.events
    n = 0
    for tag, line, payload in marks:
        label, local = bundle.part_of(line)
        if label.startswith("selftest"):
            continue
        e = events[line - 1]
        if tag == "ENVBREAK":
            raise vlib.ToolError("harness delivered an event that is not consistent with a real connection "
                                 "(%s event %d: %s) - driver bug, not a verdict" % (label, local, json.dumps(pc.slim(e))[:300]))
        if tag != "BAD":
            continue
        for key in payload:
            n += 1
            runfile, reset = pc.save_run(ctx, events, line, "c28_run_%d" % line)
            _, run = pc.run_of(events, line)
            sched = ["%s%s%s" % (x.get("ev"), "(%s)" % x["p"] if x.get("p") else "",
                                 ":" + x["m"]["kind"] if x.get("m", {}).get("kind", "-") != "-" else "") for x in run[1:]]
            ctx.report(key, "%s: at event %d of run %s (%s) the real InitiatorBehavior emitted %s, which the %s "
                            "specification does not allow in the responder's state; schedule: %s" % (
                                label, local, reset.get("sid"), e.get("ev"),
                                [o["m"]["kind"] for o in e.get("out", []) if o["t"] == "send"], key.split("/")[0],
                                " ".join(sched[-14:])),
                       payload={"event": pc.slim(e), "schedule": sched}, src_file=runfile)
    return n


def drift_notes(ctx, bundle, ok, matched, total, first, marks):
    d = [(line, p) for tag, line, p in marks if tag == "DRIFT"]
    if not ok:
        ctx.notes.append("DRIFT: design-model comparison stopped at event %d: %s" % (matched + 1, json.dumps(first)[:200]))
    for line, p in d[:5]:
        ctx.notes.append("DRIFT(%s): implementation step %d not reproduced by Initiator.tla: %s" % (
            bundle.part_of(line)[0], line, json.dumps(p)[:200]))
    ctx.count("design_model_steps_compared", total)
    ctx.count("design_model_drift", len(d) + (0 if ok else 1))
    return d


ONE = {"Peers": "{1}", "MaxPeers": "1", "MaxWarm": "1", "MaxHot": "1", "MaxInflight": "7"}


def run(ctx):
    binary = ctx.build("pv-p2p")
    ctx.assume("emission order = wire order (TcpInterface: one send future per message on a FIFO-fair writer lock)")
    ctx.assume("a Send to a peer without a live connection reaches nobody and is not judged; after Error(p) nothing is "
               "judged for p until the next Connected(p); after the first violation on (p, protocol) that protocol "
               "instance is not judged further")
    ctx.assume("pipelining is not part of the mini-protocol state machines: a second request before the reply is a "
               "message sent without agency")

    t = ctx.thorough
    slices = [
        ("ka", {"SliceProtos": '{"handshake", "keepalive", "peersharing"}', "Cmds": '{"include", "hk"}',
                "MaxDepth": "9" if t else "8"}),
        ("bf", dict(ONE, SliceProtos='{"handshake", "blockfetch"}', Cmds='{"include", "hk", "reqblocks"}',
                    Versions="{13}", MaxDepth="13" if t else "10")),
        ("cs", dict(ONE, SliceProtos='{"handshake", "chainsync"}', Cmds='{"include", "hk", "startsync", "contsync", "demote"}',
                    MaxDepth="15" if t else "14")),
        ("leios", dict(ONE, SliceProtos='{"handshake", "leiosnotify", "leiosfetch"}', Versions="{15}",
                       Cmds='{"include", "hk", "fetcheb", "fetchebtxs"}', MaxDepth="13" if t else "10")),
    ]
    if t:
        slices.append(("cs2", {"SliceProtos": '{"handshake", "chainsync"}', "Cmds": '{"include", "hk", "startsync", "contsync"}',
                               "MaxDepth": "10"}))
        slices.append(("bf2", {"SliceProtos": '{"handshake", "blockfetch"}', "Cmds": '{"include", "hk", "reqblocks"}',
                               "MaxDepth": "10"}))
    rows, model = [], set()
    for name, ov in slices:
        scheds, classes, consts = pc.mc_slice(ctx, "MCInitiatorC28.cfg", "C28" + name, ov, timeout=1500)
        model |= classes["c28"]
        find, cover = pc.select(ctx, scheds, None, prefix_free=False)
        cfg = pc.run_cfg_from_consts(consts, strict=True)
        for i, s in enumerate(find + cover):
            rows.append({"id": "%s-%s%d" % (name, s["kind"][0], i), "cfg": cfg, "sched": s["sched"],
                         "expect": s["c28"] if s["kind"] == "finding" else [], "exp": s.get("exp"),
                         "must": s["kind"] == "finding" and bool(s["c28"])})
    ctx.cov["model_c28_classes"] = sorted(model)

    # M2: TLC schedules -> real behaviour; long random schedules with randomly delayed confirmations
    trace, res, rows = pc.replay(ctx, binary, rows, "m2", sample=100000 if t else 800)
    ctx.cov["schedules_replayed"] = len(rows)
    ctx.cov["schedule_steps_skipped_as_inconsistent"] = sum(r["skipped"] for r in res)
    viol_rows = [r for r in rows if r["expect"]]
    if viol_rows:
        ctx.sample({"tlc_counterexample": ["%s%s" % (s["ev"], ":" + s["m"]["kind"] if s["m"]["kind"] != "-" else "")
                                            for s in viol_rows[0]["sched"]], "classes": viol_rows[0]["expect"]})
    runs = 60 if t else 12
    tr = ctx.path("rand.ndjson")
    out = ctx.run_bin(binary, ["init-random", "--mode", "c28", "--seed", ctx.seed, "--runs", runs, "--events", 400,
                               "--peers", 12, "--out", tr])
    ctx.sample({"random_driver": json.loads(out)["stats"]})
    sruns = 16 if t else 5
    trs = ctx.path("rand_small.ndjson")
    ctx.run_bin(binary, ["init-random", "--mode", "c28", "--seed", int(ctx.seed) + 700, "--runs", sruns, "--events", 200,
                         "--peers", 4, "--snap", 1, "--out", trs])
    ctx.cov["traces_validated_against_impl"] += len(rows) + runs + sruns
    m2, evs, sev = vlib.read_ndjson(trace), vlib.read_ndjson(tr), vlib.read_ndjson(trs)
    ctx.sample({"impl_trace_event": pc.slim(next(e for e in evs if e.get("ev") == "hk" and any(o["t"] == "send" for o in e.get("out", []))))})

    # binding self-tests as extra runs: a server-only message in the emitted sequence; a dropped Connected event
    A = pc.Bundle().add("TLC schedule replay", m2).add("random schedule", evs).add("random schedule (small)", sev)
    k = next(i for i, e in enumerate(sev) if e.get("ev") == "hk" and any(o["t"] == "send" and o["m"]["kind"] == "KeepAlive" for o in e.get("out", [])))
    c1, k1 = pc.run_containing(sev, k, k)
    for o in c1[k1]["out"]:
        if o["t"] == "send" and o["m"]["kind"] == "KeepAlive":
            o["m"]["kind"] = "ResponseKeepAlive"
            break
    A.add("selftest-kind", c1)
    peer = next(o["p"] for o in sev[k]["out"] if o["t"] == "send")
    c2, k2 = pc.run_containing(sev, k, k)
    ci = max(i for i, e in enumerate(c2) if e.get("ev") == "connected" and e.get("p") == peer)
    A.add("selftest-drop", [e for i, e in enumerate(c2) if i != ci])
    pa = A.write(ctx.path("all_runs.ndjson"))

    # M3 (verdict): the real runs' Send sequences judged by the monitor, one TLC start
    ok, matched, total, first, marks = pc.validate(ctx, "TraceProtocolMonitor", pa)
    if not ok:
        raise vlib.ToolError("trace not consumed at event %d: %s" % (matched + 1, json.dumps(first)[:300]))
    ctx.cov["evaluations"] += total
    judge(ctx, A, marks)
    # classes the model predicts but the real code did not show are drift, not a verdict
    real = set(ctx.known_hits.keys()) | set(v[0] for v in ctx.violations)
    if model - real:
        ctx.notes.append("DRIFT: classes predicted by the design model but not observed on the real code: %s" % sorted(model - real))
    if not ctx.violations:
        l1 = A.first_line("selftest-kind") + k1
        ctx.selftest("emitted KeepAlive logged as ResponseKeepAlive", any(tg == "BAD" and l == l1 for tg, l, _ in marks))
        ctx.selftest("Connected event dropped",
                     any(tg == "ENVBREAK" and A.part_of(l)[0] == "selftest-drop" for tg, l, _ in marks))

    # design-model comparison (DRIFT only) on a bounded part of the replays + the small runs
    B = pc.Bundle().add("M2", pc.cut_at_reset(m2, 40000 if t else 4000)).add("M3-small", sev)
    pb = B.write(ctx.path("model_runs.ndjson"))
    okb, mb, tb, fb, marksb = pc.validate(ctx, "TraceInitiator", pb, count=False)
    drift_notes(ctx, B, okb, mb, tb, fb, marksb)

    return ctx.finish(
        rule="MC: Initiator.tla || ProtocolMonitor, slices keep-alive+peer-sharing (2 peers), block-fetch, chain-sync, "
             "leios (1 peer), full connection lifecycle, every consistent interleaving of commands, Sent and Recv within "
             "the depth bound (<= 3 messages in flight); M2: all violating schedules + behaviour cover replayed into "
             "InitiatorBehavior; M3: the real runs' Send sequences (replays + seeded random 400-event schedules over "
             "12 peers with randomly delayed confirmations) judged by ProtocolMonitor in TLC",
        exhaustive=False)
