"""C20 - the multiplexer delivers each protocol's chunks in order, exactly once.

spec/net/Mux.tla       design model of pallas-network's Plexer pair (ingress / wire / hand / egress queues)
  MC   : InOrderExactlyOnce, NoLeak, Conservation, header round trip ... on a 7-agent topology (TLC, exhaustive)
         + liveness under fairness on a smaller instance
spec/net/MuxProps.tla  the property as a linear trace spec - the VERDICT
  M3   : two real Plexers over a Unix socket pair on a multi-thread runtime, random topologies of agents
         (both roles, both directions, several protocols, orphan senders), chunks of 0..65535 bytes, global
         ticket order (enq ticket before the call, deq ticket after the return); plus the network2 bearer
         (write_segment / read_segment) driven the same way; TLC validates the merged log.
"""
import json
import os
import vlib


MC_ACTIONS = ["Enqueue", "MuxTick", "DemuxRead", "DemuxDeliver", "Dequeue"]


def _cfg(ctx, name, repl):
    src = open(os.path.join(vlib.SPEC, "net", "MCMux.cfg")).read()
    for a, b in repl:
        assert a in src, a
        src = src.replace(a, b)
    p = ctx.path(name)
    open(p, "w").write(src)
    return p


def _run_of(events, idx):
    """(stack, run number, index of the run's open event) of the run that contains event idx."""
    for i in range(min(idx, len(events) - 1), -1, -1):
        if events[i].get("ev") == "open":
            return events[i].get("stack", "?"), events[i].get("run"), i
    return "?", None, 0


def _validate(ctx, tr, label):
    """Validate a log; on a rejection report it, cut the offending run out and go on with the rest."""
    events = vlib.read_ndjson(tr)
    total_runs = sum(1 for e in events if e.get("ev") == "open")
    rejected = 0
    rounds = 0
    path = tr
    while events and rounds < 6:
        rounds += 1
        ok, matched, total, first = ctx.tlc_trace("net", "MuxProps", "MuxProps.cfg", path)
        ctx.cov["evaluations"] += matched
        if ok:
            break
        rejected += 1
        stack, run, start = _run_of(events, matched)
        end = next((i for i in range(start + 1, len(events)) if events[i].get("ev") == "open"), len(events))
        ev = first.get("ev")
        if ev == "quiesce":
            kind = "undelivered-at-quiescence" + ("-stalled" if first.get("stalled") else "")
        elif ev == "deq":
            kind = "deq-not-next-of-peer"
        else:
            kind = str(ev)
        sub = ctx.path("%s_rejected_run%s.ndjson" % (label, run))
        vlib.write_ndjson(sub, events[start:end])
        ctx.report("%s/%s" % (stack, kind),
                   "event %d of run %s (%s) is not allowed by MuxProps: %s" % (matched - start + 1, run, stack, json.dumps(first)[:300]),
                   payload={"run": run, "stack": stack, "event_index_in_run": matched - start + 1, "event": first,
                            "open": events[start]}, src_file=sub)
        events = events[:start] + events[end:]
        path = ctx.path("%s_rest%d.ndjson" % (label, rounds))
        vlib.write_ndjson(path, events)
    ctx.cov["traces_validated_against_impl"] += total_runs
    return rejected


def _expect_hol_counterexample(ctx):
    """MCMuxHOL.cfg: the named deviation of Mux.tla.  With one agent not dequeuing, TLC must find the
    head-of-line-blocking counterexample to HOLFree while the safety invariants hold."""
    rc, out, dt = ctx._tlc("net", "MCMux", "MCMuxHOL.cfg", 2, 600, None, [], "mc_MCMux_HOL")
    gen, dist = ctx._stats(out)
    violated = "Temporal property HOLFree was violated" in out or "Temporal properties were violated" in out
    other = ("Invariant" in out and "is violated" in out) or "Deadlock reached" in out or "Parsing or semantic analysis failed" in out
    if not violated or other:
        print("\n".join(out.splitlines()[-30:]))
        raise vlib.ToolError("MCMuxHOL: expected exactly the head-of-line-blocking counterexample to HOLFree")
    stuck = [ln.strip() for ln in out.splitlines() if ln.startswith("State ") and "<" in ln]
    ctx.cov["states"] += dist
    ctx.cov["transitions"] += gen
    ctx.cov["tlc_runs"].append({"module": "MCMux", "cfg": "MCMuxHOL.cfg", "distinct": dist, "generated": gen, "wall_s": round(dt, 1),
                                "expected_counterexample": "HOLFree violated (head-of-line blocking), %d-state lasso prefix" % len(stuck)})
    ctx.log("TLC MCMux/MCMuxHOL.cfg: HOLFree violated as documented (%d distinct states), %.1fs" % (dist, dt))


def _tracemux(ctx, binary):
    """Thorough tier, DRIFT only: one-run logs with call intervals validated against the design model Mux.tla
    (real capacities 100/100, silent MuxTick/DemuxRead/DemuxDeliver steps)."""
    res = []
    for k in range(2):
        tr = ctx.path("tracemux%d.ndjson" % k)
        ctx.run_bin(binary, ["mux-trace", "--seed", ctx.seed + 500 + k, "--runs", 1, "--runs2", 0, "--chunks", 150, "--detail", 1, "--out", tr])
        ok, matched, total, first = ctx.tlc_trace("net", "TraceMux", "TraceMux.cfg", tr, timeout=1500)
        res.append({"log": os.path.basename(tr), "events": total, "matched": matched, "accepted": ok})
        if not ok:
            ctx.notes.append("DRIFT (TraceMux, not a C20 verdict): event %d of %s does not fit the design model Mux.tla with "
                             "capacities 100/100: %s" % (matched + 1, os.path.basename(tr), json.dumps(first)[:200]))
        if k == 0:
            # sensitivity: the same log against a model whose egress queues hold 20 chunks must not fit
            cfg = ctx.path("TraceMuxE20.cfg")
            open(cfg, "w").write(open(os.path.join(vlib.SPEC, "net", "TraceMux.cfg")).read().replace("E = 100", "E = 20"))
            ok2, m2, t2, _ = ctx.tlc_trace("net", "TraceMux", cfg, tr, timeout=1500, count=False)
            res.append({"log": os.path.basename(tr), "variant": "E = 20 (must be rejected)", "matched": m2, "accepted": ok2})
            if ok2:
                ctx.notes.append("DRIFT machinery note: TraceMux accepted the pressure log with E = 20; it did not exercise a full queue")
    ctx.cov["tracemux"] = res


def run(ctx):
    binary = ctx.build("pv-net")
    ctx.assume("a chunk is identified by (embedded sender id, sequence number, length, 30-bit FNV checksum of its bytes); "
               "the same projection is logged at enqueue and at dequeue and TLC compares them")
    ctx.assume("event order = one global atomic ticket, taken before enqueue_chunk is called and after dequeue_chunk returned")
    ctx.assume("a run that makes no progress for 15 s is logged as quiescent with the stuck agents named; "
               "TLC then decides whether something enqueued was never delivered")

    # 1. design model, exhaustive
    if ctx.thorough:
        # the full MCMux.cfg (~1.3*10^5 states) and a corner with roomier wire / egress queues
        ctx.tlc_mc("net", "MCMux", "MCMux.cfg", workers=4, timeout=2400, required_actions=MC_ACTIONS)
        cfg = _cfg(ctx, "MCMuxWide.cfg", [("QA2 = 2", "QA2 = 1"), ("W = 1", "W = 2"), ("E = 1", "E = 2")])
        ctx.tlc_mc("net", "MCMux", cfg, workers=4, timeout=2400, required_actions=MC_ACTIONS)
    else:
        cfg = _cfg(ctx, "MCMuxQuick.cfg", [("QA2 = 2", "QA2 = 1")])
        ctx.tlc_mc("net", "MCMux", cfg, workers=4, timeout=900, required_actions=MC_ACTIONS)
    ctx.tlc_mc("net", "MCMux", "MCMuxLive.cfg", workers=2, required_actions=MC_ACTIONS)
    _expect_hol_counterexample(ctx)

    # 2. M3 on the real multiplexers
    runs, runs2, chunks = (24, 8, 200) if ctx.thorough else (5, 2, 200)
    tr = ctx.path("trace.ndjson")
    ctx.run_bin(binary, ["mux-trace", "--seed", ctx.seed, "--runs", runs, "--runs2", runs2, "--chunks", chunks, "--out", tr])
    events = vlib.read_ndjson(tr)
    ctx.cov["chunks_enqueued"] = sum(1 for e in events if e["ev"] == "enq")
    ctx.cov["chunks_dequeued"] = sum(1 for e in events if e["ev"] == "deq")
    ctx.cov["enqueue_retries_on_full_queue"] = sum(e.get("enq_retries", 0) for e in events if e["ev"] == "quiesce")
    ctx.cov["max_chunk_len"] = max([e["len"] for e in events if e["ev"] == "enq"] or [0])
    ctx.cov["zero_len_chunks"] = sum(1 for e in events if e["ev"] == "enq" and e["len"] == 0)
    ctx.sample({"open": events[0]})
    ctx.sample({"events": [e for e in events if e["ev"] in ("enq", "deq")][:3]})
    rejected = _validate(ctx, tr, "trace")

    # 3. binding self-test on a small run: corrupt a field / drop an enq / drop a deq / re-route a deq
    if not rejected:
        st = ctx.path("selftest.ndjson")
        ctx.run_bin(binary, ["mux-trace", "--seed", ctx.seed + 1000, "--runs", 1, "--runs2", 0, "--chunks", 12, "--out", st])
        ev = vlib.read_ndjson(st)
        deqs = [i for i, e in enumerate(ev) if e["ev"] == "deq" and e["len"] >= 5]
        enqs = [i for i, e in enumerate(ev) if e["ev"] == "enq"]
        if len(deqs) < 3 or len(enqs) < 3:
            raise vlib.ToolError("self-test run too small")

        def variant(name, rows, expect_at=None):
            p = ctx.path("selftest_%s.ndjson" % name)
            vlib.write_ndjson(p, rows)
            ok, m, _, _ = ctx.tlc_trace("net", "MuxProps", "MuxProps.cfg", p, count=False)
            good = (not ok) and (expect_at is None or m == expect_at)
            ctx.selftest(name, good, "matched %d" % m)

        i = deqs[len(deqs) // 2]
        rows = [dict(e) for e in ev]
        rows[i]["sum"] = (rows[i]["sum"] + 1) % (1 << 30)
        variant("corrupt checksum of deq event %d" % (i + 1), rows, expect_at=i)
        j = enqs[1]
        variant("drop enq event %d" % (j + 1), [e for k, e in enumerate(ev) if k != j])
        variant("drop deq event %d (loss must be caught at quiescence)" % (i + 1), [e for k, e in enumerate(ev) if k != i])
        if ctx.thorough:
            rows = [dict(e) for e in ev]
            ch = dict(rows[i]["ch"])
            ch["role"] = "c" if ch["role"] == "s" else "s"
            rows[i]["ch"] = ch
            variant("deq event %d surfaces on the other role" % (i + 1), rows, expect_at=i)
            same = [k for k in deqs if ev[k]["ch"] == ev[i]["ch"]]
            if len(same) >= 2:
                a, b = same[0], same[1]
                rows = [dict(e) for e in ev]
                rows[a], rows[b] = rows[b], rows[a]
                variant("swap deq events %d and %d of one channel" % (a + 1, b + 1), rows, expect_at=a)

    # 4. thorough: the same kind of log against the design model with silent steps (DRIFT only)
    if ctx.thorough and not rejected:
        _tracemux(ctx, binary)

    return ctx.finish(
        rule="MC: Mux.tla (two sides, shared bounded ingress, wire, demuxer hand, per-subscription egress) exhaustively for "
             "InOrderExactlyOnce / CompleteAtQuiescence / NoLeak / Conservation / HeadersFaithful, liveness under fairness on a "
             "smaller instance; M3: merged ticket-ordered logs of two real Plexers over a Unix socket pair (multi-thread runtime, "
             "random topologies, chunks 0..65535 bytes, back-pressure) and of the network2 bearer, validated by TLC against "
             "MuxProps.tla (Deq only as the next undelivered chunk of the paired sender; everything delivered at quiescence); "
             "head-of-line blocking recorded as an expected liveness counterexample (MCMuxHOL.cfg); thorough: one-run logs with "
             "call intervals replayed against Mux.tla with capacities 100/100 and silent muxer/demuxer steps (TraceMux, DRIFT only)",
        exhaustive=False)
