"""C42 - Immutable-DB reads return exactly the requested chain suffix.

spec/immutable/ImmutableDb.tla
  MC : every well-formed database of <= 4 chunk files x <= 3 blocks over slots 0..MaxSlot x every point
       kind: the design model (chunk_binary_search + iterate_till_point) is allowed by the property
  M1a: the real test database (every subset of its chunk files, copied to scratch dirs): content extracted
       independently from the secondary index files, TLC computes All / Tip / start index per point,
       the real read_blocks / read_blocks_from_point / get_tip are compared block by block
  M1b: every small database enumerated by TLC is materialised as chunk/primary/secondary files made of
       real blocks and read by the real reader (all exact / fuzzy points)
"""
import json
import os
import vlib

SPEC = "immutable"


def _report(ctx, rows, what):
    bad = [r for r in rows if r.get("type") == "mismatch"]
    seen = set()
    for r in bad:
        if r["key"] in seen:
            continue
        seen.add(r["key"])
        ctx.report(r["key"], "%s: database %s, point %s: %s" % (what, r["id"], json.dumps(r["q"]), json.dumps(r["detail"])), payload=r)
    return bad


def run(ctx):
    binary = ctx.build("pv-immutable")
    ctx.assume("blocks are identified by the bytes sliced from the chunk file with the secondary-index offsets (harness's own parser)")
    ctx.assume("slots strictly increase (no Byron EBBs in the test database); chunk files may be empty")
    ctx.assume("the reader drops the lexicographically last chunk file (documented in build_stack_of_chunk_names); the spec follows it")

    # 1. exhaustive: design model of the reader vs the property, all small databases
    max_slot = 7 if ctx.thorough else 5
    cfg = ctx.path("MC.cfg")
    src = open(os.path.join(vlib.SPEC, SPEC, "MCImmutableDb.cfg")).read()
    open(cfg, "w").write(src.replace("MaxSlot = 7", "MaxSlot = %d" % max_slot))
    ctx.tlc_mc(SPEC, "MCImmutableDb", cfg, workers=4, timeout=1500,
               required_actions=["CallReadBlocks", "CallReadBlocksFromPoint", "CallGetTip"])

    # 2. M1a: the real database and every subset of its chunk files
    tier = "thorough" if ctx.thorough else "quick"
    dbs = ctx.path("dbs.json")
    ctx.run_bin(binary, ["imm-prepare", "--work", ctx.work, "--tier", tier, "--seed", ctx.seed, "--out", dbs])
    vec = ctx.path("vec_real.ndjson")
    n = ctx.tlc_gen(SPEC, "GenImmutableReal", "GenImmutableReal.cfg", vec, env={"DBJSON": dbs}, timeout=1500)
    res = ctx.path("res_real.ndjson")
    ctx.run_bin(binary, ["imm-replay", "--vec", vec, "--work", ctx.work, "--mode", "real", "--tier", tier,
                         "--seed", ctx.seed, "--out", res])
    rows = vlib.read_ndjson(res)
    summ = [r for r in rows if r["type"] == "db"]
    if len(summ) != n:
        raise vlib.ToolError("replay covered %d of %d databases" % (len(summ), n))
    calls = sum(r["calls"] for r in summ)
    ctx.cov["traces_validated_against_impl"] += len(summ)
    ctx.cov["evaluations"] += calls
    ctx.cov["real_db_subsets"] = {r["id"]: {"immutable_blocks": r["blocks"], "calls": r["calls"]} for r in summ}
    with open(vec) as f:
        v = json.loads(f.readlines()[3])
    ctx.sample({"tlc_vector_real_db": {"id": v["id"], "all_first": v["all"][:2], "tip": v["tip"], "answers": v["ans"][:4]}})
    bad = _report(ctx, rows, "real reader differs from ImmutableDb.tla on the test database")

    # 3. M1b: small databases enumerated by TLC, materialised with real blocks
    gcfg = ctx.path("GenSmall.cfg")
    src = open(os.path.join(vlib.SPEC, SPEC, "GenImmutableSmall.cfg")).read()
    open(gcfg, "w").write(src.replace("MaxSlot = 5", "MaxSlot = %d" % (6 if ctx.thorough else 4)))
    vec2 = ctx.path("vec_small.ndjson")
    n2 = ctx.tlc_gen(SPEC, "GenImmutableSmall", gcfg, vec2, timeout=1500)
    res2 = ctx.path("res_small.ndjson")
    ctx.run_bin(binary, ["imm-replay", "--vec", vec2, "--work", ctx.work, "--mode", "small", "--tier", tier,
                         "--seed", ctx.seed, "--out", res2])
    rows2 = vlib.read_ndjson(res2)
    summ2 = [r for r in rows2 if r["type"] == "db"]
    if len(summ2) != n2:
        raise vlib.ToolError("replay covered %d of %d small databases" % (len(summ2), n2))
    ctx.cov["traces_validated_against_impl"] += len(summ2)
    ctx.cov["evaluations"] += sum(r["calls"] for r in summ2)
    ctx.cov["small_dbs_materialised"] = len(summ2)
    with open(vec2) as f:
        lines = f.readlines()
        v = json.loads(lines[len(lines) // 2])
    ctx.sample({"tlc_vector_small_db": {"chunks": v["chunks"], "all": v["all"], "tip": v["tip"], "answers": v["ans"][:5]}})
    bad += _report(ctx, rows2, "real reader differs from ImmutableDb.tla on a TLC-enumerated database")

    # 4. binding self-test: shift every expected start index by one => the replay must object
    if not ctx.violations:
        st = ctx.path("res_selftest.ndjson")
        with open(vec) as f:
            trimmed = [json.loads(x) for x in f]
        for x in trimmed:
            x["ans"] = x["ans"][:150]
        vtrim = ctx.path("vec_selftest.ndjson")
        vlib.write_ndjson(vtrim, trimmed)
        ctx.run_bin(binary, ["imm-replay", "--vec", vtrim, "--work", ctx.work, "--mode", "real", "--tier", "quick",
                             "--seed", ctx.seed, "--out", st, "--skew", 1])
        srows = vlib.read_ndjson(st)
        big = [r for r in srows if r["type"] == "db" and r["blocks"] > 0]
        ctx.selftest("expected start indices shifted by one (real database)",
                     bool(big) and all(r["mismatches"] > 0 for r in big),
                     "mismatches per database: %s" % [r["mismatches"] for r in big])
        # drop one block from an expected sequence: edit TLC's vector
        with open(vec) as f:
            vs = [json.loads(x) for x in f]
        tgt = next(i for i, x in enumerate(vs) if len(x["all"]) > 10)
        vs[tgt]["all"] = vs[tgt]["all"][:5] + vs[tgt]["all"][6:]
        pv = ctx.path("vec_dropped.ndjson")
        vlib.write_ndjson(pv, [vs[tgt]])
        st2 = ctx.path("res_selftest2.ndjson")
        vs[tgt]["ans"] = vs[tgt]["ans"][:20]
        vlib.write_ndjson(pv, [vs[tgt]])
        ctx.run_bin(binary, ["imm-replay", "--vec", pv, "--work", ctx.work, "--mode", "real", "--tier", "quick",
                             "--seed", ctx.seed, "--out", st2])
        s2 = [r for r in vlib.read_ndjson(st2) if r["type"] == "db"]
        ctx.selftest("one block removed from the expected read_blocks sequence", s2[0]["mismatches"] > 0)

    return ctx.finish(
        rule="MC: all databases <= 5 chunk files (up to 2 of them empty) x <= 3 blocks over slots 0..%d, every exact/fuzzy/origin point: design model "
             "allowed by the property; M1: TLC's All/Tip/SpecStart for the test database (13 chunk-file subsets incl. empty chunk files first / in the middle / last immutable / two in a row; exact, "
             "absent and fuzzy points incl. slot ranges between blocks) and for every TLC-enumerated small database "
             "(materialised as files of real blocks) compared with the real reader block by block" % max_slot,
        exhaustive=False)
