"""C32 - Slot, epoch and wall-clock conversions are mutually consistent.

spec/traverse/SlotTime.tla (+ SlotTimeBig.tla: the same statements over BigNat)
  MC : MCSlotTime - a clock ticking through slots 0..N of 128 scaled-down genesis records; the C32 laws,
       the division-free characterisation of ToRel and the BigNat twins are invariants
  M1 : GenSlotTime - expected (epoch, sub, back, t0, t1) for every (record, slot) -> real GenesisValues built
       from the same fields (design-model comparison: a mismatch is DRIFT, the property only speaks of the
       well-known networks)
  M3 : the four well-known networks, slots sampled densely around every boundary up to 2^40; each public call
       logged with BigNat values and validated by TraceSlotTime (verdict: Strict = FALSE; design: Strict = TRUE)
"""
import json
import os
import vlib

SPEC_DIR = "traverse"


def big_int(b):
    v = 0
    for limb in reversed(b["mag"]):
        v = v * 10000 + limb
    return -v if b.get("neg") else v


def classify(ev, net):
    """stable finding key for a rejected event (classification only - the verdict is TLC's)"""
    kind = ev.get("ev")
    if kind == "panic":
        return "panic/%s/%s" % (ev.get("net"), ev.get("call"))
    name = net["name"] if net else "none"
    sks = big_int(net["g"]["sks"]) if net else 0
    s = big_int(ev["slot"]) if "slot" in ev else 0
    if kind == "wall":
        where = "era-boundary" if s + 1 == sks else ("byron" if s < sks else "shelley")
        return "wall/%s/%s" % (name, where)
    if kind == "rel":
        return "rel/%s/%s" % (name, "byron" if s < sks else "shelley")
    if kind == "abs":
        return "roundtrip/%s" % name
    return "%s/%s" % (kind, name)


def to_big(v):
    mag = []
    while v > 0:
        mag.append(v % 10000)
        v //= 10000
    return {"neg": False, "mag": mag}


def validate(ctx, cfg, events, tag, max_rounds):
    """Validate `events`; every rejected event is recorded with its key and removed, and validation resumes after
    it (the accepted prefix is dropped, the current "net" event kept).  Returns (rejected, surviving events)."""
    rejected = []
    dropped = set()
    rounds = 0
    cur = list(enumerate(events))
    while True:
        p = ctx.path("%s_%d.ndjson" % (tag, rounds))
        vlib.write_ndjson(p, [e for _, e in cur])
        ok, matched, total, first = ctx.tlc_trace(SPEC_DIR, "TraceSlotTime", cfg, p, count=(rounds == 0))
        if ok:
            break
        net = None
        for _, e in cur[:matched + 1]:
            if e["ev"] == "net":
                net = e
            elif e["ev"] == "reset":
                net = None
        rejected.append((classify(first, net), first, net))
        dropped.add(cur[matched][0])
        rounds += 1
        rest = cur[matched + 1:]
        if first["ev"] == "rel" and rest and rest[0][1]["ev"] == "abs":
            dropped.add(rest[0][0])      # the paired call back has lost its "rel"
            rest = rest[1:]
        cur = ([(-1, net)] if net and first["ev"] != "net" else []) + rest
        if rounds >= max_rounds or not rest:
            break
    return rejected, [e for i, e in enumerate(events) if i not in dropped]


def run(ctx):
    binary = ctx.build("pv-traverse")
    ctx.assume("epoch lengths are configured in seconds and divide into whole slots; the fork is on a Byron epoch "
               "boundary (WellFormed) - true of the genesis records the library reports for the four networks "
               "(checked by the trace spec: Divisible)")
    ctx.assume("slots are sampled (all boundaries +-3..60, powers of two, seeded random), not enumerated up to 2^40")

    # 1. exhaustive model check
    max_slot = 200 if ctx.thorough else 40
    cfg = ctx.path("MC.cfg")
    src = open(os.path.join(vlib.SPEC, SPEC_DIR, "MCSlotTime.cfg")).read()
    open(cfg, "w").write(src.replace("MaxSlot = 60", "MaxSlot = %d" % max_slot))
    ctx.tlc_mc(SPEC_DIR, "MCSlotTime", cfg, workers=4, timeout=1700,
               required_actions=["AbsoluteSlotToRelative", "RelativeSlotToAbsolute", "SlotToWallclock", "Tick"])

    # 2. M1: TLC vectors -> real GenesisValues with the same small fields
    gcfg = ctx.path("Gen.cfg")
    open(gcfg, "w").write("CONSTANTS\n  MaxSlot = %d\n" % max_slot)
    vec = ctx.path("vectors.ndjson")
    n = ctx.tlc_gen(SPEC_DIR, "GenSlotTime", gcfg, vec)
    res = ctx.path("replay_results.ndjson")
    ctx.run_bin(binary, ["slot-replay", "--in", vec, "--out", res])
    rows = vlib.read_ndjson(res)
    if len(rows) != n:
        raise vlib.ToolError("replay returned %d results for %d vectors" % (len(rows), n))
    evals = sum(r["rows"] for r in rows)
    ctx.cov["traces_validated_against_impl"] += len(rows)
    ctx.cov["evaluations"] += evals
    ctx.cov["m1_records"] = len(rows)
    ctx.cov["m1_points"] = evals
    bad_wf = [r for r in rows if not r["ok"] and r["wf"]]
    bad_other = [r for r in rows if not r["ok"] and not r["wf"]]
    ctx.cov["m1_mismatching_wellformed_records"] = len(bad_wf)
    ctx.cov["m1_mismatching_illformed_records"] = len(bad_other)
    first_vec = json.loads(open(vec).readline())
    ctx.sample({"tlc_vector": {"g": first_vec["g"], "rows": first_vec["rows"][:8]}})
    for r in (bad_wf + bad_other)[:3]:
        ctx.notes.append("DRIFT (scaled-down record, outside the property's quantifier): %s differs from the model at "
                         "g=%s: %s" % (r["bad"][0]["fn"], json.dumps(r["g"], sort_keys=True), json.dumps(r["bad"][0])))

    # 3. M3: the well-known networks -> trace spec (verdict)
    tr = ctx.path("trace.ndjson")
    ctx.run_bin(binary, ["slot-trace", "--seed", ctx.seed, "--random", 4000 if ctx.thorough else 40, "--out", tr])
    events = vlib.read_ndjson(tr)
    nets = [e["name"] for e in events if e["ev"] == "net"]
    if sorted(nets) != ["mainnet", "preprod", "preview", "testnet"]:
        raise vlib.ToolError("trace does not cover the four networks: %s" % nets)
    rejected, clean = validate(ctx, "TraceSlotTime.cfg", events, "verdict", 8)
    ctx.cov["traces_validated_against_impl"] += len(nets)
    ctx.cov["evaluations"] += len(events)
    ctx.cov["m3_events"] = len(events)
    ctx.cov["m3_events_rejected"] = len(rejected)
    ctx.sample({"impl_trace_events": events[0:1] + events[300:303]})
    for key, ev, net in rejected:
        ctx.report(key, "call not allowed by SlotTime on network %s: %s" % (net["name"] if net else "?", json.dumps(ev)),
                   payload={"event": ev, "net": net})

    # 4. design model (Strict, thorough tier): epoch is the quotient, the clock is the linear formula => DRIFT only
    if ctx.thorough and len(rejected) < 8:
        drift, _ = validate(ctx, "TraceSlotTimeStrict.cfg", clean, "strict", 3)
        for key, ev, net in drift:
            ctx.notes.append("DRIFT design model (Strict) rejects %s: %s" % (key, json.dumps(ev)))
        ctx.cov["m3_strict_rejections"] = len(drift)

    # 5. binding self-test on a short slice around mainnet's first Byron epoch boundary
    if not ctx.violations:
        head = clean[:400]
        idx = next(i for i, e in enumerate(head) if e["ev"] == "rel" and i > 250)
        assert head[idx + 1]["ev"] == "abs" and head[idx + 2]["ev"] == "wall"
        c1 = [json.loads(json.dumps(e)) for e in head]
        c1[idx + 1]["slot"] = to_big(big_int(head[idx + 1]["slot"]) + 1)
        p1 = ctx.path("selftest_abs.ndjson")
        vlib.write_ndjson(p1, c1)
        ok1, m1, _, _ = ctx.tlc_trace(SPEC_DIR, "TraceSlotTime", "TraceSlotTime.cfg", p1, count=False)
        ctx.selftest("corrupt converted-back slot of event %d" % (idx + 2), (not ok1) and m1 == idx + 1)
        c2 = [json.loads(json.dumps(e)) for e in head]
        c2[idx + 2]["t1"] = to_big(big_int(c2[idx + 2]["t1"]) + 1)
        p2 = ctx.path("selftest_wall.ndjson")
        vlib.write_ndjson(p2, c2)
        ok2, m2, _, _ = ctx.tlc_trace(SPEC_DIR, "TraceSlotTime", "TraceSlotTime.cfg", p2, count=False)
        ctx.selftest("corrupt wall-clock t1 of event %d" % (idx + 3), (not ok2) and m2 == idx + 2)
        c3 = [e for i, e in enumerate(head) if i != idx]
        p3 = ctx.path("selftest_drop.ndjson")
        vlib.write_ndjson(p3, c3)
        ok3, m3, _, _ = ctx.tlc_trace(SPEC_DIR, "TraceSlotTime", "TraceSlotTime.cfg", p3, count=False)
        ctx.selftest("drop rel event %d" % (idx + 1), (not ok3) and m3 == idx)

    return ctx.finish(
        rule="MC: every slot 0..%d of 128 scaled-down genesis records (laws of the spec, BigNat twins); M1: the same "
             "(record, slot) grid replayed into real GenesisValues (drift only); M3: mainnet/testnet/preview/preprod, "
             "slots around every epoch/era boundary, powers of two and seeded random slots below 2^40, every call "
             "validated by TraceSlotTime (sub < epoch size of the era, round trip, clock step)" % max_slot,
        exhaustive=False)
