"""C32 - Slot, epoch and wall-clock conversions are mutually consistent.

spec/traverse/SlotTime.tla (+ SlotTimeBig.tla: the same statements over BigNat)
  MC : MCSlotTime - a clock ticking through slots 0..N of 128 scaled-down genesis records; the C32 laws,
       the division-free characterisation of ToRel and the BigNat twins are invariants
  M1 : GenSlotTime - expected (epoch, sub, back, t0, t1) for every (record, slot) -> real GenesisValues built
       from the same fields (design-model comparison: a mismatch is DRIFT, the property only speaks of the
       well-known networks)
  M3 : the four well-known networks, slots sampled densely around every boundary up to 2^40; each public call
       logged with BigNat values and consumed by TraceSlotTime in ONE TLC run: conforming calls by the conforming
       branch, calls that break C32 by the classifying branch, which records the class kind/network/era
"""
import json
import os
import re
import vlib

SPEC_DIR = "traverse"


def big_int(b):
    v = 0
    for limb in reversed(b["mag"]):
        v = v * 10000 + limb
    return -v if b.get("neg") else v


def classify(ev, net):
    """stable finding key for a rejected event (classification only - the verdict is TLC's)"""
    kind = ev.get("ev")
    if kind == "panic":
        return "panic/%s/%s" % (ev.get("net"), ev.get("call"))
    name = net["name"] if net else "none"
    sks = big_int(net["g"]["sks"]) if net else 0
    s = big_int(ev["slot"]) if "slot" in ev else 0
    if kind == "wall":
        where = "era-boundary" if s + 1 == sks else ("byron" if s < sks else "shelley")
        return "wall/%s/%s" % (name, where)
    if kind == "rel":
        return "rel/%s/%s" % (name, "byron" if s < sks else "shelley")
    if kind == "abs":
        return "roundtrip/%s" % name
    return "%s/%s" % (kind, name)


def to_big(v):
    mag = []
    while v > 0:
        mag.append(v % 10000)
        v //= 10000
    return {"neg": False, "mag": mag}


def validate(ctx, events, name):
    """One TLC run over the whole trace.  TraceSlotTime consumes every event: conforming calls through the
    conforming branch, calls that break C32 through the classifying branch, which prints `CLASS|key|index` the first
    time a class is seen (and `DRIFT|..` for design-model deviations, `COUNTS|json` at every reset).
    Returns (accepted, matched, first_unmatched, classes {key: first index}, drift {key: index}, counts)."""
    p = ctx.path(name)
    vlib.write_ndjson(p, events)
    ok, matched, total, first = ctx.tlc_trace(SPEC_DIR, "TraceSlotTime", "TraceSlotTime.cfg", p, count=(name == "trace.ndjson"))
    out = open(ctx.path("tlc_tr_TraceSlotTime_%s.out" % name.replace(".", "_"))).read()
    classes, drift, counts = {}, {}, {}
    for m in re.finditer(r'^"(CLASS|DRIFT)\|([^|"]+)\|(\d+)"$', out, re.M):
        (classes if m.group(1) == "CLASS" else drift).setdefault(m.group(2), int(m.group(3)))
    for m in re.finditer(r'^"COUNTS\|(.*)"$', out, re.M):
        c = json.loads(json.loads('"%s"' % m.group(1)))
        counts = c if isinstance(c, dict) else {}
    return ok, matched, first, classes, drift, counts


def apalache_lemma(ctx):
    """Thorough tier only: the unbounded lemma of the *specification* (SlotTimeApa.tla) for the four real genesis
    records and every slot below 2^40, discharged by Apalache (SMT).  Extra evidence; a tool failure or timeout is
    recorded as "not discharged" and never fails the check."""
    import shutil
    import subprocess
    import time
    invs = {"mainnet": "LemmaMainnet", "testnet": "LemmaTestnet", "preview": "LemmaPreview", "preprod": "LemmaPreprod",
            "negative-control(mainnet, remainder modulo seconds; must be violated)": "NegControlMainnet"}
    res = {}
    if not shutil.which("apalache-mc"):
        return {k: {"result": "not discharged", "why": "apalache-mc not installed"} for k in invs}
    procs = {}
    for name, inv in invs.items():
        d = ctx.path("apalache_" + inv)
        os.makedirs(d, exist_ok=True)
        cmd = ["timeout", "900", "apalache-mc", "check", "--length=0", "--inv=" + inv, "--out-dir=" + d, "--run-dir=" + os.path.join(d, "run"),
               "SlotTimeApa.tla"]
        try:
            procs[name] = (time.time(), inv, subprocess.Popen(cmd, cwd=os.path.join(vlib.SPEC, SPEC_DIR), stdout=subprocess.PIPE,
                                                              stderr=subprocess.STDOUT, text=True))
        except OSError as e:
            res[name] = {"result": "not discharged", "why": str(e)}
    for name, (t0, inv, pr) in procs.items():
        out = pr.communicate()[0]
        wall = round(time.time() - t0, 1)
        open(ctx.path("apalache_%s.out" % inv), "w").write(out)
        if "EXITCODE: OK" in out and "The outcome is: NoError" in out:
            r = "holds for all 0 <= slot < 2^40"
        elif "EXITCODE: ERROR (12)" in out:
            r = "violated"
            cex = os.path.join(ctx.path("apalache_" + inv), "run", "violation1.tla")
            if os.path.exists(cex):
                m = re.search(r"State0 == slot = (\d+)", open(cex).read())
                if m:
                    r = "violated at slot %s" % m.group(1)
        else:
            r = "not discharged"
        res[name] = {"invariant": inv, "result": r, "wall_s": wall}
        if r == "not discharged":
            res[name]["why"] = "timeout (900 s)" if pr.returncode == 124 else "apalache exit code %s: %s" % (pr.returncode, out.strip().splitlines()[-1][:200] if out.strip() else "")
        ctx.log("apalache %s: %s (%.0fs)" % (inv, r, wall))
    return res


def run(ctx):
    binary = ctx.build("pv-traverse")
    ctx.assume("epoch lengths are configured in seconds and divide into whole slots; the fork is on a Byron epoch "
               "boundary (WellFormed) - true of the genesis records the library reports for the four networks "
               "(checked by the trace spec: Divisible)")
    ctx.assume("slots are sampled (all boundaries +-3..60, powers of two, seeded random), not enumerated up to 2^40")

    # 1. exhaustive model check
    max_slot = 200 if ctx.thorough else 32
    cfg = ctx.path("MC.cfg")
    src = open(os.path.join(vlib.SPEC, SPEC_DIR, "MCSlotTime.cfg")).read()
    open(cfg, "w").write(re.sub(r"MaxSlot = \d+", "MaxSlot = %d" % max_slot, src))
    ctx.tlc_mc(SPEC_DIR, "MCSlotTime", cfg, workers=4, timeout=1700,
               required_actions=["AbsoluteSlotToRelative", "RelativeSlotToAbsolute", "SlotToWallclock", "Tick"])

    # 2. M1: TLC vectors -> real GenesisValues with the same small fields
    gcfg = ctx.path("Gen.cfg")
    open(gcfg, "w").write("CONSTANTS\n  MaxSlot = %d\n" % max_slot)
    vec = ctx.path("vectors.ndjson")
    n = ctx.tlc_gen(SPEC_DIR, "GenSlotTime", gcfg, vec)
    res = ctx.path("replay_results.ndjson")
    ctx.run_bin(binary, ["slot-replay", "--in", vec, "--out", res])
    rows = vlib.read_ndjson(res)
    if len(rows) != n:
        raise vlib.ToolError("replay returned %d results for %d vectors" % (len(rows), n))
    evals = sum(r["rows"] for r in rows)
    ctx.cov["traces_validated_against_impl"] += len(rows)
    ctx.cov["evaluations"] += evals
    ctx.cov["m1_records"] = len(rows)
    ctx.cov["m1_points"] = evals
    bad_wf = [r for r in rows if not r["ok"] and r["wf"]]
    bad_other = [r for r in rows if not r["ok"] and not r["wf"]]
    ctx.cov["m1_mismatching_wellformed_records"] = len(bad_wf)
    ctx.cov["m1_mismatching_illformed_records"] = len(bad_other)
    first_vec = json.loads(open(vec).readline())
    ctx.sample({"tlc_vector": {"g": first_vec["g"], "rows": first_vec["rows"][:8]}})
    for r in (bad_wf + bad_other)[:3]:
        ctx.notes.append("DRIFT (scaled-down record, outside the property's quantifier): %s differs from the model at "
                         "g=%s: %s" % (r["bad"][0]["fn"], json.dumps(r["g"], sort_keys=True), json.dumps(r["bad"][0])))

    # 3. M3: the well-known networks -> trace spec (verdict)
    tr = ctx.path("trace.ndjson")
    ctx.run_bin(binary, ["slot-trace", "--seed", ctx.seed, "--random", 4000 if ctx.thorough else 30, "--window", 60 if ctx.thorough else 30, "--out", tr])
    events = vlib.read_ndjson(tr)
    nets = [e["name"] for e in events if e["ev"] == "net"]
    if sorted(nets) != ["mainnet", "preprod", "preview", "testnet"]:
        raise vlib.ToolError("trace does not cover the four networks: %s" % nets)
    ok, matched, first, classes, drift, counts = validate(ctx, events, "trace.ndjson")
    ctx.cov["traces_validated_against_impl"] += len(nets)
    ctx.cov["evaluations"] += len(events)
    ctx.cov["m3_events"] = len(events)
    ctx.cov["m3_nonconforming_calls_by_class"] = counts
    ctx.sample({"impl_trace_events": events[0:1] + events[300:303]})
    if set(classes) != set(counts):
        raise vlib.ToolError("class bookkeeping of the trace spec is inconsistent: %s vs %s" % (sorted(classes), sorted(counts)))
    for key, idx in sorted(classes.items(), key=lambda kv: kv[1]):
        ev = events[idx - 1]
        net = next(e for e in reversed(events[:idx]) if e["ev"] == "net") if key.split("/")[0] != "panic" else None
        ctx.report(key, "%d call(s) of this class break C32 (TraceSlotTime classifying branch); first: event %d %s"
                   % (counts[key], idx, json.dumps(ev)), payload={"event_index": idx, "event": ev, "net": net, "count": counts[key]})
    if not ok:
        ctx.report("trace/%s" % first.get("ev"), "event %d cannot be consumed by TraceSlotTime at all: %s" % (matched + 1, json.dumps(first)),
                   payload={"event_index": matched + 1, "event": first})
    for key, idx in sorted(drift.items()):
        ctx.notes.append("DRIFT design model (epoch is the quotient / clock is the linear formula) deviates: %s, first at event %d %s"
                         % (key, idx, json.dumps(events[idx - 1])))
    ctx.cov["m3_design_drift_classes"] = sorted(drift)

    # binding self-test on the preview network (Shelley only, free of known findings): a corrupted call must be
    # classified under exactly its own key, a dropped call must stop the run
    if not ctx.violations:
        start = next(i for i, e in enumerate(events) if e["ev"] == "net" and e["name"] == "preview")
        head = [json.loads(json.dumps(e)) for e in events[start:start + 300]]
        idx = next(i for i, e in enumerate(head) if e["ev"] == "rel" and i > 150)
        jdx = next(i for i, e in enumerate(head) if e["ev"] == "rel" and i > idx + 20)
        assert head[idx + 1]["ev"] == "abs" and head[idx + 2]["ev"] == "wall" and head[jdx + 1]["ev"] == "abs"
        prev = [k for k in classes if k.split("/")[1] == "preview"]
        ctx.selftest("the preview calls of the main run are consumed without any class", ok and not prev, str(prev))
        c2 = json.loads(json.dumps(head))
        c2[idx]["sub"] = to_big(86400)          # = epoch size of preview: just out of range
        c2[idx + 1]["sub"] = to_big(86400)      # the inverse is still called with the result of "rel"
        c2[idx + 2]["t1"] = to_big(big_int(c2[idx + 2]["t1"]) + 1)
        c2[jdx + 1]["slot"] = to_big(big_int(head[jdx + 1]["slot"]) + 1)
        ok2, _, _, cl2, _, _ = validate(ctx, c2, "selftest_corrupt.ndjson")
        ctx.selftest("corrupt sub-slot of event %d, wall-clock t1 of event %d, converted-back slot of event %d"
                     % (idx + 1, idx + 3, jdx + 2),
                     ok2 and cl2 == {"rel/preview/shelley": idx + 1, "wall/preview/shelley": idx + 3,
                                     "roundtrip/preview/shelley": jdx + 2}, str(cl2))
        c3 = [e for i, e in enumerate(head) if i != idx]
        ok3, m3, _, _, _, _ = validate(ctx, c3, "selftest_drop.ndjson")
        ctx.selftest("drop rel event %d" % (idx + 1), (not ok3) and m3 == idx)

    extra = None
    if ctx.thorough:
        lemma = apalache_lemma(ctx)
        extra = {"apalache_lemma": lemma}
        nets = [k for k in lemma if not k.startswith("negative")]
        neg = [k for k in lemma if k.startswith("negative")][0]
        bad = [k for k in nets if lemma[k]["result"].startswith("violated")]
        if bad:
            raise vlib.ToolError("the specification's own lemma is violated for %s (SlotTimeApa.tla): the spec is wrong" % bad)
        undone = [k for k in nets if lemma[k]["result"] == "not discharged"]
        if undone:
            ctx.notes.append("Apalache lemma not discharged for %s: %s" % (undone, [lemma[k].get("why") for k in undone]))
        if lemma[neg]["result"] == "holds for all 0 <= slot < 2^40":
            ctx.notes.append("Apalache negative control was NOT violated: the lemma runs are not trustworthy")

    return ctx.finish(
        rule="MC: every slot 0..%d of 128 scaled-down genesis records (laws of the spec, BigNat twins); M1: the same "
             "(record, slot) grid replayed into real GenesisValues (drift only); M3: mainnet/testnet/preview/preprod, "
             "slots around every epoch/era boundary, powers of two and seeded random slots below 2^40, every call "
             "validated by TraceSlotTime (sub < epoch size of the era, round trip, clock step)" % max_slot,
        exhaustive=False, extra=extra)
