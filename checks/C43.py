"""C43 - Immutable-DB readers report corrupted files as errors, never panic.

spec/immutable/ImmutableFiles.tla (file-level refinement of ImmutableDb.tla)
  MC : miniature database (2 chunk files), every truncation point of every file, every overwrite of every
       primary / secondary offset: outcome allowed (no panic, not more blocks), design-level shape lemmas.
       The same model with CheckedArith = FALSE (the original `-` on u64) must violate NoPanic (self-test).
  M3 : faults injected into copies of a small database made of real blocks (every truncation point of the
       index files, sampled/all chunk truncations, seeded offset corruptions) and of the test database;
       read_blocks driven to exhaustion in a child process (catch_unwind + allocation guard); every case is
       validated by TraceImmutableFiles: the fault is one of the spec's fault actions (checked against the
       harness's own re-parse of the faulted files) and the outcome is allowed by the property.
       Disagreement with the design model is DRIFT (evidence note), never a violation.
"""
import json
import os
import re
import vlib

SPEC = "immutable"


def _cases(events):
    """group the trace into cases: [open, read, reset] / [fault, read, reset] / [big]"""
    cases, cur = [], []
    for e in events:
        cur.append(e)
        if e["ev"] in ("reset", "big"):
            cases.append(cur)
            cur = []
    if cur:
        cases.append(cur)
    return cases


def _outcome(case):
    """(fault, bad-code, note, n_ok, total) of a case as logged by the harness"""
    last = case[-1] if case[-1]["ev"] == "big" else next((e for e in case if e["ev"] == "read_blocks"), None)
    fault = next((e["fault"] for e in case if "fault" in e), {"kind": "none", "file": "-"})
    if last is None:
        return fault, 0, "", 0, 0
    if last["ev"] == "big":
        return fault, last["bad"], last.get("note", ""), last["n_ok"], last["total"]
    codes = [x[0] for x in last["out"]]
    return fault, min([c for c in codes if c < -1] or [0]), last.get("note", ""), sum(1 for c in codes if c >= 0), None


def _key(case):
    fault, bad, note, n_ok, total = _outcome(case)
    what = "%s-%s" % (fault.get("file", "-"), fault["kind"])
    if bad == -3:
        site = "abort-alloc" if "allocation above" in note else "abort"
    elif bad == -2:
        site = "runaway" if "runaway" in note else "panic@" + (note.rsplit("@", 1)[1] if "@" in note else "unknown")
    else:
        site = "outcome"
    return "read_blocks/%s/%s" % (what, site), bad


def run(ctx):
    binary = ctx.build("pv-immutable")
    ctx.assume("faults: truncation of one file, or one offset field overwritten; one fault per run")
    ctx.assume("an allocation above 1 GiB requested while reading a database of a few MB counts as abort (allocation guard in the harness)")
    ctx.assume("values above 2^30 are logged as 2^30 (all file lengths are far below)")

    # 1. exhaustive model check of the repaired readers + teeth of the invariant on the original arithmetic
    ctx.tlc_mc(SPEC, "MCImmutableFiles", "MCImmutableFiles.cfg", workers=2,
               required_actions=["DoTruncate", "DoCorruptPrimary", "DoCorruptSecondary", "ReadBlocks"])
    rc, out, dt = ctx._tlc(SPEC, "MCImmutableFiles", "MCImmutableFilesUnchecked.cfg", 2, 600, None, [], "mc_unchecked")
    ctx.selftest("model with unchecked u64 subtraction violates NoPanic (TLC counterexample)",
                 "Invariant OutcomeAllowed is violated" in out)

    # 2. M3: fault campaign on the real readers
    tier = "thorough" if ctx.thorough else "quick"
    tr = ctx.path("trace.ndjson")
    info = json.loads(ctx.run_bin(binary, ["imm-fault", "--work", ctx.work, "--tier", tier, "--seed", ctx.seed, "--out", tr],
                                  timeout=3000).strip().splitlines()[-1])
    events = vlib.read_ndjson(tr)
    cases = _cases(events)
    ctx.cov["fault_cases"] = len(cases) - 1
    ctx.cov["child_aborts"] = info["aborts"]
    kinds = {}
    for c in cases[1:]:
        f = _outcome(c)[0]
        k = "%s-%s%s" % (f.get("file"), f["kind"], "" if c[-1]["ev"] != "big" else "(test db)")
        kinds[k] = kinds.get(k, 0) + 1
    ctx.cov["fault_cases_by_kind"] = kinds
    ctx.sample({"impl_trace_case": [dict(e, db="...") if "db" in e else e for e in cases[len(cases) // 7]]})

    cur = tr
    found = False
    for rnd in range(16):
        ok, matched, total, first = ctx.tlc_trace(SPEC, "TraceImmutableFiles", "TraceImmutableFiles.cfg", cur, timeout=2400, count=(rnd == 0))
        if ok:
            break
        found = True
        # which case holds the first unmatched event
        evs = vlib.read_ndjson(cur)
        cs = _cases(evs)
        pos, hit = 0, None
        for c in cs:
            if pos <= matched < pos + len(c):
                hit = c
                break
            pos += len(c)
        key, bad = _key(hit)
        if first["ev"] not in ("read_blocks", "big"):
            raise vlib.ToolError("trace rejected at an event that is not an outcome (binding error): %s" % json.dumps(first)[:300])
        fault, _, note, _, _ = _outcome(hit)
        payload = {"case": [dict(e, db="(omitted)") if "db" in e else e for e in hit]}
        ctx.report(key, "read_blocks on a database with fault %s: %s" % (json.dumps(fault), note or json.dumps(first)[:200]),
                   payload=payload)
        # leave out the cases of the same class and look for other classes
        rest = [c for c in cs if _key(c) != (key, bad)]
        cur = ctx.path("trace_rest%d.ndjson" % rnd)
        vlib.write_ndjson(cur, [e for c in rest for e in c])
    else:
        raise vlib.ToolError("more than 16 distinct failure classes")
    ctx.cov["traces_validated_against_impl"] += len(cases)
    ctx.cov["evaluations"] += len(events)

    # DRIFT lines of the first (full) validation
    tlc_out = open(ctx.path("tlc_tr_TraceImmutableFiles_trace_ndjson.out")).read()
    drifts = re.findall(r'<<\s*"DRIFT",\s*(\d+),\s*(\[[^\]]*\])', tlc_out)
    ctx.cov["design_model_drift"] = len(drifts)
    for d in drifts[:5]:
        ctx.notes.append("DRIFT: real readers differ from the design model at event %s, fault %s" % (d[0], re.sub(r"\s+", " ", d[1])))

    # 3. binding self-test
    if not found:
        idx = next(i for i, e in enumerate(events) if e["ev"] == "read_blocks" and i > 30)
        t1 = [dict(e) for e in events[: idx + 20]]
        t1[idx]["out"] = t1[idx]["out"] + [[-2, 0]]
        p1 = ctx.path("trace_corrupt.ndjson")
        vlib.write_ndjson(p1, t1)
        ok1, m1, _, _ = ctx.tlc_trace(SPEC, "TraceImmutableFiles", "TraceImmutableFiles.cfg", p1, count=False)
        ctx.selftest("panic item appended to the outcome of event %d" % (idx + 1), (not ok1) and m1 == idx)
        ridx = next(i for i, e in enumerate(events) if e["ev"] == "reset" and i > 30)
        p2 = ctx.path("trace_dropped.ndjson")
        vlib.write_ndjson(p2, [e for i, e in enumerate(events[: ridx + 20]) if i != ridx])
        ok2, m2, _, _ = ctx.tlc_trace(SPEC, "TraceImmutableFiles", "TraceImmutableFiles.cfg", p2, count=False)
        ctx.selftest("reset event %d dropped (two faults in one run)" % (ridx + 1), (not ok2) and m2 == ridx)
        fidx = next(i for i, e in enumerate(events) if e["ev"] == "fault" and e["fault"]["kind"] == "truncate" and i > 30)
        t3 = [json.loads(json.dumps(e)) for e in events[: fidx + 20]]
        t3[fidx]["fault"]["k"] += 1
        p3 = ctx.path("trace_fault.ndjson")
        vlib.write_ndjson(p3, t3)
        ok3, m3, _, _ = ctx.tlc_trace(SPEC, "TraceImmutableFiles", "TraceImmutableFiles.cfg", p3, count=False)
        ctx.selftest("logged truncation point of event %d off by one (disagrees with the re-parsed files)" % (fidx + 1),
                     (not ok3) and m3 == fidx)

    return ctx.finish(
        rule="MC: miniature two-chunk database, every truncation point and every offset overwrite, outcome allowed; "
             "M3: %d fault cases on copies of a small real-block database (every truncation point of the index files) and "
             "of the test database, read_blocks driven to exhaustion, validated by TraceImmutableFiles "
             "(fault action + AllowedOutcome); design-model comparison as DRIFT" % (len(cases) - 1),
        exhaustive=False)
